(* C10, sibling order — on the specification: the spans stored in the value of
   a match are not only nested (Within.v) but also ORDERED: reading the value
   left to right (fields of an instance, elements of a list, tuple or node) the
   spans never go backwards, each sibling's spans lie after the previous
   sibling's, and the children of an instance lie inside its own span
   (lookahead, Backtrack and reads of earlier values aside: `plain`).

   The statement uses the executable judge SpanSpec.walk that the harness runs
   on the implementation's results:  ord lo hi v  <->  spans_ordered lo hi v. *)
From Coq Require Import List Arith Bool Lia.
Import ListNotations.
Require Import Model Spec SpanSpec Within.

Fixpoint walkl (cur : nat) (l : list value) : option nat :=
  match l with
  | [] => Some cur
  | x :: l' => match walk cur x with Some c => walkl c l' | None => None end
  end.

Lemma walk_list cur l : walk cur (VList l) = walkl cur l.
Proof. reflexivity. Qed.
Lemma walk_tuple cur l : walk cur (VTuple l) = walkl cur l.
Proof. reflexivity. Qed.
Lemma walk_node cur k l : walk cur (VNode k l) = walkl cur l.
Proof. reflexivity. Qed.
Lemma walk_obj cur c fs s e :
  walk cur (VObj c fs (s, e)) =
  if Nat.leb cur s && Nat.leb s e then
    match walkl s fs with Some c' => if Nat.leb c' e then Some e else None | None => None end
  else None.
Proof. reflexivity. Qed.

Definition ord (lo hi : nat) (v : value) : Prop := exists c, walk lo v = Some c /\ c <= hi.
Definition ordl (lo hi : nat) (l : list value) : Prop := exists c, walkl lo l = Some c /\ c <= hi.

Lemma ord_iff_judge lo hi v : ord lo hi v <-> spans_ordered lo hi v = true.
Proof.
  unfold ord, spans_ordered. split.
  - intros (c & -> & H). apply Nat.leb_le. exact H.
  - destruct (walk lo v) as [c|]; [|discriminate]. intros H. exists c. split; auto. apply Nat.leb_le. exact H.
Qed.

(* walk only moves forward, and starting earlier never hurts *)
Lemma walk_facts : forall n v, vsize v <= n ->
  (forall cur c, walk cur v = Some c -> cur <= c) /\
  (forall cur cur' c, cur' <= cur -> walk cur v = Some c -> exists c', walk cur' v = Some c' /\ c' <= c).
Proof.
  induction n as [|n IH]; intros v Hn; [destruct v; cbn in Hn; lia|].
  assert (HL : forall l, lsize l <= n ->
            (forall cur c, walkl cur l = Some c -> cur <= c) /\
            (forall cur cur' c, cur' <= cur -> walkl cur l = Some c -> exists c', walkl cur' l = Some c' /\ c' <= c)).
  { induction l as [|x l IHl]; intros Hl.
    - split; cbn; intros.
      + inversion H; lia.
      + inversion H0; subst. eauto.
    - cbn in Hl. assert (vsize x >= 1) by (destruct x; cbn; lia).
      destruct (IH x ltac:(lia)) as (Gx & Lx). destruct (IHl ltac:(lia)) as (Gl & Ll).
      split; cbn [walkl].
      + intros cur c H1. destruct (walk cur x) as [c1|] eqn:E1; [|discriminate].
        pose proof (Gx _ _ E1). pose proof (Gl _ _ H1). lia.
      + intros cur cur' c Hle H1. destruct (walk cur x) as [c1|] eqn:E1; [|discriminate].
        destruct (Lx cur cur' c1 Hle E1) as (c1' & -> & Hc1).
        exact (Ll c1 c1' c Hc1 H1). }
  destruct v as [| | | |l|l|cl fs [s e]|k l| | | | |];
    try (split; cbn; intros; [match goal with H : Some _ = Some _ |- _ => inversion H; lia end
                             | match goal with H : Some _ = Some _ |- _ => inversion H; subst; eauto end]).
  - change (S (lsize l) <= S n) in Hn. destruct (HL l ltac:(lia)) as (A & B).
    split; intros; rewrite walk_list in *; eauto.
  - change (S (lsize l) <= S n) in Hn. destruct (HL l ltac:(lia)) as (A & B).
    split; intros; rewrite walk_tuple in *; eauto.
  - change (S (lsize fs) <= S n) in Hn. destruct (HL fs ltac:(lia)) as (A & B).
    split.
    + intros cur c H. rewrite walk_obj in H.
      destruct (Nat.leb cur s && Nat.leb s e) eqn:Ec; [|discriminate].
      apply andb_true_iff in Ec. destruct Ec as (E1 & E2). apply Nat.leb_le in E1, E2.
      destruct (walkl s fs) as [c'|]; [|discriminate]. destruct (Nat.leb c' e); [|discriminate].
      inversion H; lia.
    + intros cur cur' c Hle H. rewrite walk_obj in *.
      destruct (Nat.leb cur s && Nat.leb s e) eqn:Ec; [|discriminate].
      apply andb_true_iff in Ec. destruct Ec as (E1 & E2). apply Nat.leb_le in E1.
      assert (E1' : Nat.leb cur' s = true) by (apply Nat.leb_le; lia). rewrite E1', E2. cbn [andb].
      destruct (walkl s fs) as [c'|]; [|discriminate]. destruct (Nat.leb c' e); [|discriminate].
      inversion H; subst. eauto.
  - change (S (lsize l) <= S n) in Hn. destruct (HL l ltac:(lia)) as (A & B).
    split; intros; rewrite walk_node in *; eauto.
Qed.

Lemma walk_ge v cur c : walk cur v = Some c -> cur <= c.
Proof. apply (proj1 (walk_facts (vsize v) v (le_n _))). Qed.
Lemma walk_lower v cur cur' c : cur' <= cur -> walk cur v = Some c -> exists c', walk cur' v = Some c' /\ c' <= c.
Proof. apply (proj2 (walk_facts (vsize v) v (le_n _))). Qed.
Lemma walkl_ge l : forall cur c, walkl cur l = Some c -> cur <= c.
Proof.
  induction l as [|x l IH]; cbn; intros cur c H; [inversion H; lia|].
  destruct (walk cur x) as [c1|] eqn:E; [|discriminate]. pose proof (walk_ge _ _ _ E). pose proof (IH _ _ H). lia.
Qed.
Lemma walkl_lower l : forall cur cur' c, cur' <= cur -> walkl cur l = Some c -> exists c', walkl cur' l = Some c' /\ c' <= c.
Proof.
  induction l as [|x l IH]; cbn; intros cur cur' c Hle H; [inversion H; subst; eauto|].
  destruct (walk cur x) as [c1|] eqn:E; [|discriminate].
  destruct (walk_lower _ _ _ _ Hle E) as (c1' & -> & Hc). eapply IH; eauto.
Qed.
Lemma walkl_app a : forall b cur, walkl cur (a ++ b) = match walkl cur a with Some c => walkl c b | None => None end.
Proof. induction a as [|x a IH]; cbn; intros b cur; auto. destruct (walk cur x); auto. Qed.

Lemma ord_le lo hi v : ord lo hi v -> lo <= hi.
Proof. intros (c & H & Hc). pose proof (walk_ge _ _ _ H). lia. Qed.
Lemma ordl_le lo hi l : ordl lo hi l -> lo <= hi.
Proof. intros (c & H & Hc). pose proof (walkl_ge _ _ _ H). lia. Qed.
Lemma ord_mono v lo hi lo' hi' : lo' <= lo -> hi <= hi' -> ord lo hi v -> ord lo' hi' v.
Proof. intros A B (c & H & Hc). destruct (walk_lower _ _ _ _ A H) as (c' & H' & Hc'). exists c'. split; auto. lia. Qed.
Lemma ordl_mono l lo hi lo' hi' : lo' <= lo -> hi <= hi' -> ordl lo hi l -> ordl lo' hi' l.
Proof. intros A B (c & H & Hc). destruct (walkl_lower _ _ _ _ A H) as (c' & H' & Hc'). exists c'. split; auto. lia. Qed.
Lemma ordl_nil lo hi : lo <= hi -> ordl lo hi [].
Proof. intros H. exists lo. cbn. auto. Qed.
(* the next sibling starts where the previous ones ended *)
Lemma ordl_snoc l v p0 p p1 : ordl p0 p l -> ord p p1 v -> ordl p0 p1 (l ++ [v]).
Proof.
  intros (c & H & Hc) (c1 & H1 & Hc1). unfold ordl. rewrite walkl_app, H. cbn [walkl].
  destruct (walk_lower _ _ _ _ Hc H1) as (c1' & -> & Hle). exists c1'. split; auto. lia.
Qed.
Lemma ordl_cons_inv v l lo hi : ordl lo hi (v :: l) -> exists m, ord lo m v /\ ordl m hi l.
Proof.
  intros (c & H & Hc). cbn in H. destruct (walk lo v) as [c1|] eqn:E; [|discriminate].
  exists c1. split; [exists c1; auto | exists c; auto].
Qed.
Lemma ordl_removelast l lo hi : ordl lo hi l -> forall mid, (forall a x, l = a ++ [x] -> ordl lo mid a) -> l <> [] -> ordl lo mid (removelast l).
Proof.
  intros _ mid H Hne. destruct (exists_last Hne) as (a & x & E). rewrite E, removelast_last. eapply H; eauto.
Qed.
Lemma ord_atom lo hi v : lo <= hi ->
  match v with VList _ | VTuple _ | VNode _ _ | VObj _ _ _ => False | _ => True end -> ord lo hi v.
Proof. intros H Hv. exists lo. destruct v; try contradiction; cbn; auto. Qed.
Lemma ord_list lo hi l : ord lo hi (VList l) <-> ordl lo hi l.
Proof. unfold ord, ordl. rewrite walk_list. tauto. Qed.
Lemma ord_tuple lo hi l : ord lo hi (VTuple l) <-> ordl lo hi l.
Proof. unfold ord, ordl. rewrite walk_tuple. tauto. Qed.
Lemma ord_obj lo hi c fs s e : lo <= s -> s <= e -> e <= hi -> ordl s e fs -> ord lo hi (VObj c fs (s, e)).
Proof.
  intros A B C (c' & H & Hc). exists e. rewrite walk_obj.
  replace (Nat.leb lo s) with true by (symmetry; apply Nat.leb_le; auto).
  replace (Nat.leb s e) with true by (symmetry; apply Nat.leb_le; auto). cbn [andb]. rewrite H.
  replace (Nat.leb c' e) with true by (symmetry; apply Nat.leb_le; auto). auto.
Qed.
(* what an instance's judge result says about its fields: nested AND ordered *)
Lemma ord_obj_inv lo hi c fs s e : ord lo hi (VObj c fs (s, e)) -> lo <= s /\ s <= e /\ e <= hi /\ ordl s e fs.
Proof.
  intros (c' & H & Hc). rewrite walk_obj in H.
  destruct (Nat.leb lo s && Nat.leb s e) eqn:Ec; [|discriminate].
  apply andb_true_iff in Ec. destruct Ec as (E1 & E2). apply Nat.leb_le in E1, E2.
  destruct (walkl s fs) as [c2|] eqn:Ew; [|discriminate]. destruct (Nat.leb c2 e) eqn:El; [|discriminate].
  apply Nat.leb_le in El. inversion H; subst. repeat split; auto. exists c2. auto.
Qed.

Section G.
Variable len : nat.
Definition good2 (pg : expr -> nat -> sres) (e : expr) :=
  forall p v q, p <= len -> pg e p = Match v q -> p <= q /\ q <= len /\ ord p q v.

Section Loops.
Variable pg : expr -> nat -> sres.

Lemma seq_ord : forall es p0 p acc v q, Forall (good2 pg) es ->
  p <= len -> ordl p0 p (rev acc) ->
  seq_spec pg es p acc = Match v q -> p <= q /\ q <= len /\ ord p0 q v.
Proof.
  induction es as [|e es IH]; intros p0 p acc v q HF Hp Hacc H; cbn [seq_spec] in H.
  - inversion H; subst. rewrite ord_list. auto.
  - inversion HF as [|? ? He Hes]; subst.
    destruct (pg e p) as [| | |v1 p1] eqn:E1; try discriminate.
    destruct (He p v1 p1 Hp E1) as (A & B & C).
    destruct (IH p0 p1 (v1 :: acc) v q Hes B) as (D & F & G); auto.
    + cbn [rev]. eapply ordl_snoc; eauto.
    + repeat split; auto; lia.
Qed.

Lemma choice_ord : forall es p v q, Forall (good2 pg) es -> p <= len ->
  choice_spec pg es p = Match v q -> p <= q /\ q <= len /\ ord p q v.
Proof.
  induction es as [|e es IH]; intros p v q HF Hp H; cbn [choice_spec] in H; [discriminate|].
  inversion HF as [|? ? He Hes]; subst.
  destruct (pg e p) as [| | |v1 p1] eqn:E1; try discriminate.
  - apply IH; auto.
  - inversion H; subst. apply He; auto.
Qed.

Lemma rep_ord : forall k e mn mx p0 p acc v q, good2 pg e ->
  p <= len -> ordl p0 p (rev acc) ->
  rep_spec pg k e mn mx p acc = Match v q -> p <= q /\ q <= len /\ ord p0 q v.
Proof.
  induction k as [|k IH]; intros e mn mx p0 p acc v q He Hp Hacc H; cbn [rep_spec] in H.
  - destruct (at_max mx (length acc)); [|discriminate]. inversion H; subst. rewrite ord_list. auto.
  - destruct (at_max mx (length acc)).
    { inversion H; subst. rewrite ord_list. auto. }
    destruct (pg e p) as [| | |v1 p1] eqn:E1; try discriminate.
    + destruct (_ <=? _); [|discriminate]. inversion H; subst. rewrite ord_list. auto.
    + destruct (He p v1 p1 Hp E1) as (A & B & C).
      destruct (IH e mn mx p0 p1 (v1 :: acc) v q He B) as (D & F & G); auto.
      * cbn [rev]. eapply ordl_snoc; eauto.
      * repeat split; auto; lia.
Qed.

Lemma skip_first_ord : forall es p q, Forall (good2 pg) es -> p <= len ->
  skip_first pg es p = inl (Some q) -> p <= q /\ q <= len.
Proof.
  induction es as [|e es IH]; intros p q HF Hp H; cbn [skip_first] in H; [discriminate|].
  inversion HF as [|? ? He Hes]; subst.
  destruct (pg e p) as [| | |v1 p1] eqn:E1; try discriminate.
  - apply IH; auto.
  - destruct (He p v1 p1 Hp E1) as (A & B & C). destruct (p1 =? p); [apply IH; auto|].
    inversion H; subst. auto.
Qed.
Lemma skip_ord : forall k es p v q, Forall (good2 pg) es -> p <= len ->
  skip_spec pg k es p = Match v q -> p <= q /\ q <= len /\ ord p q v.
Proof.
  induction k as [|k IH]; intros es p v q HF Hp H; cbn [skip_spec] in H; [discriminate|].
  destruct (skip_first pg es p) as [[q1|]|r] eqn:E1.
  - destruct (skip_first_ord es p q1 HF Hp E1) as (A & B).
    destruct (IH es q1 v q HF B H) as (C & D & F). repeat split; auto; try lia.
    eapply ord_mono; [| |exact F]; lia.
  - inversion H; subst. repeat split; auto. apply ord_atom; [lia | exact I].
  - destruct (skip_first_inr _ _ _ _ E1) as [-> | ->]; discriminate.
Qed.

Lemma longest_ord : forall es p best v q, Forall (good2 pg) es -> p <= len ->
  (forall bv bq, best = Some (bv, bq) -> p <= bq /\ bq <= len /\ ord p bq bv) ->
  longest_spec pg es p best = Match v q -> p <= q /\ q <= len /\ ord p q v.
Proof.
  induction es as [|e es IH]; intros p best v q HF Hp Hb H; cbn [longest_spec] in H.
  - destruct best as [[bv bq]|]; [|discriminate]. inversion H; subst. apply Hb; auto.
  - inversion HF as [|? ? He Hes]; subst.
    destruct (pg e p) as [| | |v1 p1] eqn:E1; try discriminate.
    + exact (IH p best v q Hes Hp Hb H).
    + pose proof (He p v1 p1 Hp E1) as Hg.
      assert (Hnew : forall bv bq, Some (v1, p1) = Some (bv, bq) -> p <= bq /\ bq <= len /\ ord p bq bv).
      { intros ? ? Hx. inversion Hx; subst. exact Hg. }
      destruct best as [[bv bq]|].
      * destruct (bq <? p1).
        -- exact (IH p _ v q Hes Hp Hnew H).
        -- exact (IH p _ v q Hes Hp Hb H).
      * exact (IH p _ v q Hes Hp Hnew H).
Qed.

(* separated lists: elements (and kept separators) in input order; a separator that was matched but not followed by
   an element is dropped again together with the position *)
Lemma sep_ord : forall k e sp keep trailer p0 p acc cp saw acc' cp' saw', good2 pg e -> good2 pg sp ->
  p0 <= cp -> cp <= p -> p <= len ->
  ordl p0 p (rev acc) -> ordl p0 cp (rev (if keep && negb trailer then tl acc else acc)) ->
  sep_spec pg k e sp keep trailer p acc cp saw = SDone acc' cp' saw' ->
  p0 <= cp' /\ cp' <= len /\ ordl p0 cp' (rev acc').
Proof.
  induction k as [|k IH]; intros e sp keep trailer p0 p acc cp saw acc' cp' saw' He Hs H0 Hc Hp Hacc Hcom H;
    cbn [sep_spec] in H; [discriminate|].
  destruct (pg e p) as [| | |v1 p1] eqn:E1; try discriminate.
  - inversion H; subst. repeat split; auto; lia.
  - destruct (He p v1 p1 Hp E1) as (A & B & C).
    assert (W1 : ordl p0 p1 (rev (v1 :: acc))) by (cbn [rev]; eapply ordl_snoc; eauto).
    destruct (pg sp p1) as [| | |v2 p2] eqn:E2; try discriminate.
    + inversion H; subst. repeat split; auto; try lia.
    + destruct (Hs p1 v2 p2 B E2) as (A2 & B2 & C2).
      assert (W2 : ordl p0 p2 (rev (v2 :: v1 :: acc))) by (cbn [rev]; eapply ordl_snoc; eauto).
      apply (IH e sp keep trailer p0 p2 (if keep then v2 :: v1 :: acc else v1 :: acc)
                (if trailer then p2 else p1) true acc' cp' saw' He Hs); try exact H; try (destruct trailer; lia).
      * destruct keep; auto. eapply ordl_mono; [| |exact W1]; lia.
      * destruct keep, trailer; cbn [andb negb tl]; auto; try (eapply ordl_mono; [| |exact W1]; lia).
Qed.
End Loops.
End G.

Section M.
Variables (g funs : list (list nat * expr)) (ignored : option nat) (t : list nat) (rx : nat -> nat -> option nat).
Notation PEG := (peg g funs ignored t rx).
Notation len := (length t).

Hypothesis rx_ok : forall id p q, rx id p = Some q -> p <= q /\ q <= len.
Hypothesis g_plain : forall r b, nth_error g r = Some ([], b) -> plain b.

Lemma apply_fun_ord E f x w lo hi :
  okfun f = true -> ord lo hi x -> apply_fun E f x = Some w -> ord lo hi w.
Proof.
  intros Hok Hx H. pose proof (ord_le _ _ _ Hx) as Hle.
  destruct f; cbn -[digits] in *; try discriminate.
  - destruct x as [| |[|c s]| | | | | | | | | |]; try discriminate.
    destruct (digits (c :: s) 0); inversion H; subst. apply ord_atom; [lia | exact I].
  - destruct (vlen x); inversion H; subst; apply ord_atom; [lia | exact I].
  - inversion H; subst; apply ord_atom; [lia | exact I].
  - destruct x; try discriminate. inversion H; subst. rewrite ord_tuple. rewrite ord_list in Hx. exact Hx.
  - destruct (lookup x0 E); inversion H; subst; apply ord_atom; [lia | exact I].
  - destruct (vlen x), (option_map vlen (lookup x0 E)) as [[]|]; inversion H; subst; apply ord_atom; [lia | exact I].
  - destruct x; try discriminate. inversion H; subst; apply ord_atom; [lia | exact I].
  - inversion H; subst. destruct Hx as (c & Hw & Hc). exists c. split; [|exact Hc].
    rewrite walk_tuple. cbn [walkl]. cbn [walk]. rewrite Hw. reflexivity.
  - inversion H; subst. destruct Hx as (c & Hw & Hc). exists c. split; [|exact Hc].
    rewrite walk_tuple. cbn [walkl]. cbn [walk]. rewrite Hw. reflexivity.
  - destruct (option_map vlen (lookup x0 E)) as [[]|]; try discriminate.
    destruct (lookup y E) as [[]|]; inversion H; subst; apply ord_atom; [lia | exact I].
Qed.

Lemma eval_py_ord E py w lo hi : lo <= hi ->
  py_const py = true -> eval_py E py = Some w -> ord lo hi w.
Proof.
  intros Hle Hc H. destruct py as [| | |m|x|f|x y|x]; cbn in H, Hc; try discriminate;
    try (inversion H; subst; apply ord_atom; [lia | exact I]).
  - destruct (option_map vlen (lookup x E)) as [[a|]|]; try discriminate.
    destruct (lookup y E) as [[]|]; inversion H; subst; apply ord_atom; [lia | exact I].
  - destruct (lookup x E) as [[]|]; inversion H; subst; apply ord_atom; [lia | exact I].
Qed.

Theorem peg_ordered : forall n e E, plain e -> good2 len (PEG n E) e.
Proof.
  induction n as [|n IH]; intros e E Hpl p v q Hp H; [discriminate|].
  assert (Hskip : forall (ig : option nat), ig = ignored ->
     forall (sk : bool) (q0 : nat) (v0 : value) v q, p <= q0 -> q0 <= len ->
     (forall lo hi, lo <= hi -> ord lo hi v0) ->
     (if sk then match ig with
                 | Some r => match nth_error g r with
                             | Some ([], b) => match PEG n [] b q0 with
                                               | Fuel => Fuel | Raise => Raise
                                               | Fails => Match v0 q0
                                               | Match _ q' => Match v0 q' end
                             | _ => Raise end
                 | None => Match v0 q0 end
      else Match v0 q0) = Match v q -> p <= q /\ q <= len /\ ord p q v).
  { intros ig Hig sk q0 v0 v1 q1 A B Call Hm. destruct sk; [|inversion Hm; subst; repeat split; auto].
    destruct ig as [r|]; [|inversion Hm; subst; repeat split; auto].
    destruct (nth_error g r) as [[[|] b]|] eqn:Er; try discriminate.
    destruct (PEG n [] b q0) as [| | |v2 q2] eqn:Eb; try discriminate.
    - inversion Hm; subst. repeat split; auto.
    - inversion Hm; subst. destruct (IH b [] (g_plain _ _ Er) q0 v2 q1 B Eb) as (X & Y & _).
      repeat split; auto; try lia. apply Call. lia. }
  specialize (Hskip ignored eq_refl).
  assert (Hatom : forall w, match w with VList _ | VTuple _ | VNode _ _ | VObj _ _ _ => False | _ => True end ->
                            forall lo hi, lo <= hi -> ord lo hi w).
  { intros w Hw lo hi Hle. apply ord_atom; auto. }
  destruct e as [sv sk|id sk|b sk|r|es|a b dl|es|e|e mn mx|e|e|es|es|k| |e sp discard trailer ae rs
                 |py|a b al|e pred|x sh a body|cls ms|pre opd post inf|x|callee args];
    cbn [peg] in H; cbn [plain] in Hpl.
  - (* Str *) destruct sv as [|c sv]; [inversion H; subst; repeat split; auto; try (apply ord_atom; [lia | exact I])|].
    destruct (prefix_at (c :: sv) t p) eqn:Epf; [|discriminate].
    pose proof (prefix_at_len t _ _ Hp Epf) as Hl.
    apply (Hskip sk (p + length (c :: sv)) (VStr (c :: sv)) v q); [lia | lia | apply Hatom; exact I | exact H].
  - (* Rx *) destruct (rx id p) as [q0|] eqn:Er; [|discriminate]. destruct (rx_ok _ _ _ Er).
    apply (Hskip sk q0 (VStr (slice t p q0)) v q); [lia | lia | apply Hatom; exact I | exact H].
  - (* Byte *) destruct (nth_error t p) as [c|] eqn:En; [|discriminate].
    destruct (c =? b); [|discriminate].
    assert (p < len) by (apply nth_error_Some; congruence).
    apply (Hskip sk (S p) (VInt b) v q); [lia | lia | apply Hatom; exact I | exact H].
  - (* Ref *) destruct (nth_error g r) as [[[|] bd]|] eqn:Er; try discriminate.
    apply (IH bd [] (g_plain _ _ Er) p v q Hp H).
  - (* Seq *) apply plain_Forall in Hpl.
    assert (HF : Forall (good2 len (PEG n E)) es) by (eapply Forall_impl; [|exact Hpl]; intros; apply IH; auto).
    apply (seq_ord len (PEG n E) es p p [] v q HF); auto. apply ordl_nil; auto.
  - (* Discard *) destruct Hpl as (Ha & Hb).
    destruct (PEG n E a p) as [| | |va p1] eqn:Ea; try discriminate.
    destruct (IH a E Ha p va p1 Hp Ea) as (A & B & C).
    destruct (PEG n E b p1) as [| | |vb p2] eqn:Eb; try discriminate.
    destruct (IH b E Hb p1 vb p2 B Eb) as (A2 & B2 & C2).
    inversion H; subst. repeat split; auto; try lia.
    destruct dl; eapply ord_mono; [| |exact C2| | |exact C]; lia.
  - (* Choice *) apply plain_Forall in Hpl.
    assert (HF : Forall (good2 len (PEG n E)) es) by (eapply Forall_impl; [|exact Hpl]; intros; apply IH; auto).
    apply (choice_ord len (PEG n E) es p v q HF Hp H).
  - (* Opt *) destruct (PEG n E e p) as [| | |v1 p1] eqn:Ee; try discriminate.
    + inversion H; subst. repeat split; auto; try (apply ord_atom; [lia | exact I]).
    + inversion H; subst. apply (IH e E Hpl p v q Hp Ee).
  - (* Rep *)
    assert (Hgen : forall mnv mxv, rep_spec (PEG n E) n e mnv mxv p [] = Match v q -> p <= q /\ q <= len /\ ord p q v).
    { intros mnv mxv Hr. apply (rep_ord len (PEG n E) n e mnv mxv p p [] v q); auto; try (apply IH; auto).
      apply ordl_nil; auto. }
    destruct mx as [|[|m]|y].
    + destruct (bound_val E mn) as [a|], (bound_val E BNone) as [b|]; try discriminate.
      destruct (bounds_conflict a b); [match type of H with match ?X with _ => _ end = _ => destruct X; discriminate end|]. eapply Hgen; eauto.
    + inversion H; subst. repeat split; auto. rewrite ord_list. apply ordl_nil; auto.
    + destruct (bound_val E mn) as [a|], (bound_val E (BLit (S m))) as [b|]; try discriminate.
      destruct (bounds_conflict a b); [match type of H with match ?X with _ => _ end = _ => destruct X; discriminate end|]. eapply Hgen; eauto.
    + destruct (bound_val E mn) as [a|], (bound_val E (BVar y)) as [b|]; try discriminate.
      destruct (bounds_conflict a b); [match type of H with match ?X with _ => _ end = _ => destruct X; discriminate end|]. eapply Hgen; eauto.
  - (* Expect *) contradiction.
  - (* ExpectNot *) destruct (PEG n E e p) as [| | |v1 p1]; try discriminate.
    inversion H; subst. repeat split; auto; try (apply ord_atom; [lia | exact I]).
  - (* Skip *) apply plain_Forall in Hpl.
    assert (HF : Forall (good2 len (PEG n E)) es) by (eapply Forall_impl; [|exact Hpl]; intros; apply IH; auto).
    apply (skip_ord len (PEG n E) n es p v q HF Hp H).
  - (* Longest *) apply plain_Forall in Hpl.
    assert (HF : Forall (good2 len (PEG n E)) es) by (eapply Forall_impl; [|exact Hpl]; intros; apply IH; auto).
    apply (longest_ord len (PEG n E) es p None v q HF Hp); [intros; discriminate | exact H].
  - (* Backtrack *) contradiction.
  - (* Fail *) discriminate.
  - (* Sep *) destruct Hpl as (He & Hs).
    destruct (sep_spec (PEG n E) n e sp (negb discard) trailer p [] p false) as [| |acc cp saw] eqn:Es; try discriminate.
    destruct (sep_ord len (PEG n E) n e sp (negb discard) trailer p p [] p false acc cp saw) as (A & B & C); auto.
    all: try (apply IH; auto; fail); try (apply ordl_nil; auto; fail);
         try (destruct (negb discard && negb trailer); apply ordl_nil; auto; fail).
    unfold sep_final in H.
    match type of H with (if ?c then _ else _) = _ => destruct c end; [|discriminate].
    inversion H; subst. repeat split; auto; try (rewrite ord_list; exact C).
  - (* Py *) destruct Hpl as (Hc & Hf).
    destruct (eval_py E py) as [w|] eqn:Ev; [|discriminate]. inversion H; subst.
    repeat split; auto. eapply eval_py_ord; eauto.
  - (* Apply *) destruct Hpl as (Ha & Hb).
    destruct (PEG n E a p) as [| | |va p1] eqn:Ea; try discriminate.
    destruct (IH a E Ha p va p1 Hp Ea) as (A & B & C).
    destruct (PEG n E b p1) as [| | |vb p2] eqn:Eb; try discriminate.
    destruct (IH b E Hb p1 vb p2 B Eb) as (A2 & B2 & C2).
    assert (Wa : ord p p2 va) by (eapply ord_mono; [| |exact C]; lia).
    assert (Wb : ord p p2 vb) by (eapply ord_mono; [| |exact C2]; lia).
    pose proof (peg_within g funs ignored t rx rx_ok g_plain n a E Ha p va p1 Hp Ea) as (_ & _ & Ka).
    pose proof (peg_within g funs ignored t rx rx_ok g_plain n b E Hb p1 vb p2 B Eb) as (_ & _ & Kb).
    destruct al.
    + destruct va as [| | | | | | | |fn| | | |]; try discriminate.
      destruct (apply_fun E fn vb) as [w|] eqn:Ef; [|discriminate]. inversion H; subst.
      repeat split; auto; try lia. exact (apply_fun_ord E fn vb v p q Ka Wb Ef).
    + destruct vb as [| | | | | | | |fn| | | |]; try discriminate.
      destruct (apply_fun E fn va) as [w|] eqn:Ef; [|discriminate]. inversion H; subst.
      repeat split; auto; try lia. exact (apply_fun_ord E fn va v p q Kb Wa Ef).
  - (* Where *) destruct Hpl as (Ha & Hb).
    destruct (PEG n E e p) as [| | |va p1] eqn:Ea; try discriminate.
    destruct (IH e E Ha p va p1 Hp Ea) as (A & B & C).
    destruct (PEG n E pred p1) as [| | |vb p2] eqn:Eb; try discriminate.
    destruct (IH pred E Hb p1 vb p2 B Eb) as (A2 & B2 & C2).
    destruct vb as [| | | | | | | |fn| | | |]; try discriminate.
    destruct (apply_fun E fn va) as [w|]; [|discriminate]. destruct (truthy w); [|discriminate].
    inversion H; subst. repeat split; auto; try lia. eapply ord_mono; [| |exact C]; lia.
  - (* Let *) destruct Hpl as (Ha & Hb).
    destruct (PEG n E a p) as [| | |va p1] eqn:Ea; try discriminate.
    destruct (IH a E Ha p va p1 Hp Ea) as (A & B & C).
    destruct (IH body ((x, va) :: E) Hb p1 v q B H) as (A2 & B2 & C2).
    repeat split; auto; try lia. eapply ord_mono; [| |exact C2]; lia.
  - (* Class *)
    assert (HC : forall ms E0 q0 acc, p <= q0 -> q0 <= len -> ordl p q0 (rev acc) ->
              (fix all (l : list (option nat * bool * expr)) : Prop :=
                 match l with [] => True | (_, _, x) :: l' => plain x /\ all l' end) ms ->
              class_spec (PEG n) cls p ms E0 q0 acc = Match v q -> p <= q /\ q <= len /\ ord p q v).
    { induction ms0 as [|[[name isf] e0] ms0 IHms]; intros E0 q0 acc A B C Hm Hc; cbn [class_spec] in Hc.
      - inversion Hc; subst. split; [lia|]. split; [lia|]. apply ord_obj; auto.
      - destruct Hm as (He0 & Hms).
        destruct (PEG n E0 e0 q0) as [| | |v1 q1] eqn:E1; try discriminate.
        destruct (IH e0 E0 He0 q0 v1 q1 B E1) as (X & Y & Z).
        apply (IHms (match name with Some x0 => (x0, v1) :: E0 | None => E0 end) q1
                    (match field_name name isf with Some _ => v1 :: acc | None => acc end)); try exact Hms; try exact Hc; try lia.
        destruct (field_name name isf); cbn [rev].
        + eapply ordl_snoc; eauto.
        + eapply ordl_mono; [| |exact C]; lia. }
    apply (HC ms E p [] (le_n _) Hp (ordl_nil _ _ (le_n _)) Hpl H).
  - discriminate.
  - contradiction.
  - contradiction.
Qed.

(* the judge the harness runs accepts every value the specification produces *)
Corollary peg_spans_ordered : forall n e E p v q, plain e -> p <= len ->
  PEG n E e p = Match v q -> spans_ordered p q v = true.
Proof. intros n e E p v q Hpl Hp H. apply ord_iff_judge. exact (proj2 (proj2 (peg_ordered n e E Hpl p v q Hp H))). Qed.
End M.


(* ---- what the judge's verdict means, in the words of the property ---- *)
Fixpoint spans (v : value) : list (nat * nat) :=
  match v with
  | VObj _ fs (s, e) => (s, e) :: (fix fl (l : list value) : list (nat * nat) := match l with [] => [] | x :: l' => spans x ++ fl l' end) fs
  | VList l | VTuple l | VNode _ l => (fix fl (l : list value) : list (nat * nat) := match l with [] => [] | x :: l' => spans x ++ fl l' end) l
  | _ => []
  end.
Fixpoint spansl (l : list value) : list (nat * nat) := match l with [] => [] | x :: l' => spans x ++ spansl l' end.
Definition inside (lo hi : nat) (sp : nat * nat) : Prop := lo <= fst sp /\ fst sp <= snd sp /\ snd sp <= hi.

Lemma walk_sound_aux : forall n v, vsize v <= n -> forall cur c, walk cur v = Some c -> Forall (inside cur c) (spans v).
Proof.
  induction n as [|n IH]; intros v Hn; [destruct v; cbn in Hn; lia|].
  assert (HL : forall l, lsize l <= n -> forall cur c, walkl cur l = Some c -> Forall (inside cur c) (spansl l)).
  { induction l as [|x l IHl]; intros Hl cur c H; cbn [spansl]; [constructor|].
    cbn in Hl. assert (vsize x >= 1) by (destruct x; cbn; lia).
    cbn [walkl] in H. destruct (walk cur x) as [c1|] eqn:E1; [|discriminate].
    pose proof (walk_ge _ _ _ E1). pose proof (walkl_ge _ _ _ H).
    apply Forall_app. split.
    - eapply Forall_impl; [|exact (IH x ltac:(lia) cur c1 E1)]. unfold inside. intros [a b]; cbn; lia.
    - eapply Forall_impl; [|exact (IHl ltac:(lia) c1 c H)]. unfold inside. intros [a b]; cbn; lia. }
  intros cur c H.
  destruct v as [| | | |l|l|cl fs [s e]|k l| | | | |]; try (cbn; constructor; fail).
  - change (S (lsize l) <= S n) in Hn. rewrite walk_list in H. change (Forall (inside cur c) (spansl l)). apply HL; auto; lia.
  - change (S (lsize l) <= S n) in Hn. rewrite walk_tuple in H. change (Forall (inside cur c) (spansl l)). apply HL; auto; lia.
  - change (S (lsize fs) <= S n) in Hn. rewrite walk_obj in H.
    destruct (Nat.leb cur s && Nat.leb s e) eqn:Ec; [|discriminate].
    apply andb_true_iff in Ec. destruct Ec as (E1 & E2). apply Nat.leb_le in E1, E2.
    destruct (walkl s fs) as [c'|] eqn:Ew; [|discriminate]. destruct (Nat.leb c' e) eqn:El; [|discriminate].
    apply Nat.leb_le in El. inversion H; subst.
    change (Forall (inside cur c) ((s, c) :: spansl fs)). constructor; [unfold inside; cbn; lia|].
    eapply Forall_impl; [|exact (HL fs ltac:(lia) s c' Ew)]. unfold inside. intros [a b]; cbn; lia.
  - change (S (lsize l) <= S n) in Hn. rewrite walk_node in H. change (Forall (inside cur c) (spansl l)). apply HL; auto; lia.
Qed.
(* every span stored anywhere in v lies between the start and the point the scan reached *)
Lemma walk_sound v cur c : walk cur v = Some c -> Forall (inside cur c) (spans v).
Proof. apply (walk_sound_aux (vsize v)). lia. Qed.
Lemma walkl_sound l : forall cur c, walkl cur l = Some c -> Forall (inside cur c) (spansl l).
Proof.
  induction l as [|x l IH]; intros cur c H; cbn [spansl]; [constructor|].
  cbn [walkl] in H. destruct (walk cur x) as [c1|] eqn:E1; [|discriminate].
  pose proof (walk_ge _ _ _ E1). pose proof (walkl_ge _ _ _ H).
  apply Forall_app. split.
  - eapply Forall_impl; [|exact (walk_sound _ _ _ E1)]. unfold inside. intros [a b]; cbn; lia.
  - eapply Forall_impl; [|exact (IH _ _ H)]. unfold inside. intros [a b]; cbn; lia.
Qed.
Lemma spansl_in l : forall b sb, In b l -> In sb (spans b) -> In sb (spansl l).
Proof.
  induction l as [|x l IH]; intros b sb Hb Hs; [contradiction|]. cbn [spansl]. apply in_or_app.
  destruct Hb as [-> | Hb]; [left; exact Hs | right; eapply IH; eauto].
Qed.

(* successive siblings: every span inside an earlier sibling ends before any span inside a later sibling begins *)
Theorem siblings_in_order : forall l1 a rest cur c, walkl cur (l1 ++ a :: rest) = Some c ->
  forall b sa sb, In b rest -> In sa (spans a) -> In sb (spans b) -> snd sa <= fst sb.
Proof.
  intros l1 a rest cur c H b sa sb Hb Hsa Hsb.
  rewrite walkl_app in H. destruct (walkl cur l1) as [c0|]; [|discriminate]. cbn [walkl] in H.
  destruct (walk c0 a) as [m|] eqn:Ea; [|discriminate].
  pose proof (walk_sound _ _ _ Ea) as Fa. pose proof (walkl_sound _ _ _ H) as Fr.
  rewrite Forall_forall in Fa, Fr. specialize (Fa _ Hsa). specialize (Fr _ (spansl_in _ _ _ Hb Hsb)).
  unfold inside in *. lia.
Qed.
(* the fields of an instance: inside its span, in order *)
Theorem fields_nested_and_ordered : forall lo hi c fs s e, ord lo hi (VObj c fs (s, e)) ->
  lo <= s /\ s <= e /\ e <= hi /\ Forall (inside s e) (spansl fs) /\
  forall l1 a rest, fs = l1 ++ a :: rest -> forall b sa sb, In b rest -> In sa (spans a) -> In sb (spans b) -> snd sa <= fst sb.
Proof.
  intros lo hi c fs s e H. destruct (ord_obj_inv _ _ _ _ _ _ H) as (A & B & C & (c' & Hw & Hc)).
  repeat split; auto.
  - eapply Forall_impl; [|exact (walkl_sound _ _ _ Hw)]. unfold inside. intros [x y]; cbn; lia.
  - intros l1 a rest -> b sa sb. eapply siblings_in_order; eauto.
Qed.

(* the same three facts stated on the verdict of the executable judge *)
Lemma judge_spans_inside : forall lo hi v, spans_ordered lo hi v = true -> Forall (inside lo hi) (spans v).
Proof.
  intros lo hi v H. apply ord_iff_judge in H. destruct H as (c & Hw & Hc).
  eapply Forall_impl; [|exact (walk_sound _ _ _ Hw)]. unfold inside. intros [a b]; cbn; intros; repeat split; try tauto.
  destruct H as (_ & _ & H). eapply Nat.le_trans; eauto.
Qed.
Lemma judge_list_elements_in_order : forall lo hi l, spans_ordered lo hi (VList l) = true ->
  forall l1 a rest, l = l1 ++ a :: rest -> forall b sa sb, In b rest -> In sa (spans a) -> In sb (spans b) -> snd sa <= fst sb.
Proof.
  intros lo hi l H l1 a rest -> b sa sb. apply ord_iff_judge in H. destruct H as (c & Hw & _).
  rewrite walk_list in Hw. eapply siblings_in_order; eauto.
Qed.
Lemma judge_fields_nested_and_ordered : forall lo hi c fs s e, spans_ordered lo hi (VObj c fs (s, e)) = true ->
  lo <= s /\ s <= e /\ e <= hi /\ Forall (inside s e) (spansl fs) /\
  forall l1 a rest, fs = l1 ++ a :: rest -> forall b sa sb, In b rest -> In sa (spans a) -> In sb (spans b) -> snd sa <= fst sb.
Proof. intros lo hi c fs s e H. apply fields_nested_and_ordered with (c := c). apply ord_iff_judge. exact H. Qed.
