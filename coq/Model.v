(* ExecDraft.v extended with environments:
   inline Python from a closed vocabulary, Apply (|> and <|), Where, Let,
   classes (Seq with names, constructor and span), data-dependent repetition
   bounds.  Bound names are flat Python locals of the enclosing rule function. *)
From Coq Require Import List Arith Bool Lia.
Import ListNotations.

(* inline-Python functions of the closed vocabulary *)
Inductive pyfun :=
| FInt                      (* int                         : digit string -> int *)
| FLen                      (* len                                               *)
| FBool                     (* bool                                              *)
| FTuple                    (* tuple                                             *)
| FEqVar (x : nat)          (* lambda v: v == NAME                               *)
| FLenGtVar (x : nat)       (* lambda v: len(v) > len(NAME)                      *)
| FOdd                      (* lambda v: v % 2                                   *)
| FTag3 (p a : nat)         (* lambda v: (p, a, v)   (operator tables)           *)
| FTag2 (p : nat)           (* lambda v: (p, v)                                  *)
| FKLenEq (x y : nat)       (* lambda _: len(X) == Y        (requires)           *)
| FKVar (x : nat).          (* lambda _: X                  (requires)           *)

Inductive value :=
| VNone | VBool (b : bool) | VStr (s : list nat) | VInt (n : nat)
| VList (l : list value) | VTuple (l : list value)
| VObj (cls : nat) (fields : list value) (sp : nat * nat)
| VNode (k : nat) (l : list value)          (* 0 Infix(left,operator,right)  1 Prefix(operator,right)  2 Postfix(left,operator) *)
| VFun (f : pyfun)
| VLit (s : list nat) (skip : bool)        (* _StringLiteral: a str that is also a parser *)
| VRule (r : nat)                          (* a rule function passed as an argument *)
| VClos (fid : nat) (given : list value)   (* a lifted argument function, bare or wrapped in _ParseFunction *)
| VErr (id : nat).

(* inline-Python expressions *)
Inductive pyexpr :=
| PNone | PTrue | PFalse | PNum (n : nat) | PVar (x : nat) | PFn (f : pyfun)
| PLenEq (x y : nat)        (* len(X) == Y     (requires) *)
| PSucc (x : nat).          (* X + 1 *)

Inductive bound := BNone | BLit (n : nat) | BVar (x : nat).

Inductive arg :=
| ARule (r : nat) | ALocal (x : nat) | APy (p : pyexpr) | AStrLit (s : list nat) (skip : bool)
| AFun (fid : nat) (fv : list nat).       (* functionalize()d argument with its sorted free variables *)

(* repetition bound: absent, literal, (names come later) *)
Inductive expr :=
| Str (s : list nat) (skip : bool)
| Rx (id : nat) (skip : bool)
| Byte (b : nat) (skip : bool)
| Ref (r : nat)
| Seq (es : list expr)
| Discard (a b : expr) (dl : bool)          (* dl = discard_left, i.e. >> *)
| Choice (es : list expr)
| Opt (e : expr)
| Rep (e : expr) (mn : bound) (mx : bound)
| Expect (e : expr)
| ExpectNot (e : expr)
| Skip (es : list expr)
| Longest (es : list expr)
| Backtrack (k : nat)
| Fail
| Sep (e s : expr) (discard trailer allow_empty reqsep : bool)
| Py (p : pyexpr)
| Apply (a b : expr) (apply_left : bool)
| Where (e pred : expr)
| Let (x : nat) (shadows : bool) (e body : expr)   (* shadows: the translator found x already bound in the static scope *)
| Class (cls : nat) (members : list (option nat * bool * expr))    (* name, is a constructor field, expression *)
| OpTable (prefixes : option expr) (operands : expr) (postfixes infixes : option expr)
| RefL (x : nat)                                        (* a local name used as a parser *)
| Call (callee : nat + nat) (args : list (option nat * arg)).   (* inl rule | inr local name *)

Definition is_fail (e : expr) := match e with Fail => true | _ => false end.

Definition mn_zero (mn : bound) := match mn with BNone | BLit 0 => true | _ => false end.
Definition mn_one (mn : bound) := match mn with BLit 1 => true | _ => false end.

Section Flags.
Variable list_fixed : bool.
Fixpoint always (e : expr) : bool :=
  match e with
  | Str s _ => match s with [] => true | _ => false end
  | Rx _ _ | Byte _ _ | Ref _ | Seq _ | ExpectNot _ | Backtrack _ | Fail => false
  | Discard a b _ => always a && always b
  | Choice es | Longest es => existsb always es
  | Opt _ | Skip _ => true
  | Rep _ mn _ => mn_zero mn
  | Expect e => always e
  | Sep _ _ _ _ allow_empty reqsep => allow_empty && negb reqsep
  | Py _ => true
  | Apply a b _ => always a && always b
  | Where _ _ => false
  | Let _ _ a b => always a && always b
  | Class _ ms => (fix all (l : list (option nat * bool * expr)) : bool :=
                     match l with [] => true | (_, _, e) :: l' => always e && all l' end) ms
  | OpTable _ o _ _ => always o
  | RefL _ | Call _ _ => false
  end.
Fixpoint partial (e : expr) : bool :=
  match e with
  | Str _ _ | Rx _ _ | Byte _ _ | Backtrack _ | Opt _ | Skip _ => false
  | Ref _ | Seq _ | ExpectNot _ | Fail => true
  | Discard a b _ => negb (always a && always b)
  | Choice es | Longest es => negb (existsb always es) && existsb partial es
  (* list.py can_partially_succeed: never for a list that always succeeds; with a
     lower bound of 1 the list fails only when its first element fails (the
     element's flag); otherwise it can fail after consuming elements *)
  | Rep e mn _ => negb (mn_zero mn) && (if list_fixed then (if mn_one mn then partial e else true) else partial e)
  | Expect e => partial e
  | Sep _ _ _ _ allow_empty reqsep => negb (allow_empty && negb reqsep)
  | Py _ => false
  | Apply a b _ => negb (always a && always b)
  | Where _ _ => true
  | Let _ _ a b => negb (always a && always b)
  | Class _ ms => negb ((fix all (l : list (option nat * bool * expr)) : bool :=
                     match l with [] => true | (_, _, e) :: l' => always e && all l' end) ms)
  (* operator_table.py: the table also fails after consuming when a prefix operator is not followed by an operand *)
  | OpTable pre o _ _ => negb (always o) && (match pre with Some _ => true | None => partial o end)
  | RefL _ | Call _ _ => true
  end.
End Flags.

Fixpoint prefix_at (s t : list nat) (p : nat) : bool :=
  match s with
  | [] => true
  | c :: s' => match nth_error t p with
               | Some d => Nat.eqb c d && prefix_at s' t (S p)
               | None => false
               end
  end.
Definition slice (t : list nat) (a b : nat) := firstn (b - a) (skipn a t).

Definition env := list (nat * value).
Fixpoint lookup (x : nat) (en : env) : option value :=
  match en with [] => None | (y, v) :: en' => if Nat.eqb x y then Some v else lookup x en' end.

Record st := mk0 { status : bool; result : value; pos : nat; locals : env }.
Inductive out := Done (s : st) | OutOfFuel | Stuck (why : nat).   (* Stuck: NameError / TypeError *)
(* register updates keep the locals *)
Definition upd (s : st) (b : bool) (v : value) (p : nat) : st := mk0 b v p (locals s).
Definition bindl (s : st) (x : nat) (v : value) : st := mk0 (status s) (result s) (pos s) ((x, v) :: locals s).

Definition bind (o : out) (k : st -> out) : out := match o with Done s => k s | OutOfFuel => OutOfFuel | Stuck w => Stuck w end.

Section Model.
Variable list_fixed : bool.
Variable g : list (list nat * expr).   (* rules: parameter names, body *)
Variable funs : list (list nat * expr). (* lifted argument functions: free variables (= extra parameters), body *)
Variable ignored : option nat.        (* index of the synthetic _ignored rule *)
Variable t : list nat.
Variable rx : nat -> nat -> option nat.   (* oracle: Pattern.match(text, pos).end() *)

Notation always := (always).
Notation partial := (partial list_fixed).

Section Loops.
Variable ex : expr -> st -> out.

Fixpoint seq_loop (es : list expr) (s : st) (items : list value) : out :=
  match es with
  | [] => Done (upd s (status s) (VList (rev items)) (pos s))
  | e :: es' => bind (ex e s) (fun s1 =>
      if always e || status s1 then seq_loop es' s1 (result s1 :: items) else Done s1)
  end.

Fixpoint choice_loop (needs_err : bool) (start : nat) (es : list expr) (s : st)
         (fp : nat) (fe : value) : out :=
  match es with
  | [] => if needs_err then Done (upd s (status s) fe fp) else Done s
  | e :: es' => bind (ex e s) (fun s1 =>
      if always e || status s1 then Done s1
      else
        let cmp := if is_fail e then Nat.leb fp (pos s1) else Nat.ltb fp (pos s1) in
        let moved := needs_err && partial e && cmp in
        let fp' := if moved then pos s1 else fp in
        let fe' := if moved then result s1 else fe in
        let s2 := match es' with
                  | [] => s1
                  | _ => if partial e then upd s1 (status s1) (result s1) start else s1
                  end in
        choice_loop needs_err start es' s2 fp' fe')
  end.

(* a bound is a literal or a Python local read each time it is tested *)
Definition bval (s : st) (b : bound) : option (option nat) :=      (* None = NameError/TypeError *)
  match b with
  | BNone => Some None
  | BLit n => Some (Some n)
  | BVar x => match lookup x (locals s) with Some (VInt n) => Some (Some n) | _ => None end
  end.
Definition rep_fin (mnv : option nat) (s : st) (acc : list value) : st :=
  match mnv with
  | None | Some 0 => upd s true (VList (rev acc)) (pos s)
  | Some m => if Nat.leb m (length acc) then upd s true (VList (rev acc)) (pos s)
              (* too few elements.  After a failed element the registers already say so; the loop can also have
                 stopped at a run-time upper bound that is smaller than the lower bound: then the list fails *)
              else if status s then upd s false (VErr 10) (pos s) else s
  end.
Definition at_max (mx : option nat) (k : nat) := match mx with Some m => Nat.eqb k m | None => false end.

(* As shipped the bound is tested only AFTER an element has been appended, so a
   run-time upper bound of 0 never stops the loop (`"a"{n}` with n = 0 matches
   greedily).  The repaired variant tests it at the loop head as well. *)
Fixpoint rep_loop (k : nat) (e : expr) (mn : bound) (mnv mxv : option nat) (s : st) (acc : list value) : out :=
  if list_fixed && at_max mxv (length acc)
  then Done (rep_fin (if mn_zero mn then None else mnv) s acc) else
  match k with
  | 0 => OutOfFuel
  | S k =>
    let cp := pos s in
    bind (ex e s) (fun s1 =>
      if negb (always e) && negb (status s1) then
        Done (rep_fin (if mn_zero mn then None else mnv)
                      (if partial e then upd s1 (status s1) (result s1) cp else s1) acc)
      else
        let acc' := result s1 :: acc in
        if at_max mxv (length acc') then Done (rep_fin (if mn_zero mn then None else mnv) s1 acc')
        else rep_loop k e mn mnv mxv s1 acc')
  end.

(* Skip: one pass over the items; Some s = restart the while loop from s, None s = fell through *)
Fixpoint skip_pass (cp : nat) (es : list expr) (s : st) : option (bool * st) :=
  match es with
  | [] => Some (false, s)
  | e :: es' =>
    match ex e s with
    | OutOfFuel | Stuck _ => None        (* draft: a stuck item inside Skip is not distinguished *)
    | Done s1 =>
      if always e then
        if negb (Nat.eqb (pos s1) cp) then Some (true, s1) else skip_pass cp es' s1
      else if status s1 then
        (* an item that matched without consuming has skipped nothing: go on with the next item *)
        if negb (Nat.eqb (pos s1) cp) then Some (true, s1) else skip_pass cp es' s1
      else skip_pass cp es' (if partial e then upd s1 (status s1) (result s1) cp else s1)
    end
  end.
Fixpoint skip_loop (k : nat) (es : list expr) (s : st) : out :=
  match k with
  | 0 => OutOfFuel
  | S k => match skip_pass (pos s) es s with
           | None => OutOfFuel
           | Some (true, s1) => skip_loop k es s1
           | Some (false, s1) => Done (upd s1 true VNone (pos s1))
           end
  end.

(* Longest with >= 2 options *)
Fixpoint longest_loop (needs_err : bool) (bt : nat) (first : bool) (es : list expr) (s : st)
         (has : bool) (fr : value) (fpos : nat) (er : value) (epos : nat) : out :=
  match es with
  | [] => if has then Done (upd s true fr fpos)
          else if needs_err then Done (upd s (status s) er epos) else Done s
  | e :: es' =>
    let s0 := if first then s else upd s (status s) (result s) bt in
    bind (ex e s0) (fun s1 =>
      if always e || status s1 then
        if negb has || Nat.ltb fpos (pos s1)
        then longest_loop needs_err bt false es' s1 true (result s1) (pos s1) er epos
        else longest_loop needs_err bt false es' s1 has fr fpos er epos
      else
        (* longest.py:86 passes the condition to ELIF as a Python *string*, which
           outsourcer quotes: the generated test is `elif '<text>':`, always true.
           So every failing option overwrites the error registers. *)
        if needs_err
        then longest_loop needs_err bt false es' s1 has fr fpos (result s1) (pos s1)
        else longest_loop needs_err bt false es' s1 has fr fpos er epos)
  end.

Definition sep_finish (allow_empty reqsep : bool) (staging : list value) (cp : nat) (saw : bool) (s : st) : st :=
  let success := upd s true (VList (rev staging)) cp in
  let nonempty := match staging with [] => false | _ => true end in
  if allow_empty && reqsep then (if negb nonempty || saw then success else s)
  else if reqsep then (if saw then success else s)
  else if allow_empty then success
  else (if nonempty then success else s).

Fixpoint sep_loop (k : nat) (e sp : expr) (discard trailer allow_empty reqsep : bool)
         (s : st) (staging : list value) (cp : nat) (saw : bool) : out :=
  match k with
  | 0 => OutOfFuel
  | S k =>
    bind (ex e s) (fun s1 =>
      if negb (always e) && negb (status s1) then
        let staging' := if negb discard && negb trailer then tl staging else staging in
        Done (sep_finish allow_empty reqsep staging' cp saw s1)
      else
        let staging1 := result s1 :: staging in
        let cp1 := pos s1 in
        bind (ex sp s1) (fun s2 =>
          if negb (always sp) && negb (status s2) then
            Done (sep_finish allow_empty reqsep staging1 cp1 saw s2)
          else
            let staging2 := if discard then staging1 else result s2 :: staging1 in
            let cp2 := if trailer then pos s2 else cp1 in
            sep_loop k e sp discard trailer allow_empty reqsep s2 staging2 cp2 (if reqsep then true else saw)))
  end.
End Loops.

Definition fresh (p : nat) : st := mk0 false VNone p [].

(* ---- the closed inline-Python vocabulary ---- *)
Fixpoint value_eqb (a b : value) {struct a} : bool :=
  match a, b with
  | VNone, VNone => true
  | VBool x, VBool y => Bool.eqb x y
  | VInt x, VInt y => Nat.eqb x y
  | VStr x, VStr y | VLit x _, VStr y | VStr x, VLit y _ | VLit x _, VLit y _ => if list_eq_dec Nat.eq_dec x y then true else false
  | VList x, VList y | VTuple x, VTuple y =>
      (fix go (x y : list value) : bool :=
         match x, y with [], [] => true | a :: x', b :: y' => value_eqb a b && go x' y' | _, _ => false end) x y
  | _, _ => false
  end.
Definition truthy (v : value) : bool :=
  match v with
  | VNone => false | VBool b => b | VInt n => negb (Nat.eqb n 0)
  | VStr s | VLit s _ => match s with [] => false | _ => true end
  | VList l | VTuple l => match l with [] => false | _ => true end
  | _ => true
  end.
Definition vlen (v : value) : option nat :=
  match v with VStr s | VLit s _ => Some (length s) | VList l | VTuple l => Some (length l) | _ => None end.
Fixpoint digits (s : list nat) (acc : nat) : option nat :=
  match s with
  | [] => Some acc
  | c :: s' => if Nat.leb 48 c && Nat.leb c 57 then digits s' (10 * acc + (c - 48)) else None
  end.
Definition apply_fun (en : env) (f : pyfun) (v : value) : option value :=
  match f with
  | FInt => match v with VStr (c :: s) => option_map VInt (digits (c :: s) 0) | _ => None end
  | FLen => option_map VInt (vlen v)
  | FBool => Some (VBool (truthy v))
  | FTuple => match v with VList l => Some (VTuple l) | _ => None end
  | FEqVar x => option_map (fun w => VBool (value_eqb v w)) (lookup x en)
  | FLenGtVar x => match vlen v, option_map vlen (lookup x en) with
                   | Some a, Some (Some b) => Some (VBool (Nat.ltb b a)) | _, _ => None end
  | FOdd => match v with VInt n => Some (VInt (Nat.modulo n 2)) | _ => None end
  | FTag3 p a => Some (VTuple [VInt p; VInt a; v])
  | FTag2 p => Some (VTuple [VInt p; v])
  | FKLenEq x y => match option_map vlen (lookup x en), lookup y en with
                   | Some (Some a), Some (VInt b) => Some (VBool (Nat.eqb a b)) | _, _ => None end
  | FKVar x => lookup x en
  end.
Definition eval_py (en : env) (p : pyexpr) : option value :=
  match p with
  | PNone => Some VNone | PTrue => Some (VBool true) | PFalse => Some (VBool false)
  | PNum n => Some (VInt n)
  | PVar x => lookup x en
  | PFn f => Some (VFun f)
  | PLenEq x y => match option_map vlen (lookup x en), lookup y en with
                  | Some (Some a), Some (VInt b) => Some (VBool (Nat.eqb a b)) | _, _ => None end
  | PSucc x => match lookup x en with Some (VInt n) => Some (VInt (S n)) | _ => None end
  end.

Fixpoint lookup_all (xs : list nat) (en : env) : option (list value) :=
  match xs with
  | [] => Some []
  | x :: r => match lookup x en, lookup_all r en with Some v, Some vs => Some (v :: vs) | _, _ => None end
  end.
(* ---- template calls: evaluation of the arguments in the caller's namespace (call.py, base.py argumentize) ---- *)
Definition eval_arg (L : env) (a : arg) : option value :=
  match a with
  | ARule r => Some (VRule r)                    (* a rule function *)
  | ALocal x => lookup x L                       (* a local of the caller: value or parser *)
  | APy p => eval_py L p                         (* inline Python *)
  | AStrLit sl sk => Some (VLit sl sk)           (* _wrap_string_literal: a str that is also a parser *)
  | AFun fid fv =>
      (* the lifted argument function takes [ctx,] _text, _pos and its sorted free variables; with no
         free variable the bare function is passed, otherwise _ParseFunction(func, <their values>, ()) *)
      match lookup_all fv L with
      | Some vals => Some (VClos fid vals)
      | None => None                             (* unbound captured name *)
      end
  end.
(* positional arguments bind the parameters in order, keyword arguments by name; None = TypeError *)
Fixpoint bind_args (L : env) (ps : list nat) (args : list (option nat * arg)) (acc : env) : option env :=
  match args with
  | [] => match ps with [] => Some acc | _ => None end
  | (None, a) :: args' =>
      match ps, eval_arg L a with
      | p :: ps', Some v => bind_args L ps' args' ((p, v) :: acc)
      | _, _ => None
      end
  | (Some k, a) :: args' =>
      if existsb (Nat.eqb k) ps then
        match eval_arg L a with
        | Some v => bind_args L (filter (fun q => negb (Nat.eqb q k)) ps) args' ((k, v) :: acc)
        | None => None
        end
      else None
  end.
Definition call_target (L : env) (callee : nat + nat) : option nat :=
  match callee with
  | inl r => Some r
  | inr x => match lookup x L with Some (VRule r) => Some r | _ => None end
  end.

(* a member contributes a constructor argument iff it is named and not omitted *)
Definition field_name (name : option nat) (isfield : bool) : option nat :=
  match name with Some x => if isfield then Some x else None | None => None end.

Section ClassLoop.
Variable ex : expr -> st -> out.
(* Seq with names, constructor and parse info (seq.py:31-54, class_.py:59-69).  Every
   named member is assigned to the Python local of that name; the constructor call
   C(f1, f2, ...) reads those LOCALS when all members have matched (fields: the
   field names so far, newest first). *)
Fixpoint class_loop (cls : nat) (start : nat) (ms : list (option nat * bool * expr)) (s : st) (fields : list nat) : out :=
  match ms with
  | [] => match lookup_all (rev fields) (locals s) with
          | Some vs => Done (upd s (status s) (VObj cls vs (start, pos s)) (pos s))
          | None => Stuck 30
          end
  | (name, isfield, e) :: ms' =>
    bind (ex e s) (fun s1 =>
      if always e || status s1 then
        let s2 := match name with Some x => bindl s1 x (result s1) | None => s1 end in
        class_loop cls start ms' s2 (match field_name name isfield with Some x => x :: fields | None => fields end)
      else Done s1)
  end.
End ClassLoop.

(* ---- OperatorTable._compile (operator_table.py:83-166) ---- *)
Record ost := OS { opds : list value; ops : list value; marker : nat; outer : nat }.

Definition tuple_nth (v : value) (k : nat) : option value :=
  match v with VTuple l => nth_error l k | _ => None end.
Definition as_nat (v : option value) : option nat := match v with Some (VInt n) => Some n | _ => None end.

(* _, _is_infix, _operator = stack.pop(); right = operands.pop(); ... *)
Definition pop_operator (o : ost) : option ost :=
  match ops o, opds o with
  | top :: ops', r :: opds' =>
      match as_nat (tuple_nth top 1), tuple_nth top 2 with
      | Some isinf, Some op =>
          if Nat.eqb isinf 0 then Some (OS (VNode 1 [op; r] :: opds') ops' (marker o) (outer o))
          else match opds' with
               | l :: opds'' => Some (OS (VNode 0 [l; op; r] :: opds'') ops' (marker o) (outer o))
               | [] => None
               end
      | _, _ => None
      end
  | _, _ => None
  end.

Section OpLoops.
Variable ex : expr -> st -> out.

(* utils.repeat over the prefix operators: push each result *)
Fixpoint prefix_loop (k : nat) (pe : expr) (s : st) (o : ost) : option (st * ost) + out :=
  match k with
  | 0 => inr OutOfFuel
  | S k =>
    let cp := pos s in
    match ex pe s with
    | Done s1 =>
      if negb (always pe) && negb (status s1)
      then inl (Some (if partial pe then upd s1 (status s1) (result s1) cp else s1, o))
      else prefix_loop k pe s1 (OS (opds o) (result s1 :: ops o) (marker o) (outer o))
    | other => inr other
    end
  end.

Fixpoint pop_lower (k : nat) (prec : nat) (o : ost) : option ost :=
  match k with
  | 0 => Some o
  | S k => match ops o with
           | top :: _ => match as_nat (tuple_nth top 0) with
                         | Some tp => if Nat.ltb tp prec then match pop_operator o with Some o' => pop_lower k prec o' | None => None end
                                      else Some o
                         | None => None end
           | [] => Some o
           end
  end.

Fixpoint postfix_loop (k : nat) (pe : expr) (s : st) (o : ost) : option (st * ost) + out :=
  match k with
  | 0 => inr OutOfFuel
  | S k =>
    let cp := pos s in
    match ex pe s with
    | Done s1 =>
      if negb (always pe) && negb (status s1)
      then inl (Some (if partial pe then upd s1 (status s1) (result s1) cp else s1, o))
      else
        match as_nat (tuple_nth (result s1) 0), tuple_nth (result s1) 1 with
        | Some prec, Some opv =>
            match pop_lower (length (ops o)) prec o with
            | Some o1 => match opds o1 with
                         | x :: rest => postfix_loop k pe s1 (OS (VNode 2 [x; opv] :: rest) (ops o1) (marker o1) (outer o1))
                         | [] => inl None
                         end
            | None => inl None
            end
        | _, _ => inl None
        end
    | other => inr other
    end
  end.

(* the precedence loop after an infix operator: (ost, position register, chained non-associative operator?) *)
Fixpoint prec_loop (k : nat) (prec : nat) (o : ost) (p : nat) : option (ost * nat * bool) :=
  match k with
  | 0 => Some (o, p, false)
  | S k =>
    match ops o with
    | top :: _ =>
        match as_nat (tuple_nth top 0), as_nat (tuple_nth top 1) with
        | Some tp, Some ta =>
            if Nat.ltb tp prec || (Nat.eqb tp prec && Nat.eqb ta 1)
            then match pop_operator o with Some o' => prec_loop k prec o' p | None => None end
            else if Nat.eqb tp prec && Nat.eqb ta 3 then Some (o, outer o, true)
            else Some (o, p, false)
        | _, _ => None
        end
    | [] => Some (o, p, false)
    end
  end.

Fixpoint pop_all (k : nat) (o : ost) : option ost :=
  match k with
  | 0 => Some o
  | S k => match ops o with [] => Some o | _ => match pop_operator o with Some o' => pop_all k o' | None => None end end
  end.

Definition op_finish (s : st) (o : ost) : out :=
  match opds o with
  | [] => Done s
  | _ =>
    (* operator_stack[:marker]: keep the `marker` oldest entries *)
    let keep := skipn (length (ops o) - marker o) (ops o) in
    match pop_all (length keep) (OS (opds o) keep (marker o) (outer o)) with
    | Some o' => match rev (opds o') with
                 | bottom :: _ => Done (upd s true bottom (pos s))
                 | [] => Stuck 10
                 end
    | None => Stuck 11
    end
  end.

Definition nonempty {A} (l : list A) := match l with [] => false | _ => true end.

Fixpoint op_main (k : nat) (pre : option expr) (opd : expr) (post inf : option expr) (s : st) (o : ost) : out :=
  match k with
  | 0 => OutOfFuel
  | S k =>
    let after_prefixes (s : st) (o : ost) : out :=
      match ex opd s with
      | Done s1 =>
        if negb (always opd) && negb (status s1) then
          (* the operators consumed after the last complete operand are given back *)
          op_finish (if nonempty (opds o) then upd s1 (status s1) (result s1) (outer o) else s1) o
        else
          let o1 := OS (result s1 :: opds o) (ops o) (marker o) (outer o) in
          let after_postfixes (s2 : st) (o2 : ost) : out :=
            let o3 := OS (opds o2) (ops o2) (length (ops o2)) (pos s2) in
            match inf with
            | None => op_finish s2 o3
            | Some ie =>
              match ex ie s2 with
              | Done s3 =>
                if negb (always ie) && negb (status s3) then
                  op_finish (if partial ie && nonempty (opds o3) then upd s3 (status s3) (result s3) (outer o3) else s3) o3
                else
                  match as_nat (tuple_nth (result s3) 0) with
                  | Some prec =>
                      match prec_loop (length (ops o3) + 1) prec o3 (pos s3) with
                      | Some (o4, p4, chained) =>
                          if chained then
                            (* a non-associative operator cannot be chained: the expression ends before it *)
                            op_finish (upd s3 (status s3) (result s3) p4) o4
                          else
                          let o5 := OS (opds o4) (result s3 :: ops o4) (length (ops o4)) (outer o4) in
                          op_main k pre opd post inf (upd s3 (status s3) (result s3) p4) o5
                      | None => Stuck 12
                      end
                  | None => Stuck 13
                  end
              | other => other
              end
            end in
          match post with
          | None => after_postfixes s1 o1
          | Some pe => match postfix_loop k pe s1 o1 with
                       | inl (Some (s2, o2)) => after_postfixes s2 o2
                       | inl None => Stuck 14
                       | inr other => other
                       end
          end
      | other => other
      end in
    match pre with
    | None => after_prefixes s o
    | Some pe => match prefix_loop k pe s o with
                 | inl (Some (s1, o1)) => after_prefixes s1 o1
                 | inl None => Stuck 15
                 | inr other => other
                 end
    end
  end.
End OpLoops.

Fixpoint exec (n : nat) (e : expr) (s : st) : out :=
  match n with
  | 0 => OutOfFuel
  | S n =>
    let call (r : nat) (p : nat) : out :=
        match nth_error g r with
        | Some ([], b) => exec n b (fresh p)
        | Some (_ :: _, _) => Stuck 20                (* TypeError: missing positional arguments *)
        | None => Stuck 1
        end in
    (* calling a parser VALUE at a position (what the driver does with result[1](text, pos)) *)
    let invoke (v : value) (p : nat) : out :=
        match v with
        | VRule r => call r p
        | VLit sl sk => exec n (Str sl sk) (fresh p)
        | VClos fid given =>
            match nth_error funs fid with
            | Some (ps, b) => if Nat.eqb (length ps) (length given)
                              then exec n b (mk0 false VNone p (combine ps given))
                              else Stuck 21           (* TypeError: wrong number of arguments *)
            | None => Stuck 22
            end
        | _ => Stuck 23                               (* TypeError: not callable *)
        end in
    (* the callee's registers come back, the caller's locals stay *)
    let ret (o : out) : out := bind o (fun c => Done (upd s (status c) (result c) (pos c))) in
    let after (skip : bool) (e_ : nat) (v : value) : out :=
        if skip then
          match ignored with
          | Some r => bind (call r e_) (fun s1 => Done (upd s true v (pos s1)))
          | None => Done (upd s true v e_)
          end
        else Done (upd s true v e_) in
    match e with
    | Str v skip =>
        match v with
        | [] => Done (upd s true (VStr []) (pos s))
        | _ => if prefix_at v t (pos s) then after skip (pos s + length v) (VStr v)
               else Done (upd s false (VErr 1) (pos s))
        end
    | Rx id skip =>
        match rx id (pos s) with
        | Some e_ => after skip e_ (VStr (slice t (pos s) e_))
        | None => Done (upd s false (VErr 2) (pos s))
        end
    | Byte b skip =>
        match nth_error t (pos s) with
        | Some c => if Nat.eqb c b then after skip (S (pos s)) (VInt b) else Done (upd s false (VErr 3) (pos s))
        | None => Done (upd s false (VErr 3) (pos s))
        end
    | Ref r => ret (call r (pos s))
    (* seq.py: an empty sequence parses nothing, so nothing has set the status: it is set here *)
    | Seq es => match es with
                | [] => Done (upd s true (VList []) (pos s))
                | _ => seq_loop (exec n) es s []
                end
    | Discard a b dl =>
        bind (exec n a s) (fun s1 =>
          if always a || status s1 then
            if dl then exec n b s1
            else let staging := result s1 in
                 bind (exec n b s1) (fun s2 =>
                   if always b || status s2 then Done (upd s2 (status s2) staging (pos s2)) else Done s2)
          else Done s1)
    | Choice es =>
        choice_loop (exec n) (negb (existsb always es)) (pos s) es s (pos s) (VErr 4)
    | Opt e =>
        let bt := pos s in
        bind (exec n e s) (fun s1 => if always e || status s1 then Done s1 else Done (upd s1 true VNone bt))
    | Rep e mn mx =>
        match mx with
        | BLit 0 => Done (upd s true (VList []) (pos s))
        | _ =>
          match bval s mn, bval s mx with
          | Some mnv, Some mxv => rep_loop (exec n) n e mn mnv mxv s []
          | _, _ => Stuck 2
          end
        end
    | Expect e =>
        let bt := pos s in
        bind (exec n e s) (fun s1 =>
          if always e || status s1 then Done (upd s1 (status s1) (result s1) bt) else Done s1)
    | ExpectNot e =>
        let bt := pos s in
        bind (exec n e s) (fun s1 =>
          if status s1 then Done (upd s1 false (VErr 5) bt) else Done (upd s1 true VNone bt))
    | Skip es => skip_loop (exec n) n es s
    | Longest es =>
        match es with
        | [] => Done s
        | [e] => exec n e s
        | _ => longest_loop (exec n) (negb (existsb always es)) (pos s) true es s false VNone (pos s) (VErr 6) (pos s)
        end
    | Backtrack k =>
        if Nat.leb k (pos s) then Done (upd s true VNone (pos s - k)) else Done (upd s false (VErr 7) (pos s))
    | Fail => Done (upd s false (VErr 8) (pos s))
    | Sep e sp discard trailer allow_empty reqsep =>
        sep_loop (exec n) n e sp discard trailer allow_empty reqsep s [] (pos s) false
    | Py p =>
        match eval_py (locals s) p with
        | Some v => Done (upd s true v (pos s))
        | None => Stuck 3
        end
    | Apply a b apply_left =>
        bind (exec n a s) (fun s1 =>
          if always a || status s1 then
            let first := result s1 in
            bind (exec n b s1) (fun s2 =>
              if always b || status s2 then
                let '(f, x) := if apply_left then (first, result s2) else (result s2, first) in
                match f with
                | VFun fn => match apply_fun (locals s2) fn x with
                             | Some v => Done (upd s2 (status s2) v (pos s2))
                             | None => Stuck 4
                             end
                | _ => Stuck 5
                end
              else Done s2)
          else Done s1)
    | Where e pred =>
        bind (exec n e s) (fun s1 =>
          if always e || status s1 then
            let arg := result s1 in
            bind (exec n pred s1) (fun s2 =>
              if always pred || status s2 then
                match result s2 with
                | VFun fn => match apply_fun (locals s2) fn arg with
                             | Some v => if truthy v then Done (upd s2 (status s2) arg (pos s2))
                                         else Done (upd s2 false (VErr 9) (pos s2))
                             | None => Stuck 6
                             end
                | _ => Stuck 7
                end
              else Done s2)
          else Done s1)
    (* let.py: a let that shadows a name of the enclosing scope saves the outer value
       before the assignment and restores it after the body (also when the body fails) *)
    | Let x sh e body =>
        bind (exec n e s) (fun s1 =>
          if always e || status s1 then
            let saved := lookup x (locals s1) in
            bind (exec n body (bindl s1 x (result s1))) (fun s2 =>
              if sh then match saved with
                         | Some old => Done (bindl s2 x old)
                         | None => Stuck 31           (* UnboundLocalError *)
                         end
              else Done s2)
          else Done s1)
    | Class cls ms => match ms with
                      | [] => Done (upd s true (VObj cls [] (pos s, pos s)) (pos s))
                      | _ => class_loop (exec n) cls (pos s) ms s []
                      end
    | OpTable pre opd post inf => op_main (exec n) n pre opd post inf s (OS [] [] 0 (pos s))
    | RefL x => match lookup x (locals s) with
                | Some v => ret (invoke v (pos s))
                | None => Stuck 24
                end
    | Call callee args =>
        match call_target (locals s) callee with
        | None => Stuck 25
        | Some r =>
          match nth_error g r with
          | None => Stuck 26
          | Some (ps, b) =>
            match bind_args (locals s) ps args [] with
            | Some en => ret (exec n b (mk0 false VNone (pos s) en))
            | None => Stuck 27
            end
          end
        end
    end
  end.

Definition run_rule (fuel : nat) (r : nat) (p : nat) : option (bool * option value * nat) :=
  match nth_error g r with
  | None => None
  | Some (_, b) => match exec fuel b (fresh p) with
              | Done s => Some (status s, if status s then Some (result s) else None, pos s)
              | OutOfFuel => None
              | Stuck w => Some (false, Some (VErr 1000), 0)
              end
  end.
End Model.
