(* C08, the shift law — on the specification: parsing `text` from offset k is
   parsing `text[k:]` from 0 with every reported position (end of the match and
   every span stored in the value) shifted by k, for grammars without Backtrack
   (the only construct of the model that looks behind) and regular expressions
   whose matches do not depend on what precedes the start offset (the hypothesis
   on the two regex oracles: "no lookbehind or anchors"). *)
From Coq Require Import List Arith Bool Lia.
Import ListNotations.
Require Import Model Spec Within.

Fixpoint shv (k : nat) (v : value) : value :=
  match v with
  | VList l => VList (map (shv k) l)
  | VTuple l => VTuple (map (shv k) l)
  | VObj c fs (s, e) => VObj c (map (shv k) fs) (s + k, e + k)
  | VNode kk l => VNode kk (map (shv k) l)
  | VClos fid given => VClos fid (map (shv k) given)
  | other => other
  end.
Definition shE (k : nat) (E : env) : env := map (fun xv => (fst xv, shv k (snd xv))) E.
Definition shr (k : nat) (r : sres) : sres := match r with Match v q => Match (shv k v) (q + k) | o => o end.

(* ---- values ---- *)
Lemma lookup_sh k x E : lookup x (shE k E) = option_map (shv k) (lookup x E).
Proof. induction E as [|[y v] E IH]; cbn; auto. destruct (Nat.eqb x y); auto. Qed.
Lemma vlen_sh k v : vlen (shv k v) = vlen v.
Proof. destruct v as [| | | |l|l|c fs [s e]|kk l| | | | |]; cbn; auto; try (rewrite map_length; reflexivity). Qed.
Lemma truthy_sh k v : truthy (shv k v) = truthy v.
Proof. destruct v as [| | | |l|l|c fs [s e]|kk l| | | | |]; cbn; auto; try (destruct l; reflexivity). Qed.

Fixpoint eqb_list (x y : list value) : bool :=
  match x, y with [], [] => true | a :: x', b :: y' => value_eqb a b && eqb_list x' y' | _, _ => false end.
Lemma value_eqb_list x y : value_eqb (VList x) (VList y) = eqb_list x y.
Proof. revert y; induction x as [|a x IH]; intros [|b y]; cbn; auto; try (f_equal; apply IH). Qed.
Lemma value_eqb_tuple x y : value_eqb (VTuple x) (VTuple y) = eqb_list x y.
Proof. revert y; induction x as [|a x IH]; intros [|b y]; cbn; auto; try (f_equal; apply (IH y)). Qed.

Lemma value_eqb_sh_aux k : forall n a b, vsize a <= n -> value_eqb (shv k a) (shv k b) = value_eqb a b.
Proof.
  induction n as [|n IH]; intros a b Hn; [destruct a; cbn in Hn; lia|].
  assert (HL : forall x y, lsize x <= n -> eqb_list (map (shv k) x) (map (shv k) y) = eqb_list x y).
  { induction x as [|a0 x IHx]; intros [|b0 y] Hx; cbn; auto. cbn in Hx.
    assert (vsize a0 >= 1) by (destruct a0; cbn; lia).
    rewrite IH by lia. rewrite IHx by lia. reflexivity. }
  destruct a as [| | | |x|x|c fs [s e]|kk x| | | | |]; destruct b as [| | | |y|y|c' fs' [s' e']|kk' y| | | | |];
    try reflexivity.
  - change (shv k (VList x)) with (VList (map (shv k) x)). change (shv k (VList y)) with (VList (map (shv k) y)).
    rewrite !value_eqb_list. apply HL. change (S (lsize x) <= S n) in Hn. lia.
  - change (shv k (VTuple x)) with (VTuple (map (shv k) x)). change (shv k (VTuple y)) with (VTuple (map (shv k) y)).
    rewrite !value_eqb_tuple. apply HL. change (S (lsize x) <= S n) in Hn. lia.
Qed.
Lemma value_eqb_sh k a b : value_eqb (shv k a) (shv k b) = value_eqb a b.
Proof. apply (value_eqb_sh_aux k (vsize a)). lia. Qed.

Lemma eval_py_sh k E py : eval_py (shE k E) py = option_map (shv k) (eval_py E py).
Proof.
  destruct py as [| | |m|x|f|x y|x]; cbn; auto.
  - apply lookup_sh.
  - rewrite !lookup_sh. destruct (lookup x E) as [vx|]; cbn; auto. rewrite vlen_sh.
    destruct (vlen vx); auto. destruct (lookup y E) as [vy|]; cbn; auto.
    destruct vy as [| | | |l|l|c fs [s e]|kk l| | | | |]; cbn; auto.
  - rewrite lookup_sh. destruct (lookup x E) as [vx|]; cbn; auto.
    destruct vx as [| | | |l|l|c fs [s e]|kk l| | | | |]; cbn; auto.
Qed.

Lemma apply_fun_sh k E f x : apply_fun (shE k E) f (shv k x) = option_map (shv k) (apply_fun E f x).
Proof.
  destruct f; cbn -[digits].
  - destruct x as [| |[|c s]| |l|l|c fs [s e]|kk l| | | | |]; cbn -[digits]; auto.
    destruct (digits (c :: s) 0); auto.
  - rewrite vlen_sh. destruct (vlen x); auto.
  - rewrite truthy_sh. auto.
  - destruct x as [| | | |l|l|c fs [s e]|kk l| | | | |]; cbn; auto.
  - rewrite lookup_sh. destruct (lookup x0 E); cbn; auto. rewrite value_eqb_sh. auto.
  - rewrite vlen_sh, lookup_sh. destruct (vlen x); auto. destruct (lookup x0 E) as [w|]; cbn; auto.
    rewrite vlen_sh. destruct (vlen w); auto.
  - destruct x as [| | | |l|l|c fs [s e]|kk l| | | | |]; cbn; auto.
  - auto.
  - auto.
  - rewrite !lookup_sh. destruct (lookup x0 E) as [vx|]; cbn; auto. rewrite vlen_sh.
    destruct (vlen vx); auto. destruct (lookup y E) as [vy|]; cbn; auto.
    destruct vy as [| | | |l|l|c fs [s e]|kk l| | | | |]; cbn; auto.
  - apply lookup_sh.
Qed.

Lemma bound_val_sh k E b : bound_val (shE k E) b = bound_val E b.
Proof.
  destruct b as [|m|x]; cbn; auto. rewrite lookup_sh. destruct (lookup x E) as [v|]; cbn; auto.
  destruct v as [| | | |l|l|c fs [s e]|kk l| | | | |]; cbn; auto.
Qed.
Lemma lookup_all_sh k xs E : lookup_all xs (shE k E) = option_map (map (shv k)) (lookup_all xs E).
Proof.
  induction xs as [|x xs IH]; cbn; auto. rewrite lookup_sh, IH.
  destruct (lookup x E); cbn; auto. destruct (lookup_all xs E); cbn; auto.
Qed.
Lemma eval_arg_sh k L a : eval_arg (shE k L) a = option_map (shv k) (eval_arg L a).
Proof.
  destruct a as [r|x|py|sl sk|fid fv]; cbn; auto.
  - apply lookup_sh.
  - apply eval_py_sh.
  - rewrite lookup_all_sh. destruct (lookup_all fv L); cbn; auto.
Qed.
Lemma bind_args_sh k L : forall args ps acc,
  bind_args (shE k L) ps args (shE k acc) = option_map (shE k) (bind_args L ps args acc).
Proof.
  induction args as [|[[kw|] a] args IH]; intros ps acc; cbn [bind_args].
  - destruct ps; auto.
  - destruct (existsb (Nat.eqb kw) ps); auto. rewrite eval_arg_sh.
    destruct (eval_arg L a) as [v|]; cbn [option_map]; auto.
    apply (IH (filter (fun q => negb (Nat.eqb q kw)) ps) ((kw, v) :: acc)).
  - destruct ps as [|p ps]; auto. rewrite eval_arg_sh.
    destruct (eval_arg L a) as [v|]; cbn [option_map]; auto.
    apply (IH ps ((p, v) :: acc)).
Qed.
Lemma call_target_sh k L c : call_target (shE k L) c = call_target L c.
Proof.
  destruct c as [r|x]; cbn; auto. rewrite lookup_sh. destruct (lookup x L) as [v|]; cbn; auto.
  destruct v as [| | | |l|l|cl fs [s e]|kk l| | | | |]; cbn; auto.
Qed.
Lemma combine_sh k : forall ps given, combine ps (map (shv k) given) = shE k (combine ps given).
Proof. induction ps as [|p ps IH]; intros [|v given]; cbn; auto. f_equal. apply IH. Qed.

(* ---- text ---- *)
Lemma nth_skipn : forall k (t : list nat) p, nth_error (skipn k t) p = nth_error t (p + k).
Proof.
  induction k as [|k IH]; intros t p; cbn [skipn].
  - rewrite Nat.add_0_r. auto.
  - destruct t as [|c t]; [destruct p; auto|]. rewrite IH. replace (p + S k) with (S (p + k)) by lia. auto.
Qed.
Lemma skipn_skipn' : forall k p (t : list nat), skipn p (skipn k t) = skipn (p + k) t.
Proof.
  induction k as [|k IH]; intros p t; cbn [skipn].
  - rewrite Nat.add_0_r. auto.
  - destruct t as [|c t]; [rewrite !skipn_nil; auto|]. rewrite IH. replace (p + S k) with (S (p + k)) by lia. auto.
Qed.
Lemma prefix_sh k t : forall s p, prefix_at s (skipn k t) p = prefix_at s t (p + k).
Proof.
  induction s as [|c s IH]; intros p; cbn [prefix_at]; auto.
  rewrite nth_skipn. destruct (nth_error t (p + k)); auto. rewrite IH. auto.
Qed.
Lemma slice_sh k t p q : slice (skipn k t) p q = slice t (p + k) (q + k).
Proof. unfold slice. rewrite skipn_skipn'. replace (q + k - (p + k)) with (q - p) by lia. auto. Qed.

(* ---- loops ---- *)
Section Loops.
Variable k : nat.
Variables pg1 pg2 : expr -> nat -> sres.
Definition rel (e : expr) := forall p, pg2 e (p + k) = shr k (pg1 e p).

Lemma seq_sh : forall es p acc, Forall rel es ->
  seq_spec pg2 es (p + k) (map (shv k) acc) = shr k (seq_spec pg1 es p acc).
Proof.
  induction es as [|e es IH]; intros p acc HF; cbn [seq_spec].
  - cbn. rewrite map_rev. auto.
  - inversion HF as [|? ? He Hes]; subst. rewrite He.
    destruct (pg1 e p) as [| | |v p1]; cbn [shr]; auto. apply (IH p1 (v :: acc) Hes).
Qed.
Lemma choice_sh : forall es p, Forall rel es -> choice_spec pg2 es (p + k) = shr k (choice_spec pg1 es p).
Proof.
  induction es as [|e es IH]; intros p HF; cbn [choice_spec]; auto.
  inversion HF as [|? ? He Hes]; subst. rewrite He.
  destruct (pg1 e p) as [| | |v p1]; cbn [shr]; auto.
Qed.
Lemma rep_sh : forall n e mn mx p acc, rel e ->
  rep_spec pg2 n e mn mx (p + k) (map (shv k) acc) = shr k (rep_spec pg1 n e mn mx p acc).
Proof.
  induction n as [|n IH]; intros e mn mx p acc He; cbn [rep_spec]; rewrite map_length.
  - destruct (at_max mx (length acc)); cbn; auto. rewrite map_rev. auto.
  - destruct (at_max mx (length acc)); [cbn; rewrite map_rev; auto|].
    rewrite He. destruct (pg1 e p) as [| | |v p1]; cbn [shr]; auto.
    + destruct (_ <=? _); cbn; auto. rewrite map_rev. auto.
    + apply (IH e mn mx p1 (v :: acc) He).
Qed.
Definition shsk (r : option nat + sres) : option nat + sres :=
  match r with inl (Some q) => inl (Some (q + k)) | inl None => inl None | inr o => inr (shr k o) end.
Lemma skip_first_sh : forall es p, Forall rel es -> skip_first pg2 es (p + k) = shsk (skip_first pg1 es p).
Proof.
  induction es as [|e es IH]; intros p HF; cbn [skip_first]; auto.
  inversion HF as [|? ? He Hes]; subst. rewrite He.
  destruct (pg1 e p) as [| | |v p1]; cbn [shr]; auto.
  replace (p1 + k =? p + k) with (p1 =? p).
  - destruct (p1 =? p); auto.
  - destruct (Nat.eqb_spec p1 p); destruct (Nat.eqb_spec (p1 + k) (p + k)); auto; lia.
Qed.
Lemma skip_sh : forall n es p, Forall rel es -> skip_spec pg2 n es (p + k) = shr k (skip_spec pg1 n es p).
Proof.
  induction n as [|n IH]; intros es p HF; cbn [skip_spec]; auto.
  rewrite skip_first_sh by auto. destruct (skip_first pg1 es p) as [[q|]|r]; cbn [shsk]; auto;
  try (destruct r; reflexivity).
Qed.
Definition shbest (b : option (value * nat)) := option_map (fun vq => (shv k (fst vq), snd vq + k)) b.
Lemma longest_sh : forall es p best, Forall rel es ->
  longest_spec pg2 es (p + k) (shbest best) = shr k (longest_spec pg1 es p best).
Proof.
  induction es as [|e es IH]; intros p best HF; cbn [longest_spec].
  - destruct best as [[v q]|]; cbn; auto.
  - inversion HF as [|? ? He Hes]; subst. rewrite He.
    destruct (pg1 e p) as [| | |v p1]; cbn [shr]; auto.
    destruct best as [[bv bq]|]; cbn [shbest option_map fst snd].
    + replace (bq + k <? p1 + k) with (bq <? p1)
        by (destruct (Nat.ltb_spec bq p1); destruct (Nat.ltb_spec (bq + k) (p1 + k)); auto; lia).
      destruct (bq <? p1).
      * apply (IH p (Some (v, p1)) Hes).
      * apply (IH p (Some (bv, bq)) Hes).
    + apply (IH p (Some (v, p1)) Hes).
Qed.
Definition shsep (r : sepres) : sepres :=
  match r with SDone acc cp saw => SDone (map (shv k) acc) (cp + k) saw | o => o end.
Lemma sep_sh : forall n e sp keep trailer p acc cp saw, rel e -> rel sp ->
  sep_spec pg2 n e sp keep trailer (p + k) (map (shv k) acc) (cp + k) saw
  = shsep (sep_spec pg1 n e sp keep trailer p acc cp saw).
Proof.
  induction n as [|n IH]; intros e sp keep trailer p acc cp saw He Hs; cbn [sep_spec]; auto.
  rewrite He. destruct (pg1 e p) as [| | |v p1]; cbn [shr shsep]; auto.
  - destruct (keep && negb trailer); auto. destruct acc; auto.
  - rewrite Hs. destruct (pg1 sp p1) as [| | |sv p2]; cbn [shr shsep]; auto.
    specialize (IH e sp keep trailer p2 (if keep then sv :: v :: acc else v :: acc) (if trailer then p2 else p1) true He Hs).
    destruct keep, trailer; exact IH.
Qed.
Lemma sep_final_sh ae rs acc cp saw :
  sep_final ae rs (map (shv k) acc) (cp + k) saw = shr k (sep_final ae rs acc cp saw).
Proof.
  unfold sep_final. destruct acc as [|a acc]; cbn [map];
    match goal with |- (if ?c then _ else _) = _ => destruct c end; cbn; auto.
  rewrite map_app, map_rev. auto.
Qed.
End Loops.

(* ---- the law ---- *)
Fixpoint nobt (e : expr) : Prop :=
  match e with
  | Backtrack _ => False
  | Str _ _ | Rx _ _ | Byte _ _ | Ref _ | Fail | Py _ | RefL _ | Call _ _ => True
  | Seq es | Choice es | Longest es | Skip es =>
      (fix all (l : list expr) : Prop := match l with [] => True | x :: l' => nobt x /\ all l' end) es
  | Discard a b _ | Apply a b _ | Where a b | Sep a b _ _ _ _ | Let _ _ a b => nobt a /\ nobt b
  | Opt e | Expect e | ExpectNot e | Rep e _ _ => nobt e
  | Class _ ms => (fix all (l : list (option nat * bool * expr)) : Prop :=
                     match l with [] => True | (_, _, x) :: l' => nobt x /\ all l' end) ms
  | OpTable _ _ _ _ => True
  end.
Lemma nobt_Forall es :
  (fix all (l : list expr) : Prop := match l with [] => True | x :: l' => nobt x /\ all l' end) es -> Forall nobt es.
Proof. induction es as [|x es IH]; intros H; constructor; destruct H; auto. Qed.

Section Law.
Variables (g funs : list (list nat * expr)) (ignored : option nat).
Variables (t : list nat) (k : nat).
Variables (rx rx' : nat -> nat -> option nat).     (* the regex oracles of text and of text[k:] *)
Notation t' := (skipn k t).
Notation P := (peg g funs ignored t rx).
Notation P' := (peg g funs ignored t' rx').
Hypothesis rx_rel : forall id p, rx id (p + k) = option_map (fun q => q + k) (rx' id p).
Hypothesis g_nobt : forall r ps b, nth_error g r = Some (ps, b) -> nobt b.
Hypothesis f_nobt : forall fid ps b, nth_error funs fid = Some (ps, b) -> nobt b.

Theorem peg_shift : forall n e E p, nobt e -> P n (shE k E) e (p + k) = shr k (P' n E e p).
Proof.
  induction n as [|n IH]; intros e E p Hnb; [reflexivity|].
  assert (Hskip : forall (sk : bool) q v,
     (if sk then match ignored with
                 | Some r => match nth_error g r with
                             | Some ([], b) => match P n [] b (q + k) with
                                               | Match _ q' => Match (shv k v) q' | Fails => Match (shv k v) (q + k) | other => other end
                             | _ => Raise end
                 | None => Match (shv k v) (q + k) end
      else Match (shv k v) (q + k))
     = shr k (if sk then match ignored with
                 | Some r => match nth_error g r with
                             | Some ([], b) => match P' n [] b q with
                                               | Match _ q' => Match v q' | Fails => Match v q | other => other end
                             | _ => Raise end
                 | None => Match v q end
      else Match v q)).
  { intros sk q v. destruct sk; auto. destruct ignored as [r|]; auto.
    destruct (nth_error g r) as [[[|] b]|] eqn:Er; auto.
    change (@nil (nat * value)) with (shE k []) at 1. rewrite (IH b [] q (g_nobt _ _ _ Er)).
    match goal with |- context [shr k ?X] => destruct X; auto end. }
  assert (HF : forall es E0, Forall nobt es -> Forall (rel k (P' n E0) (P n (shE k E0))) es).
  { intros es E0 H. eapply Forall_impl; [|exact H]. intros a Ha q. apply IH; auto. }
  destruct e as [sv sk|id sk|b sk|r|es|a b dl|es|e|e mn mx|e|e|es|es|bk| |e sp discard trailer ae rs
                 |py|a b al|e pred|x sh a body|cls ms|pre opd post inf|x|callee args];
    cbn [peg]; cbn [nobt] in Hnb.
  - (* Str *) destruct sv as [|c sv]; [reflexivity|]. rewrite prefix_sh.
    destruct (prefix_at (c :: sv) t (p + k)); auto.
    replace (p + k + length (c :: sv)) with (p + length (c :: sv) + k) by lia.
    exact (Hskip sk (p + length (c :: sv)) (VStr (c :: sv))).
  - (* Rx *) rewrite rx_rel. destruct (rx' id p) as [q|]; cbn [option_map]; auto.
    rewrite slice_sh. exact (Hskip sk q (VStr (slice t (p + k) (q + k)))).
  - (* Byte *) rewrite nth_skipn. destruct (nth_error t (p + k)) as [c|]; auto.
    destruct (c =? b); auto. exact (Hskip sk (S p) (VInt b)).
  - (* Ref *) destruct (nth_error g r) as [[[|] bd]|] eqn:Er; auto.
    change (@nil (nat * value)) with (shE k []) at 1. apply IH. exact (g_nobt _ _ _ Er).
  - (* Seq *) apply nobt_Forall in Hnb. exact (seq_sh k _ _ es p [] (HF es E Hnb)).
  - (* Discard *) destruct Hnb as (Ha & Hb). rewrite (IH a E p Ha).
    destruct (P' n E a p) as [| | |va p1]; cbn [shr]; auto. rewrite (IH b E p1 Hb).
    destruct (P' n E b p1) as [| | |vb p2]; cbn [shr]; auto. destruct dl; auto.
  - (* Choice *) apply nobt_Forall in Hnb. exact (choice_sh k _ _ es p (HF es E Hnb)).
  - (* Opt *) rewrite (IH e E p Hnb). destruct (P' n E e p); cbn [shr]; auto.
  - (* Rep *)
    assert (Hrel : rel k (P' n E) (P n (shE k E)) e) by (intros q; apply IH; auto).
    destruct mx as [|[|m]|y]; rewrite ?bound_val_sh; auto;
      destruct (bound_val E mn) as [a|]; auto;
      match goal with |- context [bound_val E ?bb] => destruct (bound_val E bb) as [b0|]; auto end;
      (pose proof (rep_sh k _ _ n e a b0 p [] Hrel) as Hr; cbn [map] in Hr; rewrite Hr; destruct (bounds_conflict a b0); [destruct (rep_spec (P' n E) n e a b0 p []); reflexivity | reflexivity]).
  - (* Expect *) rewrite (IH e E p Hnb). destruct (P' n E e p); cbn [shr]; auto.
  - (* ExpectNot *) rewrite (IH e E p Hnb). destruct (P' n E e p); cbn [shr]; auto.
  - (* Skip *) apply nobt_Forall in Hnb. exact (skip_sh k _ _ n es p (HF es E Hnb)).
  - (* Longest *) apply nobt_Forall in Hnb. exact (longest_sh k _ _ es p None (HF es E Hnb)).
  - (* Backtrack *) contradiction.
  - (* Fail *) reflexivity.
  - (* Sep *) destruct Hnb as (He & Hs).
    assert (R1 : rel k (P' n E) (P n (shE k E)) e) by (intros q; apply IH; auto).
    assert (R2 : rel k (P' n E) (P n (shE k E)) sp) by (intros q; apply IH; auto).
    pose proof (sep_sh k _ _ n e sp (negb discard) trailer p [] p false R1 R2) as Hsep. cbn [map] in Hsep.
    rewrite Hsep. destruct (sep_spec (P' n E) n e sp (negb discard) trailer p [] p false); cbn [shsep shr]; auto.
    apply sep_final_sh.
  - (* Py *) rewrite eval_py_sh. destruct (eval_py E py); cbn; auto.
  - (* Apply *) destruct Hnb as (Ha & Hb). rewrite (IH a E p Ha).
    destruct (P' n E a p) as [| | |va p1]; cbn [shr]; auto. rewrite (IH b E p1 Hb).
    destruct (P' n E b p1) as [| | |vb p2]; cbn [shr]; auto.
    destruct al.
    + destruct va as [| | | |l|l|c0 fs0 [s0 e0]|kk l|fn| | | |]; cbn; auto.
      rewrite apply_fun_sh. destruct (apply_fun E fn vb); cbn; auto.
    + destruct vb as [| | | |l|l|c0 fs0 [s0 e0]|kk l|fn| | | |]; cbn; auto.
      rewrite apply_fun_sh. destruct (apply_fun E fn va); cbn; auto.
  - (* Where *) destruct Hnb as (Ha & Hb). rewrite (IH e E p Ha).
    destruct (P' n E e p) as [| | |va p1]; cbn [shr]; auto. rewrite (IH pred E p1 Hb).
    destruct (P' n E pred p1) as [| | |vb p2]; cbn [shr]; auto.
    destruct vb as [| | | |l|l|c0 fs0 [s0 e0]|kk l|fn| | | |]; cbn; auto.
    rewrite apply_fun_sh. destruct (apply_fun E fn va) as [w|]; cbn; auto.
    rewrite truthy_sh. destruct (truthy w); auto.
  - (* Let *) destruct Hnb as (Ha & Hb). rewrite (IH a E p Ha).
    destruct (P' n E a p) as [| | |va p1]; cbn [shr]; auto.
    exact (IH body ((x, va) :: E) p1 Hb).
  - (* Class *)
    assert (HC : forall ms0 E0 q acc,
              (fix all (l : list (option nat * bool * expr)) : Prop :=
                 match l with [] => True | (_, _, x0) :: l' => nobt x0 /\ all l' end) ms0 ->
              class_spec (P n) cls (p + k) ms0 (shE k E0) (q + k) (map (shv k) acc)
              = shr k (class_spec (P' n) cls p ms0 E0 q acc)).
    { induction ms0 as [|[[name isf] e0] ms0 IHms]; intros E0 q acc Hm; cbn [class_spec].
      - cbn. rewrite map_rev. auto.
      - destruct Hm as (He0 & Hms). rewrite (IH e0 E0 q He0).
        destruct (P' n E0 e0 q) as [| | |v1 q1]; cbn [shr]; auto.
        specialize (IHms (match name with Some x0 => (x0, v1) :: E0 | None => E0 end) q1
                         (match field_name name isf with Some _ => v1 :: acc | None => acc end) Hms).
        destruct name as [x0|]; destruct (field_name _ isf); exact IHms. }
    exact (HC ms E p [] Hnb).
  - (* OpTable *) reflexivity.
  - (* RefL *) rewrite lookup_sh. destruct (lookup x E) as [v|]; cbn [option_map]; auto.
    destruct v as [| | | |l|l|c0 fs0 [s0 e0]|kk l|fn|sl sk|r|fid given|]; cbn [shv]; auto.
    + change (@nil (nat * value)) with (shE k []) at 1. apply IH. destruct sl; exact I.
    + destruct (nth_error g r) as [[[|] bd]|] eqn:Er; auto.
      change (@nil (nat * value)) with (shE k []) at 1. apply IH. exact (g_nobt _ _ _ Er).
    + destruct (nth_error funs fid) as [[ps bd]|] eqn:Ef; auto. rewrite map_length.
      destruct (length ps =? length given); auto. rewrite combine_sh. apply IH. exact (f_nobt _ _ _ Ef).
  - (* Call *) rewrite call_target_sh. destruct (call_target E callee) as [r|]; auto.
    destruct (nth_error g r) as [[ps bd]|] eqn:Er; auto.
    pose proof (bind_args_sh k E args ps []) as Hb. cbn [shE map] in Hb. rewrite Hb.
    destruct (bind_args E ps args []) as [en|]; cbn [option_map]; auto.
    apply IH. exact (g_nobt _ _ _ Er).
Qed.

(* from offset 0: parsing text at k is parsing text[k:] at 0, shifted *)
Corollary peg_shift_from_start : forall n e E, nobt e ->
  P n (shE k E) e k = shr k (P' n E e 0).
Proof. intros n e E H. exact (peg_shift n e E 0 H). Qed.
End Law.
