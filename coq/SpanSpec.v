(* SPECIFICATION (executable) for C10: the spans stored in a parsed value are
   nested inside their parent's span, and the spans of successive list
   elements / fields are disjoint and in input order.  `walk cur v` scans the
   value left to right; cur is the end of the last span seen; None = violated. *)
From Coq Require Import List Arith Bool.
Import ListNotations.
Require Import Model.

Fixpoint walk (cur : nat) (v : value) : option nat :=
  match v with
  | VObj _ fs (s, e) =>
      if Nat.leb cur s && Nat.leb s e then
        match (fix walkl (cur : nat) (l : list value) : option nat :=
                 match l with
                 | [] => Some cur
                 | x :: l' => match walk cur x with Some c => walkl c l' | None => None end
                 end) s fs with
        | Some c => if Nat.leb c e then Some e else None
        | None => None
        end
      else None
  | VList l | VTuple l | VNode _ l =>
      (fix walkl (cur : nat) (l : list value) : option nat :=
         match l with
         | [] => Some cur
         | x :: l' => match walk cur x with Some c => walkl c l' | None => None end
         end) cur l
  | _ => Some cur
  end.

(* spans_ordered lo hi v: every span inside [lo, hi], siblings ordered and disjoint, children nested *)
Definition spans_ordered (lo hi : nat) (v : value) : bool :=
  match walk lo v with Some c => Nat.leb c hi | None => false end.
