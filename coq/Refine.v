(* exec_refines_peg for the EXTENDED draft
   model (ExecDraft2.v: environments, inline Python, Apply, Where, Let, classes
   with spans, data-dependent bounds) against the lexically scoped four-way
   spec (SpecDraft3.v).  Repaired List flag; flat locals vs lexical
   environments under no-shadowing. *)
From Coq Require Import List Arith Bool Lia.
Import ListNotations.
Require Import Model Spec.

Notation part := (partial true).

Definition sub (E L : env) := forall x v, lookup x E = Some v -> lookup x L = Some v.

Definition agree (E : env) (e : expr) (p : nat) (r : sres) (o : out) : Prop :=
  match r, o with
  | Fuel, OutOfFuel => True
  | Raise, _ => True
  | Match v p', Done s' => status s' = true /\ result s' = v /\ pos s' = p' /\ sub E (locals s')
  | Fails, Done s' => status s' = false /\ always e = false /\ (part e = false -> pos s' = p) /\ sub E (locals s')
  | _, _ => False
  end.

Section Gen.
Variable pg : expr -> nat -> sres.
Variable ex : expr -> st -> out.
Variable E : env.
Variable W : expr -> Prop.
Hypothesis IH : forall e s, W e -> sub E (locals s) -> agree E e (pos s) (pg e (pos s)) (ex e s).

Lemma IH_cases e s : W e -> sub E (locals s) ->
  (pg e (pos s) = Fuel /\ ex e s = OutOfFuel) \/
  (pg e (pos s) = Raise) \/
  (exists v p' s1, pg e (pos s) = Match v p' /\ ex e s = Done s1 /\
                   status s1 = true /\ result s1 = v /\ pos s1 = p' /\ sub E (locals s1)) \/
  (exists s1, pg e (pos s) = Fails /\ ex e s = Done s1 /\
              status s1 = false /\ always e = false /\ (part e = false -> pos s1 = pos s) /\ sub E (locals s1)).
Proof.
  intros HW HS. pose proof (IH e s HW HS) as H. unfold agree in H.
  destruct (pg e (pos s)) as [| | |v p'], (ex e s) as [s1| |]; try contradiction; auto.
  - right; right; right. exists s1. tauto.
  - right; right; left. exists v, p', s1. tauto.
Qed.

Ltac cases e s HW HS :=
  let v := fresh "v" in let p' := fresh "p'" in let s1 := fresh "s1" in
  let Hp := fresh "Hp" in let He := fresh "He" in
  let H1 := fresh "H1" in let H2 := fresh "H2" in let H3 := fresh "H3" in let H4 := fresh "H4" in
  destruct (IH_cases e s HW HS) as
    [(Hp & He)|[Hp|[(v & p' & s1 & Hp & He & H1 & H2 & H3 & H4)|(s1 & Hp & He & H1 & H2 & H3 & H4)]]];
  rewrite ?Hp, ?He; cbn [bind]; try exact I.

(* ---------- Seq ---------- *)
Lemma seq_ok : forall es s acc, Forall W es -> sub E (locals s) ->
  match seq_spec pg es (pos s) acc, seq_loop ex es s acc with
  | Fuel, OutOfFuel => True
  | Raise, _ => True
  | Match v p', Done s' => (status s = true \/ es <> [] -> status s' = true) /\ result s' = v /\ pos s' = p'
                           /\ sub E (locals s')
  | Fails, Done s' => status s' = false /\ sub E (locals s')
  | _, _ => False end.
Proof.
  induction es as [|e es IHes]; intros s acc HF HS; cbn [seq_spec seq_loop].
  - cbn. repeat split; auto. intros [H|H]; [exact H|congruence].
  - inversion HF as [|? ? HWe HWes]; subst. cases e s HWe HS.
    + replace (always e || status s1) with true by (rewrite H1, orb_true_r; auto).
      subst v p'. specialize (IHes s1 (result s1 :: acc) HWes H4).
      destruct (seq_spec pg es (pos s1) (result s1 :: acc)) as [| | |v p'],
               (seq_loop ex es s1 (result s1 :: acc)); auto.
      destruct IHes as (A & B & C & D). repeat split; auto.
    + replace (always e || status s1) with false by (rewrite H1, H2; auto). auto.
Qed.

(* ---------- Choice ---------- *)
Lemma choice_ok : forall es ne start (P : bool) s fp fe, Forall W es -> sub E (locals s) ->
  pos s = start ->
  (ne = false -> existsb always es = true) ->
  (existsb part es = true -> P = true) ->
  (P = false -> fp = start) ->
  match choice_spec pg es start, choice_loop true ex ne start es s fp fe with
  | Fuel, OutOfFuel => True
  | Raise, _ => True
  | Match v p', Done s' => status s' = true /\ result s' = v /\ pos s' = p' /\ sub E (locals s')
  | Fails, Done s' => (es <> [] \/ status s = false) -> status s' = false /\ existsb always es = false
                      /\ (P = false -> pos s' = start) /\ sub E (locals s')
  | _, _ => False end.
Proof.
  induction es as [|e es IHes]; intros ne start P s fp fe HF HS Hp0 Hne HP Hfp; cbn [choice_spec choice_loop].
  - destruct ne; cbn.
    + intros [H|H]; [congruence|]. repeat split; auto.
    + specialize (Hne eq_refl). discriminate.
  - inversion HF as [|? ? HWe HWes]; subst. cases e s HWe HS.
    + replace (always e || status s1) with true by (rewrite H1, orb_true_r; auto). subst; auto.
    + replace (always e || status s1) with false by (rewrite H1, H2; auto).
      cbn [existsb] in Hne, HP. rewrite H2 in Hne. cbn [orb] in Hne.
      assert (HPe : part e = true -> P = true) by (intros Ex; apply HP; rewrite Ex; auto).
      assert (HPes : existsb part es = true -> P = true) by (intros Ex; apply HP; rewrite Ex; apply orb_true_r).
      set (cmp := if is_fail e then fp <=? pos s1 else fp <? pos s1).
      set (moved := ne && part e && cmp).
      assert (Hfp' : P = false -> (if moved then pos s1 else fp) = pos s).
      { intros HPf. destruct (part e) eqn:Ep.
        - specialize (HPe eq_refl). congruence.
        - subst moved. rewrite andb_false_r. cbn. auto. }
      destruct es as [|e' es'].
      * cbn [choice_spec choice_loop]. destruct ne; cbn.
        -- intros _. repeat split; auto; rewrite ?H2; auto.
        -- specialize (Hne eq_refl). discriminate.
      * cbv iota. set (s2 := if part e then upd s1 (status s1) (result s1) (pos s) else s1).
        assert (Hs2p : pos s2 = pos s) by (subst s2; destruct (part e) eqn:Ep; cbn; auto).
        assert (Hs2s : status s2 = false) by (subst s2; destruct (part e); cbn; auto).
        assert (Hs2l : sub E (locals s2)) by (subst s2; destruct (part e); cbn; auto).
        specialize (IHes ne (pos s) P s2 (if moved then pos s1 else fp)
                         (if moved then result s1 else fe) HWes Hs2l Hs2p Hne HPes Hfp').
        destruct (choice_loop true ex ne (pos s) (e' :: es') s2 _ _),
                 (choice_spec pg (e' :: es') (pos s)) as [| | |v p']; auto.
        intros _. destruct IHes as (A & B & C & D); [left; discriminate|].
        repeat split; auto. change (always e || existsb always (e' :: es') = false). rewrite H2, B. auto.
Qed.

(* ---------- List ---------- *)

Lemma rep_spec_at_max k e mn mx p acc :
  at_max mx (length acc) = true -> rep_spec pg k e mn mx p acc = Match (VList (rev acc)) p.
Proof. intros H. destruct k; cbn; rewrite H; auto. Qed.

Lemma rep_fin_ok mn s acc : mnv0 mn <= length acc -> rep_fin mn s acc = upd s true (VList (rev acc)) (pos s).
Proof.
  intros H. unfold rep_fin. destruct mn as [[|m]|]; auto. cbn in H.
  destruct (Nat.leb_spec (S m) (length acc)); auto. lia.
Qed.
Lemma rep_fin_fail mn s acc : ~ mnv0 mn <= length acc -> status s = false -> rep_fin mn s acc = s /\ mn <> None /\ mn <> Some 0.
Proof.
  intros H Hs. unfold rep_fin. destruct mn as [[|m]|]; cbn in H; try lia.
  destruct (Nat.leb_spec (S m) (length acc)); [lia|]. rewrite Hs. repeat split; congruence.
Qed.
Lemma rep_fin_underflow mn s acc : ~ mnv0 mn <= length acc -> status s = true ->
  rep_fin mn s acc = upd s false (VErr 10) (pos s) /\ mn <> None /\ mn <> Some 0.
Proof.
  intros H Hs. unfold rep_fin. destruct mn as [[|m]|]; cbn in H; try lia.
  destruct (Nat.leb_spec (S m) (length acc)); [lia|]. rewrite Hs. repeat split; congruence.
Qed.

Lemma rep_ok : forall k e (mn : bound) (mnv mxv : option nat) s acc, W e -> sub E (locals s) ->
  (forall m, mxv = Some m -> mnv0 mnv <= m) ->
  (mn_zero mn = true -> mnv0 mnv = 0) ->
  match rep_spec pg k e mnv mxv (pos s) acc, rep_loop true ex k e mn mnv mxv s acc with
  | Fuel, OutOfFuel => True
  | Raise, _ => True
  | Match v p', Done s' => status s' = true /\ result s' = v /\ pos s' = p' /\ sub E (locals s')
  | Fails, Done s' => status s' = false /\ mn_zero mn = false /\ sub E (locals s')
                      /\ length acc < mnv0 mnv
                      /\ (part e = false -> mnv0 mnv <= S (length acc) -> pos s' = pos s)
  | _, _ => False end.
Proof.
  assert (Hfin0 : forall (mn : bound) mnv, (mn_zero mn = true -> mnv0 mnv = 0) ->
                  mnv0 (if mn_zero mn then None else mnv) = mnv0 mnv).
  { intros mn mnv Hz. destruct (mn_zero mn) eqn:Ez; auto. rewrite (Hz eq_refl). reflexivity. }
  assert (Hhead : forall (mn : bound) mnv mxv s acc, (forall m, mxv = Some m -> mnv0 mnv <= m) ->
                  (mn_zero mn = true -> mnv0 mnv = 0) -> at_max mxv (length acc) = true ->
                  rep_fin (if mn_zero mn then None else mnv) s acc = upd s true (VList (rev acc)) (pos s)).
  { intros mn mnv mxv s acc Hmm Hz Hmax. apply rep_fin_ok. rewrite Hfin0 by exact Hz.
    destruct mxv as [m|]; [|discriminate]. unfold at_max in Hmax. apply Nat.eqb_eq in Hmax.
    specialize (Hmm m eq_refl). lia. }
  induction k as [|k IHk]; intros e mn mnv mxv s acc HWe HS Hmm Hz.
  - cbn [rep_spec rep_loop andb]. destruct (at_max mxv (length acc)) eqn:Hmax.
    + rewrite (Hhead mn mnv mxv s acc Hmm Hz Hmax). cbn. auto.
    + exact I.
  - cbn [rep_spec rep_loop andb]. destruct (at_max mxv (length acc)) eqn:Hmax.
    { rewrite (Hhead mn mnv mxv s acc Hmm Hz Hmax). cbn. auto. }
    pose proof (Hfin0 mn mnv Hz) as Hfin.
    cases e s HWe HS.
    + subst v p'.
      replace (negb (always e) && negb (status s1)) with false by (rewrite H1, andb_false_r; auto).
      destruct (at_max mxv (length (result s1 :: acc))) eqn:Em.
      * rewrite rep_spec_at_max by exact Em.
        rewrite (Hhead mn mnv mxv s1 (result s1 :: acc) Hmm Hz Em). cbn; auto.
      * specialize (IHk e mn mnv mxv s1 (result s1 :: acc) HWe H4 Hmm Hz).
        destruct (rep_spec pg k e mnv mxv (pos s1) (result s1 :: acc)) as [| | |v' q'],
                 (rep_loop true ex k e mn mnv mxv s1 (result s1 :: acc)) as [s'| |]; auto.
        destruct IHk as (A & B & C & D & F). cbn [length] in D. repeat split; auto; try lia.
    + replace (negb (always e) && negb (status s1)) with true by (rewrite H1, H2; auto).
      set (s2 := if part e then upd s1 (status s1) (result s1) (pos s) else s1).
      assert (Hs2 : status s2 = false /\ sub E (locals s2)) by (subst s2; destruct (part e); cbn; auto).
      destruct (Nat.leb_spec (mnv0 mnv) (length acc)) as [Hle|Hgt].
      * rewrite rep_fin_ok by (rewrite Hfin; exact Hle).
        assert (Ex : (mnv0 mnv <=? length acc) = true) by (apply Nat.leb_le; auto). unfold mnv0 in Ex. rewrite Ex.
        cbn. repeat split; auto; try apply Hs2. subst s2. destruct (part e) eqn:Ep; cbn; auto.
      * assert (Ex : (mnv0 mnv <=? length acc) = false) by (apply Nat.leb_gt; auto). unfold mnv0 in Ex. rewrite Ex.
        destruct (rep_fin_fail (if mn_zero mn then None else mnv) s2 acc) as (A & B & C); [rewrite Hfin; lia|apply Hs2|].
        rewrite A. destruct Hs2 as (S1 & S2). repeat split; auto.
        -- destruct (mn_zero mn); auto. congruence.
        -- intros Hpe _. subst s2. rewrite Hpe. auto.
Qed.

(* run-time bounds with lower > upper: the loop takes at most `upper` elements and the list fails *)
Lemma rep_fin_short mn s acc : ~ mnv0 mn <= length acc ->
  status (rep_fin mn s acc) = false /\ pos (rep_fin mn s acc) = pos s /\ locals (rep_fin mn s acc) = locals s.
Proof.
  intros H. destruct (status s) eqn:Hs.
  - destruct (rep_fin_underflow mn s acc H Hs) as (-> & _). cbn. auto.
  - destruct (rep_fin_fail mn s acc H Hs) as (-> & _). auto.
Qed.
Lemma rep_conflict_ok : forall k e (mn : bound) (mnv : option nat) (m : nat) s acc, W e -> sub E (locals s) ->
  m < mnv0 mnv -> mn_zero mn = false -> length acc <= m ->
  match rep_spec pg k e mnv (Some m) (pos s) acc, rep_loop true ex k e mn mnv (Some m) s acc with
  | Fuel, OutOfFuel => True
  | Raise, _ => True
  | Match _ _, Done s' | Fails, Done s' =>
      status s' = false /\ sub E (locals s') /\ (part e = false -> mnv0 mnv <= S (length acc) -> pos s' = pos s)
  | _, _ => False end.
Proof.
  assert (Hhead : forall mn mnv m s acc, m < mnv0 mnv -> mn_zero mn = false -> sub E (locals s) -> length acc <= m ->
            let s' := rep_fin (if mn_zero mn then None else mnv) s acc in
            status s' = false /\ sub E (locals s') /\ pos s' = pos s).
  { intros mn mnv m s acc Hm Hz HS Hl. rewrite Hz.
    destruct (rep_fin_short mnv s acc ltac:(lia)) as (A & B & C). cbn zeta. rewrite A, B, C. auto. }
  induction k as [|k IHk]; intros e mn mnv m s acc HWe HS Hm Hz Hl.
  - cbn [rep_spec rep_loop andb]. destruct (at_max (Some m) (length acc)) eqn:Hmax; [|exact I].
    destruct (Hhead mn mnv m s acc Hm Hz HS Hl) as (A & B & C). cbn. auto.
  - cbn [rep_spec rep_loop andb]. destruct (at_max (Some m) (length acc)) eqn:Hmax.
    { destruct (Hhead mn mnv m s acc Hm Hz HS Hl) as (A & B & C). cbn. auto. }
    assert (Hlt : length acc < m).
    { unfold at_max in Hmax. apply Nat.eqb_neq in Hmax. lia. }
    cases e s HWe HS.
    + subst v p'.
      replace (negb (always e) && negb (status s1)) with false by (rewrite H1, andb_false_r; auto).
      destruct (at_max (Some m) (length (result s1 :: acc))) eqn:Em.
      * rewrite rep_spec_at_max by exact Em.
        destruct (Hhead mn mnv m s1 (result s1 :: acc) Hm Hz H4 ltac:(cbn [length]; lia)) as (A & B & C).
        cbn. repeat split; auto. intros _ Hle. cbn [length] in *. lia.
      * specialize (IHk e mn mnv m s1 (result s1 :: acc) HWe H4 Hm Hz ltac:(cbn [length]; lia)).
        destruct (rep_spec pg k e mnv (Some m) (pos s1) (result s1 :: acc)) as [| | |v' q'],
                 (rep_loop true ex k e mn mnv (Some m) s1 (result s1 :: acc)) as [s'| |]; auto;
          destruct IHk as (A & B & C); repeat split; auto; intros _ Hle; lia.
    + replace (negb (always e) && negb (status s1)) with true by (rewrite H1, H2; auto).
      set (s2 := if part e then upd s1 (status s1) (result s1) (pos s) else s1).
      assert (Hs2 : status s2 = false /\ sub E (locals s2)) by (subst s2; destruct (part e); cbn; auto).
      assert (Ex : (mnv0 mnv <=? length acc) = false) by (apply Nat.leb_gt; lia). unfold mnv0 in Ex. rewrite Ex.
      destruct Hs2 as (S1 & S2).
      destruct (Hhead mn mnv m s2 acc Hm Hz S2 Hl) as (A & B & C). cbn zeta in A, B, C.
      repeat split; auto. intros Hpe _. rewrite C. subst s2. rewrite Hpe. auto.
Qed.

(* ---------- Skip ---------- *)
Lemma skip_pass_ok : forall es cp s, Forall W es -> sub E (locals s) -> pos s = cp ->
  match skip_first pg es cp, skip_pass true ex cp es s with
  | inr Fuel, None => True
  | inr Raise, _ => True
  | inl None, Some (false, s') => pos s' = cp /\ sub E (locals s')
  | inl (Some q), Some (true, s') => pos s' = q /\ sub E (locals s')
  | _, _ => False end.
Proof.
  induction es as [|e es IHes]; intros cp s HF HS Hp; cbn [skip_first skip_pass]; auto.
  inversion HF as [|? ? HWe HWes]; subst.
  destruct (IH_cases e s HWe HS) as
    [(Hp & He)|[Hp|[(v & p' & s1 & Hp & He & H1 & H2 & H3 & H4)|(s1 & Hp & He & H1 & H2 & H3 & H4)]]];
    rewrite ?Hp, ?He; auto.
  - subst v p'. destruct (always e) eqn:Ea.
    + destruct (Nat.eqb_spec (pos s1) (pos s)) as [Ex|Ex]; cbn [negb].
      * apply IHes; auto.
      * auto.
    + rewrite H1. destruct (Nat.eqb_spec (pos s1) (pos s)) as [Ex|Ex]; cbn [negb].
      * apply IHes; auto.
      * auto.
  - rewrite H2, H1. apply IHes; auto.
    + destruct (part e); cbn; auto.
    + destruct (part e) eqn:Ep; cbn; auto.
Qed.

Lemma skip_ok : forall k es s, Forall W es -> sub E (locals s) ->
  match skip_spec pg k es (pos s), skip_loop true ex k es s with
  | Fuel, OutOfFuel => True
  | Raise, _ => True
  | Match v p', Done s' => status s' = true /\ result s' = v /\ pos s' = p' /\ sub E (locals s')
  | _, _ => False end.
Proof.
  induction k as [|k IHk]; intros es s HF HS; cbn [skip_spec skip_loop]; auto.
  pose proof (skip_pass_ok es (pos s) s HF HS eq_refl) as H.
  destruct (skip_first pg es (pos s)) as [[q|]|[| | |]], (skip_pass true ex (pos s) es s) as [[[|] s1]|];
    try contradiction; auto.
  all: try (destruct H as (H & HL); subst q; apply IHk; auto).
  all: try (destruct H as (H & HL); cbn; rewrite H; auto).
Qed.

(* ---------- Longest ---------- *)
Lemma longest_ok : forall es ne bt (P : bool) first s has fr fpos er epos best, Forall W es -> sub E (locals s) ->
  (first = true -> pos s = bt) ->
  ((has = false /\ best = None) \/ (has = true /\ best = Some (fr, fpos))) ->
  (ne = false -> existsb always es = true \/ has = true) ->
  (existsb part es = true -> P = true) ->
  (P = false -> has = false -> epos = bt) ->
  (has = false -> first = false -> status s = false) ->
  (first = true -> es <> []) ->
  match longest_spec pg es bt best, longest_loop ex ne bt first es s has fr fpos er epos with
  | Fuel, OutOfFuel => True
  | Raise, _ => True
  | Match v q, Done s' => status s' = true /\ result s' = v /\ pos s' = q /\ sub E (locals s')
  | Fails, Done s' => status s' = false /\ (P = false -> pos s' = bt) /\ sub E (locals s')
  | _, _ => False end.
Proof.
  induction es as [|e es IHes]; intros ne bt P first s has fr fpos er epos best HF HS Hfirst Hbest Hne HP Hepos Hst Hnonempty;
    cbn [longest_spec longest_loop].
  - destruct Hbest as [[Hh Hb]|[Hh Hb]]; subst has best.
    + destruct ne.
      * cbn. destruct first; [exfalso; apply Hnonempty; auto|]. repeat split; auto.
      * destruct (Hne eq_refl) as [H|H]; discriminate.
    + cbn. auto.
  - inversion HF as [|? ? HWe HWes]; subst.
    set (s0 := if first then s else upd s (status s) (result s) bt).
    assert (Hs0 : pos s0 = bt) by (subst s0; destruct first; cbn; auto).
    assert (Hs0l : sub E (locals s0)) by (subst s0; destruct first; cbn; auto).
    assert (HPe : part e = true -> P = true) by (intros Ex; apply HP; cbn; rewrite Ex; auto).
    assert (HPes : existsb part es = true -> P = true) by (intros Ex; apply HP; cbn; rewrite Ex; apply orb_true_r).
    pose proof (IH_cases e s0 HWe Hs0l) as Hc. rewrite Hs0 in Hc.
    destruct Hc as [(Hp & He)|[Hp|[(v & p' & s1 & Hp & He & H1 & H2 & H3 & H4)|(s1 & Hp & He & H1 & H2 & H3 & H4)]]];
      rewrite ?Hp, ?He; cbn [bind]; auto.
    + subst v p'. replace (always e || status s1) with true by (rewrite H1, orb_true_r; auto).
      destruct Hbest as [[Hh Hb]|[Hh Hb]]; subst has best; cbn [negb orb].
      * apply IHes; auto; try discriminate; try (intros _; right; reflexivity).
      * destruct (fpos <? pos s1) eqn:Elt.
        -- apply IHes; auto; try discriminate.
        -- apply IHes; auto; try discriminate.
    + replace (always e || status s1) with false by (rewrite H1, H2; auto).
      cbn [existsb] in Hne. rewrite H2 in Hne. cbn [orb] in Hne.
      destruct ne.
      * apply IHes; auto; try discriminate.
        all: try (intros HPf Hh; apply H3; destruct (part e) eqn:Ep; auto; specialize (HPe eq_refl); congruence).
      * apply IHes; auto; try discriminate.
Qed.

Lemma longest_spec_some : forall es p b, longest_spec pg es p (Some b) <> Fails.
Proof.
  induction es as [|e es IHes]; intros p [bv bq]; cbn [longest_spec]; [discriminate|].
  destruct (pg e p) as [| | |v q]; try discriminate; [apply IHes|].
  destruct (bq <? q); apply IHes.
Qed.
Lemma longest_fail_all : forall es p,
  longest_spec pg es p None = Fails -> Forall (fun e => pg e p = Fails) es.
Proof.
  induction es as [|e es IHes]; intros p H; [constructor|].
  cbn [longest_spec] in H. destruct (pg e p) as [| | |v q] eqn:Ex; try discriminate.
  - constructor; auto.
  - exfalso. eapply longest_spec_some; eauto.
Qed.
Lemma fail_not_always e s : W e -> sub E (locals s) -> pg e (pos s) = Fails -> always e = false.
Proof.
  intros HW HS Hp. pose proof (IH e s HW HS) as H. unfold agree in H. rewrite Hp in H.
  destruct (ex e s); [tauto|contradiction|contradiction].
Qed.

(* ---------- Sep ---------- *)
Lemma sep_finish_final ae rs acc cp saw_m saw_s s :
  (rs = true -> saw_m = saw_s) -> status s = false -> sub E (locals s) ->
  match sep_final ae rs acc cp saw_s with
  | Match v q => status (sep_finish ae rs acc cp saw_m s) = true /\ result (sep_finish ae rs acc cp saw_m s) = v
                 /\ pos (sep_finish ae rs acc cp saw_m s) = q /\ sub E (locals (sep_finish ae rs acc cp saw_m s))
  | Fails => status (sep_finish ae rs acc cp saw_m s) = false /\ sub E (locals (sep_finish ae rs acc cp saw_m s))
  | _ => False
  end.
Proof.
  intros Hsaw Hs HL. unfold sep_final, sep_finish.
  destruct ae, rs; cbn [andb]; try (rewrite (Hsaw eq_refl)).
  - destruct (negb match acc with [] => false | _ :: _ => true end || saw_s); cbn; auto.
  - cbn; auto.
  - destruct saw_s; cbn; auto.
  - destruct acc; cbn; auto.
Qed.

Lemma sep_ok : forall k e sp discard trailer ae rs s acc cp saw_m saw_s, W e -> W sp -> sub E (locals s) ->
  (rs = true -> saw_m = saw_s) ->
  match sep_spec pg k e sp (negb discard) trailer (pos s) acc cp saw_s,
        sep_loop ex k e sp discard trailer ae rs s acc cp saw_m with
  | SFuel, OutOfFuel => True
  | SRaise, _ => True
  | SDone a c w, Done s' => match sep_final ae rs a c w with
                            | Match v q => status s' = true /\ result s' = v /\ pos s' = q /\ sub E (locals s')
                            | Fails => status s' = false /\ sub E (locals s')
                            | _ => False end
  | _, _ => False end.
Proof.
  induction k as [|k IHk]; intros e sp discard trailer ae rs s acc cp saw_m saw_s HWe HWsp HS Hsaw;
    cbn [sep_spec sep_loop]; auto.
  destruct (IH_cases e s HWe HS) as
    [(Hp & He)|[Hp|[(v & p' & s1 & Hp & He & H1 & H2 & H3 & H4)|(s1 & Hp & He & H1 & H2 & H3 & H4)]]];
    rewrite ?Hp, ?He; cbn [bind]; auto.
  - subst v p'.
    replace (negb (always e) && negb (status s1)) with false by (rewrite H1, andb_false_r; auto).
    destruct (IH_cases sp s1 HWsp H4) as
      [(Hq & Hf)|[Hq|[(v & p' & s2 & Hq & Hf & J1 & J2 & J3 & J4)|(s2 & Hq & Hf & J1 & J2 & J3 & J4)]]];
      rewrite ?Hq, ?Hf; cbn [bind]; auto.
    + subst v p'.
      replace (negb (always sp) && negb (status s2)) with false by (rewrite J1, andb_false_r; auto).
      replace (if discard then result s1 :: acc else result s2 :: result s1 :: acc)
        with (if negb discard then result s2 :: result s1 :: acc else result s1 :: acc) by (destruct discard; auto).
      apply IHk; auto. intros Hr. rewrite Hr. auto.
    + replace (negb (always sp) && negb (status s2)) with true by (rewrite J1, J2; auto).
      apply sep_finish_final; auto.
  - replace (negb (always e) && negb (status s1)) with true by (rewrite H1, H2; auto).
    apply sep_finish_final; auto.
Qed.
End Gen.

(* ------------------------------------------------------------------ *)
Section Main.
Variables (g : list (list nat * expr)) (funs : list (list nat * expr))
          (ignored : option nat) (t : list nat) (rx : nat -> nat -> option nat).

Notation PEG := (peg g funs ignored t rx).
Notation EXEC := (exec true g funs ignored t rx).

(* the static scope is exactly the domain of the lexical environment *)
Definition scope_of (sc : list nat) (E : env) := forall x, In x sc <-> exists v, lookup x E = Some v.

Definition bounds_ok (mn mx : bound) : Prop :=
  match mn, mx with
  | BNone, _ | _, BNone => True
  | BLit a, BLit b => a <= b
  | BVar x, BVar y => x = y
  | _, _ => False
  end.

Fixpoint wf (sc : list nat) (e : expr) : Prop :=
  match e with
  | Str _ _ | Rx _ _ | Byte _ _ | Ref _ | Backtrack _ | Fail | Py _ => True
  | Seq es =>
      (fix all (l : list expr) : Prop := match l with [] => True | x :: l' => wf sc x /\ all l' end) es
  | Choice es | Longest es =>
      es <> [] /\ (fix all (l : list expr) : Prop := match l with [] => True | x :: l' => wf sc x /\ all l' end) es
  | Skip es =>
      (fix all (l : list expr) : Prop := match l with [] => True | x :: l' => wf sc x /\ all l' end) es
  | Discard a b _ | Apply a b _ | Where a b | Sep a b _ _ _ _ => wf sc a /\ wf sc b
  | Opt e | Expect e | ExpectNot e => wf sc e
  | Rep e mn mx => wf sc e
  | Let x sh a b => (sh = true <-> In x sc) /\ wf sc a /\ wf (x :: sc) b
  | Class _ ms =>
      (fix go (sc : list nat) (ms : list (option nat * bool * expr)) : Prop :=
         match ms with
         | [] => True
         | (name, _, e) :: ms' =>
             wf sc e /\ match name with
                        | Some x => ~ In x sc /\ go (x :: sc) ms'
                        | None => go sc ms' end
         end) sc ms
  | OpTable _ _ _ _ | RefL _ | Call _ _ => True
  end.

Lemma all_Forall sc es :
  (fix all (l : list expr) : Prop := match l with [] => True | x :: l' => wf sc x /\ all l' end) es -> Forall (wf sc) es.
Proof. induction es as [|x es IH]; intros H; constructor; destruct H; auto. Qed.

(* every rule body is well formed in the scope of its parameters; so is every lifted argument function *)
Hypothesis Hg : forall r ps b, nth_error g r = Some (ps, b) -> wf ps b.
Hypothesis Hfuns : forall fid ps b, nth_error funs fid = Some (ps, b) -> wf ps b.
Hypothesis Hign : forall r, ignored = Some r -> exists es, nth_error g r = Some ([], Skip es).

Lemma sub_nil L : sub [] L.
Proof. intros x v H. discriminate. Qed.
Lemma scope_nil : scope_of [] [].
Proof. intros x. split; [intros []|intros (v & H); discriminate]. Qed.
Lemma scope_in sc E x v : scope_of sc E -> lookup x E = Some v -> In x sc.
Proof. intros H Hx. apply H. eauto. Qed.

Lemma sub_cons E L x v : sub E L -> sub ((x, v) :: E) ((x, v) :: L).
Proof. intros H y w. cbn. destruct (Nat.eqb y x); auto. Qed.
Lemma sub_drop E L x v sc : scope_of sc E -> ~ In x sc -> sub ((x, v) :: E) L -> sub E L.
Proof.
  intros Hsc Hx H y w Hy. apply H. cbn. destruct (Nat.eqb_spec y x) as [->|]; auto.
  exfalso. apply Hx. eapply scope_in; eauto.
Qed.
Lemma scope_cons sc E x v : scope_of sc E -> scope_of (x :: sc) ((x, v) :: E).
Proof.
  intros H y. cbn. destruct (Nat.eqb_spec y x) as [->|Hne].
  - split; eauto.
  - split.
    + intros [Hq|Hq]; [congruence|]. apply H. exact Hq.
    + intros Hq. right. apply H. exact Hq.
Qed.
(* restoring the outer binding of a shadowed name keeps the flat locals in
   agreement with the lexical environment *)
Lemma sub_restore E L x v old : lookup x E = Some old -> sub ((x, v) :: E) L -> sub E ((x, old) :: L).
Proof.
  intros Hx H y w Hy. cbn. destruct (Nat.eqb_spec y x) as [->|Hne]; [congruence|].
  apply H. cbn. destruct (Nat.eqb_spec y x); [contradiction|auto].
Qed.

Definition IHT (n : nat) := forall e sc E s, wf sc e -> scope_of sc E -> sub E (locals s) ->
  agree E e (pos s) (PEG n E e (pos s)) (EXEC n e s).

(* the rule call to _ignored after a literal *)
Lemma after_ok_gen n (IHn : IHT n) :
  forall (ig : option nat), ig = ignored ->
  forall (sk : bool) (q : nat) (v : value) E e0 p0 (s : st), sub E (locals s) ->
  agree E e0 p0
    (if sk then
       match ig with
       | Some r => match nth_error g r with
                   | Some ([], b) => match PEG n [] b q with
                                     | Fuel => Fuel | Raise => Raise
                                     | Fails => Match v q
                                     | Match _ q' => Match v q' end
                   | _ => Raise end
       | None => Match v q end
     else Match v q)
    (if sk then
       match ig with
       | Some r => bind match nth_error g r with
                        | Some ([], b) => EXEC n b (fresh q)
                        | Some (_ :: _, _) => Stuck 20
                        | None => Stuck 1 end
                        (fun s1 : st => Done (upd s true v (pos s1)))
       | None => Done (upd s true v q) end
     else Done (upd s true v q)).
Proof.
  intros ig Hig sk q v E e0 p0 s HS. destruct sk; [|cbn; auto].
  destruct ig as [r|]; [|cbn; auto].
  destruct (Hign r (eq_sym Hig)) as (es & Hes). rewrite Hes.
  pose proof (IHn (Skip es) [] [] (fresh q) (Hg r _ _ Hes) scope_nil (sub_nil _)) as H.
  unfold agree in H. cbn [pos fresh] in H.
  destruct (EXEC n (Skip es) (fresh q)) as [s1| |], (PEG n [] (Skip es) q) as [| | |v' q']; try contradiction; cbn; auto.
  - destruct H as (_ & A & _). discriminate.
  - destruct H as (A & B & C & D). auto.
Qed.
Definition after_ok n IHn := after_ok_gen n IHn ignored eq_refl.

Fixpoint members_always (ms : list (option nat * bool * expr)) : bool :=
  match ms with [] => true | (_, _, e) :: l' => always e && members_always l' end.

Lemma lookup_all_app xs ys L : lookup_all (xs ++ ys) L =
  match lookup_all xs L, lookup_all ys L with Some a, Some b => Some (a ++ b) | _, _ => None end.
Proof.
  induction xs as [|x xs IH]; cbn; [destruct (lookup_all ys L); auto|].
  rewrite IH. destruct (lookup x L), (lookup_all xs L), (lookup_all ys L); auto.
Qed.
Lemma lookup_all_rev E L fields acc : sub E L ->
  Forall2 (fun x v => lookup x E = Some v) fields acc ->
  lookup_all (rev fields) L = Some (rev acc).
Proof.
  intros HS H. induction H as [|x v fs vs Hx Hr IH]; [reflexivity|].
  cbn [rev]. rewrite lookup_all_app, IH. cbn. rewrite (HS _ _ Hx). reflexivity.
Qed.
Lemma Forall2_weaken_env x w sc E fields acc :
  scope_of sc E -> ~ In x sc ->
  Forall2 (fun y v => lookup y E = Some v) fields acc ->
  Forall2 (fun y v => lookup y ((x, w) :: E) = Some v) fields acc.
Proof.
  intros Hsc Hx H. induction H as [|y v fs vs Hy Hr IH]; constructor; auto.
  cbn. destruct (Nat.eqb_spec y x) as [->|]; auto. exfalso. apply Hx. eapply scope_in; eauto.
Qed.

Lemma class_ok n (IHn : IHT n) : forall cls start ms sc E s acc fields,
  (fix go (sc : list nat) (ms : list (option nat * bool * expr)) : Prop :=
     match ms with
     | [] => True
     | (name, _, e) :: ms' =>
         wf sc e /\ match name with
                    | Some x => ~ In x sc /\ go (x :: sc) ms'
                    | None => go sc ms' end
     end) sc ms ->
  scope_of sc E -> sub E (locals s) ->
  Forall2 (fun x v => lookup x E = Some v) fields acc ->
  forall E0 sc0, scope_of sc0 E0 -> (forall L, sub E L -> sub E0 L) ->
  match class_spec (PEG n) cls start ms E (pos s) acc, class_loop (EXEC n) cls start ms s fields with
  | Fuel, OutOfFuel => True
  | Raise, _ => True
  | Match v p', Done s' => (status s = true \/ ms <> [] -> status s' = true) /\ result s' = v /\ pos s' = p'
                           /\ sub E0 (locals s')
  | Fails, Done s' => status s' = false /\ members_always ms = false /\ sub E0 (locals s')
  | _, _ => False end.
Proof.
  induction ms as [|[[name isf] e] ms IHms]; intros sc E s acc fields Hwf Hsc HS Hf E0 sc0 Hsc0 Hdown;
    cbn [class_spec class_loop].
  - rewrite (lookup_all_rev E (locals s) fields acc HS Hf). cbn. repeat split; auto.
    intros [H|H]; [exact H|congruence].
  - destruct Hwf as (Hwe & Hrest).
    pose proof (IHn e sc E s Hwe Hsc HS) as H. unfold agree in H.
    destruct (PEG n E e (pos s)) as [| | |v p'], (EXEC n e s) as [s1| |]; try contradiction; cbn [bind]; auto.
    + destruct H as (A & B & C & D). cbn [members_always]. rewrite A, B. cbn. repeat split; auto.
    + destruct H as (A & B & C & D). rewrite A, orb_true_r. subst v p'. cbn [members_always].
      destruct name as [x|].
      * destruct Hrest as (Hx & Hrest).
        assert (Hf' : Forall2 (fun y v => lookup y ((x, result s1) :: E) = Some v)
                        (match field_name (Some x) isf with Some x0 => x0 :: fields | None => fields end)
                        (match field_name (Some x) isf with Some _ => result s1 :: acc | None => acc end)).
        { pose proof (Forall2_weaken_env x (result s1) sc E fields acc Hsc Hx Hf) as Hw.
          cbn [field_name]. destruct isf; [constructor; auto; cbn; now rewrite Nat.eqb_refl | exact Hw]. }
        specialize (IHms (x :: sc) ((x, result s1) :: E) (bindl s1 x (result s1)) _ _ Hrest
                         (scope_cons _ _ _ _ Hsc) (sub_cons _ _ _ _ D) Hf' E0 sc0 Hsc0).
        cbn [pos bindl] in IHms.
        match type of IHms with (?X -> _) => assert (HX : X) end.
        { intros L HL. apply Hdown. eapply sub_drop; eauto. }
        specialize (IHms HX).
        destruct (class_loop (EXEC n) cls start ms (bindl s1 x (result s1)) _),
                 (class_spec (PEG n) cls start ms ((x, result s1) :: E) (pos s1) _) as [| | |v p']; auto.
        all: try (destruct IHms as (I1 & I2 & I3 & I4); repeat split; auto; intros _; apply I1; left; exact A).
        all: try (destruct IHms as (I1 & I2 & I3); repeat split; auto; rewrite I2; apply andb_false_r).
      * cbn [field_name].
        specialize (IHms sc E s1 acc fields Hrest Hsc D Hf E0 sc0 Hsc0 Hdown).
        destruct (class_loop (EXEC n) cls start ms s1 _),
                 (class_spec (PEG n) cls start ms E (pos s1) _) as [| | |v p']; auto.
        all: try (destruct IHms as (I1 & I2 & I3 & I4); repeat split; auto; intros _; apply I1; left; exact A).
        all: try (destruct IHms as (I1 & I2 & I3); repeat split; auto; rewrite I2; apply andb_false_r).
Qed.

Lemma bval_sub E s b x : sub E (locals s) -> bound_val E b = Some x -> bval s b = Some x.
Proof.
  intros HS. destruct b as [|m|y]; cbn; auto.
  destruct (lookup y E) as [[]|] eqn:El; try discriminate.
  intros H. rewrite (HS _ _ El). exact H.
Qed.
Ltac look HS x E :=
  let w := fresh "w" in let Ex := fresh "Ex" in
  destruct (lookup x E) as [w|] eqn:Ex; cbn; [rewrite (HS _ _ Ex); cbn | discriminate].

Lemma eval_py_sub E L p v : sub E L -> eval_py E p = Some v -> eval_py L p = Some v.
Proof.
  intros HS. destruct p as [| | |m|x|f|x y|x]; cbn; auto.
  - look HS x E. destruct (vlen w); try discriminate.
    destruct (lookup y E) as [[]|] eqn:Ey; try discriminate. rewrite (HS _ _ Ey). auto.
  - destruct (lookup x E) as [[]|] eqn:Ex; try discriminate. rewrite (HS _ _ Ex). auto.
Qed.
Lemma apply_fun_sub E L f x v : sub E L -> apply_fun E f x = Some v -> apply_fun L f x = Some v.
Proof.
  intros HS. destruct f as [| | | |y|y| |p a|p|y z|y]; cbn; auto.
  - look HS y E. auto.
  - destruct (vlen x); try discriminate. look HS y E. auto.
  - look HS y E. destruct (vlen w); try discriminate.
    destruct (lookup z E) as [[]|] eqn:Ez; try discriminate. rewrite (HS _ _ Ez). auto.
Qed.

(* ---- template calls ---- *)
Lemma lookup_all_sub E L : sub E L -> forall xs vs, lookup_all xs E = Some vs -> lookup_all xs L = Some vs.
Proof.
  intros HS. induction xs as [|x xs IH]; intros vs H; cbn in *; auto.
  destruct (lookup x E) as [v|] eqn:Ex; [|discriminate]. rewrite (HS _ _ Ex).
  destruct (lookup_all xs E) as [r|]; [|discriminate]. rewrite (IH r eq_refl). exact H.
Qed.
Lemma eval_arg_sub E L a v : sub E L -> eval_arg E a = Some v -> eval_arg L a = Some v.
Proof.
  intros HS. destruct a as [r|x|py|sl sk|fid fv]; cbn; auto.
  - apply eval_py_sub; auto.
  - destruct (lookup_all fv E) as [vals|] eqn:El; [|discriminate]. rewrite (lookup_all_sub E L HS _ _ El). auto.
Qed.
Lemma bind_args_sub E L : sub E L -> forall args ps acc en,
  bind_args E ps args acc = Some en -> bind_args L ps args acc = Some en.
Proof.
  intros HS. induction args as [|[[k|] a] args IH]; intros ps acc en H; cbn [bind_args] in *; auto.
  - destruct (existsb (Nat.eqb k) ps); [|discriminate].
    destruct (eval_arg E a) as [v|] eqn:Ea; [|discriminate]. rewrite (eval_arg_sub _ _ _ _ HS Ea). apply IH. exact H.
  - destruct ps as [|q ps]; [discriminate|].
    destruct (eval_arg E a) as [v|] eqn:Ea; [|discriminate]. rewrite (eval_arg_sub _ _ _ _ HS Ea). apply IH. exact H.
Qed.
Lemma call_target_sub E L c r : sub E L -> call_target E c = Some r -> call_target L c = Some r.
Proof.
  intros HS. destruct c as [r0|x]; cbn; auto.
  destruct (lookup x E) as [v|] eqn:Ex; [|discriminate]. rewrite (HS _ _ Ex). auto.
Qed.
(* the callee's environment binds exactly the parameters (plus what was accumulated) *)
Lemma bind_args_dom L : forall args ps acc en, bind_args L ps args acc = Some en ->
  forall x, (exists v, lookup x en = Some v) <-> (In x ps \/ exists v, lookup x acc = Some v).
Proof using.
  clear Hg Hfuns Hign g funs ignored t rx.
  induction args as [|[[k|] a] args IH]; intros ps acc en H x; cbn [bind_args] in H.
  - destruct ps; [|discriminate]. inversion H; subst. cbn. tauto.
  - destruct (existsb (Nat.eqb k) ps) eqn:Ek; [|discriminate].
    destruct (eval_arg L a) as [v|]; [|discriminate].
    rewrite (IH _ _ _ H x). cbn [lookup]. rewrite filter_In.
    apply existsb_exists in Ek. destruct Ek as (k' & Hin & Hk'). apply Nat.eqb_eq in Hk'. subst k'.
    destruct (Nat.eqb_spec x k) as [->|Hne].
    + split; [intros _; left; exact Hin | intros _; right; eauto].
    + split.
      * intros [(Hx & _)|Hx]; auto.
      * intros [Hx|Hx]; [left; split; auto; apply negb_true_iff, Nat.eqb_neq; auto | right; exact Hx].
  - destruct ps as [|q ps]; [discriminate|]. destruct (eval_arg L a) as [v|]; [|discriminate].
    rewrite (IH _ _ _ H x). cbn [lookup In].
    destruct (Nat.eqb_spec x q) as [->|Hne].
    + split; [intros _; left; left; reflexivity | intros _; right; eauto].
    + split; [intros [Hx|Hx]; auto | intros [[Hx|Hx]|Hx]; auto; congruence].
Qed.
Lemma scope_of_bind_args L ps args en : bind_args L ps args [] = Some en -> scope_of ps en.
Proof using.
  intros H x. rewrite (bind_args_dom L args ps [] en H x). cbn. split; [auto|]. intros [Hx|(v & Hv)]; [auto|discriminate].
Qed.
Lemma scope_of_combine : forall ps (vs : list value), length ps = length vs -> scope_of ps (combine ps vs).
Proof.
  induction ps as [|q ps IH]; intros [|v vs] Hl; cbn in Hl; try discriminate.
  - intros x. cbn. split; [intros []|intros (w & Hw); discriminate].
  - intros x. cbn [In combine lookup]. destruct (Nat.eqb_spec x q) as [->|Hne].
    + split; eauto.
    + rewrite <- (IH vs ltac:(congruence) x). split; [intros [Hq|Hq]; [congruence|auto] | auto].
Qed.
Lemma sub_refl E : sub E E.
Proof. intros x v H. exact H. Qed.

Theorem exec_refines_peg : forall n, IHT n.
Proof.
  induction n as [|n IHn]; intros e sc E s Hwf Hsc HS; [exact I|].
  pose proof (fun e0 s0 HW HL => IHn e0 sc E s0 HW Hsc HL) as IHl.
  destruct e as [v sk|id sk|b sk|r|es|a b dl|es|e|e mn mx|e|e|es|es|k| |e sp discard trailer ae rs
                 |py|a b al|e pred|x sh a body|cls ms|pre opd post inf|x|callee args]; cbn [peg exec].
  - (* Str *) destruct v as [|c v]; [cbn; auto|].
    destruct (prefix_at (c :: v) t (pos s)); [apply after_ok; auto | cbn; auto].
  - (* Rx *) destruct (rx id (pos s)); [apply after_ok; auto | cbn; auto].
  - (* Byte *) destruct (nth_error t (pos s)) as [c|]; [|cbn; auto].
    destruct (Nat.eqb c b); [apply after_ok; auto | cbn; auto].
  - (* Ref *) destruct (nth_error g r) as [[[|p0 ps] bd]|] eqn:Er; try exact I.
    pose proof (IHn bd [] [] (fresh (pos s)) (Hg r _ bd Er) scope_nil (sub_nil _)) as H. unfold agree in *. cbn [pos fresh] in H.
    destruct (PEG n [] bd (pos s)) as [| | |v p'], (EXEC n bd (fresh (pos s))) as [c| |]; try contradiction; cbn; auto.
    + destruct H as (A & _). repeat split; auto. intros; discriminate.
    + destruct H as (A & B & C & _). auto.
  - (* Seq *) cbn [wf] in Hwf. pose proof Hwf as Hall. apply all_Forall in Hall.
    destruct es as [|e0 es0]; [cbn; repeat split; auto|].
    assert (Hne : e0 :: es0 <> []) by discriminate. set (es := e0 :: es0) in *.
    change (agree E (Seq es) (pos s) (seq_spec (PEG n E) es (pos s) []) (seq_loop (EXEC n) es s [])).
    pose proof (seq_ok (PEG n E) (EXEC n) E (wf sc) IHl es s [] Hall HS) as H. unfold agree.
    destruct (seq_loop (EXEC n) es s []), (seq_spec (PEG n E) es (pos s) []) as [| | |v p']; auto.
    + destruct H as (A & B). repeat split; auto. cbn. discriminate.
    + destruct H as (A & B & C & D). repeat split; auto.
  - (* Discard *) cbn [wf] in Hwf. destruct Hwf as (Hwa & Hwb). unfold agree. cbn [always partial].
    destruct (IH_cases (PEG n E) (EXEC n) E (wf sc) IHl a s Hwa HS) as
      [(Hp & He)|[Hp|[(v & p' & s1 & Hp & He & H1 & H2 & H3 & H4)|(s1 & Hp & He & H1 & H2 & H3 & H4)]]];
      rewrite ?Hp, ?He; cbn [bind]; auto.
    + replace (always a || status s1) with true by (rewrite H1, orb_true_r; auto). subst v p'.
      destruct (IH_cases (PEG n E) (EXEC n) E (wf sc) IHl b s1 Hwb H4) as
        [(Hq & Hf)|[Hq|[(v2 & p2 & s2 & Hq & Hf & J1 & J2 & J3 & J4)|(s2 & Hq & Hf & J1 & J2 & J3 & J4)]]];
        rewrite ?Hq; cbn [bind]; auto.
      * destruct dl; rewrite Hf; cbn; auto.
      * destruct dl; rewrite Hf; cbn [bind].
        -- subst. auto.
        -- replace (always b || status s2) with true by (rewrite J1, orb_true_r; auto). cbn. subst. auto.
      * destruct dl; rewrite Hf; cbn [bind].
        -- repeat split; auto; rewrite J2, andb_false_r; auto; cbn; discriminate.
        -- replace (always b || status s2) with false by (rewrite J1, J2; auto).
           repeat split; auto; rewrite J2, andb_false_r; auto; cbn; discriminate.
    + replace (always a || status s1) with false by (rewrite H1, H2; auto).
      repeat split; auto; rewrite H2; auto; cbn; discriminate.
  - (* Choice *) cbn [wf] in Hwf. destruct Hwf as (Hne & Hall). apply all_Forall in Hall.
    pose proof (choice_ok (PEG n E) (EXEC n) E (wf sc) IHl es (negb (existsb always es)) (pos s)
                          (existsb part es) s (pos s) (VErr 4) Hall HS eq_refl) as H.
    unfold agree.
    match type of H with (?A -> ?B -> ?C -> _) => assert (HA : A); [|assert (HB : B); [|assert (HC : C)]] end.
    { destruct (existsb always es); cbn; auto; try discriminate. }
    { auto. } { auto. }
    specialize (H HA HB HC).
    destruct (choice_loop true (EXEC n) _ _ es s _ _), (choice_spec (PEG n E) es (pos s)) as [| | |v p']; auto.
    destruct H as (A & B & C & D); [left; exact Hne|].
    cbn [always partial]. rewrite B. cbn [negb andb]. repeat split; auto.
  - (* Opt *) cbn [wf] in Hwf. unfold agree.
    destruct (IH_cases (PEG n E) (EXEC n) E (wf sc) IHl e s Hwf HS) as
      [(Hp & He)|[Hp|[(v & p' & s1 & Hp & He & H1 & H2 & H3 & H4)|(s1 & Hp & He & H1 & H2 & H3 & H4)]]];
      rewrite ?Hp, ?He; cbn [bind]; auto.
    + rewrite H1, orb_true_r. auto.
    + rewrite H1, H2. cbn. auto.
  - (* Rep *) cbn [wf] in Hwf. pose proof Hwf as Hwe.
    assert (Hgen : forall mnv mxv, bound_val E mn = Some mnv -> bound_val E mx = Some mxv ->
              agree E (Rep e mn mx) (pos s)
                    (if bounds_conflict mnv mxv
                     then match rep_spec (PEG n E) n e mnv mxv (pos s) [] with Match _ _ => Fails | other => other end
                     else rep_spec (PEG n E) n e mnv mxv (pos s) [])
                    (rep_loop true (EXEC n) n e mn mnv mxv s [])).
    { intros mnv mxv Emn Emx.
      destruct (bounds_conflict mnv mxv) eqn:Ebc.
      { (* lower bound above the upper bound (run-time values): the list fails *)
        destruct mxv as [m|]; [|discriminate]. cbn in Ebc. apply Nat.ltb_lt in Ebc.
        assert (Hz : mn_zero mn = false).
        { destruct mn as [|[|a]|x]; cbn in *; auto; inversion Emn; subst; cbn in Ebc; lia. }
        pose proof (rep_conflict_ok (PEG n E) (EXEC n) E (wf sc) IHl n e mn mnv m s [] Hwe HS Ebc Hz ltac:(cbn; lia)) as H.
        unfold agree.
        destruct (rep_loop true (EXEC n) n e mn mnv (Some m) s []), (rep_spec (PEG n E) n e mnv (Some m) (pos s) []) as [| | |v p']; auto;
          destruct H as (A & B & C); cbn [always partial]; rewrite Hz; repeat split; auto;
          cbn [negb andb]; destruct mn as [|[|[|a]]|x]; cbn [mn_one]; try discriminate;
          intros Hpe; apply C; auto; cbn in Emn; inversion Emn; subst; cbn; lia. }
      assert (Hmm : forall m, mxv = Some m -> mnv0 mnv <= m).
      { intros m ->. cbn in Ebc. apply Nat.ltb_ge in Ebc. exact Ebc. }
      assert (Hz : mn_zero mn = true -> mnv0 mnv = 0).
      { destruct mn as [|[|a]|x]; cbn in *; try discriminate; intros _; inversion Emn; reflexivity. }
      pose proof (rep_ok (PEG n E) (EXEC n) E (wf sc) IHl n e mn mnv mxv s [] Hwe HS Hmm Hz) as H. unfold agree.
      destruct (rep_loop true (EXEC n) n e mn mnv mxv s []), (rep_spec (PEG n E) n e mnv mxv (pos s) []) as [| | |v p']; auto.
      destruct H as (A & B & C & D & F). cbn [always partial]. rewrite B. repeat split; auto.
      cbn [negb andb]. destruct mn as [|[|[|a]]|x]; cbn [mn_one]; try discriminate.
      intros Hpe. apply F; auto. cbn in Emn. inversion Emn; subst. cbn. lia. }
    destruct mx as [|[|m]|y].
    + destruct (bound_val E mn) as [mnv|] eqn:Emn; [|exact I].
      destruct (bound_val E BNone) as [mxv|] eqn:Emx; [|exact I].
      rewrite (bval_sub _ _ _ _ HS Emn), (bval_sub _ _ _ _ HS Emx). apply Hgen; auto.
    + cbn. auto.
    + destruct (bound_val E mn) as [mnv|] eqn:Emn; [|exact I].
      destruct (bound_val E (BLit (S m))) as [mxv|] eqn:Emx; [|exact I].
      rewrite (bval_sub _ _ _ _ HS Emn), (bval_sub _ _ _ _ HS Emx). apply Hgen; auto.
    + destruct (bound_val E mn) as [mnv|] eqn:Emn; [|exact I].
      destruct (bound_val E (BVar y)) as [mxv|] eqn:Emx; [|exact I].
      rewrite (bval_sub _ _ _ _ HS Emn), (bval_sub _ _ _ _ HS Emx). apply Hgen; auto.
  - (* Expect *) cbn [wf] in Hwf. unfold agree. cbn [always partial].
    destruct (IH_cases (PEG n E) (EXEC n) E (wf sc) IHl e s Hwf HS) as
      [(Hp & He)|[Hp|[(v & p' & s1 & Hp & He & H1 & H2 & H3 & H4)|(s1 & Hp & He & H1 & H2 & H3 & H4)]]];
      rewrite ?Hp, ?He; cbn [bind]; auto.
    + rewrite H1, orb_true_r. cbn. auto.
    + rewrite H1, H2. cbn. auto.
  - (* ExpectNot *) cbn [wf] in Hwf. unfold agree. cbn [always partial].
    destruct (IH_cases (PEG n E) (EXEC n) E (wf sc) IHl e s Hwf HS) as
      [(Hp & He)|[Hp|[(v & p' & s1 & Hp & He & H1 & H2 & H3 & H4)|(s1 & Hp & He & H1 & H2 & H3 & H4)]]];
      rewrite ?Hp, ?He; cbn [bind]; auto.
    + rewrite H1. cbn. repeat split; auto; discriminate.
    + rewrite H1. cbn. auto.
  - (* Skip *) cbn [wf] in Hwf. apply all_Forall in Hwf.
    pose proof (skip_ok (PEG n E) (EXEC n) E (wf sc) IHl n es s Hwf HS) as H. unfold agree.
    destruct (skip_loop true (EXEC n) n es s), (skip_spec (PEG n E) n es (pos s)) as [| | |v p']; auto; try contradiction.
  - (* Longest *) cbn [wf] in Hwf. destruct Hwf as (Hne & Hall). apply all_Forall in Hall.
    destruct es as [|e1 [|e2 es]]; [congruence| |].
    + inversion Hall as [|? ? Hw1 _]; subst. cbn [longest_spec].
      unfold agree. cbn [always partial existsb]. rewrite !orb_false_r.
      destruct (IH_cases (PEG n E) (EXEC n) E (wf sc) IHl e1 s Hw1 HS) as
        [(Hp & He)|[Hp|[(v & p' & s1 & Hp & He & H1 & H2 & H3 & H4)|(s1 & Hp & He & H1 & H2 & H3 & H4)]]];
        rewrite ?Hp, ?He; cbn [bind]; auto.
      repeat split; auto. intros Hpar. apply H3. rewrite H2 in Hpar. cbn in Hpar. exact Hpar.
    + pose proof (longest_ok (PEG n E) (EXEC n) E (wf sc) IHl (e1 :: e2 :: es) (negb (existsb always (e1 :: e2 :: es))) (pos s)
                             (existsb part (e1 :: e2 :: es)) true s false VNone (pos s) (VErr 6) (pos s) None Hall HS) as H.
      unfold agree.
      match type of H with (?A -> ?B -> ?C -> ?D -> ?E0 -> ?F -> ?G -> _) =>
        assert (HA : A) by auto; assert (HB : B) by auto; assert (HC : C);
        [|assert (HD : D) by auto; assert (HE : E0) by auto; assert (HF : F) by (intros; discriminate);
          assert (HG : G) by (intros; discriminate)] end.
      { intros Hx. left. destruct (existsb always (e1 :: e2 :: es)); auto; discriminate. }
      specialize (H HA HB HC HD HE HF HG).
      destruct (longest_loop (EXEC n) _ _ _ _ s _ _ _ _ _),
               (longest_spec (PEG n E) (e1 :: e2 :: es) (pos s) None) as [| | |v p'] eqn:EL; auto.
      destruct H as (A & B & C).
      assert (Hal : existsb always (e1 :: e2 :: es) = false).
      { pose proof (longest_fail_all (PEG n E) (e1 :: e2 :: es) (pos s) EL) as Hf.
        clear - Hf Hall IHl HS. induction Hf as [|x l Hx Hl IHf]; [reflexivity|].
        inversion Hall as [|? ? Hwx Hwl]; subst. cbn [existsb].
        rewrite (fail_not_always (PEG n E) (EXEC n) E (wf sc) IHl x s Hwx HS Hx). cbn. apply IHf; auto. }
      cbn [always partial]. rewrite Hal. cbn [negb andb]. repeat split; auto.
  - (* Backtrack *) unfold agree. destruct (k <=? pos s); cbn; auto.
  - (* Fail *) cbn. auto.
  - (* Sep *) cbn [wf] in Hwf. destruct Hwf as (Hwe & Hws).
    pose proof (sep_ok (PEG n E) (EXEC n) E (wf sc) IHl n e sp discard trailer ae rs s [] (pos s) false false
                       Hwe Hws HS (fun _ => eq_refl)) as H.
    unfold agree.
    destruct (sep_loop (EXEC n) n e sp discard trailer ae rs s [] (pos s) false) as [s'| |],
             (sep_spec (PEG n E) n e sp (negb discard) trailer (pos s) [] (pos s) false) as [| |acc cp saw];
      auto; try contradiction.
    destruct (sep_final ae rs acc cp saw) as [| | |v q] eqn:Ef; auto; try contradiction.
    cbn [always partial].
    assert (Hal : ae && negb rs = false).
    { unfold sep_final in Ef. destruct ae, rs; cbn in *; auto; discriminate. }
    rewrite Hal. destruct H as (A & B). repeat split; auto. cbn. discriminate.
  - (* Py *) destruct (eval_py E py) as [v|] eqn:Ep; [|exact I].
    rewrite (eval_py_sub _ _ _ _ HS Ep). cbn. auto.
  - (* Apply *) cbn [wf] in Hwf. destruct Hwf as (Hwa & Hwb). unfold agree. cbn [always partial].
    destruct (IH_cases (PEG n E) (EXEC n) E (wf sc) IHl a s Hwa HS) as
      [(Hp & He)|[Hp|[(v & p' & s1 & Hp & He & H1 & H2 & H3 & H4)|(s1 & Hp & He & H1 & H2 & H3 & H4)]]];
      rewrite ?Hp, ?He; cbn [bind]; auto.
    + replace (always a || status s1) with true by (rewrite H1, orb_true_r; auto). subst v p'.
      destruct (IH_cases (PEG n E) (EXEC n) E (wf sc) IHl b s1 Hwb H4) as
        [(Hq & Hf)|[Hq|[(v2 & p2 & s2 & Hq & Hf & J1 & J2 & J3 & J4)|(s2 & Hq & Hf & J1 & J2 & J3 & J4)]]];
        rewrite ?Hq, ?Hf; cbn [bind]; auto.
      * replace (always b || status s2) with true by (rewrite J1, orb_true_r; auto). subst v2 p2.
        destruct al.
        -- destruct (result s1) as [| | | | | | | |fn| | | |]; try exact I.
           destruct (apply_fun E fn (result s2)) as [w|] eqn:Ea; [|exact I].
           rewrite (apply_fun_sub _ _ _ _ _ J4 Ea). cbn. auto.
        -- destruct (result s2) as [| | | | | | | |fn| | | |]; try exact I.
           destruct (apply_fun E fn (result s1)) as [w|] eqn:Ea; [|exact I].
           rewrite (apply_fun_sub _ _ _ _ _ J4 Ea). cbn. auto.
      * replace (always b || status s2) with false by (rewrite J1, J2; auto).
        repeat split; auto; rewrite J2, andb_false_r; auto; cbn; discriminate.
    + replace (always a || status s1) with false by (rewrite H1, H2; auto).
      repeat split; auto; rewrite H2; auto; cbn; discriminate.
  - (* Where *) cbn [wf] in Hwf. destruct Hwf as (Hwa & Hwb). unfold agree. cbn [always partial].
    destruct (IH_cases (PEG n E) (EXEC n) E (wf sc) IHl e s Hwa HS) as
      [(Hp & He)|[Hp|[(v & p' & s1 & Hp & He & H1 & H2 & H3 & H4)|(s1 & Hp & He & H1 & H2 & H3 & H4)]]];
      rewrite ?Hp, ?He; cbn [bind]; auto.
    + replace (always e || status s1) with true by (rewrite H1, orb_true_r; auto). subst v p'.
      destruct (IH_cases (PEG n E) (EXEC n) E (wf sc) IHl pred s1 Hwb H4) as
        [(Hq & Hf)|[Hq|[(v2 & p2 & s2 & Hq & Hf & J1 & J2 & J3 & J4)|(s2 & Hq & Hf & J1 & J2 & J3 & J4)]]];
        rewrite ?Hq, ?Hf; cbn [bind]; auto.
      * replace (always pred || status s2) with true by (rewrite J1, orb_true_r; auto). subst v2 p2.
        destruct (result s2) as [| | | | | | | |fn| | | |]; try exact I.
        destruct (apply_fun E fn (result s1)) as [w|] eqn:Ea; [|exact I].
        rewrite (apply_fun_sub _ _ _ _ _ J4 Ea).
        destruct (truthy w); cbn; repeat split; auto; discriminate.
      * replace (always pred || status s2) with false by (rewrite J1, J2; auto).
        repeat split; auto; discriminate.
    + replace (always e || status s1) with false by (rewrite H1, H2; auto).
      repeat split; auto; discriminate.
  - (* Let *) cbn [wf] in Hwf. destruct Hwf as (Hx & Hwa & Hwb). unfold agree. cbn [always partial].
    destruct (IH_cases (PEG n E) (EXEC n) E (wf sc) IHl a s Hwa HS) as
      [(Hp & He)|[Hp|[(v & p' & s1 & Hp & He & H1 & H2 & H3 & H4)|(s1 & Hp & He & H1 & H2 & H3 & H4)]]];
      rewrite ?Hp, ?He; cbn [bind]; auto.
    + replace (always a || status s1) with true by (rewrite H1, orb_true_r; auto). subst v p'.
      pose proof (IHn body (x :: sc) ((x, result s1) :: E) (bindl s1 x (result s1)) Hwb
                      (scope_cons _ _ _ _ Hsc) (sub_cons _ _ _ _ H4)) as H.
      cbn [pos bindl] in H. unfold agree in H.
      (* what the epilogue of the let does to the locals *)
      assert (Hrest : forall s2, sub ((x, result s1) :: E) (locals s2) ->
                exists s3, (if sh then match lookup x (locals s1) with
                                       | Some old => Done (bindl s2 x old) | None => Stuck 31 end
                            else Done s2) = Done s3
                           /\ status s3 = status s2 /\ result s3 = result s2 /\ pos s3 = pos s2
                           /\ sub E (locals s3)).
      { intros s2 Hs2. destruct sh.
        - destruct (proj1 (Hsc x) (proj1 Hx eq_refl)) as (old & Hold).
          rewrite (H4 _ _ Hold). exists (bindl s2 x old). repeat split; auto.
          cbn [locals bindl]. eapply sub_restore; eauto.
        - exists s2. repeat split; auto. eapply sub_drop; eauto.
          intros Hin. apply Hx in Hin. discriminate. }
      destruct (PEG n ((x, result s1) :: E) body (pos s1)) as [| | |v p'],
               (EXEC n body (bindl s1 x (result s1))) as [s2| |]; cbn [bind]; try contradiction; try exact I.
      * (* Fails *) destruct H as (A & B & C & D). destruct (Hrest s2 D) as (s3 & E3 & R1 & R2 & R3 & R4). rewrite E3.
        rewrite R1, R3. repeat split; auto.
        -- rewrite B, andb_false_r. auto.
        -- rewrite B, andb_false_r. cbn. discriminate.
      * (* Match *) destruct H as (A & B & C & D). destruct (Hrest s2 D) as (s3 & E3 & R1 & R2 & R3 & R4). rewrite E3.
        rewrite R1, R2, R3. repeat split; auto.
    + replace (always a || status s1) with false by (rewrite H1, H2; auto).
      repeat split; auto; rewrite H2; auto; cbn; discriminate.
  - (* Class *) cbn [wf] in Hwf.
    destruct ms as [|m0 ms0]; [cbn; repeat split; auto|].
    assert (Hne : m0 :: ms0 <> []) by discriminate. set (ms := m0 :: ms0) in *.
    change (agree E (Class cls ms) (pos s) (class_spec (PEG n) cls (pos s) ms E (pos s) [])
                  (class_loop (EXEC n) cls (pos s) ms s [])).
    pose proof (class_ok n IHn cls (pos s) ms sc E s [] [] Hwf Hsc HS (Forall2_nil _) E sc Hsc (fun L HL => HL)) as H.
    unfold agree.
    change (always (Class cls ms)) with (members_always ms).
    change (part (Class cls ms)) with (negb (members_always ms)).
    destruct (class_loop (EXEC n) cls (pos s) ms s []), (class_spec (PEG n) cls (pos s) ms E (pos s) []) as [| | |v p']; auto.
    + destruct H as (A & B & C). rewrite B. repeat split; auto. cbn. discriminate.
    + destruct H as (A & B & C & D). repeat split; auto.
  - (* OpTable: specified separately *) exact I.
  - (* RefL: a name that holds a parser *)
    destruct (lookup x E) as [v|] eqn:Ex; [|exact I]. rewrite (HS _ _ Ex).
    assert (Hret : forall b0 E0 sc0 s0, wf sc0 b0 -> scope_of sc0 E0 -> sub E0 (locals s0) -> pos s0 = pos s ->
              agree E (RefL x) (pos s) (PEG n E0 b0 (pos s))
                    (bind (EXEC n b0 s0) (fun c => Done (upd s (status c) (result c) (pos c))))).
    { intros b0 E0 sc0 s0 Hw0 Hsc0 HS0 Hp0.
      pose proof (IHn b0 sc0 E0 s0 Hw0 Hsc0 HS0) as H. rewrite Hp0 in H. unfold agree in *.
      destruct (PEG n E0 b0 (pos s)) as [| | |v0 p0], (EXEC n b0 s0) as [c| |]; try contradiction; cbn [bind]; auto.
      - destruct H as (A & _). cbn. repeat split; auto. discriminate.
      - destruct H as (A & B & C & _). cbn. auto. }
    destruct v as [| | | | | | | | |sl sk|r|fid given|]; try exact I.
    + (* a literal that is also a parser *)
      apply (Hret (Str sl sk) [] [] (fresh (pos s))); cbn; auto using scope_nil, sub_nil.
    + (* a rule *)
      destruct (nth_error g r) as [[[|q0 qs] bd]|] eqn:Er; try exact I.
      apply (Hret bd [] [] (fresh (pos s))); cbn; auto using scope_nil, sub_nil. eapply Hg; eauto.
    + (* a lifted argument expression with its captured values *)
      destruct (nth_error funs fid) as [[ps bd]|] eqn:Ef; [|exact I].
      destruct (Nat.eqb_spec (length ps) (length given)) as [Hl|Hl]; [|exact I].
      apply (Hret bd (combine ps given) ps (mk0 false VNone (pos s) (combine ps given))); cbn; auto using sub_refl.
      * eapply Hfuns; eauto.
      * apply scope_of_combine; auto.
  - (* Call *)
    destruct (call_target E callee) as [r|] eqn:Et; [|exact I]. rewrite (call_target_sub _ _ _ _ HS Et).
    destruct (nth_error g r) as [[ps bd]|] eqn:Er; [|exact I].
    destruct (bind_args E ps args []) as [en|] eqn:Eb; [|exact I]. rewrite (bind_args_sub _ _ HS _ _ _ _ Eb).
    pose proof (IHn bd ps en (mk0 false VNone (pos s) en) (Hg r ps bd Er)
                    (scope_of_bind_args _ _ _ _ Eb) (sub_refl en)) as H.
    cbn [pos] in H. unfold agree in *.
    destruct (PEG n en bd (pos s)) as [| | |v0 p0], (EXEC n bd (mk0 false VNone (pos s) en)) as [c| |];
      try contradiction; cbn [bind]; auto.
    + destruct H as (A & _). cbn. repeat split; auto. discriminate.
    + destruct H as (A & B & C & _). cbn. auto.
Qed.
End Main.
