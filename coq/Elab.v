(* C19: _create_parsing_expression
   (translator.py:305-464) as a function from syntax trees (the node classes of
   sourcer/parser.py after the bottom-up transform) to expressions; the
   documented alternative spellings elaborate to EQUAL expressions (C19_sugar). *)
From Coq Require Import List Arith Bool Lia String.
Import ListNotations.
Open Scope string_scope.

(* expressions, as far as elaboration is concerned *)
Inductive bound := BNone | BLit (n : nat) | BName (x : string).
Inductive expr :=
| EStr (s : string) | ERegex (pat : string) (ci : bool) | ERef (name : string) | EPy (src : string)
| ESeq (es : list expr) | EChoice (es : list expr)
| EOpt (e : expr) | EList (e : expr) (mn mx : bound)
| EDiscard (a b : expr) (discard_left : bool)
| ESep (e s : expr) (discard trailer allow_empty reqsep : bool)
| EApply (a b : expr) (apply_left : bool) | EWhere (e p : expr)
| ECall (f : expr) (args : list (option string * expr))
| EBad.                                                  (* elaboration raises *)

(* syntax after the children have been transformed: operands are expressions *)
Inductive arg := Pos (e : expr) | Kw (name : string) (e : expr).
Inductive syntax :=
| SPostfix (left : expr) (op : string)                   (* e? e* e+ *)
| SRepeat (left : expr) (start stop : option expr)       (* e{a,b} with the Repeat node's fields *)
| SInfix (left : expr) (op : string) (right : expr)      (* | >> << // /? |> <| where *)
| SList (elements : list expr)                           (* [a, b] *)
| SCall (left : expr) (args : list arg).                 (* f(args), constructor form included *)

Definition uncook (x : option expr) : option bound :=
  match x with
  | None => Some BNone
  | Some (EPy "None") => Some BNone
  | Some (EPy src) => Some (match src with
                            | "0" => BLit 0 | "1" => BLit 1 | "2" => BLit 2 | "3" => BLit 3
                            | _ => BName src end)
  | Some (ERef n) => Some (BName n)
  | Some _ => None
  end.

Definition flat (e : expr) : list expr := match e with EChoice es => es | _ => [e] end.

(* option values of the constructor form: inline Python operands are eval()-ed *)
Definition as_bool (e : expr) : option bool :=
  match e with EPy "True" => Some true | EPy "False" => Some false | _ => None end.
Definition as_bound (e : expr) : option bound := uncook (Some e).
Fixpoint kw_lookup (k : string) (args : list arg) : option expr :=
  match args with
  | [] => None
  | Kw n e :: rest => if String.eqb n k then Some e else kw_lookup k rest
  | Pos _ :: rest => kw_lookup k rest
  end.
Definition positional (args : list arg) : list expr :=
  flat_map (fun a => match a with Pos e => [e] | Kw _ _ => [] end) args.
Definition kwb (k : string) (dflt : bool) (args : list arg) : option bool :=
  match kw_lookup k args with None => Some dflt | Some e => as_bool e end.

Definition elab (t : syntax) : expr :=
  match t with
  | SPostfix l "?" => EOpt l
  | SPostfix l "*" => EList l BNone BNone
  | SPostfix l "+" => EList l (BLit 1) BNone
  | SPostfix _ _ => EBad
  | SRepeat l a b =>
      match uncook a, uncook b with
      | Some mn, Some mx => EList l mn mx
      | _, _ => EBad
      end
  | SInfix l "|" r => EChoice (flat l ++ flat r)
  | SInfix l "|>" r => EApply l r false
  | SInfix l "<|" r => EApply l r true
  | SInfix l "/?" r => ESep l r true true true false
  | SInfix l "//" r => ESep l r true false true false
  | SInfix l "<<" r => EDiscard l r false
  | SInfix l ">>" r => EDiscard l r true
  | SInfix l "where" r => EWhere l r
  | SInfix _ _ _ => EBad
  | SList es => ESeq es
  | SCall (ERef "Opt") [Pos e] => EOpt e
  | SCall (ERef "List") args =>
      match positional args, kw_lookup "min_len" args, kw_lookup "max_len" args with
      | [e], mn, mx =>
          match (match mn with None => Some BNone | Some x => as_bound x end),
                (match mx with None => Some BNone | Some x => as_bound x end) with
          | Some a, Some b => EList e a b
          | _, _ => EBad end
      | _, _, _ => EBad
      end
  | SCall (ERef "Some") [Pos e] => EList e (BLit 1) BNone
  | SCall (ERef "Right") [Pos a; Pos b] => EDiscard a b true
  | SCall (ERef "Left") [Pos a; Pos b] => EDiscard a b false
  | SCall (ERef "Choice") args => EChoice (positional args)
  | SCall (ERef "Seq") args => ESeq (positional args)
  | SCall (ERef "Sep") args =>
      match positional args, kwb "discard_separators" true args, kwb "allow_trailer" false args,
            kwb "allow_empty" true args, kwb "require_separator" false args with
      | [e; s], Some d, Some tr, Some ae, Some rs =>
          if rs && negb tr then EBad else ESep e s d tr ae rs
      | _, _, _, _, _ => EBad
      end
  | SCall f args => ECall f (map (fun a => match a with Pos e => (None, e) | Kw n e => (Some n, e) end) args)
  end.

(* ---- C19_sugar: each documented pair elaborates to the same expression ---- *)
Section Pairs.
Variables a b : expr.
Hypothesis a_not_choice : forall es, a <> EChoice es.
Hypothesis b_not_choice : forall es, b <> EChoice es.

Lemma opt_pair   : elab (SPostfix a "?") = elab (SCall (ERef "Opt") [Pos a]).           Proof. reflexivity. Qed.
Lemma star_pair  : elab (SPostfix a "*") = elab (SCall (ERef "List") [Pos a]).          Proof. reflexivity. Qed.
Lemma plus_pair  : elab (SPostfix a "+") = elab (SCall (ERef "Some") [Pos a]).          Proof. reflexivity. Qed.
Lemma right_pair : elab (SInfix a ">>" b) = elab (SCall (ERef "Right") [Pos a; Pos b]).  Proof. reflexivity. Qed.
Lemma left_pair  : elab (SInfix a "<<" b) = elab (SCall (ERef "Left") [Pos a; Pos b]).   Proof. reflexivity. Qed.
Lemma seq_pair   : elab (SList [a; b]) = elab (SCall (ERef "Seq") [Pos a; Pos b]).      Proof. reflexivity. Qed.
Lemma sep_pair   : elab (SInfix a "//" b) = elab (SCall (ERef "Sep") [Pos a; Pos b]).    Proof. reflexivity. Qed.
Lemma sept_pair  : elab (SInfix a "/?" b) =
                   elab (SCall (ERef "Sep") [Pos a; Pos b; Kw "allow_trailer" (EPy "True")]). Proof. reflexivity. Qed.
Lemma rep_pair   : elab (SRepeat a (Some (EPy "1")) (Some (EPy "2"))) =
                   elab (SCall (ERef "List") [Pos a; Kw "min_len" (EPy "1"); Kw "max_len" (EPy "2")]).
Proof. reflexivity. Qed.
(* `a | b` flattens nested choices, Choice(a, b) does not: equal when the operands are not choices *)
Lemma choice_pair : elab (SInfix a "|" b) = elab (SCall (ERef "Choice") [Pos a; Pos b]).
Proof.
  cbn. f_equal. destruct a; try reflexivity; try (exfalso; eapply a_not_choice; reflexivity);
  destruct b; try reflexivity; exfalso; eapply b_not_choice; reflexivity.
Qed.
End Pairs.

(* without the side condition the two spellings differ structurally (the PEG meaning is the same: a
   nested ordered choice is an ordered choice) *)
Example choice_nested_differs :
  elab (SInfix (EChoice [EStr "x"; EStr "y"]) "|" (EStr "z")) <>
  elab (SCall (ERef "Choice") [Pos (EChoice [EStr "x"; EStr "y"]); Pos (EStr "z")]).
Proof. cbn. discriminate. Qed.

(* the documented exception: a bare inline-Python operand is read as an option value *)
Example ctor_reads_python_as_option :
  elab (SCall (ERef "Sep") [Pos (EStr "a"); Pos (EStr ","); Kw "allow_empty" (EPy "False")])
  = ESep (EStr "a") (EStr ",") true false false false.
Proof. reflexivity. Qed.
