(* _finalize_parse_info cannot raise
   IndexError on a result whose instances all consumed input and whose spans lie
   inside the text (C08's "no other exception escapes", for the shipped code,
   on the domain where it is true; zero-width instances are D7). *)
From Coq Require Import List Arith Bool Lia ZArith.
Import ListNotations.
Require Import ExcerptModel Model Spec Entry Within.

Fixpoint positive (v : value) : Prop :=
  match v with
  | VList l | VTuple l | VNode _ l =>
      (fix all (l : list value) : Prop := match l with [] => True | x :: l' => positive x /\ all l' end) l
  | VObj _ fs (s, e) =>
      s < e /\ (fix all (l : list value) : Prop := match l with [] => True | x :: l' => positive x /\ all l' end) fs
  | _ => True
  end.
Fixpoint positive_all (l : list value) : Prop := match l with [] => True | x :: l' => positive x /\ positive_all l' end.

Lemma lc_map_length : forall t l c, length (lc_map t l c) = length t.
Proof. induction t as [|x t IH]; intros l c; cbn; auto. destruct (x =? NL); cbn; rewrite IH; auto. Qed.

Lemma fin_pos_some t (i : nat) : i < length t -> exists fp, fin_pos t (Z.of_nat i) = Some fp.
Proof.
  intros H. unfold fin_pos, py_index.
  assert (E : (0 <=? Z.of_nat i)%Z = true) by (apply Z.leb_le; lia). rewrite E. rewrite Nat2Z.id.
  destruct (nth_error (lc_map t 1 0) i) as [[l c]|] eqn:En; [eauto|].
  apply nth_error_None in En. rewrite lc_map_length in En. lia.
Qed.
Lemma fin_pos_some_pred t (e : nat) : 1 <= e -> e <= length t -> exists fp, fin_pos t (Z.of_nat e - 1)%Z = Some fp.
Proof.
  intros H1 H2. replace (Z.of_nat e - 1)%Z with (Z.of_nat (e - 1)) by lia. apply fin_pos_some. lia.
Qed.

Section FL.
Variable t : list nat.
Fixpoint fin_list (l : list value) : option (list fvalue) :=
  match l with
  | [] => Some []
  | x :: l' => match finalize t x, fin_list l' with Some a, Some r => Some (a :: r) | _, _ => None end
  end.
End FL.

Lemma finalize_total_aux t : forall n v lo hi, vsize v <= n -> hi <= length t ->
  within lo hi v -> positive v -> exists fv, finalize t v = Some fv.
Proof.
  induction n as [|n IH]; intros v lo hi Hn Hhi Hw Hp; [destruct v; cbn in Hn; lia|].
  assert (HL : forall l lo hi, lsize l <= n -> hi <= length t -> within_all lo hi l -> positive_all l ->
               exists fl, fin_list t l = Some fl).
  { induction l as [|x l IHl]; intros lo0 hi0 Hl Hh Hwl Hpl; cbn in *; [eauto|].
    destruct Hwl as (W1 & W2). destruct Hpl as (P1 & P2).
    assert (vsize x >= 1) by (destruct x; cbn; lia).
    destruct (IH x lo0 hi0 ltac:(lia) Hh W1 P1) as (a & Ha).
    destruct (IHl lo0 hi0 ltac:(lia) Hh W2 P2) as (r & Hr). rewrite Ha, Hr. eauto. }
  destruct v as [| | | |l|l|c fs [s e]|k l| | | | |]; cbn [finalize]; eauto.
  - change (S (lsize l) <= S n) in Hn. destruct (HL l lo hi ltac:(lia) Hhi Hw Hp) as (fl & Hfl).
    change (exists fv, option_map FList (fin_list t l) = Some fv). rewrite Hfl. cbn. eauto.
  - change (S (lsize l) <= S n) in Hn. destruct (HL l lo hi ltac:(lia) Hhi Hw Hp) as (fl & Hfl).
    change (exists fv, option_map FTup (fin_list t l) = Some fv). rewrite Hfl. cbn. eauto.
  - change (S (lsize fs) <= S n) in Hn. rewrite within_obj in Hw. destruct Hw as (A & B & C & D).
    destruct Hp as (P1 & P2).
    destruct (HL fs s e ltac:(lia) ltac:(lia) D P2) as (fl & Hfl).
    destruct (fin_pos_some t s ltac:(lia)) as (fa & Hfa).
    destruct (fin_pos_some_pred t e ltac:(lia) ltac:(lia)) as (fb & Hfb).
    change (exists fv, match fin_pos t (Z.of_nat s), fin_pos t (Z.of_nat e - 1)%Z, fin_list t fs with
                       | Some a, Some b, Some fs' => Some (FObj c fs' (a, b)) | _, _, _ => None end = Some fv).
    rewrite Hfa, Hfb, Hfl. eauto.
  - change (S (lsize l) <= S n) in Hn. destruct (HL l lo hi ltac:(lia) Hhi Hw Hp) as (fl & Hfl).
    change (exists fv, option_map (FNode k) (fin_list t l) = Some fv). rewrite Hfl. cbn. eauto.
Qed.

Theorem finalize_total t v lo hi : hi <= length t -> within lo hi v -> positive v ->
  exists fv, finalize t v = Some fv.
Proof. apply (finalize_total_aux t (vsize v)). lia. Qed.
Print Assumptions finalize_total.
