(* Facts about _finalize_parse_info (C08/C10): it is total (no IndexError for
   any result, zero-width instances included), and an instance that consumed
   input inside the text gets the line/column of its first and last offset. *)
From Coq Require Import List Arith Bool Lia ZArith.
Import ListNotations.
Require Import ExcerptModel Model Spec Entry Within.

Lemma lc_map_length : forall t l c, length (lc_map t l c) = length t.
Proof. induction t as [|x t IH]; intros l c; cbn; auto. destruct (x =? NL); cbn; rewrite IH; auto. Qed.

(* inside the text the finalised position carries the map's line and column *)
Lemma fin_pos_inside t (i : nat) : i < length t ->
  exists lc, fin_pos t (Z.of_nat i) = (Z.of_nat i, Some lc) /\ line_col t i = Some lc.
Proof.
  intros H. unfold fin_pos, line_col.
  replace ((0 <=? Z.of_nat i) && (Z.of_nat i <? Z.of_nat (length t)))%Z with true
    by (symmetry; apply andb_true_iff; split; [apply Z.leb_le | apply Z.ltb_lt]; lia).
  rewrite Nat2Z.id.
  destruct (nth_error (lc_map t 1 0) i) as [lc|] eqn:En; [eauto|].
  apply nth_error_None in En. rewrite lc_map_length in En. lia.
Qed.
Lemma fin_pos_outside t (i : Z) : (i < 0 \/ Z.of_nat (length t) <= i)%Z -> fin_pos t i = (i, None).
Proof.
  intros H. unfold fin_pos.
  replace ((0 <=? i) && (i <? Z.of_nat (length t)))%Z with false; auto.
  symmetry. apply andb_false_iff. destruct H; [left; apply Z.leb_gt | right; apply Z.ltb_ge]; lia.
Qed.

(* the span of an instance that consumed input: start offset and LAST offset consumed *)
Theorem finalize_span t c fs s e : s < e -> e <= length t ->
  exists fs' a b, finalize t (VObj c fs (s, e)) = FObj c fs' ((Z.of_nat s, Some a), (Z.of_nat (e - 1), Some b))
                  /\ line_col t s = Some a /\ line_col t (e - 1) = Some b.
Proof.
  intros H1 H2. cbn [finalize].
  destruct (fin_pos_inside t s ltac:(lia)) as (a & Ea & La).
  destruct (fin_pos_inside t (e - 1) ltac:(lia)) as (b & Eb & Lb).
  replace (Z.of_nat e - 1)%Z with (Z.of_nat (e - 1)) by lia.
  rewrite Ea, Eb. eauto 8.
Qed.
