(* C20, the semantic half — on the specification: consistently renaming the bound
   names of a grammar (let variables, class fields, parameters, the names inline
   Python mentions, keyword arguments) by ANY injective map changes nothing but
   those names: the same inputs match, with the same end positions and the same
   values (in which only the names carried by closures are renamed), and the same
   inputs fail or raise. *)
From Coq Require Import List Arith Bool Lia.
Import ListNotations.
Require Import Model Spec Within.

Section Rn.
Variable r : nat -> nat.
Hypothesis r_inj : forall x y, r x = r y -> x = y.

Definition rn_f (f : pyfun) : pyfun :=
  match f with
  | FEqVar x => FEqVar (r x) | FLenGtVar x => FLenGtVar (r x)
  | FKLenEq x y => FKLenEq (r x) (r y) | FKVar x => FKVar (r x)
  | o => o
  end.
Definition rn_py (p : pyexpr) : pyexpr :=
  match p with
  | PVar x => PVar (r x) | PFn f => PFn (rn_f f) | PLenEq x y => PLenEq (r x) (r y) | PSucc x => PSucc (r x)
  | o => o
  end.
Definition rn_b (b : bound) : bound := match b with BVar x => BVar (r x) | o => o end.
Definition rn_a (a : arg) : arg :=
  match a with
  | ALocal x => ALocal (r x) | APy p => APy (rn_py p) | AFun fid fv => AFun fid (map r fv)
  | o => o
  end.
Fixpoint rn_e (e : expr) : expr :=
  match e with
  | Str _ _ | Rx _ _ | Byte _ _ | Ref _ | Backtrack _ | Fail => e
  | Seq es => Seq (map rn_e es)
  | Choice es => Choice (map rn_e es)
  | Longest es => Longest (map rn_e es)
  | Skip es => Skip (map rn_e es)
  | Discard a b dl => Discard (rn_e a) (rn_e b) dl
  | Opt a => Opt (rn_e a)
  | Rep a mn mx => Rep (rn_e a) (rn_b mn) (rn_b mx)
  | Expect a => Expect (rn_e a)
  | ExpectNot a => ExpectNot (rn_e a)
  | Sep a s d t ae rs => Sep (rn_e a) (rn_e s) d t ae rs
  | Py p => Py (rn_py p)
  | Apply a b al => Apply (rn_e a) (rn_e b) al
  | Where a b => Where (rn_e a) (rn_e b)
  | Let x sh a b => Let (r x) sh (rn_e a) (rn_e b)
  | Class c ms => Class c (map (fun m => (option_map r (fst (fst m)), snd (fst m), rn_e (snd m))) ms)
  | OpTable pre o post inf => OpTable (option_map rn_e pre) (rn_e o) (option_map rn_e post) (option_map rn_e inf)
  | RefL x => RefL (r x)
  | Call callee args =>
      Call (match callee with inl q => inl q | inr x => inr (r x) end)
           (map (fun ka => (option_map r (fst ka), rn_a (snd ka))) args)
  end.
Definition rn_rule (pb : list nat * expr) : list nat * expr := (map r (fst pb), rn_e (snd pb)).
Definition rn_g (g : list (list nat * expr)) := map rn_rule g.

Fixpoint rn_v (v : value) : value :=
  match v with
  | VList l => VList (map rn_v l)
  | VTuple l => VTuple (map rn_v l)
  | VObj c fs sp => VObj c (map rn_v fs) sp
  | VNode k l => VNode k (map rn_v l)
  | VFun f => VFun (rn_f f)
  | VClos fid given => VClos fid (map rn_v given)
  | o => o
  end.
Definition rn_E (E : env) : env := map (fun xv => (r (fst xv), rn_v (snd xv))) E.
Definition rn_r (x : sres) : sres := match x with Match v q => Match (rn_v v) q | o => o end.

Lemma eqb_r x y : Nat.eqb (r x) (r y) = Nat.eqb x y.
Proof.
  destruct (Nat.eqb_spec x y) as [->|N]; [apply Nat.eqb_refl|].
  apply Nat.eqb_neq. intros H. apply N. apply r_inj. exact H.
Qed.
Lemma lookup_rn x E : lookup (r x) (rn_E E) = option_map rn_v (lookup x E).
Proof. induction E as [|[y v] E IH]; cbn; auto. rewrite eqb_r. destruct (Nat.eqb x y); auto. Qed.
Lemma vlen_rn v : vlen (rn_v v) = vlen v.
Proof. destruct v as [| | | |l|l|c fs sp|kk l| | | | |]; cbn; auto; try (rewrite map_length; reflexivity). Qed.
Lemma truthy_rn v : truthy (rn_v v) = truthy v.
Proof. destruct v as [| | | |l|l|c fs sp|kk l| | | | |]; cbn; auto; try (destruct l; reflexivity). Qed.

Fixpoint eqb_list (x y : list value) : bool :=
  match x, y with [], [] => true | a :: x', b :: y' => value_eqb a b && eqb_list x' y' | _, _ => false end.
Lemma value_eqb_list x y : value_eqb (VList x) (VList y) = eqb_list x y.
Proof. revert y; induction x as [|a x IH]; intros [|b y]; cbn; auto; try (f_equal; apply IH). Qed.
Lemma value_eqb_tuple x y : value_eqb (VTuple x) (VTuple y) = eqb_list x y.
Proof. revert y; induction x as [|a x IH]; intros [|b y]; cbn; auto; try (f_equal; apply (IH y)). Qed.
Lemma value_eqb_rn_aux : forall n a b, vsize a <= n -> value_eqb (rn_v a) (rn_v b) = value_eqb a b.
Proof.
  induction n as [|n IH]; intros a b Hn; [destruct a; cbn in Hn; lia|].
  assert (HL : forall x y, lsize x <= n -> eqb_list (map rn_v x) (map rn_v y) = eqb_list x y).
  { induction x as [|a0 x IHx]; intros [|b0 y] Hx; cbn; auto. cbn in Hx.
    assert (vsize a0 >= 1) by (destruct a0; cbn; lia).
    rewrite IH by lia. rewrite IHx by lia. reflexivity. }
  destruct a as [| | | |x|x|c fs sp|kk x|f| | | |]; destruct b as [| | | |y|y|c' fs' sp'|kk' y|f'| | | |];
    try reflexivity.
  - change (rn_v (VList x)) with (VList (map rn_v x)). change (rn_v (VList y)) with (VList (map rn_v y)).
    rewrite !value_eqb_list. apply HL. change (S (lsize x) <= S n) in Hn. lia.
  - change (rn_v (VTuple x)) with (VTuple (map rn_v x)). change (rn_v (VTuple y)) with (VTuple (map rn_v y)).
    rewrite !value_eqb_tuple. apply HL. change (S (lsize x) <= S n) in Hn. lia.
Qed.
Lemma value_eqb_rn a b : value_eqb (rn_v a) (rn_v b) = value_eqb a b.
Proof. apply (value_eqb_rn_aux (vsize a)). lia. Qed.

Lemma eval_py_rn E py : eval_py (rn_E E) (rn_py py) = option_map rn_v (eval_py E py).
Proof.
  destruct py as [| | |m|x|f|x y|x]; cbn; auto.
  - apply lookup_rn.
  - rewrite !lookup_rn. destruct (lookup x E) as [vx|]; cbn; auto. rewrite vlen_rn.
    destruct (vlen vx); auto. destruct (lookup y E) as [vy|]; cbn; auto.
    destruct vy as [| | | |l|l|c fs sp|kk l| | | | |]; cbn; auto.
  - rewrite lookup_rn. destruct (lookup x E) as [vx|]; cbn; auto.
    destruct vx as [| | | |l|l|c fs sp|kk l| | | | |]; cbn; auto.
Qed.
Lemma apply_fun_rn E f x : apply_fun (rn_E E) (rn_f f) (rn_v x) = option_map rn_v (apply_fun E f x).
Proof.
  destruct f; cbn -[digits].
  - destruct x as [| |[|c s]| |l|l|c fs sp|kk l| | | | |]; cbn -[digits]; auto.
    destruct (digits (c :: s) 0); auto.
  - rewrite vlen_rn. destruct (vlen x); auto.
  - rewrite truthy_rn. auto.
  - destruct x as [| | | |l|l|c fs sp|kk l| | | | |]; cbn; auto.
  - rewrite lookup_rn. destruct (lookup x0 E); cbn; auto. rewrite value_eqb_rn. auto.
  - rewrite vlen_rn, lookup_rn. destruct (vlen x); auto. destruct (lookup x0 E) as [w|]; cbn; auto.
    rewrite vlen_rn. destruct (vlen w); auto.
  - destruct x as [| | | |l|l|c fs sp|kk l| | | | |]; cbn; auto.
  - auto.
  - auto.
  - rewrite !lookup_rn. destruct (lookup x0 E) as [vx|]; cbn; auto. rewrite vlen_rn.
    destruct (vlen vx); auto. destruct (lookup y E) as [vy|]; cbn; auto.
    destruct vy as [| | | |l|l|c fs sp|kk l| | | | |]; cbn; auto.
  - apply lookup_rn.
Qed.
Lemma bound_val_rn E b : bound_val (rn_E E) (rn_b b) = bound_val E b.
Proof.
  destruct b as [|m|x]; cbn; auto. rewrite lookup_rn. destruct (lookup x E) as [v|]; cbn; auto.
  destruct v as [| | | |l|l|c fs sp|kk l| | | | |]; cbn; auto.
Qed.
Lemma lookup_all_rn xs E : lookup_all (map r xs) (rn_E E) = option_map (map rn_v) (lookup_all xs E).
Proof.
  induction xs as [|x xs IH]; cbn; auto. rewrite lookup_rn, IH.
  destruct (lookup x E); cbn; auto. destruct (lookup_all xs E); cbn; auto.
Qed.
Lemma eval_arg_rn L a : eval_arg (rn_E L) (rn_a a) = option_map rn_v (eval_arg L a).
Proof.
  destruct a as [q|x|py|sl sk|fid fv]; cbn; auto.
  - apply lookup_rn.
  - apply eval_py_rn.
  - rewrite lookup_all_rn. destruct (lookup_all fv L); cbn; auto.
Qed.
Lemma existsb_rn k ps : existsb (Nat.eqb (r k)) (map r ps) = existsb (Nat.eqb k) ps.
Proof. induction ps as [|p ps IH]; cbn; auto. rewrite eqb_r, IH. auto. Qed.
Lemma filter_rn k ps : filter (fun q => negb (Nat.eqb q (r k))) (map r ps) = map r (filter (fun q => negb (Nat.eqb q k)) ps).
Proof. induction ps as [|p ps IH]; cbn; auto. rewrite eqb_r. destruct (Nat.eqb p k); cbn; rewrite IH; auto. Qed.
Lemma bind_args_rn L : forall args ps acc,
  bind_args (rn_E L) (map r ps) (map (fun ka => (option_map r (fst ka), rn_a (snd ka))) args) (rn_E acc)
  = option_map rn_E (bind_args L ps args acc).
Proof.
  induction args as [|[[kw|] a] args IH]; intros ps acc; cbn [bind_args map fst snd option_map].
  - destruct ps; auto.
  - rewrite existsb_rn. destruct (existsb (Nat.eqb kw) ps); auto. rewrite eval_arg_rn.
    destruct (eval_arg L a) as [v|]; cbn [option_map]; auto. rewrite filter_rn.
    apply (IH (filter (fun q => negb (Nat.eqb q kw)) ps) ((kw, v) :: acc)).
  - destruct ps as [|p ps]; cbn [map]; auto. rewrite eval_arg_rn.
    destruct (eval_arg L a) as [v|]; cbn [option_map]; auto.
    apply (IH ps ((p, v) :: acc)).
Qed.
Lemma call_target_rn L c :
  call_target (rn_E L) (match c with inl q => inl q | inr x => inr (r x) end) = call_target L c.
Proof.
  destruct c as [q|x]; cbn; auto. rewrite lookup_rn. destruct (lookup x L) as [v|]; cbn; auto.
  destruct v as [| | | |l|l|cl fs sp|kk l| | | | |]; cbn; auto.
Qed.
Lemma combine_rn : forall ps given, combine (map r ps) (map rn_v given) = rn_E (combine ps given).
Proof. induction ps as [|p ps IH]; intros [|v given]; cbn; auto. f_equal. apply IH. Qed.

(* ---- loops ---- *)
Section Loops.
Variables pg1 pg2 : expr -> nat -> sres.
Definition rel (e : expr) := forall p, pg2 (rn_e e) p = rn_r (pg1 e p).

Lemma seq_rn : forall es p acc, Forall rel es ->
  seq_spec pg2 (map rn_e es) p (map rn_v acc) = rn_r (seq_spec pg1 es p acc).
Proof.
  induction es as [|e es IH]; intros p acc HF; cbn [seq_spec map].
  - cbn. rewrite map_rev. auto.
  - inversion HF as [|? ? He Hes]; subst. rewrite He.
    destruct (pg1 e p) as [| | |v p1]; cbn [rn_r]; auto. apply (IH p1 (v :: acc) Hes).
Qed.
Lemma choice_rn : forall es p, Forall rel es -> choice_spec pg2 (map rn_e es) p = rn_r (choice_spec pg1 es p).
Proof.
  induction es as [|e es IH]; intros p HF; cbn [choice_spec map]; auto.
  inversion HF as [|? ? He Hes]; subst. rewrite He.
  destruct (pg1 e p) as [| | |v p1]; cbn [rn_r]; auto.
Qed.
Lemma rep_rn : forall n e mn mx p acc, rel e ->
  rep_spec pg2 n (rn_e e) mn mx p (map rn_v acc) = rn_r (rep_spec pg1 n e mn mx p acc).
Proof.
  induction n as [|n IH]; intros e mn mx p acc He; cbn [rep_spec]; rewrite map_length.
  - destruct (at_max mx (length acc)); cbn; auto. rewrite map_rev. auto.
  - destruct (at_max mx (length acc)); [cbn; rewrite map_rev; auto|].
    rewrite He. destruct (pg1 e p) as [| | |v p1]; cbn [rn_r]; auto.
    + destruct (_ <=? _); cbn; auto. rewrite map_rev. auto.
    + apply (IH e mn mx p1 (v :: acc) He).
Qed.
Definition rnsk (x : option nat + sres) : option nat + sres :=
  match x with inl q => inl q | inr o => inr (rn_r o) end.
Lemma skip_first_rn : forall es p, Forall rel es -> skip_first pg2 (map rn_e es) p = rnsk (skip_first pg1 es p).
Proof.
  induction es as [|e es IH]; intros p HF; cbn [skip_first map]; auto.
  inversion HF as [|? ? He Hes]; subst. rewrite He.
  destruct (pg1 e p) as [| | |v p1]; cbn [rn_r]; auto. destruct (p1 =? p); auto.
Qed.
Lemma skip_rn : forall n es p, Forall rel es -> skip_spec pg2 n (map rn_e es) p = rn_r (skip_spec pg1 n es p).
Proof.
  induction n as [|n IH]; intros es p HF; cbn [skip_spec]; auto.
  rewrite skip_first_rn by auto. destruct (skip_first pg1 es p) as [[q|]|x]; cbn [rnsk]; auto;
  try (destruct x; reflexivity).
Qed.
Definition rnbest (b : option (value * nat)) := option_map (fun vq => (rn_v (fst vq), snd vq)) b.
Lemma longest_rn : forall es p best, Forall rel es ->
  longest_spec pg2 (map rn_e es) p (rnbest best) = rn_r (longest_spec pg1 es p best).
Proof.
  induction es as [|e es IH]; intros p best HF; cbn [longest_spec map].
  - destruct best as [[v q]|]; cbn; auto.
  - inversion HF as [|? ? He Hes]; subst. rewrite He.
    destruct (pg1 e p) as [| | |v p1]; cbn [rn_r]; auto.
    destruct best as [[bv bq]|]; cbn [rnbest option_map fst snd].
    + destruct (bq <? p1).
      * apply (IH p (Some (v, p1)) Hes).
      * apply (IH p (Some (bv, bq)) Hes).
    + apply (IH p (Some (v, p1)) Hes).
Qed.
Definition rnsep (x : sepres) : sepres :=
  match x with SDone acc cp saw => SDone (map rn_v acc) cp saw | o => o end.
Lemma sep_rn : forall n e sp keep trailer p acc cp saw, rel e -> rel sp ->
  sep_spec pg2 n (rn_e e) (rn_e sp) keep trailer p (map rn_v acc) cp saw
  = rnsep (sep_spec pg1 n e sp keep trailer p acc cp saw).
Proof.
  induction n as [|n IH]; intros e sp keep trailer p acc cp saw He Hs; cbn [sep_spec]; auto.
  rewrite He. destruct (pg1 e p) as [| | |v p1]; cbn [rn_r rnsep]; auto.
  - destruct (keep && negb trailer); auto. destruct acc; auto.
  - rewrite Hs. destruct (pg1 sp p1) as [| | |sv p2]; cbn [rn_r rnsep]; auto.
    specialize (IH e sp keep trailer p2 (if keep then sv :: v :: acc else v :: acc) (if trailer then p2 else p1) true He Hs).
    destruct keep, trailer; exact IH.
Qed.
Lemma sep_final_rn ae rs acc cp saw :
  sep_final ae rs (map rn_v acc) cp saw = rn_r (sep_final ae rs acc cp saw).
Proof.
  unfold sep_final. destruct acc as [|a acc]; cbn [map];
    match goal with |- (if ?c then _ else _) = _ => destruct c end; cbn; auto.
  rewrite map_app, map_rev. auto.
Qed.
End Loops.

(* ---- the law ---- *)
Section Law.
Variables (g funs : list (list nat * expr)) (ignored : option nat) (t : list nat) (rx : nat -> nat -> option nat).
Notation P := (peg g funs ignored t rx).
Notation P' := (peg (rn_g g) (rn_g funs) ignored t rx).

Lemma nth_rn_g (G : list (list nat * expr)) k : nth_error (rn_g G) k = option_map rn_rule (nth_error G k).
Proof. unfold rn_g. apply nth_error_map. Qed.

Theorem peg_rename : forall n e E p, P' n (rn_E E) (rn_e e) p = rn_r (P n E e p).
Proof.
  induction n as [|n IH]; intros e E p; [reflexivity|].
  assert (Hskip : forall (sk : bool) q v,
     (if sk then match ignored with
                 | Some k => match nth_error (rn_g g) k with
                             | Some ([], b) => match P' n [] b q with
                                               | Match _ q' => Match (rn_v v) q' | Fails => Match (rn_v v) q | other => other end
                             | _ => Raise end
                 | None => Match (rn_v v) q end
      else Match (rn_v v) q)
     = rn_r (if sk then match ignored with
                 | Some k => match nth_error g k with
                             | Some ([], b) => match P n [] b q with
                                               | Match _ q' => Match v q' | Fails => Match v q | other => other end
                             | _ => Raise end
                 | None => Match v q end
      else Match v q)).
  { intros sk q v. destruct sk; auto. destruct ignored as [k|]; auto.
    rewrite nth_rn_g. destruct (nth_error g k) as [[[|x ps] b]|] eqn:Er; cbn [option_map rn_rule fst snd map]; auto.
    change (@nil (nat * value)) with (rn_E []) at 1. rewrite (IH b [] q).
    match goal with |- context [rn_r ?X] => destruct X; auto end. }
  assert (HF : forall es E0, Forall (rel (P n E0) (P' n (rn_E E0))) es).
  { intros es E0. apply Forall_forall. intros a _ q. apply IH. }
  destruct e as [sv sk|id sk|b sk|k|es|a b dl|es|e|e mn mx|e|e|es|es|bk| |e sp discard trailer ae rs
                 |py|a b al|e pred|x sh a body|cls ms|pre opd post inf|x|callee args];
    cbn [peg rn_e].
  - (* Str *) destruct sv as [|c sv]; [reflexivity|].
    destruct (prefix_at (c :: sv) t p); auto. exact (Hskip sk (p + length (c :: sv)) (VStr (c :: sv))).
  - (* Rx *) destruct (rx id p) as [q|]; auto. exact (Hskip sk q (VStr (slice t p q))).
  - (* Byte *) destruct (nth_error t p) as [c|]; auto. destruct (c =? b); auto. exact (Hskip sk (S p) (VInt b)).
  - (* Ref *) rewrite nth_rn_g. destruct (nth_error g k) as [[[|x ps] bd]|]; cbn [option_map rn_rule fst snd map]; auto.
    change (@nil (nat * value)) with (rn_E []) at 1. apply IH.
  - (* Seq *) exact (seq_rn _ _ es p [] (HF es E)).
  - (* Discard *) rewrite (IH a E p).
    destruct (P n E a p) as [| | |va p1]; cbn [rn_r]; auto. rewrite (IH b E p1).
    destruct (P n E b p1) as [| | |vb p2]; cbn [rn_r]; auto. destruct dl; auto.
  - (* Choice *) exact (choice_rn _ _ es p (HF es E)).
  - (* Opt *) rewrite (IH e E p). destruct (P n E e p); cbn [rn_r]; auto.
  - (* Rep *)
    assert (Hrel : rel (P n E) (P' n (rn_E E)) e) by (intros q; apply IH).
    assert (G : forall mxb,
       match bound_val (rn_E E) (rn_b mn), bound_val (rn_E E) (rn_b mxb) with
       | Some mnv, Some mxv => if bounds_conflict mnv mxv
                               then match rep_spec (P' n (rn_E E)) n (rn_e e) mnv mxv p [] with Match _ _ => Fails | other => other end
                               else rep_spec (P' n (rn_E E)) n (rn_e e) mnv mxv p []
       | _, _ => Raise end
       = rn_r (match bound_val E mn, bound_val E mxb with
       | Some mnv, Some mxv => if bounds_conflict mnv mxv
                               then match rep_spec (P n E) n e mnv mxv p [] with Match _ _ => Fails | other => other end
                               else rep_spec (P n E) n e mnv mxv p []
       | _, _ => Raise end)).
    { intros mxb. rewrite !bound_val_rn. destruct (bound_val E mn) as [a|]; auto. destruct (bound_val E mxb) as [b0|]; auto.
      pose proof (rep_rn _ _ n e a b0 p [] Hrel) as Hr. cbn [map] in Hr. rewrite Hr.
      destruct (bounds_conflict a b0); auto. destruct (rep_spec (P n E) n e a b0 p []); reflexivity. }
    destruct mx as [|[|m]|y]; [exact (G BNone) | reflexivity | exact (G (BLit (S m))) | exact (G (BVar y))].
  - (* Expect *) rewrite (IH e E p). destruct (P n E e p); cbn [rn_r]; auto.
  - (* ExpectNot *) rewrite (IH e E p). destruct (P n E e p); cbn [rn_r]; auto.
  - (* Skip *) exact (skip_rn _ _ n es p (HF es E)).
  - (* Longest *) exact (longest_rn _ _ es p None (HF es E)).
  - (* Backtrack *) destruct (bk <=? p); auto.
  - (* Fail *) reflexivity.
  - (* Sep *)
    assert (R1 : rel (P n E) (P' n (rn_E E)) e) by (intros q; apply IH).
    assert (R2 : rel (P n E) (P' n (rn_E E)) sp) by (intros q; apply IH).
    pose proof (sep_rn _ _ n e sp (negb discard) trailer p [] p false R1 R2) as Hsep. cbn [map] in Hsep.
    rewrite Hsep. destruct (sep_spec (P n E) n e sp (negb discard) trailer p [] p false); cbn [rnsep rn_r]; auto.
    apply sep_final_rn.
  - (* Py *) rewrite eval_py_rn. destruct (eval_py E py); cbn; auto.
  - (* Apply *) rewrite (IH a E p).
    destruct (P n E a p) as [| | |va p1]; cbn [rn_r]; auto. rewrite (IH b E p1).
    destruct (P n E b p1) as [| | |vb p2]; cbn [rn_r]; auto.
    destruct al.
    + destruct va as [| | | |l|l|c0 fs0 sp0|kk l|fn| | | |]; cbn; auto.
      rewrite apply_fun_rn. destruct (apply_fun E fn vb); cbn; auto.
    + destruct vb as [| | | |l|l|c0 fs0 sp0|kk l|fn| | | |]; cbn; auto.
      rewrite apply_fun_rn. destruct (apply_fun E fn va); cbn; auto.
  - (* Where *) rewrite (IH e E p).
    destruct (P n E e p) as [| | |va p1]; cbn [rn_r]; auto. rewrite (IH pred E p1).
    destruct (P n E pred p1) as [| | |vb p2]; cbn [rn_r]; auto.
    destruct vb as [| | | |l|l|c0 fs0 sp0|kk l|fn| | | |]; cbn; auto.
    rewrite apply_fun_rn. destruct (apply_fun E fn va) as [w|]; cbn; auto.
    rewrite truthy_rn. destruct (truthy w); auto.
  - (* Let *) rewrite (IH a E p).
    destruct (P n E a p) as [| | |va p1]; cbn [rn_r]; auto.
    exact (IH body ((x, va) :: E) p1).
  - (* Class *)
    assert (HC : forall ms0 E0 q acc,
              class_spec (P' n) cls p (map (fun m => (option_map r (fst (fst m)), snd (fst m), rn_e (snd m))) ms0) (rn_E E0) q (map rn_v acc)
              = rn_r (class_spec (P n) cls p ms0 E0 q acc)).
    { induction ms0 as [|[[name isf] e0] ms0 IHms]; intros E0 q acc; cbn [class_spec map fst snd].
      - cbn. rewrite map_rev. auto.
      - rewrite (IH e0 E0 q).
        destruct (P n E0 e0 q) as [| | |v1 q1]; cbn [rn_r]; auto.
        specialize (IHms (match name with Some x0 => (x0, v1) :: E0 | None => E0 end) q1
                         (match field_name name isf with Some _ => v1 :: acc | None => acc end)).
        destruct name as [x0|]; cbn [option_map field_name] in *; destruct isf; exact IHms. }
    exact (HC ms E p []).
  - (* OpTable *) reflexivity.
  - (* RefL *) rewrite lookup_rn. destruct (lookup x E) as [v|]; cbn [option_map]; auto.
    destruct v as [| | | |l|l|c0 fs0 sp0|kk l|fn|sl sk|k|fid given|]; cbn [rn_v]; auto.
    + change (@nil (nat * value)) with (rn_E []) at 1. apply (IH (Str sl sk) [] p).
    + rewrite nth_rn_g. destruct (nth_error g k) as [[[|y ps] bd]|]; cbn [option_map rn_rule fst snd map]; auto.
      change (@nil (nat * value)) with (rn_E []) at 1. apply IH.
    + rewrite nth_rn_g. destruct (nth_error funs fid) as [[ps bd]|]; cbn [option_map rn_rule fst snd]; auto.
      rewrite !map_length. destruct (length ps =? length given); auto. rewrite combine_rn. apply IH.
  - (* Call *) rewrite call_target_rn. destruct (call_target E callee) as [k|]; auto.
    rewrite nth_rn_g. destruct (nth_error g k) as [[ps bd]|]; cbn [option_map rn_rule fst snd]; auto.
    pose proof (bind_args_rn E args ps []) as Hb. cbn [rn_E map] in Hb. rewrite Hb.
    destruct (bind_args E ps args []) as [en|]; cbn [option_map]; auto; try apply IH.
Qed.
End Law.
End Rn.
