(* C16: transform/_transform (translator.py:758-797) over trees with identities.
   MODEL tr: the recursive rebuild (lists element-wise, always a new list; an
   object is rebuilt with _replace — metadata kept — iff some field changed BY
   IDENTITY; then the callback chain is applied once), threading the supply of
   fresh identities and the callback xlog. *)
From Coq Require Import List Arith Bool Lia.
Import ListNotations.

Inductive xnode :=
| XLeaf (id : nat)                         (* any non-list, non-ParsedObject value (tuples and dicts included) *)
| XLst (id : nat) (l : list xnode)
| XObj (id : nat) (cls : nat) (fs : list xnode) (meta : option nat).

Definition xnid (n : xnode) := match n with XLeaf i | XLst i _ | XObj i _ _ _ => i end.

(* state threaded through: xnext fresh identity, callback xlog (ids of the nodes the callback was applied to) *)
Record tst := TS { xnext : nat; xlog : list nat }.

Definition same (a b : xnode) := Nat.eqb (xnid a) (xnid b).      (* Python `is` *)

(* metadata rule of transform's inner callback: a replacement that is a parsed
   object with empty metadata receives the metadata of the xnode it stands for *)
Definition carry_meta (prev now : xnode) : xnode :=
  if same prev now then now else
  match prev, now with
  | XObj _ _ _ m, XObj i c fs None => XObj i c fs m
  | _, _ => now
  end.

Section T.
(* f: the inner `callback` of transform(): the chain of user callbacks with the
   metadata rule applied after each of them (see chainf below) *)
Variable f : xnode -> xnode.

Fixpoint tr (n : xnode) (s : tst) {struct n} : xnode * tst :=
  match n with
  | XLeaf _ => (n, s)
  | XLst _ l =>
      let '(l', s') :=
        (fix go (l : list xnode) (s : tst) : list xnode * tst :=
           match l with
           | [] => ([], s)
           | x :: l' => let '(x', s1) := tr x s in let '(r, s2) := go l' s1 in (x' :: r, s2)
           end) l s in
      (XLst (xnext s') l', TS (S (xnext s')) (xlog s'))          (* a list comprehension always builds a new list *)
  | XObj i c fs m =>
      let '(fs', changed, s') :=
        (fix go (l : list xnode) (s : tst) : list xnode * bool * tst :=
           match l with
           | [] => ([], false, s)
           | x :: l' => let '(x', s1) := tr x s in
                        let '(r, ch, s2) := go l' s1 in
                        (x' :: r, negb (same x x') || ch, s2)
           end) fs s in
      let '(n1, s1) := if changed then (XObj (xnext s') c fs' m, TS (S (xnext s')) (xlog s'))   (* _replace keeps metadata *)
                       else (n, s') in
      (f n1, TS (xnext s1) (xlog s1 ++ [xnid n1]))
  end.
End T.

(* ---- C16_identity: with the identity callback the result has the same
   shape, classes and metadata as the input (it may be a rebuilt copy) ---- *)
Inductive shape := SLeaf (id : nat) | SLst (l : list shape) | SObj (cls : nat) (fs : list shape) (meta : option nat).
Fixpoint shape_of (n : xnode) : shape :=
  match n with
  | XLeaf i => SLeaf i
  | XLst _ l => SLst ((fix go (l : list xnode) := match l with [] => [] | x :: l' => shape_of x :: go l' end) l)
  | XObj _ c fs m => SObj c ((fix go (l : list xnode) := match l with [] => [] | x :: l' => shape_of x :: go l' end) fs) m
  end.
Fixpoint shapes (l : list xnode) : list shape := match l with [] => [] | x :: l' => shape_of x :: shapes l' end.

Fixpoint nsize (n : xnode) : nat :=
  match n with
  | XLeaf _ => 1
  | XLst _ l | XObj _ _ l _ => S ((fix sz (l : list xnode) := match l with [] => 0 | x :: l' => nsize x + sz l' end) l)
  end.
Fixpoint lsize (l : list xnode) : nat := match l with [] => 0 | x :: l' => nsize x + lsize l' end.

(* the two nested loops of tr, as top-level functions (convertible with the nested ones) *)
Section TL.
Variable f : xnode -> xnode.
Fixpoint tr_list (l : list xnode) (s : tst) : list xnode * tst :=
  match l with
  | [] => ([], s)
  | x :: l' => let '(x', s1) := tr f x s in let '(r, s2) := tr_list l' s1 in (x' :: r, s2)
  end.
Fixpoint tr_fields (l : list xnode) (s : tst) : list xnode * bool * tst :=
  match l with
  | [] => ([], false, s)
  | x :: l' => let '(x', s1) := tr f x s in
               let '(r, ch, s2) := tr_fields l' s1 in
               (x' :: r, negb (same x x') || ch, s2)
  end.
End TL.

Definition idf (n : xnode) := n.

Lemma carry_meta_id n : carry_meta n (idf n) = n.
Proof. unfold carry_meta, idf, same. rewrite Nat.eqb_refl. reflexivity. Qed.

Lemma identity_shape_aux : forall k n s, nsize n <= k -> shape_of (fst (tr idf n s)) = shape_of n.
Proof.
  induction k as [|k IH]; intros n s Hk; [destruct n; cbn in Hk; lia|].
  assert (HL : forall l s, lsize l <= k -> shapes (fst (tr_list idf l s)) = shapes l).
  { induction l as [|x l IHl]; intros s0 Hl; [reflexivity|]. cbn [tr_list lsize] in *.
    pose proof (IH x s0 ltac:(lia)) as Hx. destruct (tr idf x s0) as [x' s1]. cbn [fst] in Hx.
    pose proof (IHl s1 ltac:(lia)) as Hr. destruct (tr_list idf l s1) as [r s2]. cbn [fst] in *.
    cbn [shapes]. rewrite Hx, Hr. reflexivity. }
  assert (HF : forall l s, lsize l <= k -> shapes (fst (fst (tr_fields idf l s))) = shapes l).
  { induction l as [|x l IHl]; intros s0 Hl; [reflexivity|]. cbn [tr_fields lsize] in *.
    pose proof (IH x s0 ltac:(lia)) as Hx. destruct (tr idf x s0) as [x' s1]. cbn [fst] in Hx.
    pose proof (IHl s1 ltac:(lia)) as Hr. destruct (tr_fields idf l s1) as [[r ch] s2]. cbn [fst] in *.
    cbn [shapes]. rewrite Hx, Hr. reflexivity. }
  destruct n as [i|i l|i c fs m].
  - reflexivity.
  - change (nsize (XLst i l)) with (S (lsize l)) in Hk.
    change (tr idf (XLst i l) s) with
      (let '(l', s') := tr_list idf l s in (XLst (xnext s') l', TS (S (xnext s')) (xlog s'))).
    pose proof (HL l s ltac:(lia)) as H. destruct (tr_list idf l s) as [l' s']. cbn [fst] in *.
    change (shape_of (XLst (xnext s') l')) with (SLst (shapes l')).
    change (shape_of (XLst i l)) with (SLst (shapes l)). rewrite H. reflexivity.
  - change (nsize (XObj i c fs m)) with (S (lsize fs)) in Hk.
    change (tr idf (XObj i c fs m) s) with
      (let '(fs', changed, s') := tr_fields idf fs s in
       let '(n1, s1) := if changed then (XObj (xnext s') c fs' m, TS (S (xnext s')) (xlog s')) else (XObj i c fs m, s') in
       (idf n1, TS (xnext s1) (xlog s1 ++ [xnid n1]))).
    pose proof (HF fs s ltac:(lia)) as H. destruct (tr_fields idf fs s) as [[fs' changed] s']. cbn [fst] in *.
    destruct changed; cbn [fst]; unfold idf.
    + change (shape_of (XObj (xnext s') c fs' m)) with (SObj c (shapes fs') m).
      change (shape_of (XObj i c fs m)) with (SObj c (shapes fs) m). rewrite H. reflexivity.
    + reflexivity.
Qed.

Theorem identity_shape n s : shape_of (fst (tr idf n s)) = shape_of n.
Proof. apply (identity_shape_aux (nsize n)). lia. Qed.

(* ---- the closed family of callbacks used by the correspondence check ---- *)
Inductive cb :=
| CId
| CRepl (c c' : nat)          (* objects of class c -> a FRESH object of class c' (no fields, no metadata) *)
| CReplMeta (c c' m : nat)    (* ... with metadata of its own *)
| CLeaf (c : nat)             (* objects of class c -> a scalar *)
| CList (c : nat)             (* objects of class c -> a new list holding its fields *)
| CField (c : nat)            (* objects of class c -> _replace(first field = scalar): new object, metadata copied *)
| CChild (c : nat)            (* objects of class c -> their first field (an EXISTING xnode) *)
| CWrap (c' : nat).           (* a scalar or list (what an EARLIER callback of the chain made of the node) -> a fresh object *)
Definition FRESH := 9000.     (* identities of nodes made by callbacks are not compared: all >= FRESH *)
(* fr: the identity given to what this callback invocation creates (distinct per stage of the chain) *)
Definition apply_cb (k : cb) (fr : nat) (n : xnode) : xnode :=
  match n with
  | XObj i c fs m =>
      match k with
      | CId => n
      | CRepl c0 c' => if Nat.eqb c c0 then XObj fr c' [] None else n
      | CReplMeta c0 c' m' => if Nat.eqb c c0 then XObj fr c' [] (Some m') else n
      | CLeaf c0 => if Nat.eqb c c0 then XLeaf fr else n
      | CList c0 => if Nat.eqb c c0 then XLst fr fs else n
      | CField c0 => if Nat.eqb c c0 then (match fs with [] => n | _ :: r => XObj fr c (XLeaf fr :: r) m end) else n
      | CChild c0 => if Nat.eqb c c0 then (match fs with [] => n | x :: _ => x end) else n
      | CWrap _ => n
      end
  | _ => match k with CWrap c' => XObj fr c' [] None | _ => n end
  end.
(* transform's inner callback: each user callback in order, each seeing the previous one's output.  A replacement
   that is a parsed object without metadata of its own receives the metadata of the node it stands for: that of the
   previous value when that is a parsed object, otherwise (an earlier callback turned the node into a scalar or a
   list) that of the LAST parsed object that stood for the node.  `last` is that metadata. *)
(* The metadata goes on a COPY of the replacement (identity fr, made by this stage): the replacement may be an object
   of the input tree - a child of the node, say - and the input is never written to. *)
Definition hand_over (fr : nat) (last : option nat) (prev now : xnode) : xnode :=
  if same prev now then now else
  match now with
  | XObj i c fs None => XObj fr c fs last
  | _ => now
  end.
Definition last_meta (last : option nat) (cur : xnode) : option nat :=
  match cur with XObj _ _ _ m => m | _ => last end.
Definition chain_step (st : xnode * option nat * nat) (k : cb) : xnode * option nat * nat :=
  let '(cur, last, j) := st in
  let last' := last_meta last cur in
  (hand_over (FRESH + j) last' cur (apply_cb k (FRESH + j) cur), last', S j).
Definition chainf (ks : list cb) (n : xnode) : xnode := fst (fst (fold_left chain_step ks (n, None, 0))).

(* as shipped: metadata was handed over from the previous value only, so a chain that passes through a scalar or a
   list lost it *)
Definition shipped_chain_step (st : xnode * nat) (k : cb) : xnode * nat :=
  let '(cur, j) := st in (carry_meta cur (apply_cb k (FRESH + j) cur), S j).
Definition shipped_chainf (ks : list cb) (n : xnode) : xnode := fst (fold_left shipped_chain_step ks (n, 0)).

(* when the previous value is a parsed object the two rules give the same node up to its identity (the shipped rule
   wrote into the replacement, the repaired one into a copy of it) *)
Lemma hand_over_is_carry_meta fr last i c fs m now :
  shape_of (hand_over fr (last_meta last (XObj i c fs m)) (XObj i c fs m) now) = shape_of (carry_meta (XObj i c fs m) now).
Proof. unfold hand_over, carry_meta, last_meta. destruct (same _ now); auto. destruct now as [| |j c' fs' [m'|]]; auto. Qed.

(* "the input tree is never modified": whatever the hand-over returns under an identity of the input (below FRESH) is
   the callback's answer itself, untouched; metadata is only ever attached to a node made by this stage *)
Lemma hand_over_leaves_input_objects fr last prev now : FRESH <= fr ->
  xnid (hand_over fr last prev now) < FRESH -> hand_over fr last prev now = now.
Proof.
  unfold hand_over. destruct (same prev now); auto.
  destruct now as [j|j l|j c fs [m|]]; auto. cbn [xnid]. intros H1 H2. exfalso. apply (Nat.lt_irrefl fr). eapply Nat.lt_le_trans; eauto.
Qed.
(* the shipped rule did write into an object of the input: a callback that unwraps a node (answers with its child 2,
   which has no metadata) left child 2 - an input object - with the metadata of its parent *)
Example shipped_hand_over_writes_into_input :
  carry_meta (XObj 1 10 [XObj 2 11 [] None] (Some 77)) (apply_cb (CChild 10) FRESH (XObj 1 10 [XObj 2 11 [] None] (Some 77)))
    = XObj 2 11 [] (Some 77)
  /\ hand_over FRESH (Some 77) (XObj 1 10 [XObj 2 11 [] None] (Some 77)) (apply_cb (CChild 10) FRESH (XObj 1 10 [XObj 2 11 [] None] (Some 77)))
    = XObj FRESH 11 [] (Some 77).
Proof. vm_compute. auto. Qed.

Lemma chainf_id_only ks n : Forall (fun k => k = CId) ks -> chainf ks n = n.
Proof.
  unfold chainf. generalize 0. generalize (@None nat). revert n.
  induction ks as [|k ks IH]; intros n last j H; [reflexivity|].
  inversion H; subst. cbn [fold_left chain_step].
  assert (E : hand_over (FRESH + j) (last_meta last n) n (apply_cb CId (FRESH + j) n) = n).
  { destruct n; cbn; unfold hand_over, same; cbn; rewrite Nat.eqb_refl; reflexivity. }
  rewrite E. apply IH. assumption.
Qed.

(* the full statement about metadata: whatever the chain does in between (scalars, lists, copies, fresh objects), when
   no callback brings position metadata of its own or returns another node of the tree, a result that is a parsed
   object carries the metadata of the node the chain was applied to *)
Definition brings_no_metadata (k : cb) : Prop := match k with CReplMeta _ _ _ | CChild _ => False | _ => True end.
Definition stands_for (m : option nat) (cur : xnode) (last : option nat) : Prop :=
  match cur with XObj _ _ _ m' => m' = m | _ => last = m end.
Local Opaque FRESH.
Lemma chain_step_stands_for m k cur last j : brings_no_metadata k -> stands_for m cur last -> xnid cur < FRESH + j ->
  let '(cur', last', _) := chain_step (cur, last, j) k in stands_for m cur' last' /\ xnid cur' < FRESH + S j.
Proof.
  intros Hk Hs Hid. cbn [chain_step].
  assert (Hl : last_meta last cur = m) by (destruct cur; cbn in *; auto).
  rewrite Hl. clear Hl.
  assert (Hsame : forall n, xnid n = xnid cur -> same cur n = true) by (intros n E; unfold same; rewrite E; apply Nat.eqb_refl).
  assert (Hnew : forall n, xnid n = FRESH + j -> same cur n = false) by (intros n E; unfold same; rewrite E; apply Nat.eqb_neq; lia).
  assert (Keep : stands_for m (hand_over (FRESH + j) m cur cur) m /\ xnid (hand_over (FRESH + j) m cur cur) < FRESH + S j).
  { unfold hand_over. rewrite (Hsame cur eq_refl). split; [|lia]. destruct cur; cbn in *; auto. }
  assert (Leaf : stands_for m (hand_over (FRESH + j) m cur (XLeaf (FRESH + j))) m /\ xnid (hand_over (FRESH + j) m cur (XLeaf (FRESH + j))) < FRESH + S j).
  { unfold hand_over. rewrite (Hnew (XLeaf (FRESH + j)) eq_refl). cbn. split; [auto|lia]. }
  assert (Lst : forall l, stands_for m (hand_over (FRESH + j) m cur (XLst (FRESH + j) l)) m /\ xnid (hand_over (FRESH + j) m cur (XLst (FRESH + j) l)) < FRESH + S j).
  { intros l. unfold hand_over. rewrite (Hnew (XLst (FRESH + j) l) eq_refl). cbn. split; [auto|lia]. }
  assert (Obj : forall c' fs' mm, (mm = None \/ mm = m) ->
            stands_for m (hand_over (FRESH + j) m cur (XObj (FRESH + j) c' fs' mm)) m /\ xnid (hand_over (FRESH + j) m cur (XObj (FRESH + j) c' fs' mm)) < FRESH + S j).
  { intros c' fs' mm Hmm. unfold hand_over. rewrite (Hnew (XObj (FRESH + j) c' fs' mm) eq_refl).
    destruct Hmm as [-> | ->]; [|destruct m]; cbn; split; auto; lia. }
  destruct cur as [i|i l|i c fs m'].
  - destruct k; cbn [apply_cb]; try exact Keep; try contradiction. apply Obj; auto.
  - destruct k; cbn [apply_cb]; try exact Keep; try contradiction. apply Obj; auto.
  - cbn in Hs. subst m'.
    destruct k; cbn [apply_cb]; try contradiction; try exact Keep;
      try (destruct (Nat.eqb c c0); [|exact Keep]).
    + apply Obj; auto.
    + exact Leaf.
    + apply Lst.
    + destruct fs as [|x r]; [exact Keep|]. apply Obj; auto.
Qed.
Theorem chain_keeps_metadata : forall ks i c fs m, i < FRESH -> Forall brings_no_metadata ks ->
  match chainf ks (XObj i c fs m) with XObj _ _ _ m' => m' = m | _ => True end.
Proof.
  intros ks i c fs m Hi H. unfold chainf.
  assert (G : forall ks cur last j, Forall brings_no_metadata ks -> stands_for m cur last -> xnid cur < FRESH + j ->
              let '(cur', last', _) := fold_left chain_step ks (cur, last, j) in stands_for m cur' last').
  { induction ks0 as [|k ks0 IH]; intros cur last j HF Hs Hid; [exact Hs|].
    inversion HF as [|? ? Hk Hks]; subst. cbn [fold_left].
    pose proof (chain_step_stands_for m k cur last j Hk Hs Hid) as H1.
    destruct (chain_step (cur, last, j) k) as [[cur1 last1] j1] eqn:E.
    assert (j1 = S j) by (cbn [chain_step] in E; inversion E; auto). subst j1.
    destruct H1 as (A & B). apply IH; auto. }
  specialize (G ks (XObj i c fs m) None 0 H eq_refl ltac:(cbn [xnid]; lia)).
  destruct (fold_left chain_step ks (XObj i c fs m, None, 0)) as [[cur' last'] j']. cbn [fst].
  destruct cur'; auto.
Qed.
Local Transparent FRESH.
(* the shipped chain loses it: node -> scalar -> fresh object *)
Example shipped_chain_loses_metadata :
  shipped_chainf [CLeaf 11; CWrap 12] (XObj 3 11 [] (Some 77)) = XObj (FRESH + 1) 12 [] None /\
  chainf [CLeaf 11; CWrap 12] (XObj 3 11 [] (Some 77)) = XObj (FRESH + 1) 12 [] (Some 77).
Proof. vm_compute. auto. Qed.

(* ---- C16_once: the callback is applied exactly once per object occurrence of the
   INPUT, whatever the callbacks return (the results of callbacks are not re-traversed) ---- *)
Fixpoint nobj (n : xnode) : nat :=
  match n with
  | XLeaf _ => 0
  | XLst _ l => (fix go (l : list xnode) := match l with [] => 0 | x :: l' => nobj x + go l' end) l
  | XObj _ _ fs _ => S ((fix go (l : list xnode) := match l with [] => 0 | x :: l' => nobj x + go l' end) fs)
  end.
Fixpoint nobjs (l : list xnode) : nat := match l with [] => 0 | x :: l' => nobj x + nobjs l' end.

Lemma tr_log_length_aux f : forall k n s, nsize n <= k ->
  length (xlog (snd (tr f n s))) = length (xlog s) + nobj n.
Proof.
  induction k as [|k IH]; intros n s Hk; [destruct n; cbn in Hk; lia|].
  assert (HL : forall l s, lsize l <= k -> length (xlog (snd (tr_list f l s))) = length (xlog s) + nobjs l).
  { induction l as [|x l IHl]; intros s0 Hl; [cbn; lia|]. cbn [tr_list lsize nobjs] in *.
    pose proof (IH x s0 ltac:(lia)) as Hx. destruct (tr f x s0) as [x' s1]. cbn [snd] in Hx.
    pose proof (IHl s1 ltac:(lia)) as Hr. destruct (tr_list f l s1) as [r s2]. cbn [snd] in *. lia. }
  assert (HF : forall l s, lsize l <= k -> length (xlog (snd (tr_fields f l s))) = length (xlog s) + nobjs l).
  { induction l as [|x l IHl]; intros s0 Hl; [cbn; lia|]. cbn [tr_fields lsize nobjs] in *.
    pose proof (IH x s0 ltac:(lia)) as Hx. destruct (tr f x s0) as [x' s1]. cbn [snd] in Hx.
    pose proof (IHl s1 ltac:(lia)) as Hr. destruct (tr_fields f l s1) as [[r ch] s2]. cbn [snd] in *. lia. }
  destruct n as [i|i l|i c fs m].
  - cbn. lia.
  - change (nsize (XLst i l)) with (S (lsize l)) in Hk.
    change (tr f (XLst i l) s) with
      (let '(l', s') := tr_list f l s in (XLst (xnext s') l', TS (S (xnext s')) (xlog s'))).
    change (nobj (XLst i l)) with (nobjs l).
    pose proof (HL l s ltac:(lia)) as H. destruct (tr_list f l s) as [l' s']. cbn [snd xlog] in *. exact H.
  - change (nsize (XObj i c fs m)) with (S (lsize fs)) in Hk.
    change (tr f (XObj i c fs m) s) with
      (let '(fs', changed, s') := tr_fields f fs s in
       let '(n1, s1) := if changed then (XObj (xnext s') c fs' m, TS (S (xnext s')) (xlog s')) else (XObj i c fs m, s') in
       (f n1, TS (xnext s1) (xlog s1 ++ [xnid n1]))).
    change (nobj (XObj i c fs m)) with (S (nobjs fs)).
    pose proof (HF fs s ltac:(lia)) as H. destruct (tr_fields f fs s) as [[fs' changed] s']. cbn [snd] in *.
    destruct changed; cbn [snd xlog]; rewrite app_length; cbn [length xlog]; lia.
Qed.
Theorem tr_log_length f n s : length (xlog (snd (tr f n s))) = length (xlog s) + nobj n.
Proof. apply (tr_log_length_aux f (nsize n)). lia. Qed.

(* children first: the parent's own application is the LAST entry of the xlog *)
Lemma tr_obj_logs_last f i c fs m s :
  exists l n1, xlog (snd (tr f (XObj i c fs m) s)) = l ++ [xnid n1] /\ fst (tr f (XObj i c fs m) s) = f n1.
Proof.
  change (tr f (XObj i c fs m) s) with
    (let '(fs', changed, s') := tr_fields f fs s in
     let '(n1, s1) := if changed then (XObj (xnext s') c fs' m, TS (S (xnext s')) (xlog s')) else (XObj i c fs m, s') in
     (f n1, TS (xnext s1) (xlog s1 ++ [xnid n1]))).
  destruct (tr_fields f fs s) as [[fs' changed] s']. destruct changed; cbn [fst snd xlog].
  - exists (xlog s'), (XObj (xnext s') c fs' m). split; reflexivity.
  - exists (xlog s'), (XObj i c fs m). split; reflexivity.
Qed.

(* the metadata rule *)
Lemma carry_meta_inherits i c fs m j c' fs' : Nat.eqb i j = false ->
  carry_meta (XObj i c fs m) (XObj j c' fs' None) = XObj j c' fs' m.
Proof. intros H. unfold carry_meta, same. cbn. now rewrite H. Qed.
Lemma carry_meta_keeps_own prev j c' fs' m' : carry_meta prev (XObj j c' fs' (Some m')) = XObj j c' fs' (Some m').
Proof. unfold carry_meta. destruct (same prev _); auto. destruct prev; auto. Qed.
