(* C17: EnvSpike.v plus C17's spilling: a
   sub-expression may be executed through a helper function that receives only
   the declared free variables (Expression.compile / functionalize,
   base.py:25-73).  Theorem: for ANY placement of spills whose declared
   variables cover the names the sub-expression reads, the flat model still
   refines the lexical spec, i.e. spilling is transparent.  The shipped
   freevars() sees none of the inline reads, which is refuted by a witness.
   --- original header of EnvSpike.v: the one new idea C05 needs on top of
   RefineDraft.v — bindings are FLAT Python locals in the generated code but
   LEXICAL in the specification.  Mini-language: literals, sequence, choice,
   let, inline reads of a bound name, a data-dependent predicate, a
   data-dependent repetition count.  Theorem: under no_shadow the flat model
   refines the lexical spec; the shadowing counterexample (D21) is refuted. *)
From Coq Require Import List Arith Bool Lia.
Import ListNotations.

Inductive value := VNone | VStr (s : list nat) | VInt (n : nat) | VList (l : list value).

Inductive expr :=
| Str (s : list nat)
| Seq2 (a b : expr)
| Alt (a b : expr)
| Let (x : nat) (a body : expr)
| Var (x : nat)                     (* `x` *)
| WhereEq (e : expr) (x : nat)      (* e where `lambda v: v == x` *)
| Count (e : expr) (x : nat)        (* e{x} *)
| Spill (fv : list nat) (e : expr). (* e compiled into a helper taking fv; semantically transparent *)

Definition env := list (nat * value).
Fixpoint lookup (x : nat) (en : env) : option value :=
  match en with [] => None | (y, v) :: en' => if Nat.eqb x y then Some v else lookup x en' end.

Fixpoint value_eqb (a b : value) : bool :=
  match a, b with
  | VNone, VNone => true
  | VInt x, VInt y => Nat.eqb x y
  | VStr x, VStr y => if list_eq_dec Nat.eq_dec x y then true else false
  | _, _ => false
  end.

Fixpoint prefix_at (s t : list nat) (p : nat) : bool :=
  match s with
  | [] => true
  | c :: s' => match nth_error t p with
               | Some d => Nat.eqb c d && prefix_at s' t (S p)
               | None => false
               end
  end.

(* outcomes of the spec: Raise = a name is unbound / a count is not a number:
   outside the property's quantifier *)
Inductive sres := Fuel | Raise | Fails | Match (v : value) (p : nat).

Fixpoint count_spec (f : nat -> sres) (k c p : nat) (acc : list value) {struct c} : sres :=
  match c with
  | 0 => Match (VList (rev acc)) p
  | S c' => match k with
            | 0 => Fuel
            | S k => match f p with
                     | Match v p1 => count_spec f k c' p1 (v :: acc)
                     | other => other end
            end
  end.

Section S.
Variable t : list nat.

(* ---------------- SPEC: lexical environments ---------------- *)
Fixpoint peg (n : nat) (E : env) (e : expr) (p : nat) : sres :=
  match n with
  | 0 => Fuel
  | S n =>
    match e with
    | Str s => if prefix_at s t p then Match (VStr s) (p + length s) else Fails
    | Seq2 a b => match peg n E a p with
                  | Match va p1 => match peg n E b p1 with
                                   | Match vb p2 => Match (VList [va; vb]) p2
                                   | other => other end
                  | other => other end
    | Alt a b => match peg n E a p with
                 | Fails => peg n E b p
                 | other => other end
    | Let x a body => match peg n E a p with
                      | Match v p1 => peg n ((x, v) :: E) body p1
                      | other => other end
    | Var x => match lookup x E with Some v => Match v p | None => Raise end
    | WhereEq e x => match peg n E e p with
                     | Match v p1 => match lookup x E with
                                     | Some w => if value_eqb v w then Match v p1 else Fails
                                     | None => Raise end
                     | other => other end
    | Spill _ e => peg n E e p
    | Count e x =>
        match lookup x E with
        | Some (VInt c) =>
            count_spec (peg n E e) n c p []
        | _ => Raise
        end
    end
  end.

(* ---------------- MODEL: one flat namespace per rule function ---------------- *)
Record st := mk { status : bool; result : value; pos : nat; locals : env }.
Inductive out := Done (s : st) | OutOfFuel | Stuck.
Definition upd (s : st) (b : bool) (v : value) (p : nat) := mk b v p (locals s).

Fixpoint count_loop (f : st -> out) (k c : nat) (s : st) (acc : list value) {struct c} : out :=
  match c with
  | 0 => Done (upd s true (VList (rev acc)) (pos s))
  | S c' => match k with
            | 0 => OutOfFuel
            | S k => match f s with
                     | Done s1 => if status s1 then count_loop f k c' s1 (result s1 :: acc) else Done s1
                     | other => other end
            end
  end.

Definition restrict (fv : list nat) (L : env) : env := filter (fun '(x, _) => existsb (Nat.eqb x) fv) L.

Fixpoint exec (n : nat) (e : expr) (s : st) : out :=
  match n with
  | 0 => OutOfFuel
  | S n =>
    match e with
    | Str v => if prefix_at v t (pos s) then Done (upd s true (VStr v) (pos s + length v))
               else Done (upd s false VNone (pos s))
    | Seq2 a b => match exec n a s with
                  | Done s1 => if status s1 then
                                 match exec n b s1 with
                                 | Done s2 => if status s2 then Done (upd s2 true (VList [result s1; result s2]) (pos s2))
                                              else Done s2
                                 | other => other end
                               else Done s1
                  | other => other end
    | Alt a b => let bt := pos s in
                 match exec n a s with
                 | Done s1 => if status s1 then Done s1 else exec n b (upd s1 (status s1) (result s1) bt)
                 | other => other end
    | Let x a body => match exec n a s with
                      | Done s1 => if status s1
                                   then exec n body (mk (status s1) (result s1) (pos s1) ((x, result s1) :: locals s1))
                                   else Done s1
                      | other => other end
    | Var x => match lookup x (locals s) with Some v => Done (upd s true v (pos s)) | None => Stuck end
    | WhereEq e x => match exec n e s with
                     | Done s1 => if status s1 then
                                    match lookup x (locals s1) with
                                    | Some w => if value_eqb (result s1) w then Done s1
                                                else Done (upd s1 false VNone (pos s1))
                                    | None => Stuck end
                                  else Done s1
                     | other => other end
    | Spill fv e =>
        match exec n e (mk (status s) (result s) (pos s) (restrict fv (locals s))) with
        | Done h => Done (upd s (status h) (result h) (pos h))
        | other => other end
    | Count e x =>
        match lookup x (locals s) with
        | Some (VInt c) =>
            count_loop (exec n e) n c s []
        | _ => Stuck
        end
    end
  end.

(* ---------------- the refinement ---------------- *)
Definition sub (E L : env) := forall x v, lookup x E = Some v -> lookup x L = Some v.
Definition dom (E : env) (x : nat) := exists v, lookup x E = Some v.

(* no binder re-binds a name that is in scope *)
Fixpoint no_shadow (sc : list nat) (e : expr) : Prop :=
  match e with
  | Str _ | Var _ => True
  | Seq2 a b | Alt a b => no_shadow sc a /\ no_shadow sc b
  | Let x a body => ~ In x sc /\ no_shadow sc a /\ no_shadow (x :: sc) body
  | WhereEq e _ | Count e _ | Spill _ e => no_shadow sc e
  end.

Definition scope_of (sc : list nat) (E : env) := forall x, dom E x -> In x sc.

Definition agree (E : env) (r : sres) (o : out) : Prop :=
  match r, o with
  | Fuel, OutOfFuel => True
  | Raise, _ => True
  | Match v p', Done s' => status s' = true /\ result s' = v /\ pos s' = p' /\ sub E (locals s')
  | Fails, Done s' => status s' = false /\ sub E (locals s')
  | _, _ => False
  end.

Lemma sub_cons E L x v : sub E L -> sub ((x, v) :: E) ((x, v) :: L).
Proof. intros H y w. cbn. destruct (Nat.eqb y x); auto. Qed.

Lemma sub_drop E L x v sc : scope_of sc E -> ~ In x sc -> sub ((x, v) :: E) L -> sub E L.
Proof.
  intros Hsc Hx H y w Hy. apply H. cbn. destruct (Nat.eqb_spec y x) as [->|]; auto.
  exfalso. apply Hx, Hsc. exists w. exact Hy.
Qed.

Lemma scope_cons sc E x v : scope_of sc E -> scope_of (x :: sc) ((x, v) :: E).
Proof.
  intros H y (w & Hy). cbn in Hy. destruct (Nat.eqb_spec y x) as [->|]; [left; auto|right].
  apply H. exists w. exact Hy.
Qed.

(* names a sub-expression reads from the enclosing scope *)
Fixpoint freads (e : expr) : list nat :=
  match e with
  | Str _ => []
  | Seq2 a b | Alt a b => freads a ++ freads b
  | Let x a body => freads a ++ remove Nat.eq_dec x (freads body)
  | Var x => [x]
  | WhereEq e x | Count e x => x :: freads e
  | Spill _ e => freads e
  end.
(* every helper is given (at least) the names its body reads *)
Fixpoint spills_ok (e : expr) : Prop :=
  match e with
  | Str _ | Var _ => True
  | Seq2 a b | Alt a b | Let _ a b => spills_ok a /\ spills_ok b
  | WhereEq e _ | Count e _ => spills_ok e
  | Spill fv e => incl (freads e) fv /\ spills_ok e
  end.

Lemma count_spec_ext f f' : (forall p, f p = f' p) -> forall c k p acc, count_spec f k c p acc = count_spec f' k c p acc.
Proof.
  intros H. induction c as [|c IHc]; intros k p acc; cbn; auto.
  destruct k; auto. rewrite H. destruct (f' p); auto.
Qed.

Lemma peg_agree : forall n e E E' p,
  (forall x, In x (freads e) -> lookup x E = lookup x E') -> peg n E e p = peg n E' e p.
Proof.
  induction n as [|n IH]; intros e E E' p H; [reflexivity|].
  destruct e as [v|a b|a b|x a body|x|e x|e x|fv e]; cbn [peg]; cbn [freads] in H.
  - reflexivity.
  - rewrite (IH a E E') by (intros; apply H, in_or_app; auto).
    destruct (peg n E' a p); auto. rewrite (IH b E E') by (intros; apply H, in_or_app; auto). reflexivity.
  - rewrite (IH a E E') by (intros; apply H, in_or_app; auto).
    destruct (peg n E' a p); auto. apply IH. intros; apply H, in_or_app; auto.
  - rewrite (IH a E E') by (intros; apply H, in_or_app; auto).
    destruct (peg n E' a p); auto. apply IH. intros y Hy. cbn.
    destruct (Nat.eqb_spec y x); auto. apply H, in_or_app. right. apply in_in_remove; auto.
  - rewrite (H x) by (left; auto). reflexivity.
  - rewrite (IH e E E') by (intros; apply H; right; auto).
    destruct (peg n E' e p); auto. rewrite (H x) by (left; auto). reflexivity.
  - rewrite (H x) by (left; auto). destruct (lookup x E') as [[| |c|]|]; auto.
    apply count_spec_ext. intros q. apply IH. intros; apply H; right; auto.
  - apply IH. exact H.
Qed.

Lemma lookup_restrict fv : forall L x, existsb (Nat.eqb x) fv = true -> lookup x (restrict fv L) = lookup x L.
Proof.
  induction L as [|[y v] L IHL]; intros x Hx; cbn; auto.
  destruct (existsb (Nat.eqb y) fv) eqn:Ey; cbn.
  - destruct (Nat.eqb x y); auto.
  - destruct (Nat.eqb_spec x y) as [->|]; [congruence|]. auto.
Qed.
Lemma lookup_restrict_some fv : forall L x v, lookup x (restrict fv L) = Some v ->
  existsb (Nat.eqb x) fv = true /\ lookup x L = Some v.
Proof.
  induction L as [|[y w] L IHL]; intros x v H; cbn in *; [discriminate|].
  destruct (existsb (Nat.eqb y) fv) eqn:Ey; cbn in H.
  - destruct (Nat.eqb_spec x y) as [->|]; auto.
  - destruct (IHL _ _ H) as (A & B). split; auto.
    destruct (Nat.eqb_spec x y) as [->|]; [congruence|auto].
Qed.

Theorem flat_refines_lexical : forall n e sc E s,
  no_shadow sc e -> spills_ok e -> scope_of sc E -> sub E (locals s) ->
  agree E (peg n E e (pos s)) (exec n e s).
Proof.
  induction n as [|n IH]; intros e sc E s Hns Hsp Hsc Hsub; [exact I|].
  destruct e as [v|a b|a b|x a body|x|e x|e x|fv e]; cbn [peg exec]; cbn [spills_ok] in Hsp.
  - destruct (prefix_at v t (pos s)); cbn; auto.
  - destruct Hns as (Ha & Hb). destruct Hsp as (Sa & Sb).
    pose proof (IH a sc E s Ha Sa Hsc Hsub) as H1. unfold agree in *.
    destruct (peg n E a (pos s)) as [| | |va p1], (exec n a s) as [s1| |]; try tauto.
    + destruct H1 as (A & B). rewrite A. auto.
    + destruct H1 as (A & B & C & D). rewrite A. subst.
      pose proof (IH b sc E s1 Hb Sb Hsc D) as H2. unfold agree in H2.
      destruct (peg n E b (pos s1)) as [| | |vb p2], (exec n b s1) as [s2| |]; try tauto.
      * destruct H2 as (A2 & B2). rewrite A2. auto.
      * destruct H2 as (A2 & B2 & C2 & D2). rewrite A2. cbn. subst. auto.
  - destruct Hns as (Ha & Hb). destruct Hsp as (Sa & Sb).
    pose proof (IH a sc E s Ha Sa Hsc Hsub) as H1. unfold agree in *.
    destruct (peg n E a (pos s)) as [| | |va p1], (exec n a s) as [s1| |]; try tauto.
    + destruct H1 as (A & B). rewrite A.
      exact (IH b sc E (upd s1 false (result s1) (pos s)) Hb Sb Hsc B).
    + destruct H1 as (A & B & C & D). rewrite A. auto.
  - destruct Hns as (Hx & Ha & Hbody). destruct Hsp as (Sa & Sb).
    pose proof (IH a sc E s Ha Sa Hsc Hsub) as H1. unfold agree in *.
    destruct (peg n E a (pos s)) as [| | |va p1], (exec n a s) as [s1| |]; try tauto.
    + destruct H1 as (A & B). rewrite A. auto.
    + destruct H1 as (A & B & C & D). rewrite A. subst.
      pose proof (IH body (x :: sc) ((x, result s1) :: E)
                     (mk true (result s1) (pos s1) ((x, result s1) :: locals s1))
                     Hbody Sb (scope_cons _ _ _ _ Hsc) (sub_cons _ _ _ _ D)) as H2.
      cbn [pos] in H2. unfold agree in H2.
      destruct (peg n ((x, result s1) :: E) body (pos s1)) as [| | |vb p2],
               (exec n body (mk true (result s1) (pos s1) ((x, result s1) :: locals s1))) as [s2| |]; try tauto.
      * destruct H2 as (A2 & B2). split; auto. eapply sub_drop; eauto.
      * destruct H2 as (A2 & B2 & C2 & D2). repeat split; auto. eapply sub_drop; eauto.
  - destruct (lookup x E) as [v|] eqn:El; [|exact I].
    rewrite (Hsub _ _ El). cbn. auto.
  - pose proof (IH e sc E s Hns Hsp Hsc Hsub) as H1. unfold agree in *.
    destruct (peg n E e (pos s)) as [| | |va p1], (exec n e s) as [s1| |]; try tauto.
    + destruct H1 as (A & B). rewrite A. auto.
    + destruct H1 as (A & B & C & D). rewrite A. subst.
      destruct (lookup x E) as [w|] eqn:El; [|exact I].
      rewrite (D _ _ El). destruct (value_eqb (result s1) w); cbn; auto.
  - destruct (lookup x E) as [[| |c|]|] eqn:El; try exact I.
    rewrite (Hsub _ _ El).
    assert (HL : forall c0 k s0 acc, sub E (locals s0) ->
      agree E (count_spec (peg n E e) k c0 (pos s0) acc) (count_loop (exec n e) k c0 s0 acc)).
    { induction c0 as [|c0 IHc]; intros k s0 acc Hs0.
      - cbn. auto.
      - destruct k as [|k]; [exact I|]. cbn [count_spec count_loop].
        pose proof (IH e sc E s0 Hns Hsp Hsc Hs0) as H1. unfold agree in H1 |- *.
        destruct (peg n E e (pos s0)) as [| | |va p1], (exec n e s0) as [s1| |]; try tauto.
        + destruct H1 as (A & B). rewrite A. auto.
        + destruct H1 as (A & B & C & D). rewrite A. subst. apply IHc. exact D. }
    apply HL. exact Hsub.
  - (* Spill: the helper sees only fv; its registers come back, the caller's locals stay *)
    destruct Hsp as (Hcov & Hsp).
    set (Eh := restrict fv E). set (sh := mk (status s) (result s) (pos s) (restrict fv (locals s))).
    assert (Hsubh : sub Eh (locals sh)).
    { intros y w Hy. destruct (lookup_restrict_some _ _ _ _ Hy) as (A & B).
      cbn [locals sh]. rewrite lookup_restrict by exact A. apply Hsub. exact B. }
    assert (Hsch : scope_of sc Eh).
    { intros y (w & Hy). destruct (lookup_restrict_some _ _ _ _ Hy) as (_ & B). apply Hsc. exists w. exact B. }
    pose proof (IH e sc Eh sh Hns Hsp Hsch Hsubh) as H1. cbn [pos sh] in H1.
    assert (Hpeg : peg n Eh e (pos s) = peg n E e (pos s)).
    { apply peg_agree. intros y Hy. unfold Eh. apply lookup_restrict.
      apply existsb_exists. exists y. split; [apply Hcov; exact Hy | apply Nat.eqb_refl]. }
    rewrite Hpeg in H1. unfold agree in *.
    destruct (peg n E e (pos s)) as [| | |va p1], (exec n e sh) as [h| |]; try tauto.
Qed.
End S.

(* D21: let x = "a" in [ (let x = "b" in `x`), `x` ]  on "ab" *)
Definition d21 := Let 1 (Str [97]) (Seq2 (Let 1 (Str [98]) (Var 1)) (Var 1)).
Example d21_spec : peg [97; 98] 10 [] d21 0 = Match (VList [VStr [98]; VStr [97]]) 2.
Proof. vm_compute. reflexivity. Qed.
Example d21_flat_refuted :
  exec [97; 98] 10 d21 (mk false VNone 0 []) = Done (mk true (VList [VStr [98]; VStr [98]]) 2 [(1, VStr [98]); (1, VStr [97])]).
Proof. vm_compute. reflexivity. Qed.

(* D12 / C17: the shipped freevars() does not see inline reads, so the helper gets no variables *)
Definition d12 := Let 1 (Str [97]) (Spill [] (Seq2 (Str [98]) (Var 1))).
Example d12_spec : peg [97; 98] 10 [] d12 0 = Match (VList [VStr [98]; VStr [97]]) 2.
Proof. vm_compute. reflexivity. Qed.
Example d12_shipped_stuck : exec [97; 98] 10 d12 (mk false VNone 0 []) = Stuck.
Proof. vm_compute. reflexivity. Qed.
Example d12_repaired : exists s', exec [97; 98] 10 (Let 1 (Str [97]) (Spill [1] (Seq2 (Str [98]) (Var 1)))) (mk false VNone 0 []) = Done s'
                                  /\ result s' = VList [VStr [98]; VStr [97]].
Proof. eexists. vm_compute. split; reflexivity. Qed.
