(* C02: an independent executable reference for
   operator tables — precedence climbing written from the statement of C02,
   not from the shunting-yard loop — compared with the repaired loop of
   OpTableSpike.v by exhaustive in-Coq sweeps (a test of the reference, which is
   to serve as the search oracle; the theorems about the loop are in
   OpTableSpike.v). *)
From Coq Require Import List Arith Bool Lia.
Import ListNotations.
Require Import OpTable.

Section P.
Variable tb : table.
Variable toks : list tok.

Definition look (kind : assoc -> bool) (p : nat) : option (nat * nat * nat) :=
  match nth_error toks p with
  | Some (TOp n) => find_row kind tb 0 n
  | _ => None
  end.

(* result: tree, position after it, and "stop": a non-associative conflict ended the whole expression *)
Definition pres : Type := option (tree * nat * bool).

(* may an infix/postfix operator of row q continue an expression whose limit is (lim, incl)?
   lim = None: no limit.  An operator of row q fits below the limit if it binds tighter,
   or equally when the limit is inclusive (right associativity). *)
Definition fits (lim : option (nat * bool)) (q : nat) : bool :=
  match lim with
  | None => true
  | Some (l, incl) => Nat.ltb q l || (incl && Nat.eqb q l)
  end.

Fixpoint expr_ (fuel : nat) (lim : option (nat * bool)) (p : nat) : pres :=
  match fuel with
  | 0 => None
  | S fuel =>
    (* a unit: prefix operators then an operand; a prefix operator of row r takes as its
       argument everything that binds tighter than r *)
    let unit_ : pres :=
      match look is_prefix_row p with
      | Some (r, _, name) =>
          match expr_ fuel (Some (r, false)) (S p) with
          | Some (t, q, stop) => Some (Pre name t, q, stop)
          | None => None
          end
      | None =>
          match nth_error toks p with
          | Some (TOpd v) => Some (Opd v, S p, false)
          | _ => None
          end
      end in
    match unit_ with
    | None => None
    | Some (t, q, stop) => if stop then Some (t, q, true) else tail_ fuel lim t q None
    end
  end
(* operators after a complete left operand; na = Some q: left is an application of a
   non-associative operator of row q, which must not be chained *)
with tail_ (fuel : nat) (lim : option (nat * bool)) (left : tree) (p : nat) (na : option nat) : pres :=
  match fuel with
  | 0 => Some (left, p, false)
  | S fuel =>
    match look is_postfix_row p with
    | Some (q, _, name) =>
        if fits lim q then tail_ fuel lim (Post left name) (S p) None else Some (left, p, false)
    | None =>
      match look is_infix_row p with
      | Some (q, a, name) =>
          if (match na with Some q0 => Nat.eqb q0 q | None => false end)
          then Some (left, p, true)                    (* non-associative: the expression ends before the second operator *)
          else
          if fits lim q then
            (* the right operand: tighter than q, or as tight for a right-associative row *)
            match expr_ fuel (Some (q, Nat.eqb a 2)) (S p) with
            | None => Some (left, p, false)            (* operator without operand: left unconsumed *)
            | Some (r, p2, stop) =>
                if stop then Some (Inf left name r, p2, true)
                else tail_ fuel lim (Inf left name r) p2 (if Nat.eqb a 3 then Some q else None)
            end
          else Some (left, p, false)
      | None => Some (left, p, false)
      end
    end
  end.

Definition pratt : option (tree * nat) :=
  match expr_ (2 * length toks + 2) None 0 with
  | Some (t, q, _) => Some (t, q)
  | None => None
  end.
End P.

(* the repaired loop of OpTableSpike *)
Definition loop (tb : table) (toks : list tok) : option (tree * nat) :=
  match main2 tb toks (length toks + 1) (MK [] [] 0 0 0) with
  | Some sf => finish sf
  | None => None
  end.

Fixpoint tree_eqb (a b : tree) : bool :=
  match a, b with
  | Opd x, Opd y => Nat.eqb x y
  | Pre o t, Pre o' t' => Nat.eqb o o' && tree_eqb t t'
  | Post t o, Post t' o' => Nat.eqb o o' && tree_eqb t t'
  | Inf l o r, Inf l' o' r' => Nat.eqb o o' && tree_eqb l l' && tree_eqb r r'
  | _, _ => false
  end.
Definition same (x y : option (tree * nat)) : bool :=
  match x, y with
  | None, None => true
  | Some (t, e), Some (t', e') => tree_eqb t t' && Nat.eqb e e'
  | _, _ => false
  end.

Definition agree_on (tb : table) (alphabet : list tok) (n : nat) : list (list tok) :=
  filter (fun w => negb (same (pratt tb w) (loop tb w))) (all_toks alphabet n).

(* first disagreements, if any *)

(* more tables: loose prefix, loose postfix, right and non-associative rows, shared spellings *)
Definition NOT := 6. Definition EQ := 7. Definition ARROW := 8. Definition BANG := 9.
Definition tbB : table := [(ALeft, [STAR]); (ALeft, [PLUS]); (AInfix, [EQ]); (APrefix, [NOT]); (ARight, [ARROW]); (APostfix, [BANG])].
Definition alphaB := [TOpd 1; TOp STAR; TOp PLUS; TOp EQ; TOp NOT; TOp ARROW; TOp BANG].
Definition tbC : table := [(APostfix, [PCT]); (APrefix, [MINUS]); (ALeft, [MINUS]); (AInfix, [PCT]); (ARight, [MINUS; HAT])].
Definition alphaC := [TOpd 1; TOp MINUS; TOp PCT; TOp HAT].
Definition tbD : table := [(APrefix, [MINUS]); (AInfix, [MINUS]); (APostfix, [MINUS])].

Example pratt_eq_loop_A : agree_on tbA alphaA 6 = [].  Proof. vm_compute. reflexivity. Qed.
Example pratt_eq_loop_B : agree_on tbB alphaB 5 = [].  Proof. vm_compute. reflexivity. Qed.
Example pratt_eq_loop_C : agree_on tbC alphaC 7 = [].  Proof. vm_compute. reflexivity. Qed.
Example pratt_eq_loop_D : agree_on tbD [TOpd 1; TOp MINUS] 9 = [].  Proof. vm_compute. reflexivity. Qed.

(* the bounded sweeps, lifted: for every token string of the stated alphabet and length *)
Lemma agree_on_forall tb al n : agree_on tb al n = [] ->
  forall w, In w (all_toks al n) -> same (pratt tb w) (loop tb w) = true.
Proof.
  intros H w Hw. destruct (same (pratt tb w) (loop tb w)) eqn:E; auto.
  assert (In w (agree_on tb al n)) by (unfold agree_on; apply filter_In; split; auto; rewrite E; reflexivity).
  rewrite H in H0. contradiction.
Qed.

(* a spelling that is non-associative infix in one row and postfix in a looser row *)
Definition tbE : table := [(AInfix, [MINUS; STAR]); (APostfix, [MINUS]); (ALeft, [PLUS; PCT])].
Definition alphaE := [TOpd 1; TOp MINUS; TOp STAR; TOp PLUS].
Example pratt_eq_loop_E : agree_on tbE alphaE 7 = [].  Proof. vm_compute. reflexivity. Qed.

(* C19: the Expr table of grammar.txt, one representative spelling per row:
   postfix call ; postfix ? ; left // ; left << ; left |> ; left | ; postfix between *)
Definition tbExpr : table :=
  [(APostfix, [11]); (APostfix, [12]); (ALeft, [13]); (ALeft, [14]); (ALeft, [15]); (ALeft, [16]); (APostfix, [17])].
Definition alphaExpr := [TOpd 1; TOp 11; TOp 12; TOp 13; TOp 14; TOp 15; TOp 16; TOp 17].
Example pratt_eq_loop_Expr : agree_on tbExpr alphaExpr 5 = [].  Proof. vm_compute. reflexivity. Qed.
(* binary operators associate to the left and earlier rows bind tighter:  a | b >> c // d  =  a | (b >> (c // d)),
   a >> b >> c = (a >> b) >> c,  postfix forms tightest *)
Example expr_grouping_examples :
  loop tbExpr [TOpd 1; TOp 16; TOpd 2; TOp 14; TOpd 3; TOp 13; TOpd 4]
    = Some (Inf (Opd 1) 16 (Inf (Opd 2) 14 (Inf (Opd 3) 13 (Opd 4))), 7)
  /\ loop tbExpr [TOpd 1; TOp 14; TOpd 2; TOp 14; TOpd 3] = Some (Inf (Inf (Opd 1) 14 (Opd 2)) 14 (Opd 3), 5)
  /\ loop tbExpr [TOpd 1; TOp 13; TOpd 2; TOp 12] = Some (Inf (Opd 1) 13 (Post (Opd 2) 12), 4).
Proof. vm_compute. auto. Qed.
