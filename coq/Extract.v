(* Extraction of the executable model and specification (ExtrOcamlBasic only;
   nat/Z stay the extracted datatypes; no Extract Constant). *)
Require Extraction.
Require Import ExtrOcamlBasic.
Require Import ExcerptModel ExcerptSpec Model Spec Entry SpanSpec Run Visit Traverse Transform Objects OpTable Pratt PrecOk.
Extraction "../ocaml/model.ml"
  lc_map line_col extract_text bytes_window error_line_col
  spec_line spec_col linecol_ok excerpt_ok
  always partial exec fresh peg parse_model spans_ordered run_script visit_loop dfs_list visit_loop2 dfs2_list traverse_loop ev tr chainf py_eq loop pratt pok.
