(* C10: _finalize_parse_info converts the raw (start, end) pair of EVERY class instance of the result,
   because it walks the result with visit (translator.py: `for node in visit(nodes)`), and visit yields
   every object reachable through lists, tuples, dict values and fields - also those below objects that
   have no span of their own (operator nodes, objects built by inline Python).  The walk is Visit.v's
   visit_loop2 (tied to /repo by the C15 correspondence); the conversion of one span is Finalize.v's. *)
From Coq Require Import List Arith Bool Lia.
Import ListNotations.
Require Import Visit.

Section FV.
Variable sub : nat -> list node.

Inductive span := Raw (s e : nat) | Fin (s e : nat).
Definition spans := nat -> option span.                    (* identity of an object -> its position_info *)
(* `if pos_info and not isinstance(pos_info, _PositionInfo)`: raw pairs are converted, converted ones and
   objects without a span are left alone *)
Definition conv (x : option span) : option span :=
  match x with Some (Raw s e) => Some (Fin s (e - 1)) | other => other end.
Definition convert (sp : spans) (i : nat) : spans := fun j => if Nat.eqb j i then conv (sp j) else sp j.
Definition finalize_all (fuel : nat) (n : node) (sp : spans) : option spans :=
  match visit_loop2 fuel [n] [] [] with
  | Some (o, _) => Some (fold_left convert o sp)
  | None => None
  end.

Lemma conv_idem x : conv (conv x) = conv x.
Proof. destruct x as [[s e|s e]|]; reflexivity. Qed.

Lemma fold_convert : forall o sp i,
  fold_left convert o sp i = if existsb (Nat.eqb i) o then conv (sp i) else sp i.
Proof.
  induction o as [|j o IH]; intros sp i; cbn [fold_left existsb]; [reflexivity|].
  rewrite IH. change (convert sp j i) with (if Nat.eqb i j then conv (sp i) else sp i).
  destruct (Nat.eqb i j) eqn:E; cbn [orb].
  - rewrite conv_idem. destruct (existsb (Nat.eqb i) o); reflexivity.
  - reflexivity.
Qed.

Lemma existsb_eqb_In i o : existsb (Nat.eqb i) o = true <-> In i o.
Proof.
  rewrite existsb_exists. split.
  - intros (x & Hx & E). apply Nat.eqb_eq in E. subst. exact Hx.
  - intros H. exists i. split; [exact H | apply Nat.eqb_refl].
Qed.

(* every object of the result is converted (once: conversion is idempotent and the walk yields an identity at most
   once), whatever lies between it and the root; everything the walk does not yield is left as it was *)
Theorem finalize_reaches_every_instance : forall n sp,
  wf sub n -> (forall i, In i (objs n) -> ~ In i (conts n)) ->
  exists o sp', finalize_all (size n) n sp = Some sp' /\ NoDup o
    /\ (forall i, In i (objs n) -> In i o)
    /\ (forall i, In i o -> sp' i = conv (sp i))
    /\ (forall i, ~ In i o -> sp' i = sp i).
Proof.
  intros n sp Hw Hdis. unfold finalize_all.
  rewrite (visit2_is_dfs2 (size n) [n] [] []) by (cbn; lia).
  cbn [dfs2_list]. destruct (dfs2 n []) as [o v] eqn:E. cbn [app].
  exists (o ++ []), (fold_left convert (o ++ []) sp). rewrite !app_nil_r.
  pose proof (dfs2_fresh (size n) n [] (le_n _)) as F. rewrite E in F. destruct F as (_ & Hnd & _).
  pose proof (visit2_complete sub n Hw Hdis) as C. rewrite E in C. cbn [fst] in C.
  repeat split; auto.
  - intros i Hi. rewrite fold_convert. apply existsb_eqb_In in Hi. rewrite Hi. reflexivity.
  - intros i Hi. rewrite fold_convert. destruct (existsb (Nat.eqb i) o) eqn:X; auto.
    apply existsb_eqb_In in X. contradiction.
Qed.
End FV.

(* an instance below an object that has NO span (an operator node, 1) and inside a shared list is converted *)
Example finalize_below_spanless :
  let shared := Cont 5 [Obj 6 []; Obj 7 []] in
  let t := Obj 1 [shared; Cont 8 [shared; Obj 9 []]] in
  let sp := fun i => match i with 6 => Some (Raw 0 2) | 7 => Some (Raw 2 5) | 9 => Some (Fin 5 6) | _ => None end in
  match finalize_all (size t) t sp with
  | Some sp' => sp' 1 = None /\ sp' 6 = Some (Fin 0 1) /\ sp' 7 = Some (Fin 2 4) /\ sp' 9 = Some (Fin 5 6)
  | None => False
  end.
Proof. vm_compute. repeat split; reflexivity. Qed.
