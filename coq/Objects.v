(* C14: ParsedObject.__eq__ / __hash__ / _hash
   (translator.py:471-527) over a nested pvalue domain; equal objects have equal
   hashes, with builtin hash abstract. *)
From Coq Require Import List ZArith Bool Lia.
Import ListNotations.
Open Scope Z_scope.

(* payload kinds with Python's == already quotiented: numbers (int/bool share
   a pvalue), strings, None *)
Inductive prim := QNum (z : Z) | QStr (s : list nat) | QBytes (s : list nat) | QNone.
Definition prim_eqb (a b : prim) : bool :=
  match a, b with
  | QNum x, QNum y => Z.eqb x y
  | QStr x, QStr y | QBytes x, QBytes y => if list_eq_dec Nat.eq_dec x y then true else false
  | QNone, QNone => true
  | _, _ => false
  end.

Inductive pvalue :=
| Pm (p : prim)
| Ls (l : list pvalue)            (* list: unhashable *)
| Tp (l : list pvalue)            (* tuple: hashable iff all members are *)
| Ob (cls : nat) (fields : list pvalue).   (* ParsedObject; metadata and identity are not part of == *)

Section Hash.
Variable hprim : prim -> Z.                 (* builtin hash on scalars *)
Variable htuple : list Z -> Z.              (* builtin tuple hash as a function of member hashes *)
Hypothesis hprim_eq : forall a b, prim_eqb a b = true -> hprim a = hprim b.

Fixpoint py_eq (a b : pvalue) {struct a} : bool :=
  match a, b with
  | Pm x, Pm y => prim_eqb x y
  | Ls xs, Ls ys | Tp xs, Tp ys =>
      (fix go (xs ys : list pvalue) : bool :=
         match xs, ys with
         | [], [] => true
         | x :: xs', y :: ys' => py_eq x y && go xs' ys'
         | _, _ => false
         end) xs ys
  | Ob c xs, Ob d ys =>
      Nat.eqb c d &&
      (fix go (xs ys : list pvalue) : bool :=
         match xs, ys with
         | [], [] => true
         | x :: xs', y :: ys' => py_eq x y && go xs' ys'
         | _, _ => false
         end) xs ys
  | _, _ => false
  end.
Fixpoint eq_list (xs ys : list pvalue) : bool :=
  match xs, ys with
  | [], [] => true
  | x :: xs', y :: ys' => py_eq x y && eq_list xs' ys'
  | _, _ => false
  end.

(* hashable v = hash(v) does not raise TypeError *)
Fixpoint hashable (v : pvalue) : bool :=
  match v with
  | Pm _ => true
  | Ls _ => false
  | Tp l => (fix all (l : list pvalue) := match l with [] => true | x :: l' => hashable x && all l' end) l
  | Ob _ _ => true           (* ParsedObject defines __hash__ *)
  end.
Fixpoint hashable_list (l : list pvalue) := match l with [] => true | x :: l' => hashable x && hashable_list l' end.

(* _hash(pvalue): try hash(pvalue) / except TypeError: xor of members *)
Fixpoint py_hash (v : pvalue) : Z :=
  match v with
  | Pm p => hprim p
  | Ls l => (fix xo (l : list pvalue) : Z := match l with [] => 0 | x :: l' => Z.lxor (py_hash x) (xo l') end) l
  | Tp l =>
      if hashable_list l
      then htuple ((fix hs (l : list pvalue) : list Z := match l with [] => [] | x :: l' => py_hash x :: hs l' end) l)
      else (fix xo (l : list pvalue) : Z := match l with [] => 0 | x :: l' => Z.lxor (py_hash x) (xo l') end) l
  | Ob _ fs => (fix xo (l : list pvalue) : Z := match l with [] => 0 | x :: l' => Z.lxor (py_hash x) (xo l') end) fs
  end.
Fixpoint xor_list (l : list pvalue) : Z := match l with [] => 0 | x :: l' => Z.lxor (py_hash x) (xor_list l') end.
Fixpoint hash_list (l : list pvalue) : list Z := match l with [] => [] | x :: l' => py_hash x :: hash_list l' end.

(* a size-based induction principle for the nested type *)
Fixpoint vsize (v : pvalue) : nat :=
  match v with
  | Pm _ => 1%nat
  | Ls l | Tp l | Ob _ l => S ((fix sz (l : list pvalue) : nat := match l with [] => 0%nat | x :: l' => (vsize x + sz l')%nat end) l)
  end.
Fixpoint lsize (l : list pvalue) : nat := match l with [] => 0%nat | x :: l' => (vsize x + lsize l')%nat end.

Lemma eq_hash_aux : forall n a b, (vsize a <= n)%nat -> py_eq a b = true ->
  py_hash a = py_hash b /\ hashable a = hashable b.
Proof.
  induction n as [|n IHv]; intros a b Ha He.
  - destruct a; cbn in Ha; lia.
  - assert (Hl : forall xs ys, (lsize xs <= n)%nat -> eq_list xs ys = true ->
      xor_list xs = xor_list ys /\ hash_list xs = hash_list ys /\ hashable_list xs = hashable_list ys).
    { induction xs as [|x xs IHxs]; intros [|y ys] Hs Hq; cbn [eq_list] in Hq; try discriminate; auto.
      apply andb_true_iff in Hq. destruct Hq as [Hx Hxs]. cbn [lsize] in Hs.
      destruct (IHv x y ltac:(lia) Hx) as (A1 & A2).
      destruct (IHxs ys ltac:(lia) Hxs) as (B1 & B2 & B3).
      cbn [xor_list hash_list hashable_list]. rewrite A1, A2, B1, B2, B3. auto. }
    destruct a as [p|xs|xs|c xs], b as [q|ys|ys|d ys]; try discriminate.
    + cbn in *. split; auto.
    + change (eq_list xs ys = true) in He. change (S (lsize xs) <= S n)%nat in Ha.
      destruct (Hl xs ys ltac:(lia) He) as (H1 & H2 & H3).
      split; [exact H1 | reflexivity].
    + change (eq_list xs ys = true) in He. change (S (lsize xs) <= S n)%nat in Ha.
      destruct (Hl xs ys ltac:(lia) He) as (H1 & H2 & H3).
      change (py_hash (Tp xs)) with (if hashable_list xs then htuple (hash_list xs) else xor_list xs).
      change (py_hash (Tp ys)) with (if hashable_list ys then htuple (hash_list ys) else xor_list ys).
      change (hashable (Tp xs)) with (hashable_list xs). change (hashable (Tp ys)) with (hashable_list ys).
      rewrite H1, H2, H3. auto.
    + change (Nat.eqb c d && eq_list xs ys = true) in He. apply andb_true_iff in He. destruct He as [_ He].
      change (S (lsize xs) <= S n)%nat in Ha.
      destruct (Hl xs ys ltac:(lia) He) as (H1 & H2 & H3).
      split; [exact H1 | reflexivity].
Qed.

Theorem eq_implies_hash a b : py_eq a b = true -> py_hash a = py_hash b.
Proof. intros H. apply (eq_hash_aux (vsize a) a b (le_n _) H). Qed.
End Hash.

(* ---- C14_eq_equiv: == on parsed values is an equivalence relation ---- *)
Section Equiv.
Lemma prim_eqb_refl a : prim_eqb a a = true.
Proof. destruct a; cbn; auto; [apply Z.eqb_refl | |]; destruct (list_eq_dec Nat.eq_dec s s); auto. Qed.
Lemma prim_eqb_sym a b : prim_eqb a b = prim_eqb b a.
Proof.
  destruct a, b; cbn; auto; [apply Z.eqb_sym | |];
  destruct (list_eq_dec Nat.eq_dec s s0), (list_eq_dec Nat.eq_dec s0 s); auto; congruence.
Qed.
Lemma prim_eqb_trans a b c : prim_eqb a b = true -> prim_eqb b c = true -> prim_eqb a c = true.
Proof.
  destruct a, b, c; cbn; try discriminate; auto.
  - rewrite !Z.eqb_eq. congruence.
  - destruct (list_eq_dec Nat.eq_dec s s0), (list_eq_dec Nat.eq_dec s0 s1), (list_eq_dec Nat.eq_dec s s1);
      auto; try discriminate; congruence.
  - destruct (list_eq_dec Nat.eq_dec s s0), (list_eq_dec Nat.eq_dec s0 s1), (list_eq_dec Nat.eq_dec s s1);
      auto; try discriminate; congruence.
Qed.

Lemma py_eq_unfold_L xs ys : py_eq (Ls xs) (Ls ys) = eq_list xs ys. Proof. reflexivity. Qed.
Lemma py_eq_unfold_T xs ys : py_eq (Tp xs) (Tp ys) = eq_list xs ys. Proof. reflexivity. Qed.
Lemma py_eq_unfold_O c d xs ys : py_eq (Ob c xs) (Ob d ys) = Nat.eqb c d && eq_list xs ys. Proof. reflexivity. Qed.

Lemma py_eq_refl_aux : forall n a, (vsize a <= n)%nat -> py_eq a a = true.
Proof.
  induction n as [|n IH]; intros a Ha; [destruct a; cbn in Ha; lia|].
  assert (HL : forall l, (lsize l <= n)%nat -> eq_list l l = true).
  { induction l as [|x l IHl]; intros Hl; cbn [eq_list lsize] in *; auto.
    assert (vsize x >= 1)%nat by (destruct x; cbn; lia).
    rewrite IH by lia. rewrite IHl by lia. reflexivity. }
  destruct a as [p|l|l|c l].
  - apply prim_eqb_refl.
  - rewrite py_eq_unfold_L. apply HL. change (S (lsize l) <= S n)%nat in Ha. lia.
  - rewrite py_eq_unfold_T. apply HL. change (S (lsize l) <= S n)%nat in Ha. lia.
  - rewrite py_eq_unfold_O, Nat.eqb_refl. apply HL. change (S (lsize l) <= S n)%nat in Ha. lia.
Qed.
Theorem py_eq_refl a : py_eq a a = true.
Proof. apply (py_eq_refl_aux (vsize a)). lia. Qed.

Lemma py_eq_sym_aux : forall n a b, (vsize a <= n)%nat -> py_eq a b = py_eq b a.
Proof.
  induction n as [|n IH]; intros a b Ha; [destruct a; cbn in Ha; lia|].
  assert (HL : forall l m, (lsize l <= n)%nat -> eq_list l m = eq_list m l).
  { induction l as [|x l IHl]; intros [|y m] Hl; cbn [eq_list lsize] in *; auto.
    assert (vsize x >= 1)%nat by (destruct x; cbn; lia).
    rewrite (IH x y) by lia. rewrite (IHl m) by lia. reflexivity. }
  destruct a as [p|l|l|c l], b as [q|m|m|d m]; try reflexivity.
  - apply prim_eqb_sym.
  - rewrite !py_eq_unfold_L. apply HL. change (S (lsize l) <= S n)%nat in Ha. lia.
  - rewrite !py_eq_unfold_T. apply HL. change (S (lsize l) <= S n)%nat in Ha. lia.
  - rewrite !py_eq_unfold_O. rewrite (Nat.eqb_sym c d). f_equal. apply HL. change (S (lsize l) <= S n)%nat in Ha. lia.
Qed.
Theorem py_eq_sym a b : py_eq a b = py_eq b a.
Proof. apply (py_eq_sym_aux (vsize a)). lia. Qed.

Lemma py_eq_trans_aux : forall n a b c, (vsize a <= n)%nat -> py_eq a b = true -> py_eq b c = true -> py_eq a c = true.
Proof.
  induction n as [|n IH]; intros a b c Ha H1 H2; [destruct a; cbn in Ha; lia|].
  assert (HL : forall l m k, (lsize l <= n)%nat -> eq_list l m = true -> eq_list m k = true -> eq_list l k = true).
  { induction l as [|x l IHl]; intros [|y m] [|z k] Hl E1 E2; cbn [eq_list lsize] in *; auto; try discriminate.
    apply andb_true_iff in E1. apply andb_true_iff in E2. destruct E1 as (A1 & A2), E2 as (B1 & B2).
    assert (vsize x >= 1)%nat by (destruct x; cbn; lia).
    rewrite (IH x y z) by (auto; lia). rewrite (IHl m k) by (auto; lia). reflexivity. }
  destruct a as [p|l|l|ca l], b as [q|m|m|cb m]; try discriminate; destruct c as [r|k|k|cc k]; try discriminate.
  - eapply prim_eqb_trans; eauto.
  - rewrite py_eq_unfold_L in *. eapply HL; eauto. change (S (lsize l) <= S n)%nat in Ha. lia.
  - rewrite py_eq_unfold_T in *. eapply HL; eauto. change (S (lsize l) <= S n)%nat in Ha. lia.
  - rewrite py_eq_unfold_O in *. apply andb_true_iff in H1. apply andb_true_iff in H2.
    destruct H1 as (A1 & A2), H2 as (B1 & B2). apply Nat.eqb_eq in A1. apply Nat.eqb_eq in B1. subst.
    rewrite Nat.eqb_refl. eapply HL; eauto. change (S (lsize l) <= S n)%nat in Ha. lia.
Qed.
Theorem py_eq_trans a b c : py_eq a b = true -> py_eq b c = true -> py_eq a c = true.
Proof. apply (py_eq_trans_aux (vsize a)). lia. Qed.
End Equiv.


(* ---- _replace: a new object with the given field replaced, the others kept ---- *)
Fixpoint replace_nth (k : nat) (v : pvalue) (fs : list pvalue) : list pvalue :=
  match fs, k with
  | [], _ => []
  | _ :: r, 0%nat => v :: r
  | x :: r, S k' => x :: replace_nth k' v r
  end.
Lemma replace_nth_same k v fs : (k < length fs)%nat -> nth_error (replace_nth k v fs) k = Some v.
Proof. revert k; induction fs as [|x fs IH]; intros [|k] H; cbn in *; auto; try lia. apply IH. lia. Qed.
Lemma replace_nth_other k j v fs : k <> j -> nth_error (replace_nth k v fs) j = nth_error fs j.
Proof. revert k j; induction fs as [|x fs IH]; intros [|k] [|j] H; cbn; auto; try congruence. Qed.
Lemma replace_nth_length k v fs : length (replace_nth k v fs) = length fs.
Proof. revert k; induction fs as [|x fs IH]; intros [|k]; cbn; auto. Qed.
