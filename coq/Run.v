(* C07: _run (translator.py:654-681) as a machine
   with an explicit stack and a memo table, over abstract rule bodies given as
   interaction trees; memo transparency and the at-most-once log. *)
From Coq Require Import List Arith Bool Lia.
Import ListNotations.

Section Run.
Variable value : Type.
Definition triple : Type := (bool * value * nat).
Definition key : Type := (nat * nat).           (* rule function id, position *)
Definition key_eqb (a b : key) := Nat.eqb (fst a) (fst b) && Nat.eqb (snd a) (snd b).

Lemma key_eqb_eq a b : key_eqb a b = true <-> a = b.
Proof.
  destruct a, b; unfold key_eqb; cbn. rewrite andb_true_iff, !Nat.eqb_eq.
  split; [intros []; subst; auto | inversion 1; auto].
Qed.

Inductive comp :=
| Ret (r : triple)
| CallK (k : key) (cont : triple -> comp)      (* memoised call: (CALL, function, pos) is hashable *)
| CallU (c : comp) (cont : triple -> comp).    (* call whose key cannot be hashed (unhashable argument of a
                                                  parameterised rule): evaluated in a frame with key None *)

Variable body : key -> comp.        (* what the generator for (rule,pos) does *)
Variable dummy : triple.            (* Python sends None to a fresh generator *)

(* ---- reference: direct recursive evaluation, no memo ---- *)
Fixpoint run_comp (n : nat) (c : comp) : option triple :=
  match n with
  | 0 => None
  | S n => match c with
           | Ret r => Some r
           | CallK k cont => match run_comp n (body k) with
                             | None => None
                             | Some r => run_comp n (cont r)
                             end
           | CallU c0 cont => match run_comp n c0 with
                              | None => None
                              | Some r => run_comp n (cont r)
                              end
           end
  end.
Definition eval n k := run_comp n (body k).

Lemma run_comp_mono : forall n c r, run_comp n c = Some r -> run_comp (S n) c = Some r.
Proof.
  induction n as [|n IH]; intros c r H; [discriminate|].
  destruct c as [r0|k cont|c0 cont]; [exact H| |].
  - cbn [run_comp] in H. destruct (run_comp n (body k)) as [r1|] eqn:E; [|discriminate].
    change (match run_comp (S n) (body k) with Some r2 => run_comp (S n) (cont r2) | None => None end = Some r).
    rewrite (IH _ _ E). apply IH. exact H.
  - cbn [run_comp] in H. destruct (run_comp n c0) as [r1|] eqn:E; [|discriminate].
    change (match run_comp (S n) c0 with Some r2 => run_comp (S n) (cont r2) | None => None end = Some r).
    rewrite (IH _ _ E). apply IH. exact H.
Qed.

Lemma run_comp_mono' n m c r : n <= m -> run_comp n c = Some r -> run_comp m c = Some r.
Proof. induction 1; auto. intros. apply run_comp_mono. auto. Qed.

Lemma run_comp_det n m c r r' : run_comp n c = Some r -> run_comp m c = Some r' -> r = r'.
Proof.
  intros H H'. apply (run_comp_mono' n (max n m)) in H; [|lia].
  apply (run_comp_mono' m (max n m)) in H'; [|lia]. congruence.
Qed.

(* ---- the machine ---- *)
Definition memo := key -> option triple.
Definition upd (m : memo) (k : key) (r : triple) : memo :=
  fun k' => if key_eqb k' k then Some r else m k'.
Definition store (m : memo) (ok : option key) (r : triple) : memo :=
  match ok with Some k => upd m k r | None => m end.     (* `if key is not None: memo[key] = result` *)

Definition frame : Type := (option key * (triple -> comp)).
Record mstate := MS { stack : list frame; mem : memo; cur : triple; log : list key; ustarts : nat }.

Definition step (s : mstate) : mstate :=
  match stack s with
  | [] => s
  | (ok, f) :: rest =>
    match f (cur s) with
    | Ret r => MS rest (store (mem s) ok r) r (log s) (ustarts s)
    | CallK k' cont =>
      match mem s k' with
      | Some r => MS ((ok, cont) :: rest) (mem s) r (log s) (ustarts s)
      | None => MS ((Some k', fun _ => body k') :: (ok, cont) :: rest) (mem s) dummy (k' :: log s) (ustarts s)
      end
    | CallU c0 cont =>
      MS ((None, fun _ => c0) :: (ok, cont) :: rest) (mem s) dummy (log s) (S (ustarts s))
    end
  end.

Fixpoint steps (j : nat) (s : mstate) : mstate :=
  match j with 0 => s | S j => steps j (step s) end.

Lemma steps_add a b s : steps (a + b) s = steps b (steps a s).
Proof. revert s; induction a; intros; cbn; auto. Qed.

Definition memo_ok (m : memo) := forall k r, m k = Some r -> exists n, eval n k = Some r.
Definition memo_le (m m' : memo) := forall k r, m k = Some r -> m' k = Some r.
Definition is_value (ok : option key) (r : triple) : Prop :=
  match ok with Some k => exists n0, eval n0 k = Some r | None => True end.
Definition stored (m : memo) (ok : option key) (r : triple) : Prop :=
  match ok with Some k => m k = Some r | None => True end.

(* ---- memo transparency ---- *)
Theorem frame_runs : forall n f c ok rest m lg u r,
  memo_ok m -> run_comp n (f c) = Some r -> is_value ok r ->
  exists j m' lg' u',
    steps j (MS ((ok, f) :: rest) m c lg u) = MS rest m' r lg' u' /\
    memo_ok m' /\ memo_le m m' /\ stored m' ok r.
Proof.
  induction n as [|n IH]; intros f c ok rest m lg u r Hm Hrun Hk; [discriminate|].
  cbn [run_comp] in Hrun. destruct (f c) as [r0|k' cont|c0 cont] eqn:Ef.
  - inversion Hrun; subst r0. exists 1, (store m ok r), lg, u. cbn. unfold step; cbn. rewrite Ef.
    destruct ok as [k|]; cbn [store stored is_value] in *.
    + repeat split; auto.
      * intros k1 r1 H1. unfold upd in H1. destruct (key_eqb k1 k) eqn:E.
        -- apply key_eqb_eq in E. subst. inversion H1; subst. exact Hk.
        -- apply Hm; auto.
      * intros k1 r1 H1. unfold upd. destruct (key_eqb k1 k) eqn:E; auto.
        apply key_eqb_eq in E. subst k1.
        destruct Hk as (n0 & Hn0). destruct (Hm _ _ H1) as (n1 & Hn1).
        f_equal. eapply run_comp_det; eauto.
      * unfold upd. replace (key_eqb k k) with true; auto. symmetry. apply key_eqb_eq. auto.
    + repeat split; auto. intros k1 r1 H1. exact H1.
  - destruct (run_comp n (body k')) as [r1|] eqn:Eb; [|discriminate].
    destruct (m k') as [rm|] eqn:Em.
    + (* memo hit: replayed value equals direct evaluation *)
      assert (rm = r1). { destruct (Hm _ _ Em) as (n1 & Hn1). eapply run_comp_det; eauto. }
      subst rm.
      destruct (IH (fun x => cont x) r1 ok rest m lg u r Hm Hrun Hk) as (j & m' & lg' & u' & Hs & H1 & H2 & H3).
      exists (S j), m', lg', u'. cbn [steps]. unfold step at 1; cbn. rewrite Ef, Em. auto.
    + (* miss: push callee, run it, then resume *)
      destruct (IH (fun _ => body k') dummy (Some k') ((ok, cont) :: rest) m (k' :: lg) u r1 Hm Eb
                   (ex_intro _ n Eb)) as (j1 & m1 & lg1 & u1 & Hs1 & Hok1 & Hle1 & Hk1).
      destruct (IH (fun x => cont x) r1 ok rest m1 lg1 u1 r Hok1 Hrun Hk) as (j2 & m2 & lg2 & u2 & Hs2 & Hok2 & Hle2 & Hk2).
      exists (S (j1 + j2)), m2, lg2, u2. cbn [steps]. unfold step at 1; cbn. rewrite Ef, Em.
      rewrite steps_add, Hs1. repeat split; auto.
      intros k1 rr H. apply Hle2, Hle1, H.
  - (* unkeyed call: its frame stores nothing, its own keyed calls are memoised as usual *)
    destruct (run_comp n c0) as [r1|] eqn:Eb; [|discriminate].
    destruct (IH (fun _ => c0) dummy None ((ok, cont) :: rest) m lg (S u) r1 Hm Eb I)
      as (j1 & m1 & lg1 & u1 & Hs1 & Hok1 & Hle1 & _).
    destruct (IH (fun x => cont x) r1 ok rest m1 lg1 u1 r Hok1 Hrun Hk) as (j2 & m2 & lg2 & u2 & Hs2 & Hok2 & Hle2 & Hk2).
    exists (S (j1 + j2)), m2, lg2, u2. cbn [steps]. unfold step at 1; cbn. rewrite Ef.
    rewrite steps_add, Hs1. repeat split; auto.
    intros k1 rr H. apply Hle2, Hle1, H.
Qed.

Corollary run_transparent n start_key r :
  eval n start_key = Some r ->
  exists j m' lg' u', steps j (MS [(Some start_key, fun _ => body start_key)] (fun _ => None) dummy [start_key] 0)
                   = MS [] m' r lg' u' /\ memo_ok m'.
Proof.
  intros H.
  destruct (frame_runs n (fun _ => body start_key) dummy (Some start_key) [] (fun _ => None) [start_key] 0 r)
    as (j & m' & lg' & u' & Hs & Hok & _ & _).
  - intros k r0 H0; discriminate.
  - exact H.
  - exists n. exact H.
  - exists j, m', lg', u'. auto.
Qed.

(* ---- at most once per key, under the exact "no left recursion" hypothesis ---- *)
Variable R : key -> nat.
Inductive calls_lt (b : nat) : comp -> Prop :=
| CL_ret r : calls_lt b (Ret r)
| CL_call k' cont : R k' < b -> (forall r, calls_lt b (cont r)) -> calls_lt b (CallK k' cont)
| CL_callu c0 cont : calls_lt b c0 -> (forall r, calls_lt b (cont r)) -> calls_lt b (CallU c0 cont).
Hypothesis ranked : forall k, calls_lt (R k) (body k).

(* keys of the keyed frames, top of the stack first *)
Fixpoint keys (st : list frame) : list key :=
  match st with
  | [] => []
  | (Some k, _) :: rest => k :: keys rest
  | (None, _) :: rest => keys rest
  end.
Lemma keys_some k g st : keys ((Some k, g) :: st) = k :: keys st.
Proof. reflexivity. Qed.
Lemma keys_none g st : keys ((None, g) :: st) = keys st.
Proof. reflexivity. Qed.
Lemma keys_cont ok f g st : keys ((ok, g) :: st) = keys ((ok, f) :: st).
Proof. destruct ok; reflexivity. Qed.
(* ranks strictly increase down the stack *)
Fixpoint incr (b : nat) (l : list key) : Prop :=
  match l with [] => True | k :: l' => b < R k /\ incr (R k) l' end.
Definition sorted (l : list key) : Prop :=
  match l with [] => True | k :: l' => incr (R k) l' end.
(* every frame only calls below the nearest keyed frame at or beneath it (an unkeyed frame is part of
   the body of the keyed frame that made the call) *)
Fixpoint conts_ok (st : list frame) : Prop :=
  match st with
  | [] => True
  | (ok, f) :: rest =>
    match keys st with
    | k :: _ => forall c, calls_lt (R k) (f c)
    | [] => False
    end /\ conts_ok rest
  end.

Definition inv (s : mstate) : Prop :=
  conts_ok (stack s) /\ sorted (keys (stack s)) /\
  NoDup (log s) /\
  (forall k, In k (log s) <-> (mem s k <> None \/ In k (keys (stack s)))) /\
  (forall k, In k (keys (stack s)) -> mem s k = None).

Lemma incr_gt b l : incr b l -> forall k, In k l -> b < R k.
Proof.
  revert b; induction l as [|k l IH]; intros b H k0 Hin; [contradiction|].
  cbn in H, Hin. destruct H as (H1 & H2). destruct Hin as [<-|Hin]; auto.
  specialize (IH _ H2 _ Hin). lia.
Qed.
Lemma sorted_tail k l : sorted (k :: l) -> sorted l.
Proof. destruct l as [|k1 l1]; cbn; auto. tauto. Qed.

Lemma key_eqb_refl k : key_eqb k k = true.
Proof. apply key_eqb_eq. reflexivity. Qed.

Lemma step_inv s : inv s -> inv (step s).
Proof.
  intros (Hc & Hs & Hnd & Hlog & Hsm). unfold step.
  destruct (stack s) as [|[ok f] rest] eqn:Es.
  { unfold inv. rewrite Es. repeat split; auto; apply Hlog. }
  cbn [conts_ok] in Hc. destruct Hc as (Hf & Hrest).
  unfold frame in *.
  destruct (f (cur s)) as [r|k' cont|c0 cont] eqn:Ef.
  - (* pop *)
    unfold inv; cbn [stack mem log cur].
    destruct ok as [k|]; cbn [store]; rewrite ?keys_some, ?keys_none in *.
    + pose proof (incr_gt _ _ Hs) as Hgt.
      split; [exact Hrest|]. split; [eapply sorted_tail; eauto|]. split; [exact Hnd|]. split.
      * intros k0. rewrite Hlog. cbn [In]. unfold upd.
        destruct (key_eqb k0 k) eqn:E.
        -- apply key_eqb_eq in E. subst k0. split; intros _; [left; discriminate | right; left; reflexivity].
        -- split.
           ++ intros [H|[H|H]]; auto. subst. rewrite key_eqb_refl in E. discriminate.
           ++ intros [H|H]; auto.
      * intros k0 Hin. unfold upd. destruct (key_eqb k0 k) eqn:E.
        -- apply key_eqb_eq in E. subst. specialize (Hgt _ Hin). lia.
        -- apply Hsm. cbn. auto.
    + split; [exact Hrest|]. split; [exact Hs|]. split; [exact Hnd|]. split; [exact Hlog|exact Hsm].
  - destruct (keys ((ok, f) :: rest)) as [|k kl] eqn:Ek; [contradiction|].
    assert (Ek' : forall g, keys ((ok, g) :: rest) = k :: kl).
    { intros g. rewrite (keys_cont ok f g). exact Ek. }
    pose proof (Hf (cur s)) as Hcl. rewrite Ef in Hcl. inversion Hcl as [|? ? Hlt Hcont|]; subst.
    destruct (mem s k') as [rm|] eqn:Em.
    + (* hit *)
      unfold inv; cbn [stack mem log cur]. rewrite !Ek'.
      split; [|split; [exact Hs|split; [exact Hnd|split; [exact Hlog|exact Hsm]]]].
      cbn [conts_ok]. rewrite Ek'. split; auto.
    + (* miss: push *)
      pose proof (incr_gt _ _ Hs) as Hgt.
      assert (Hnot : ~ In k' (log s)).
      { intros Hin. apply Hlog in Hin. destruct Hin as [H|H]; [congruence|].
        cbn in H. destruct H as [H|H]; [subst; lia|]. specialize (Hgt _ H). lia. }
      unfold inv; cbn [stack mem log cur]. rewrite keys_some, !Ek'.
      split; [|split; [|split; [|split]]].
      * cbn [conts_ok]. rewrite keys_some, Ek'. split; [intros _; apply ranked|]. split; auto.
      * cbn. split; [exact Hlt|exact Hs].
      * constructor; auto.
      * intros k0. cbn [In]. rewrite Hlog. cbn [In]. tauto.
      * intros k0 [H|H]; [subst; exact Em|]. apply Hsm. exact H.
  - (* unkeyed call: a frame with key None on top; the keyed frames and the log are unchanged *)
    destruct (keys ((ok, f) :: rest)) as [|k kl] eqn:Ek; [contradiction|].
    assert (Ek' : forall g, keys ((ok, g) :: rest) = k :: kl).
    { intros g. rewrite (keys_cont ok f g). exact Ek. }
    pose proof (Hf (cur s)) as Hcl. rewrite Ef in Hcl. inversion Hcl as [| |? ? Hc0 Hcont]; subst.
    unfold inv; cbn [stack mem log cur]. rewrite keys_none, !Ek'.
    split; [|split; [exact Hs|split; [exact Hnd|split; [exact Hlog|exact Hsm]]]].
    cbn [conts_ok]. rewrite keys_none, !Ek'. split; [intros _; exact Hc0|]. split; auto.
Qed.

Theorem at_most_once j k0 :
  NoDup (log (steps j (MS [(Some k0, fun _ => body k0)] (fun _ => None) dummy [k0] 0))).
Proof.
  assert (H0 : inv (MS [(Some k0, fun _ => body k0)] (fun _ => None) dummy [k0] 0)).
  { unfold inv; cbn [stack mem log cur keys]. split; [|split; [|split; [|split]]].
    - cbn. split; auto.
    - exact I.
    - constructor; [intros []|constructor].
    - intros k. cbn. split; [intros [H|[]]; auto | intros [H|[H|[]]]; auto; congruence].
    - intros k _. reflexivity. }
  assert (H : forall i s, inv s -> inv (steps i s)).
  { clear H0. induction i as [|i IHi]; intros; cbn; auto. apply IHi, step_inv; auto. }
  apply (H j _ H0).
Qed.

End Run.

(* ---- C07_bound: at most (number of rules) x (length of the input + 1) body evaluations ---- *)
Section Bound.
Variables (nrules len : nat).
Definition in_range (k : nat * nat) := fst k < nrules /\ snd k <= len.
Definition all_keys : list (nat * nat) :=
  flat_map (fun r => map (fun p => (r, p)) (seq 0 (S len))) (seq 0 nrules).

Lemma all_keys_complete k : in_range k -> In k all_keys.
Proof.
  destruct k as [r p]. intros (Hr & Hp). unfold all_keys. apply in_flat_map. exists r. split.
  - apply in_seq. cbn in *. lia.
  - apply in_map_iff. exists p. split; auto. apply in_seq. cbn in *. lia.
Qed.
Lemma flat_map_length_const {A B} (f : A -> list B) c l :
  (forall x, length (f x) = c) -> length (flat_map f l) = length l * c.
Proof. intros H. induction l as [|x l IH]; cbn; auto. rewrite app_length, H, IH. reflexivity. Qed.
Lemma all_keys_length : length all_keys = nrules * S len.
Proof.
  unfold all_keys. rewrite (flat_map_length_const _ (S len)).
  - rewrite seq_length. reflexivity.
  - intros r. rewrite map_length, seq_length. reflexivity.
Qed.

(* with at_most_once (NoDup of the evaluation log) this is the packrat bound *)
Theorem eval_bound (lg : list (nat * nat)) :
  NoDup lg -> (forall k, In k lg -> in_range k) -> length lg <= nrules * S len.
Proof.
  intros Hnd Hin. rewrite <- all_keys_length. apply NoDup_incl_length; auto.
  intros k Hk. apply all_keys_complete, Hin, Hk.
Qed.
End Bound.

(* ---- executable instance used by the correspondence check: scripted bodies ----
   body k makes the calls listed for k, in order; it stops at the first call that
   fails (status false) and then fails itself at that call's position; otherwise it
   succeeds with value = 1 + sum of the callee values, position = max of positions.
   A call is either memoised (CK k) or goes through an unhashable key (CU k: the body
   of k evaluated in an unkeyed frame; d bounds the nesting of such calls). *)
Inductive call := CK (k : key) | CU (k : key).
Section Script.
Variable scr : list (key * list call).
Fixpoint calls_of (l : list (key * list call)) (k : key) : list call :=
  match l with
  | [] => []
  | (k', cs) :: l' => if key_eqb k' k then cs else calls_of l' k
  end.
Definition after (rest : nat -> nat -> comp nat) (acc p : nat) (r : triple nat) : comp nat :=
  let '(st, v, q) := r in if st then rest (acc + v) (Nat.max p q) else Ret nat (false, 0, q).
Fixpoint comp_of (d : nat) : list call -> nat -> nat -> comp nat :=
  fix go (cs : list call) (acc p : nat) : comp nat :=
  match cs with
  | [] => Ret nat (true, acc, p)
  | CK c :: cs' => CallK nat c (after (go cs') acc p)
  | CU c :: cs' =>
    match d with
    | 0 => Ret nat (false, 0, p)
    | S d' => CallU nat (comp_of d' (calls_of scr c) 1 (snd c)) (after (go cs') acc p)
    end
  end.
Variable depth : nat.
Definition sbody (k : key) : comp nat := comp_of depth (calls_of scr k) 1 (snd k).
Definition sdummy : triple nat := (false, 0, 0).

Fixpoint run_steps (fuel : nat) (s : mstate nat) : mstate nat * bool :=
  match stack nat s with
  | [] => (s, true)
  | _ => match fuel with 0 => (s, false) | S f => run_steps f (step nat sbody sdummy s) end
  end.
Definition run_script (fuel : nat) (start : key) : mstate nat * bool :=
  run_steps fuel (MS nat [(Some start, fun _ => sbody start)] (fun _ => None) sdummy [start] 0).
End Script.
