(* C07: _run (translator.py:654-681) as a machine
   with an explicit stack and a memo table, over abstract rule bodies given as
   interaction trees; memo transparency and the at-most-once log. *)
From Coq Require Import List Arith Bool Lia.
Import ListNotations.

Section Run.
Variable value : Type.
Definition triple : Type := (bool * value * nat).
Definition key : Type := (nat * nat).           (* rule function id, position *)
Definition key_eqb (a b : key) := Nat.eqb (fst a) (fst b) && Nat.eqb (snd a) (snd b).

Lemma key_eqb_eq a b : key_eqb a b = true <-> a = b.
Proof.
  destruct a, b; unfold key_eqb; cbn. rewrite andb_true_iff, !Nat.eqb_eq.
  split; [intros []; subst; auto | inversion 1; auto].
Qed.

Inductive comp := Ret (r : triple) | CallK (k : key) (cont : triple -> comp).

Variable body : key -> comp.        (* what the generator for (rule,pos) does *)
Variable dummy : triple.            (* Python sends None to a fresh generator *)

(* ---- reference: direct recursive evaluation, no memo ---- *)
Fixpoint run_comp (n : nat) (c : comp) : option triple :=
  match n with
  | 0 => None
  | S n => match c with
           | Ret r => Some r
           | CallK k cont => match run_comp n (body k) with
                             | None => None
                             | Some r => run_comp n (cont r)
                             end
           end
  end.
Definition eval n k := run_comp n (body k).

Lemma run_comp_mono : forall n c r, run_comp n c = Some r -> run_comp (S n) c = Some r.
Proof.
  induction n as [|n IH]; intros c r H; [discriminate|].
  destruct c as [r0|k cont]; [exact H|].
  cbn [run_comp] in H. destruct (run_comp n (body k)) as [r1|] eqn:E; [|discriminate].
  change (match run_comp (S n) (body k) with Some r2 => run_comp (S n) (cont r2) | None => None end = Some r).
  rewrite (IH _ _ E). apply IH. exact H.
Qed.

Lemma run_comp_mono' n m c r : n <= m -> run_comp n c = Some r -> run_comp m c = Some r.
Proof. induction 1; auto. intros. apply run_comp_mono. auto. Qed.

Lemma run_comp_det n m c r r' : run_comp n c = Some r -> run_comp m c = Some r' -> r = r'.
Proof.
  intros H H'. apply (run_comp_mono' n (max n m)) in H; [|lia].
  apply (run_comp_mono' m (max n m)) in H'; [|lia]. congruence.
Qed.

(* ---- the machine ---- *)
Definition memo := key -> option triple.
Definition upd (m : memo) (k : key) (r : triple) : memo :=
  fun k' => if key_eqb k' k then Some r else m k'.

Record mstate := MS { stack : list (key * (triple -> comp)); mem : memo; cur : triple; log : list key }.

Definition step (s : mstate) : mstate :=
  match stack s with
  | [] => s
  | (k, f) :: rest =>
    match f (cur s) with
    | Ret r => MS rest (upd (mem s) k r) r (log s)
    | CallK k' cont =>
      match mem s k' with
      | Some r => MS ((k, cont) :: rest) (mem s) r (log s)
      | None => MS ((k', fun _ => body k') :: (k, cont) :: rest) (mem s) dummy (k' :: log s)
      end
    end
  end.

Fixpoint steps (j : nat) (s : mstate) : mstate :=
  match j with 0 => s | S j => steps j (step s) end.

Lemma steps_add a b s : steps (a + b) s = steps b (steps a s).
Proof. revert s; induction a; intros; cbn; auto. Qed.

Definition memo_ok (m : memo) := forall k r, m k = Some r -> exists n, eval n k = Some r.
Definition memo_le (m m' : memo) := forall k r, m k = Some r -> m' k = Some r.

(* ---- memo transparency ---- *)
Theorem frame_runs : forall n f c k rest m lg r,
  memo_ok m -> run_comp n (f c) = Some r -> (exists n0, eval n0 k = Some r) ->
  exists j m' lg',
    steps j (MS ((k, f) :: rest) m c lg) = MS rest m' r lg' /\
    memo_ok m' /\ memo_le m m' /\ m' k = Some r.
Proof.
  induction n as [|n IH]; intros f c k rest m lg r Hm Hrun Hk; [discriminate|].
  cbn [run_comp] in Hrun. destruct (f c) as [r0|k' cont] eqn:Ef.
  - inversion Hrun; subst r0. exists 1, (upd m k r), lg. cbn. unfold step; cbn. rewrite Ef.
    repeat split; auto.
    + intros k1 r1 H1. unfold upd in H1. destruct (key_eqb k1 k) eqn:E.
      * apply key_eqb_eq in E. subst. inversion H1; subst. exact Hk.
      * apply Hm; auto.
    + intros k1 r1 H1. unfold upd. destruct (key_eqb k1 k) eqn:E; auto.
      apply key_eqb_eq in E. subst k1.
      destruct Hk as (n0 & Hn0). destruct (Hm _ _ H1) as (n1 & Hn1).
      f_equal. eapply run_comp_det; eauto.
    + unfold upd. replace (key_eqb k k) with true; auto. symmetry. apply key_eqb_eq. auto.
  - destruct (run_comp n (body k')) as [r1|] eqn:Eb; [|discriminate].
    destruct (m k') as [rm|] eqn:Em.
    + (* memo hit: replayed value equals direct evaluation *)
      assert (rm = r1). { destruct (Hm _ _ Em) as (n1 & Hn1). eapply run_comp_det; eauto. }
      subst rm.
      destruct (IH (fun x => cont x) r1 k rest m lg r Hm Hrun Hk) as (j & m' & lg' & Hs & H1 & H2 & H3).
      exists (S j), m', lg'. cbn [steps]. unfold step at 1; cbn. rewrite Ef, Em. auto.
    + (* miss: push callee, run it, then resume *)
      destruct (IH (fun _ => body k') dummy k' ((k, cont) :: rest) m (k' :: lg) r1 Hm Eb
                   (ex_intro _ n Eb)) as (j1 & m1 & lg1 & Hs1 & Hok1 & Hle1 & Hk1).
      destruct (IH (fun x => cont x) r1 k rest m1 lg1 r Hok1 Hrun Hk) as (j2 & m2 & lg2 & Hs2 & Hok2 & Hle2 & Hk2).
      exists (S (j1 + j2)), m2, lg2. cbn [steps]. unfold step at 1; cbn. rewrite Ef, Em.
      rewrite steps_add, Hs1. repeat split; auto.
      intros k1 rr H. apply Hle2, Hle1, H.
Qed.

Corollary run_transparent n start_key r :
  eval n start_key = Some r ->
  exists j m' lg', steps j (MS [(start_key, fun _ => body start_key)] (fun _ => None) dummy [start_key])
                   = MS [] m' r lg' /\ memo_ok m'.
Proof.
  intros H.
  destruct (frame_runs n (fun _ => body start_key) dummy start_key [] (fun _ => None) [start_key] r) as (j & m' & lg' & Hs & Hok & _ & _); eauto.
  - intros k r0 H0; discriminate.
Qed.

(* ---- at most once per key, under the exact "no left recursion" hypothesis ---- *)
Variable R : key -> nat.
Inductive calls_lt (b : nat) : comp -> Prop :=
| CL_ret r : calls_lt b (Ret r)
| CL_call k' cont : R k' < b -> (forall r, calls_lt b (cont r)) -> calls_lt b (CallK k' cont).
Hypothesis ranked : forall k, calls_lt (R k) (body k).

Fixpoint ranks_ok' (b : nat) (st : list (key * (triple -> comp))) : Prop :=
  match st with
  | [] => True
  | (k, f) :: rest => b < R k /\ (forall c, calls_lt (R k) (f c)) /\ ranks_ok' (R k) rest
  end.
Definition stack_ok (st : list (key * (triple -> comp))) : Prop :=
  match st with
  | [] => True
  | (k, f) :: rest => (forall c, calls_lt (R k) (f c)) /\ ranks_ok' (R k) rest
  end.

Definition inv (s : mstate) : Prop :=
  stack_ok (stack s) /\
  NoDup (log s) /\
  (forall k, In k (log s) <-> (mem s k <> None \/ In k (map fst (stack s)))) /\
  (forall k, In k (map fst (stack s)) -> mem s k = None).

Lemma ranks_ok'_gt b st : ranks_ok' b st -> forall k, In k (map fst st) -> b < R k.
Proof.
  revert b; induction st as [|[k f] rest IH]; intros b H k0 Hin; [contradiction|].
  cbn in H, Hin. destruct H as (H1 & H2 & H3). destruct Hin as [<-|Hin]; auto.
  specialize (IH _ H3 _ Hin). lia.
Qed.

Lemma key_eqb_refl k : key_eqb k k = true.
Proof. apply key_eqb_eq. reflexivity. Qed.

Lemma step_inv s : inv s -> inv (step s).
Proof.
  intros (Hr & Hnd & Hlog & Hsm). unfold step.
  destruct (stack s) as [|[k f] rest] eqn:Es.
  { unfold inv. rewrite Es. split; [exact Hr | split; [exact Hnd | split; [exact Hlog | exact Hsm]]]. }
  cbn in Hr. destruct Hr as (Hf & Hrest).
  pose proof (ranks_ok'_gt _ _ Hrest) as Hgt.
  destruct (f (cur s)) as [r|k' cont] eqn:Ef.
  - (* pop *)
    unfold inv; cbn [stack mem log cur].
    split; [|split; [exact Hnd|split]].
    + destruct rest as [|[k1 f1] rest1]; cbn in *; auto. tauto.
    + intros k0. rewrite Hlog. cbn [map fst In]. unfold upd.
      destruct (key_eqb k0 k) eqn:E.
      * apply key_eqb_eq in E. subst k0. split; intros _; [left; discriminate | right; left; reflexivity].
      * split.
        -- intros [H|[H|H]]; auto. subst. rewrite key_eqb_refl in E. discriminate.
        -- intros [H|H]; auto.
    + intros k0 Hin. unfold upd. destruct (key_eqb k0 k) eqn:E.
      * apply key_eqb_eq in E. subst. specialize (Hgt _ Hin). lia.
      * apply Hsm. cbn. auto.
  - pose proof (Hf (cur s)) as Hc. rewrite Ef in Hc. inversion Hc as [|? ? Hlt Hcont]; subst.
    destruct (mem s k') as [rm|] eqn:Em.
    + (* hit *)
      unfold inv; cbn [stack mem log cur].
      split; [|split; [exact Hnd|split]].
      * cbn. split; auto.
      * intros k0. rewrite Hlog. cbn. tauto.
      * intros k0 Hin. apply Hsm. exact Hin.
    + (* miss: push *)
      assert (Hnot : ~ In k' (log s)).
      { intros Hin. apply Hlog in Hin. destruct Hin as [H|H]; [congruence|].
        cbn in H. destruct H as [H|H]; [subst; lia|]. specialize (Hgt _ H). lia. }
      unfold inv; cbn [stack mem log cur].
      split; [|split; [|split]].
      * cbn. split; [intros _; apply ranked|]. split; [exact Hlt|]. split; [exact Hcont|exact Hrest].
      * constructor; auto.
      * intros k0. cbn [In map fst]. rewrite Hlog. cbn [In map fst]. tauto.
      * intros k0 [H|H]; [subst; exact Em|]. apply Hsm. exact H.
Qed.

Theorem at_most_once j k0 :
  NoDup (log (steps j (MS [(k0, fun _ => body k0)] (fun _ => None) dummy [k0]))).
Proof.
  assert (H0 : inv (MS [(k0, fun _ => body k0)] (fun _ => None) dummy [k0])).
  { unfold inv; cbn [stack mem log cur]. split; [|split; [|split]].
    - cbn. split; auto.
    - constructor; [intros []|constructor].
    - intros k. cbn. split; [intros [H|[]]; auto | intros [H|[H|[]]]; auto; congruence].
    - intros k _. reflexivity. }
  assert (H : forall i s, inv s -> inv (steps i s)).
  { clear H0. induction i as [|i IHi]; intros; cbn; auto. apply IHi, step_inv; auto. }
  apply (H j _ H0).
Qed.

End Run.

(* ---- C07_bound: at most (number of rules) x (length of the input + 1) body evaluations ---- *)
Section Bound.
Variables (nrules len : nat).
Definition in_range (k : nat * nat) := fst k < nrules /\ snd k <= len.
Definition all_keys : list (nat * nat) :=
  flat_map (fun r => map (fun p => (r, p)) (seq 0 (S len))) (seq 0 nrules).

Lemma all_keys_complete k : in_range k -> In k all_keys.
Proof.
  destruct k as [r p]. intros (Hr & Hp). unfold all_keys. apply in_flat_map. exists r. split.
  - apply in_seq. cbn in *. lia.
  - apply in_map_iff. exists p. split; auto. apply in_seq. cbn in *. lia.
Qed.
Lemma flat_map_length_const {A B} (f : A -> list B) c l :
  (forall x, length (f x) = c) -> length (flat_map f l) = length l * c.
Proof. intros H. induction l as [|x l IH]; cbn; auto. rewrite app_length, H, IH. reflexivity. Qed.
Lemma all_keys_length : length all_keys = nrules * S len.
Proof.
  unfold all_keys. rewrite (flat_map_length_const _ (S len)).
  - rewrite seq_length. reflexivity.
  - intros r. rewrite map_length, seq_length. reflexivity.
Qed.

(* with at_most_once (NoDup of the evaluation log) this is the packrat bound *)
Theorem eval_bound (lg : list (nat * nat)) :
  NoDup lg -> (forall k, In k lg -> in_range k) -> length lg <= nrules * S len.
Proof.
  intros Hnd Hin. rewrite <- all_keys_length. apply NoDup_incl_length; auto.
  intros k Hk. apply all_keys_complete, Hin, Hk.
Qed.
End Bound.

(* ---- executable instance used by the correspondence check: scripted bodies ----
   body k makes the calls listed for k, in order; it stops at the first call that
   fails (status false) and then fails itself at that call's position; otherwise it
   succeeds with value = 1 + sum of the callee values, position = max of positions. *)
Section Script.
Variable scr : list (key * list key).
Fixpoint calls_of (l : list (key * list key)) (k : key) : list key :=
  match l with
  | [] => []
  | (k', cs) :: l' => if key_eqb k' k then cs else calls_of l' k
  end.
Fixpoint comp_of (cs : list key) (acc p : nat) : comp nat :=
  match cs with
  | [] => Ret nat (true, acc, p)
  | c :: cs' => CallK nat c (fun r => let '(st, v, q) := r in
                                      if st then comp_of cs' (acc + v) (Nat.max p q)
                                      else Ret nat (false, 0, q))
  end.
Definition sbody (k : key) : comp nat := comp_of (calls_of scr k) 1 (snd k).
Definition sdummy : triple nat := (false, 0, 0).

Fixpoint run_steps (fuel : nat) (s : mstate nat) : mstate nat * bool :=
  match stack nat s with
  | [] => (s, true)
  | _ => match fuel with 0 => (s, false) | S f => run_steps f (step nat sbody sdummy s) end
  end.
Definition run_script (fuel : nat) (start : key) : mstate nat * bool :=
  run_steps fuel (MS nat [(start, fun _ => sbody start)] (fun _ => None) sdummy [start]).
End Script.
