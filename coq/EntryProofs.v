(* C08: parse() has exactly the three outcomes dictated by the entry rule's
   match — from the refinement theorem and the definition of parse_model. *)
From Coq Require Import List Arith Bool Lia ZArith.
Import ListNotations.
Require Import ExcerptModel Model Spec Refine Entry.

Section P.
Variable g funs : list (list nat * expr).
Variable ignored : option nat.
Variable t : list nat.
Variable rx : nat -> nat -> option nat.
Hypothesis Hg : forall r ps b, nth_error g r = Some (ps, b) -> wf ps b.
Hypothesis Hfuns : forall fid ps b, nth_error funs fid = Some (ps, b) -> wf ps b.
Hypothesis Hign : forall r, ignored = Some r -> exists es, nth_error g r = Some ([], Skip es).

Definition expected_outcome (v : value) (q : nat) (full : bool) : outcome :=
  if full && Nat.ltb q (length t)
  then Partial (finalize t v) (fin_pos t (Z.of_nat q))
  else Return (finalize t v).

Theorem parse_three_outcomes : forall fuel entry b p full,
  nth_error g entry = Some ([], b) ->
  match peg g funs ignored t rx fuel [] b p,
        parse_model true g funs ignored t rx fuel entry p full with
  | Spec.Fuel, Entry.Fuel => True
  | Raise, _ => True
  | Match v q, o => o = expected_outcome v q full
  | Fails, ParseErr _ => True
  | _, _ => False
  end.
Proof.
  intros fuel entry b p full Hb. unfold parse_model. rewrite Hb.
  pose proof (exec_refines_peg g funs ignored t rx Hg Hfuns Hign fuel b [] [] (fresh p)
                (Hg entry [] b Hb) (scope_nil) (sub_nil _)) as H.
  unfold agree in H. cbn [pos fresh] in H.
  destruct (peg g funs ignored t rx fuel [] b p) as [| | |v q],
           (exec true g funs ignored t rx fuel b (fresh p)) as [s'| |]; try contradiction; auto.
  - destruct H as (A & _). rewrite A. exact I.
  - destruct H as (A & B & C & D). rewrite A. subst. reflexivity.
Qed.
End P.
