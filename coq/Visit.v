(* C15: visit() (translator.py:684-705) as an explicit-stack loop over trees whose
   nodes carry the identity CPython gives them, against the recursive preorder
   specification with first-occurrence de-duplication. *)
From Coq Require Import List Arith Bool Lia.
Import ListNotations.

(* every node carries the identity CPython would give it; kinds: leaf,
   container (list/tuple/dict values), parsed object *)
Inductive node :=
| Leaf (id : nat)
| Cont (id : nat) (l : list node)
| Obj (id : nat) (fs : list node).

Definition nid (n : node) := match n with Leaf i | Cont i _ | Obj i _ => i end.

Fixpoint size (n : node) : nat :=
  match n with
  | Leaf _ => 1
  | Cont _ l | Obj _ l => S ((fix sz (l : list node) := match l with [] => 0 | x :: l' => size x + sz l' end) l)
  end.
Definition sizes (l : list node) := fold_right (fun x a => size x + a) 0 l.
Lemma size_cont i l : size (Cont i l) = S (sizes l).
Proof. reflexivity. Qed.
Lemma size_obj i l : size (Obj i l) = S (sizes l).
Proof. reflexivity. Qed.
Lemma sizes_app a b : sizes (a ++ b) = sizes a + sizes b.
Proof. unfold sizes. induction a as [|x a IH]; cbn; auto. rewrite IH. lia. Qed.

Definition mem (i : nat) (v : list nat) := existsb (Nat.eqb i) v.
Lemma NoDup_app_intro {A} (a b : list A) : NoDup a -> NoDup b -> (forall x, In x a -> In x b -> False) -> NoDup (a ++ b).
Proof.
  induction a as [|x a IH]; intros Ha Hb Hd; cbn; auto. inversion Ha; subst. constructor.
  - intros Hin. apply in_app_or in Hin. destruct Hin; auto. apply (Hd x); cbn; auto.
  - apply IH; auto. intros y Hy1 Hy2. apply (Hd y); cbn; auto.
Qed.

(* ---------------- visit ---------------- *)
(* SPEC: recursive preorder over a forest, objects de-duplicated by identity *)
Fixpoint dfs (n : node) (vis : list nat) {struct n} : list nat * list nat :=
  match n with
  | Leaf _ => ([], vis)
  | Cont _ l =>
      (fix go (l : list node) (vis : list nat) : list nat * list nat :=
         match l with
         | [] => ([], vis)
         | x :: l' => let '(o1, v1) := dfs x vis in let '(o2, v2) := go l' v1 in (o1 ++ o2, v2)
         end) l vis
  | Obj i fs =>
      if mem i vis then ([], vis)
      else let '(o, v) :=
         (fix go (l : list node) (vis : list nat) : list nat * list nat :=
            match l with
            | [] => ([], vis)
            | x :: l' => let '(o1, v1) := dfs x vis in let '(o2, v2) := go l' v1 in (o1 ++ o2, v2)
            end) fs (i :: vis) in (i :: o, v)
  end.
Fixpoint dfs_list (l : list node) (vis : list nat) : list nat * list nat :=
  match l with
  | [] => ([], vis)
  | x :: l' => let '(o1, v1) := dfs x vis in let '(o2, v2) := dfs_list l' v1 in (o1 ++ o2, v2)
  end.

Lemma dfs_cont i l vis : dfs (Cont i l) vis = dfs_list l vis.
Proof. reflexivity. Qed.
Lemma dfs_obj i fs vis : dfs (Obj i fs) vis =
  if mem i vis then ([], vis) else let '(o, v) := dfs_list fs (i :: vis) in (i :: o, v).
Proof. reflexivity. Qed.
Lemma dfs_list_app a b vis :
  dfs_list (a ++ b) vis = let '(o1, v1) := dfs_list a vis in let '(o2, v2) := dfs_list b v1 in (o1 ++ o2, v2).
Proof.
  revert vis. induction a as [|x a IH]; intros vis; cbn.
  - destruct (dfs_list b vis). auto.
  - destruct (dfs x vis) as [o1 v1]. rewrite IH. destruct (dfs_list a v1) as [o2 v2].
    destruct (dfs_list b v2) as [o3 v3]. rewrite app_assoc. auto.
Qed.

(* MODEL: the loop; the Python stack is a list whose end is the top, and
   stack.extend(reversed(children)) makes the first child the next to pop *)
Fixpoint visit_loop (fuel : nat) (stack : list node) (vis : list nat) (out : list nat) : option (list nat * list nat) :=
  match fuel with
  | 0 => match stack with [] => Some (out, vis) | _ => None end
  | S fuel =>
    match stack with
    | [] => Some (out, vis)
    | n :: st =>
      match n with
      | Leaf _ => visit_loop fuel st vis out
      | Cont _ l => visit_loop fuel (l ++ st) vis out
      | Obj i fs => if mem i vis then visit_loop fuel st vis out
                    else visit_loop fuel (fs ++ st) (i :: vis) (out ++ [i])
      end
    end
  end.

Theorem visit_is_dfs : forall fuel stack vis out,
  sizes stack <= fuel ->
  visit_loop fuel stack vis out = Some (let '(o, v) := dfs_list stack vis in (out ++ o, v)).
Proof.
  induction fuel as [|fuel IH]; intros stack vis out Hf.
  - destruct stack as [|n st]; cbn; [rewrite app_nil_r; auto|].
    cbn in Hf. destruct n; cbn in Hf; lia.
  - destruct stack as [|n st]; cbn [visit_loop]; [cbn; rewrite app_nil_r; auto|].
    cbn [sizes fold_right] in Hf. fold (sizes st) in Hf.
    destruct n as [i|i l|i fs].
    + rewrite IH by (cbn in Hf; lia). cbn. destruct (dfs_list st vis). auto.
    + rewrite size_cont in Hf. rewrite IH by (rewrite sizes_app; lia).
      rewrite dfs_list_app. cbn [dfs_list]. rewrite dfs_cont.
      destruct (dfs_list l vis) as [o1 v1]. destruct (dfs_list st v1) as [o2 v2]. auto.
    + rewrite size_obj in Hf. cbn [dfs_list]. rewrite dfs_obj. destruct (mem i vis).
      * rewrite IH by lia. destruct (dfs_list st vis). auto.
      * rewrite IH by (rewrite sizes_app; lia). rewrite dfs_list_app.
        destruct (dfs_list fs (i :: vis)) as [o1 v1]. destruct (dfs_list st v1) as [o2 v2].
        rewrite <- !app_assoc. auto.
Qed.


(* consequences: every reachable object exactly once (NoDup), parents before children by construction of dfs *)
Lemma dfs_fresh : forall k n vis, size n <= k ->
  let '(o, v) := dfs n vis in (forall i, In i o -> ~ In i vis) /\ NoDup o /\ (forall i, In i v <-> In i o \/ In i vis).
Proof.
  induction k as [|k IH]; intros n vis Hk; [destruct n; cbn in Hk; lia|].
  assert (HL : forall l vis, sizes l <= k ->
            let '(o, v) := dfs_list l vis in (forall i, In i o -> ~ In i vis) /\ NoDup o /\ (forall i, In i v <-> In i o \/ In i vis)).
  { induction l as [|x l IHl]; intros vis0 Hl; cbn [dfs_list].
    - repeat split; [intros i [] | constructor | intros H; auto | intros [[]|H]; auto].
    - cbn [sizes fold_right] in Hl. fold (sizes l) in Hl.
      assert (1 <= size x) by (destruct x; cbn; lia).
      pose proof (IH x vis0 ltac:(lia)) as H1. destruct (dfs x vis0) as [o1 v1].
      pose proof (IHl v1 ltac:(lia)) as H2. destruct (dfs_list l v1) as [o2 v2].
      destruct H1 as (A1 & B1 & C1). destruct H2 as (A2 & B2 & C2). repeat split.
      + intros i Hi. apply in_app_or in Hi. destruct Hi as [Hi|Hi]; auto.
        intros Hv. apply (A2 i Hi). apply C1. auto.
      + apply NoDup_app_intro; auto. intros i Hi1 Hi2. apply (A2 i Hi2). apply C1. auto.
      + intros Hi. apply C2 in Hi. destruct Hi as [Hi|Hi]; [left; apply in_or_app; auto|].
        apply C1 in Hi. destruct Hi; [left; apply in_or_app; auto | auto].
      + intros [Hi|Hi]; apply C2.
        * apply in_app_or in Hi. destruct Hi; [right; apply C1; auto | auto].
        * right. apply C1. auto. }
  destruct n as [i|i l|i fs].
  - cbn. repeat split; [intros j [] | constructor | auto | intros [[]|H]; auto].
  - rewrite dfs_cont. rewrite size_cont in Hk. apply HL. lia.
  - rewrite dfs_obj. rewrite size_obj in Hk. destruct (mem i vis) eqn:Em.
    + repeat split; [intros j [] | constructor | auto | intros [[]|H]; auto].
    + pose proof (HL fs (i :: vis) ltac:(lia)) as H. destruct (dfs_list fs (i :: vis)) as [o v].
      destruct H as (A & B & C).
      assert (Hni : ~ In i vis).
      { intros Hin. unfold mem in Em. assert (existsb (Nat.eqb i) vis = true); [|congruence].
        apply existsb_exists. exists i. split; auto. apply Nat.eqb_refl. }
      repeat split.
      * intros j [<-|Hj]; auto. intros Hv. apply (A j Hj). right. auto.
      * constructor; auto. intros Hi. apply (A i Hi). left. auto.
      * intros Hj. apply C in Hj. destruct Hj as [Hj|[<-|Hj]]; [left; right; auto | left; left; auto | right; auto].
      * intros [[<-|Hj]|Hj]; apply C; [right; left; auto | left; auto | right; right; auto].
Qed.

(* ---------------- visit, containers marked too ----------------
   The loop above is visit() as shipped: it remembers the objects it has yielded but
   not the containers it has expanded.  On the finite trees of this model the yield is
   the same, but a container shared n levels deep is expanded 2^n times and a container
   that contains itself makes the loop run forever (neither can be expressed here).
   The repaired runtime keeps ONE visited set for objects and containers (identities of
   live Python objects are distinct) and expands each only the first time it is met. *)
Fixpoint dfs2 (n : node) (vis : list nat) {struct n} : list nat * list nat :=
  match n with
  | Leaf _ => ([], vis)
  | Cont i l =>
      if mem i vis then ([], vis)
      else (fix go (l : list node) (vis : list nat) : list nat * list nat :=
              match l with
              | [] => ([], vis)
              | x :: l' => let '(o1, v1) := dfs2 x vis in let '(o2, v2) := go l' v1 in (o1 ++ o2, v2)
              end) l (i :: vis)
  | Obj i fs =>
      if mem i vis then ([], vis)
      else let '(o, v) :=
         (fix go (l : list node) (vis : list nat) : list nat * list nat :=
            match l with
            | [] => ([], vis)
            | x :: l' => let '(o1, v1) := dfs2 x vis in let '(o2, v2) := go l' v1 in (o1 ++ o2, v2)
            end) fs (i :: vis) in (i :: o, v)
  end.
Fixpoint dfs2_list (l : list node) (vis : list nat) : list nat * list nat :=
  match l with
  | [] => ([], vis)
  | x :: l' => let '(o1, v1) := dfs2 x vis in let '(o2, v2) := dfs2_list l' v1 in (o1 ++ o2, v2)
  end.
Lemma dfs2_cont i l vis : dfs2 (Cont i l) vis = if mem i vis then ([], vis) else dfs2_list l (i :: vis).
Proof. reflexivity. Qed.
Lemma dfs2_obj i fs vis : dfs2 (Obj i fs) vis =
  if mem i vis then ([], vis) else let '(o, v) := dfs2_list fs (i :: vis) in (i :: o, v).
Proof. reflexivity. Qed.
Lemma dfs2_list_app a b vis :
  dfs2_list (a ++ b) vis = let '(o1, v1) := dfs2_list a vis in let '(o2, v2) := dfs2_list b v1 in (o1 ++ o2, v2).
Proof.
  revert vis. induction a as [|x a IH]; intros vis; cbn.
  - destruct (dfs2_list b vis). auto.
  - destruct (dfs2 x vis) as [o1 v1]. rewrite IH. destruct (dfs2_list a v1) as [o2 v2].
    destruct (dfs2_list b v2) as [o3 v3]. rewrite app_assoc. auto.
Qed.

Fixpoint visit_loop2 (fuel : nat) (stack : list node) (vis : list nat) (out : list nat) : option (list nat * list nat) :=
  match fuel with
  | 0 => match stack with [] => Some (out, vis) | _ => None end
  | S fuel =>
    match stack with
    | [] => Some (out, vis)
    | n :: st =>
      match n with
      | Leaf _ => visit_loop2 fuel st vis out
      | Cont i l => if mem i vis then visit_loop2 fuel st vis out
                    else visit_loop2 fuel (l ++ st) (i :: vis) out
      | Obj i fs => if mem i vis then visit_loop2 fuel st vis out
                    else visit_loop2 fuel (fs ++ st) (i :: vis) (out ++ [i])
      end
    end
  end.

Theorem visit2_is_dfs2 : forall fuel stack vis out,
  sizes stack <= fuel ->
  visit_loop2 fuel stack vis out = Some (let '(o, v) := dfs2_list stack vis in (out ++ o, v)).
Proof.
  induction fuel as [|fuel IH]; intros stack vis out Hf.
  - destruct stack as [|n st]; cbn; [rewrite app_nil_r; auto|].
    cbn in Hf. destruct n; cbn in Hf; lia.
  - destruct stack as [|n st]; cbn [visit_loop2]; [cbn; rewrite app_nil_r; auto|].
    cbn [sizes fold_right] in Hf. fold (sizes st) in Hf.
    destruct n as [i|i l|i fs].
    + rewrite IH by (cbn in Hf; lia). cbn. destruct (dfs2_list st vis). auto.
    + rewrite size_cont in Hf. cbn [dfs2_list]. rewrite dfs2_cont. destruct (mem i vis).
      * rewrite IH by lia. destruct (dfs2_list st vis). auto.
      * rewrite IH by (rewrite sizes_app; lia). rewrite dfs2_list_app.
        destruct (dfs2_list l (i :: vis)) as [o1 v1]. destruct (dfs2_list st v1) as [o2 v2]. auto.
    + rewrite size_obj in Hf. cbn [dfs2_list]. rewrite dfs2_obj. destruct (mem i vis).
      * rewrite IH by lia. destruct (dfs2_list st vis). auto.
      * rewrite IH by (rewrite sizes_app; lia). rewrite dfs2_list_app.
        destruct (dfs2_list fs (i :: vis)) as [o1 v1]. destruct (dfs2_list st v1) as [o2 v2].
        rewrite <- !app_assoc. auto.
Qed.

(* every yielded identity is new, none is yielded twice, and the visited set only grows *)
Lemma dfs2_fresh : forall k n vis, size n <= k ->
  let '(o, v) := dfs2 n vis in (forall i, In i o -> ~ In i vis) /\ NoDup o /\ (forall i, In i o \/ In i vis -> In i v).
Proof.
  induction k as [|k IH]; intros n vis Hk; [destruct n; cbn in Hk; lia|].
  assert (HL : forall l vis, sizes l <= k ->
            let '(o, v) := dfs2_list l vis in (forall i, In i o -> ~ In i vis) /\ NoDup o /\ (forall i, In i o \/ In i vis -> In i v)).
  { induction l as [|x l IHl]; intros vis0 Hl; cbn [dfs2_list].
    - repeat split; [intros i [] | constructor | intros i [[]|H]; auto].
    - cbn [sizes fold_right] in Hl. fold (sizes l) in Hl.
      assert (1 <= size x) by (destruct x; cbn; lia).
      pose proof (IH x vis0 ltac:(lia)) as H1. destruct (dfs2 x vis0) as [o1 v1].
      pose proof (IHl v1 ltac:(lia)) as H2. destruct (dfs2_list l v1) as [o2 v2].
      destruct H1 as (A1 & B1 & C1). destruct H2 as (A2 & B2 & C2). repeat split.
      + intros i Hi. apply in_app_or in Hi. destruct Hi as [Hi|Hi]; auto.
        intros Hv. apply (A2 i Hi). apply C1. auto.
      + apply NoDup_app_intro; auto. intros i Hi1 Hi2. apply (A2 i Hi2). apply C1. auto.
      + intros i [Hi|Hi]; apply C2.
        * apply in_app_or in Hi. destruct Hi; [right; apply C1; auto | auto].
        * right. apply C1. auto. }
  assert (Hmem : forall i vis, mem i vis = false -> ~ In i vis).
  { intros i vis0 Em Hin. unfold mem in Em. assert (existsb (Nat.eqb i) vis0 = true); [|congruence].
    apply existsb_exists. exists i. split; auto. apply Nat.eqb_refl. }
  destruct n as [i|i l|i fs].
  - cbn. repeat split; [intros j [] | constructor | intros j [[]|H]; auto].
  - rewrite dfs2_cont. rewrite size_cont in Hk. destruct (mem i vis) eqn:Em.
    + repeat split; [intros j [] | constructor | intros j [[]|H]; auto].
    + pose proof (HL l (i :: vis) ltac:(lia)) as H. destruct (dfs2_list l (i :: vis)) as [o v].
      destruct H as (A & B & C). repeat split; auto.
      * intros j Hj Hv. apply (A j Hj). right. auto.
      * intros j [Hj|Hj]; apply C; [left; auto | right; right; auto].
  - rewrite dfs2_obj. rewrite size_obj in Hk. destruct (mem i vis) eqn:Em.
    + repeat split; [intros j [] | constructor | intros j [[]|H]; auto].
    + pose proof (HL fs (i :: vis) ltac:(lia)) as H. destruct (dfs2_list fs (i :: vis)) as [o v].
      destruct H as (A & B & C). pose proof (Hmem i vis Em) as Hni.
      repeat split.
      * intros j [<-|Hj]; auto. intros Hv. apply (A j Hj). right. auto.
      * constructor; auto. intros Hi. apply (A i Hi). left. auto.
      * intros j [[<-|Hj]|Hj]; apply C; [right; left; auto | left; auto | right; right; auto].
Qed.

(* nothing reachable is lost: every object of the forest has been yielded or had been visited before, PROVIDED an
   identity stands for one node (two occurrences of a container with the same identity have the same contents) *)
Fixpoint objs (n : node) : list nat :=
  match n with
  | Leaf _ => []
  | Cont _ l => (fix go (l : list node) := match l with [] => [] | x :: l' => objs x ++ go l' end) l
  | Obj i fs => i :: (fix go (l : list node) := match l with [] => [] | x :: l' => objs x ++ go l' end) fs
  end.
Fixpoint objsl (l : list node) : list nat := match l with [] => [] | x :: l' => objs x ++ objsl l' end.
Lemma objs_cont i l : objs (Cont i l) = objsl l.
Proof. reflexivity. Qed.
Lemma objs_obj i l : objs (Obj i l) = i :: objsl l.
Proof. reflexivity. Qed.

Section Complete.
Variable sub : nat -> list node.          (* what the identity of a container or object stands for: its children *)
Fixpoint wf (n : node) : Prop :=
  match n with
  | Leaf _ => True
  | Cont i l | Obj i l => l = sub i /\ (fix all (l : list node) : Prop := match l with [] => True | x :: l' => wf x /\ all l' end) l
  end.
Fixpoint wfl (l : list node) : Prop := match l with [] => True | x :: l' => wf x /\ wfl l' end.
Fixpoint ids (n : node) : list nat :=
  match n with
  | Leaf _ => []
  | Cont j l | Obj j l => j :: (fix go (l : list node) := match l with [] => [] | x :: l' => ids x ++ go l' end) l
  end.
Fixpoint idsl (l : list node) : list nat := match l with [] => [] | x :: l' => ids x ++ idsl l' end.
Definition occurs (i : nat) (n : node) : Prop := In i (ids n).
Definition occursl (i : nat) (l : list node) : Prop := In i (idsl l).
Lemma wf_cont i l : wf (Cont i l) = (l = sub i /\ wfl l).
Proof. reflexivity. Qed.
Lemma wf_obj i l : wf (Obj i l) = (l = sub i /\ wfl l).
Proof. reflexivity. Qed.
Lemma occurs_cont i j l : occurs i (Cont j l) = (j = i \/ occursl i l).
Proof. reflexivity. Qed.
Lemma occurs_obj i j l : occurs i (Obj j l) = (j = i \/ occursl i l).
Proof. reflexivity. Qed.
Lemma occursl_cons i x l : occursl i (x :: l) <-> occurs i x \/ occursl i l.
Proof. unfold occursl, occurs. cbn [idsl]. apply in_app_iff. Qed.

(* a node is bigger than anything below it: an identity cannot occur below itself *)
Lemma occurs_size i : forall k n, size n <= k -> wf n -> occurs i n -> S (sizes (sub i)) <= size n.
Proof.
  induction k as [|k IH]; intros n Hk Hw Ho; [destruct n; cbn in Hk; lia|].
  assert (HL : forall l, sizes l <= k -> wfl l -> occursl i l -> S (sizes (sub i)) <= sizes l).
  { induction l as [|x l IHl]; intros Hl Hwl Hol; [contradiction|].
    cbn [sizes fold_right] in *. fold (sizes l) in *. destruct Hwl as (Hx & Hl'). apply occursl_cons in Hol. destruct Hol as [Hox|Hol'].
    - assert (1 <= size x) by (destruct x; cbn; lia). pose proof (IH x ltac:(lia) Hx Hox). lia.
    - pose proof (IHl ltac:(lia) Hl' Hol'). lia. }
  destruct n as [j|j l|j l]; [contradiction| |].
  - rewrite wf_cont in Hw. rewrite occurs_cont in Ho. rewrite size_cont in *. destruct Hw as (-> & Hwl).
    destruct Ho as [<- | Ho]; [lia|]. pose proof (HL (sub j) ltac:(lia) Hwl Ho). lia.
  - rewrite wf_obj in Hw. rewrite occurs_obj in Ho. rewrite size_obj in *. destruct Hw as (-> & Hwl).
    destruct Ho as [<- | Ho]; [lia|]. pose proof (HL (sub j) ltac:(lia) Hwl Ho). lia.
Qed.
Lemma occursl_size i : forall l, wfl l -> occursl i l -> S (sizes (sub i)) <= sizes l.
Proof.
  induction l as [|x l IH]; intros Hw Ho; [contradiction|]. cbn [sizes fold_right]. fold (sizes l).
  destruct Hw as (Hx & Hl). apply occursl_cons in Ho. destruct Ho as [Ho|Ho].
  - pose proof (occurs_size i (size x) x (le_n _) Hx Ho). lia.
  - pose proof (IH Hl Ho). lia.
Qed.
Lemma acyclic i : wfl (sub i) -> ~ occursl i (sub i).
Proof. intros Hw Ho. pose proof (occursl_size i (sub i) Hw Ho). lia. Qed.

Definition closed (vis P : list nat) : Prop := forall i, In i vis -> ~ In i P -> incl (objsl (sub i)) vis.

Lemma dfs2_list_grows : forall l vis, let '(o, v) := dfs2_list l vis in forall i, In i vis -> In i v.
Proof.
  induction l as [|y l IH]; intros vis; cbn [dfs2_list]; auto.
  pose proof (dfs2_fresh (size y) y vis (le_n _)) as Fy. destruct (dfs2 y vis) as [oy vy].
  specialize (IH vy). destruct (dfs2_list l vy) as [o2 v2]. destruct Fy as (_ & _ & Cy).
  intros i Hi. apply IH. apply Cy. auto.
Qed.
Lemma mem_In i vis : mem i vis = true -> In i vis.
Proof. unfold mem. intros Em. apply existsb_exists in Em. destruct Em as (j & Hj & Ej). apply Nat.eqb_eq in Ej. subst j. auto. Qed.

Lemma dfs2_complete : forall k n vis P, size n <= k -> wf n -> closed vis P -> (forall i, In i P -> ~ occurs i n) ->
  let '(o, v) := dfs2 n vis in incl (objs n) v /\ closed v P.
Proof.
  induction k as [|k IH]; intros n vis P Hk Hw Hc HP; [destruct n; cbn in Hk; lia|].
  assert (HL : forall l vis P, sizes l <= k -> wfl l -> closed vis P -> (forall i, In i P -> ~ occursl i l) ->
            let '(o, v) := dfs2_list l vis in incl (objsl l) v /\ closed v P).
  { induction l as [|x l IHl]; intros vis0 P0 Hl Hwl Hc0 HP0; cbn [dfs2_list objsl].
    - split; [intros j []|exact Hc0].
    - cbn [sizes fold_right] in Hl. fold (sizes l) in Hl. destruct Hwl as (Hx & Hwl').
      assert (1 <= size x) by (destruct x; cbn; lia).
      pose proof (IH x vis0 P0 ltac:(lia) Hx Hc0 (fun i Hi Ho => HP0 i Hi (proj2 (occursl_cons i x l) (or_introl Ho)))) as H1.
      destruct (dfs2 x vis0) as [o1 v1]. destruct H1 as (A1 & C1).
      pose proof (IHl v1 P0 ltac:(lia) Hwl' C1 (fun i Hi Ho => HP0 i Hi (proj2 (occursl_cons i x l) (or_intror Ho)))) as H2.
      pose proof (dfs2_list_grows l v1) as F2.
      destruct (dfs2_list l v1) as [o2 v2]. destruct H2 as (A2 & C2). split; auto.
      intros j Hj. apply in_app_or in Hj. destruct Hj as [Hj|Hj]; auto. }
  (* a node (container or object) with identity i and children sub i, not yet visited *)
  assert (Node : forall i, sizes (sub i) <= k -> wfl (sub i) -> (forall j, In j P -> ~ occursl j (sub i)) ->
            let '(o, v) := dfs2_list (sub i) (i :: vis) in incl (objsl (sub i)) v /\ closed v P /\ In i v).
  { intros i Hs Hwl HPl.
    assert (Hc' : closed (i :: vis) (i :: P)).
    { intros j [<-|Hj] Hn; [exfalso; apply Hn; left; auto|].
      intros x Hx. right. apply (Hc j Hj (fun H => Hn (or_intror H))). exact Hx. }
    assert (HP' : forall j, In j (i :: P) -> ~ occursl j (sub i)).
    { intros j [<-|Hj]; [apply acyclic; auto | auto]. }
    pose proof (HL (sub i) (i :: vis) (i :: P) Hs Hwl Hc' HP') as H.
    pose proof (dfs2_list_grows (sub i) (i :: vis)) as G.
    destruct (dfs2_list (sub i) (i :: vis)) as [o v]. destruct H as (A & C). repeat split; auto.
    - intros j Hj Hn. destruct (Nat.eq_dec j i) as [->|Hne]; [exact A|].
      apply C; auto. intros [E|Hin]; [congruence | auto].
    - apply G. left. auto. }
  destruct n as [i|i l|i l].
  - cbn. split; [intros j []|exact Hc].
  - rewrite dfs2_cont. rewrite wf_cont in Hw. rewrite size_cont in Hk. destruct Hw as (-> & Hwl).
    rewrite objs_cont. destruct (mem i vis) eqn:Em.
    + split; auto. apply Hc; [apply mem_In; auto|]. intros Hi. apply (HP i Hi). rewrite occurs_cont. auto.
    + pose proof (Node i ltac:(lia) Hwl (fun j Hj Ho => HP j Hj ltac:(rewrite occurs_cont; auto))) as H.
      destruct (dfs2_list (sub i) (i :: vis)) as [o v]. destruct H as (A & C & _). auto.
  - rewrite dfs2_obj. rewrite wf_obj in Hw. rewrite size_obj in Hk. destruct Hw as (-> & Hwl).
    rewrite objs_obj. destruct (mem i vis) eqn:Em.
    + split; auto. intros j [<-|Hj]; [apply mem_In; auto|].
      apply (Hc i); [apply mem_In; auto| |exact Hj]. intros Hi. apply (HP i Hi). rewrite occurs_obj. auto.
    + pose proof (Node i ltac:(lia) Hwl (fun j Hj Ho => HP j Hj ltac:(rewrite occurs_obj; auto))) as H.
      destruct (dfs2_list (sub i) (i :: vis)) as [o v]. destruct H as (A & C & Hi). split; auto.
      intros j [<-|Hj]; auto.
Qed.

(* what enters the visited set is either yielded or the identity of a container *)
Fixpoint conts (n : node) : list nat :=
  match n with
  | Leaf _ => []
  | Cont j l => j :: (fix go (l : list node) := match l with [] => [] | x :: l' => conts x ++ go l' end) l
  | Obj _ l => (fix go (l : list node) := match l with [] => [] | x :: l' => conts x ++ go l' end) l
  end.
Fixpoint contsl (l : list node) : list nat := match l with [] => [] | x :: l' => conts x ++ contsl l' end.
Lemma dfs2_visited : forall k n vis, size n <= k ->
  let '(o, v) := dfs2 n vis in forall i, In i v -> In i o \/ In i vis \/ In i (conts n).
Proof.
  induction k as [|k IH]; intros n vis Hk; [destruct n; cbn in Hk; lia|].
  assert (HL : forall l vis, sizes l <= k ->
            let '(o, v) := dfs2_list l vis in forall i, In i v -> In i o \/ In i vis \/ In i (contsl l)).
  { induction l as [|x l IHl]; intros vis0 Hl; cbn [dfs2_list contsl]; auto.
    cbn [sizes fold_right] in Hl. fold (sizes l) in Hl. assert (1 <= size x) by (destruct x; cbn; lia).
    pose proof (IH x vis0 ltac:(lia)) as H1. destruct (dfs2 x vis0) as [o1 v1].
    pose proof (IHl v1 ltac:(lia)) as H2. destruct (dfs2_list l v1) as [o2 v2].
    intros i Hi. destruct (H2 i Hi) as [A|[A|A]].
    - left. apply in_or_app. auto.
    - destruct (H1 i A) as [B|[B|B]]; [left; apply in_or_app; auto | auto | right; right; apply in_or_app; auto].
    - right. right. apply in_or_app. auto. }
  destruct n as [i|i l|i l].
  - cbn. auto.
  - rewrite dfs2_cont. rewrite size_cont in Hk. destruct (mem i vis); [auto|].
    pose proof (HL l (i :: vis) ltac:(lia)) as H. destruct (dfs2_list l (i :: vis)) as [o v].
    intros j Hj. change (conts (Cont i l)) with (i :: contsl l). destruct (H j Hj) as [A|[[<-|A]|A]].
    + left. exact A.
    + right. right. left. reflexivity.
    + right. left. exact A.
    + right. right. right. exact A.
  - rewrite dfs2_obj. rewrite size_obj in Hk. destruct (mem i vis); [auto|].
    pose proof (HL l (i :: vis) ltac:(lia)) as H. destruct (dfs2_list l (i :: vis)) as [o v].
    intros j Hj. change (conts (Obj i l)) with (contsl l). destruct (H j Hj) as [A|[[<-|A]|A]].
    + left. right. exact A.
    + left. left. reflexivity.
    + right. left. exact A.
    + right. right. exact A.
Qed.

(* from an empty visited set: every object of the tree is yielded (identities of containers and of objects are
   distinct: they are live Python objects) *)
Theorem visit2_complete : forall n, wf n -> (forall i, In i (objs n) -> ~ In i (conts n)) ->
  forall i, In i (objs n) -> In i (fst (dfs2 n [])).
Proof.
  intros n Hw Hdis i Hi.
  pose proof (dfs2_complete (size n) n [] [] (le_n _) Hw (fun j Hj => False_ind _ Hj) (fun j Hj => False_ind _ Hj)) as H.
  pose proof (dfs2_visited (size n) n [] (le_n _)) as V.
  destruct (dfs2 n []) as [o v]. destruct H as (A & _). cbn [fst].
  destruct (V i (A i Hi)) as [B|[[]|B]]; auto. exfalso. exact (Hdis i Hi B).
Qed.
End Complete.
