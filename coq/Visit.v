(* C15: visit() (translator.py:684-705) as an explicit-stack loop over trees whose
   nodes carry the identity CPython gives them, against the recursive preorder
   specification with first-occurrence de-duplication. *)
From Coq Require Import List Arith Bool Lia.
Import ListNotations.

(* every node carries the identity CPython would give it; kinds: leaf,
   container (list/tuple/dict values), parsed object *)
Inductive node :=
| Leaf (id : nat)
| Cont (id : nat) (l : list node)
| Obj (id : nat) (fs : list node).

Definition nid (n : node) := match n with Leaf i | Cont i _ | Obj i _ => i end.

Fixpoint size (n : node) : nat :=
  match n with
  | Leaf _ => 1
  | Cont _ l | Obj _ l => S ((fix sz (l : list node) := match l with [] => 0 | x :: l' => size x + sz l' end) l)
  end.
Definition sizes (l : list node) := fold_right (fun x a => size x + a) 0 l.
Lemma size_cont i l : size (Cont i l) = S (sizes l).
Proof. reflexivity. Qed.
Lemma size_obj i l : size (Obj i l) = S (sizes l).
Proof. reflexivity. Qed.
Lemma sizes_app a b : sizes (a ++ b) = sizes a + sizes b.
Proof. unfold sizes. induction a as [|x a IH]; cbn; auto. rewrite IH. lia. Qed.

Definition mem (i : nat) (v : list nat) := existsb (Nat.eqb i) v.
Lemma NoDup_app_intro {A} (a b : list A) : NoDup a -> NoDup b -> (forall x, In x a -> In x b -> False) -> NoDup (a ++ b).
Proof.
  induction a as [|x a IH]; intros Ha Hb Hd; cbn; auto. inversion Ha; subst. constructor.
  - intros Hin. apply in_app_or in Hin. destruct Hin; auto. apply (Hd x); cbn; auto.
  - apply IH; auto. intros y Hy1 Hy2. apply (Hd y); cbn; auto.
Qed.

(* ---------------- visit ---------------- *)
(* SPEC: recursive preorder over a forest, objects de-duplicated by identity *)
Fixpoint dfs (n : node) (vis : list nat) {struct n} : list nat * list nat :=
  match n with
  | Leaf _ => ([], vis)
  | Cont _ l =>
      (fix go (l : list node) (vis : list nat) : list nat * list nat :=
         match l with
         | [] => ([], vis)
         | x :: l' => let '(o1, v1) := dfs x vis in let '(o2, v2) := go l' v1 in (o1 ++ o2, v2)
         end) l vis
  | Obj i fs =>
      if mem i vis then ([], vis)
      else let '(o, v) :=
         (fix go (l : list node) (vis : list nat) : list nat * list nat :=
            match l with
            | [] => ([], vis)
            | x :: l' => let '(o1, v1) := dfs x vis in let '(o2, v2) := go l' v1 in (o1 ++ o2, v2)
            end) fs (i :: vis) in (i :: o, v)
  end.
Fixpoint dfs_list (l : list node) (vis : list nat) : list nat * list nat :=
  match l with
  | [] => ([], vis)
  | x :: l' => let '(o1, v1) := dfs x vis in let '(o2, v2) := dfs_list l' v1 in (o1 ++ o2, v2)
  end.

Lemma dfs_cont i l vis : dfs (Cont i l) vis = dfs_list l vis.
Proof. reflexivity. Qed.
Lemma dfs_obj i fs vis : dfs (Obj i fs) vis =
  if mem i vis then ([], vis) else let '(o, v) := dfs_list fs (i :: vis) in (i :: o, v).
Proof. reflexivity. Qed.
Lemma dfs_list_app a b vis :
  dfs_list (a ++ b) vis = let '(o1, v1) := dfs_list a vis in let '(o2, v2) := dfs_list b v1 in (o1 ++ o2, v2).
Proof.
  revert vis. induction a as [|x a IH]; intros vis; cbn.
  - destruct (dfs_list b vis). auto.
  - destruct (dfs x vis) as [o1 v1]. rewrite IH. destruct (dfs_list a v1) as [o2 v2].
    destruct (dfs_list b v2) as [o3 v3]. rewrite app_assoc. auto.
Qed.

(* MODEL: the loop; the Python stack is a list whose end is the top, and
   stack.extend(reversed(children)) makes the first child the next to pop *)
Fixpoint visit_loop (fuel : nat) (stack : list node) (vis : list nat) (out : list nat) : option (list nat * list nat) :=
  match fuel with
  | 0 => match stack with [] => Some (out, vis) | _ => None end
  | S fuel =>
    match stack with
    | [] => Some (out, vis)
    | n :: st =>
      match n with
      | Leaf _ => visit_loop fuel st vis out
      | Cont _ l => visit_loop fuel (l ++ st) vis out
      | Obj i fs => if mem i vis then visit_loop fuel st vis out
                    else visit_loop fuel (fs ++ st) (i :: vis) (out ++ [i])
      end
    end
  end.

Theorem visit_is_dfs : forall fuel stack vis out,
  sizes stack <= fuel ->
  visit_loop fuel stack vis out = Some (let '(o, v) := dfs_list stack vis in (out ++ o, v)).
Proof.
  induction fuel as [|fuel IH]; intros stack vis out Hf.
  - destruct stack as [|n st]; cbn; [rewrite app_nil_r; auto|].
    cbn in Hf. destruct n; cbn in Hf; lia.
  - destruct stack as [|n st]; cbn [visit_loop]; [cbn; rewrite app_nil_r; auto|].
    cbn [sizes fold_right] in Hf. fold (sizes st) in Hf.
    destruct n as [i|i l|i fs].
    + rewrite IH by (cbn in Hf; lia). cbn. destruct (dfs_list st vis). auto.
    + rewrite size_cont in Hf. rewrite IH by (rewrite sizes_app; lia).
      rewrite dfs_list_app. cbn [dfs_list]. rewrite dfs_cont.
      destruct (dfs_list l vis) as [o1 v1]. destruct (dfs_list st v1) as [o2 v2]. auto.
    + rewrite size_obj in Hf. cbn [dfs_list]. rewrite dfs_obj. destruct (mem i vis).
      * rewrite IH by lia. destruct (dfs_list st vis). auto.
      * rewrite IH by (rewrite sizes_app; lia). rewrite dfs_list_app.
        destruct (dfs_list fs (i :: vis)) as [o1 v1]. destruct (dfs_list st v1) as [o2 v2].
        rewrite <- !app_assoc. auto.
Qed.


(* consequences: every reachable object exactly once (NoDup), parents before children by construction of dfs *)
Lemma dfs_fresh : forall k n vis, size n <= k ->
  let '(o, v) := dfs n vis in (forall i, In i o -> ~ In i vis) /\ NoDup o /\ (forall i, In i v <-> In i o \/ In i vis).
Proof.
  induction k as [|k IH]; intros n vis Hk; [destruct n; cbn in Hk; lia|].
  assert (HL : forall l vis, sizes l <= k ->
            let '(o, v) := dfs_list l vis in (forall i, In i o -> ~ In i vis) /\ NoDup o /\ (forall i, In i v <-> In i o \/ In i vis)).
  { induction l as [|x l IHl]; intros vis0 Hl; cbn [dfs_list].
    - repeat split; [intros i [] | constructor | intros H; auto | intros [[]|H]; auto].
    - cbn [sizes fold_right] in Hl. fold (sizes l) in Hl.
      assert (1 <= size x) by (destruct x; cbn; lia).
      pose proof (IH x vis0 ltac:(lia)) as H1. destruct (dfs x vis0) as [o1 v1].
      pose proof (IHl v1 ltac:(lia)) as H2. destruct (dfs_list l v1) as [o2 v2].
      destruct H1 as (A1 & B1 & C1). destruct H2 as (A2 & B2 & C2). repeat split.
      + intros i Hi. apply in_app_or in Hi. destruct Hi as [Hi|Hi]; auto.
        intros Hv. apply (A2 i Hi). apply C1. auto.
      + apply NoDup_app_intro; auto. intros i Hi1 Hi2. apply (A2 i Hi2). apply C1. auto.
      + intros Hi. apply C2 in Hi. destruct Hi as [Hi|Hi]; [left; apply in_or_app; auto|].
        apply C1 in Hi. destruct Hi; [left; apply in_or_app; auto | auto].
      + intros [Hi|Hi]; apply C2.
        * apply in_app_or in Hi. destruct Hi; [right; apply C1; auto | auto].
        * right. apply C1. auto. }
  destruct n as [i|i l|i fs].
  - cbn. repeat split; [intros j [] | constructor | auto | intros [[]|H]; auto].
  - rewrite dfs_cont. rewrite size_cont in Hk. apply HL. lia.
  - rewrite dfs_obj. rewrite size_obj in Hk. destruct (mem i vis) eqn:Em.
    + repeat split; [intros j [] | constructor | auto | intros [[]|H]; auto].
    + pose proof (HL fs (i :: vis) ltac:(lia)) as H. destruct (dfs_list fs (i :: vis)) as [o v].
      destruct H as (A & B & C).
      assert (Hni : ~ In i vis).
      { intros Hin. unfold mem in Em. assert (existsb (Nat.eqb i) vis = true); [|congruence].
        apply existsb_exists. exists i. split; auto. apply Nat.eqb_refl. }
      repeat split.
      * intros j [<-|Hj]; auto. intros Hv. apply (A j Hj). right. auto.
      * constructor; auto. intros Hi. apply (A i Hi). left. auto.
      * intros Hj. apply C in Hj. destruct Hj as [Hj|[<-|Hj]]; [left; right; auto | left; left; auto | right; auto].
      * intros [[<-|Hj]|Hj]; apply C; [right; left; auto | left; auto | right; right; auto].
Qed.
