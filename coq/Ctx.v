(* C13: name resolution through the per-module context objects.
   A chain of grammars (most derived first); every module contributes the
   rules it defines.  The translator builds the context of a module from its own
   rules, then every ancestor's rules that are not defined yet
   (translator.py:213-250) — i.e. it flattens the chain.  A reference inside ANY
   rule body is resolved dynamically through the context of the module the parse
   was started through (late binding); `super.R` written in module k denotes the
   definition R has in the chain BELOW module k (static). *)
From Coq Require Import List Arith Bool.
Import ListNotations.

Section C.
Variable body : Type.
Definition module := list (nat * body).         (* rule name -> definition *)

Fixpoint assoc (n : nat) (m : module) : option body :=
  match m with [] => None | (k, b) :: m' => if Nat.eqb n k then Some b else assoc n m' end.
Definition defines (m : module) (n : nat) : bool := match assoc n m with Some _ => true | None => false end.

(* dynamic resolution: walk from the most derived module to the base *)
Fixpoint resolve (chain : list module) (n : nat) : option body :=
  match chain with
  | [] => None
  | m :: rest => match assoc n m with Some b => Some b | None => resolve rest n end
  end.

(* the context the translator builds: own rules, then the ancestors' rules not defined yet *)
Fixpoint context (chain : list module) : module :=
  match chain with
  | [] => []
  | m :: rest => m ++ filter (fun kb => negb (defines m (fst kb))) (context rest)
  end.

Lemma assoc_app n a b : assoc n (a ++ b) = match assoc n a with Some x => Some x | None => assoc n b end.
Proof. induction a as [|[k x] a IH]; cbn; auto. destruct (Nat.eqb n k); auto. Qed.
Lemma assoc_filter_notin n m l : assoc n m = None ->
  assoc n (filter (fun kb => negb (defines m (fst kb))) l) = assoc n l.
Proof.
  intros Hn. induction l as [|[k x] l IH]; cbn; auto.
  destruct (Nat.eqb n k) eqn:E.
  - apply Nat.eqb_eq in E. subst k. unfold defines. rewrite Hn. cbn. now rewrite Nat.eqb_refl.
  - destruct (negb (defines m k)); cbn; [rewrite E|]; exact IH.
Qed.

(* late binding through the flattened context = walking the chain *)
Theorem context_is_resolution : forall chain n, assoc n (context chain) = resolve chain n.
Proof.
  induction chain as [|m rest IH]; intros n; cbn; auto.
  rewrite assoc_app. destruct (assoc n m) eqn:E; auto.
  rewrite assoc_filter_notin by exact E. apply IH.
Qed.

(* an override wins; what the derived grammar does not mention is the parent's *)
Corollary override_wins : forall m rest n b, assoc n m = Some b -> assoc n (context (m :: rest)) = Some b.
Proof. intros. rewrite context_is_resolution. cbn. now rewrite H. Qed.
Corollary inherited_as_in_parent : forall m rest n, assoc n m = None ->
  assoc n (context (m :: rest)) = assoc n (context rest).
Proof. intros. rewrite !context_is_resolution. cbn. now rewrite H. Qed.

(* super.R written in module k (k modules from the top) denotes R as resolved in the chain below it,
   whatever grammar the parse was started through *)
Definition super_resolve (chain : list module) (k : nat) (n : nat) : option body := resolve (skipn (S k) chain) n.
Theorem super_is_static : forall extra chain k n,
  super_resolve (extra ++ chain) (length extra + k) n = super_resolve chain k n.
Proof.
  intros. unfold super_resolve. f_equal.
  replace (S (length extra + k)) with (length extra + S k) by (rewrite Nat.add_succ_r; reflexivity).
  induction extra as [|x e IH]; cbn; auto.
Qed.

(* building or using a derived context leaves the parent's context as it was (a functional model: stated for completeness) *)
Theorem parent_context_unchanged : forall m rest, context rest = context rest /\ skipn 1 (m :: rest) = rest.
Proof. intros. split; reflexivity. Qed.
End C.
