(* C11 (and C06): the calling convention of generated functions with and without
   a grammar name (_Flags.uses_context).  Parameter lists and argument lists are
   built as the code builds them:
     Rule._compile / functionalize : params = [_ctx]? ++ [_text; _pos] ++ user parameters
     argumentize                   : cutoff = 3 if uses_context else 2; a lifted argument
                                     function with more than `cutoff` parameters is wrapped as
                                     _ParseFunction(func, params[cutoff:], ())
     _ParseFunction.__call__       : func([_ctx]? , _text, _pos, *args, **kwargs)
   A Python call binds positionally and raises TypeError on an arity mismatch. *)
From Coq Require Import List Arith Bool Lia.
Import ListNotations.

Inductive pname := PCtx | PText | PPos | PUser (x : nat).
Inductive arg := ACtx | AText | APos | ACaptured (x : nat).     (* which value is passed *)

Definition params (named : bool) (user : list nat) : list pname :=
  (if named then [PCtx] else []) ++ [PText; PPos] ++ map PUser user.

(* argumentize with the cutoff as a parameter: the names whose values are captured *)
Definition captured (cutoff : nat) (ps : list pname) : list pname := skipn cutoff ps.
Definition arg_of (p : pname) : arg := match p with PCtx => ACtx | PText => AText | PPos => APos | PUser x => ACaptured x end.

(* _ParseFunction.__call__ *)
Definition call_args (named : bool) (cap : list pname) : list arg :=
  (if named then [ACtx] else []) ++ [AText; APos] ++ map arg_of cap.

(* positional binding; None = TypeError *)
Definition bind (ps : list pname) (args : list arg) : option (list (pname * arg)) :=
  if Nat.eqb (length ps) (length args) then Some (combine ps args) else None.

Definition well_bound (b : list (pname * arg)) : Prop := forall p a, In (p, a) b -> a = arg_of p.

(* the code as repaired: cutoff computed from uses_context *)
Definition cutoff_of (named : bool) := if named then 3 else 2.

Lemma skipn_app_exact {A} (a b : list A) : skipn (length a) (a ++ b) = b.
Proof. induction a; cbn; auto. Qed.

Lemma combine_map_well {A} (f : A -> pname) (l : list A) :
  forall p a, In (p, a) (combine (map f l) (map arg_of (map f l))) -> a = arg_of p.
Proof.
  induction l as [|x l IH]; cbn; intros p a H; [contradiction|].
  destruct H as [H|H]; [inversion H; reflexivity | apply IH; exact H].
Qed.

Theorem convention_ok : forall named fv,
  exists b, bind (params named fv) (call_args named (captured (cutoff_of named) (params named fv))) = Some b
            /\ well_bound b.
Proof.
  intros named fv. unfold params, call_args, captured, cutoff_of, bind.
  destruct named; cbn [app skipn length].
  - rewrite !map_length, Nat.eqb_refl. eexists; split; [reflexivity|].
    intros p a [H|[H|[H|H]]]; try (inversion H; reflexivity). eapply combine_map_well; exact H.
  - rewrite !map_length, Nat.eqb_refl. eexists; split; [reflexivity|].
    intros p a [H|[H|H]]; try (inversion H; reflexivity). eapply combine_map_well; exact H.
Qed.

(* the user-visible part of the binding does not depend on the grammar having a name *)
Definition user_part (b : list (pname * arg)) : list (pname * arg) :=
  filter (fun pa => match fst pa with PCtx => false | _ => true end) b.
Theorem convention_independent_of_name : forall fv b1 b2,
  bind (params true fv) (call_args true (captured (cutoff_of true) (params true fv))) = Some b1 ->
  bind (params false fv) (call_args false (captured (cutoff_of false) (params false fv))) = Some b2 ->
  user_part b1 = user_part b2.
Proof.
  intros fv b1 b2. unfold params, call_args, captured, cutoff_of, bind. cbn [app skipn length].
  rewrite !map_length, !Nat.eqb_refl. intros H1 H2. inversion H1; inversion H2; subst. reflexivity.
Qed.

(* the code as shipped used the constants 3 and 2 (`len(params) <= 3`, `params[2:]`):
   with one captured name in a named grammar the call has one argument too many *)
Definition shipped_captured (ps : list pname) : list pname := if Nat.leb (length ps) 3 then [] else skipn 2 ps.
Example shipped_convention_refuted_named :
  bind (params true [7]) (call_args true (shipped_captured (params true [7]))) = None.
Proof. vm_compute. reflexivity. Qed.
Example shipped_convention_refuted_unnamed :
  bind (params false [7]) (call_args false (shipped_captured (params false [7]))) = None.
Proof. vm_compute. reflexivity. Qed.
