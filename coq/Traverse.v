(* C15: traverse() (translator.py:711-755), containers and objects recorded as
   visited, leaves never, against the recursive tevent specification
   C15 states: every occurrence gets one enter and one finish tevent, a shared
   object or container is expanded only the first time. *)
From Coq Require Import List Arith Bool Lia.
Import ListNotations.

Inductive tnode :=
| TLeaf (id : nat)
| TCont (id : nat) (l : list tnode)        (* list / tuple / dict / parsed object: anything with children *)
.
Definition tnid (n : tnode) := match n with TLeaf i | TCont i _ => i end.
Definition tkids (n : tnode) := match n with TLeaf _ => [] | TCont _ l => l end.
Definition tis_leaf (n : tnode) := match n with TLeaf _ => true | _ => false end.

Fixpoint tsize (n : tnode) : nat :=
  match n with
  | TLeaf _ => 1
  | TCont _ l => S ((fix sz (l : list tnode) := match l with [] => 0 | x :: l' => tsize x + sz l' end) l)
  end.
Fixpoint tsizes (l : list tnode) := match l with [] => 0 | x :: l' => tsize x + tsizes l' end.
Lemma tsize_cont i l : tsize (TCont i l) = S (tsizes l).
Proof. reflexivity. Qed.

Definition tmem (i : nat) (v : list nat) := existsb (Nat.eqb i) v.
Definition tevent : Type := (nat * nat * nat * bool).    (* parent id, field, child id, is_finished *)

(* ---------------- SPEC ---------------- *)
Fixpoint ev (p f : nat) (c : tnode) (vis : list nat) {struct c} : list tevent * list nat :=
  match c with
  | TLeaf i => ([(p, f, i, false); (p, f, i, true)], vis)
  | TCont i l =>
      if tmem i vis then ([(p, f, i, false); (p, f, i, true)], vis)
      else
        let '(es, v') :=
          (fix go (parent k : nat) (l : list tnode) (vis : list nat) {struct l} : list tevent * list nat :=
             match l with
             | [] => ([], vis)
             | x :: l' => let '(e1, v1) := ev parent k x vis in
                          let '(e2, v2) := go parent (S k) l' v1 in (e1 ++ e2, v2)
             end) i 0 l (i :: vis) in
        ((p, f, i, false) :: es ++ [(p, f, i, true)], v')
  end.
Fixpoint ev_list (parent k : nat) (l : list tnode) (vis : list nat) : list tevent * list nat :=
  match l with
  | [] => ([], vis)
  | x :: l' => let '(e1, v1) := ev parent k x vis in
               let '(e2, v2) := ev_list parent (S k) l' v1 in (e1 ++ e2, v2)
  end.
Lemma ev_cont p f i l vis : ev p f (TCont i l) vis =
  if tmem i vis then ([(p, f, i, false); (p, f, i, true)], vis)
  else let '(es, v') := ev_list i 0 l (i :: vis) in ((p, f, i, false) :: es ++ [(p, f, i, true)], v').
Proof. reflexivity. Qed.

(* ---------------- MODEL (repaired: leaves are never recorded as visited) ---------------- *)
Inductive tframe := TEnter (p f : nat) (c : tnode) | TFinish (p f : nat) (c : tnode).

Fixpoint tindex_from {A} (k : nat) (l : list A) : list (nat * A) :=
  match l with [] => [] | x :: l' => (k, x) :: tindex_from (S k) l' end.
Definition child_frames (c : tnode) : list tframe :=
  map (fun '(k, x) => TEnter (tnid c) k x) (tindex_from 0 (tkids c)).
Definition frames_of (parent k : nat) (l : list tnode) : list tframe :=
  map (fun '(j, x) => TEnter parent j x) (tindex_from k l).

Fixpoint traverse_loop (fuel : nat) (stack : list tframe) (vis : list nat) (out : list tevent) : option (list tevent) :=
  match fuel with
  | 0 => match stack with [] => Some out | _ => None end
  | S fuel =>
    match stack with
    | [] => Some out
    | TFinish p f c :: st => traverse_loop fuel st vis (out ++ [(p, f, tnid c, true)])
    | TEnter p f c :: st =>
        let seen := tmem (tnid c) vis in
        let children := if seen then [] else child_frames c in
        traverse_loop fuel (children ++ TFinish p f c :: st)
                      (if tis_leaf c || seen then vis else tnid c :: vis)     (* visited is a set: add is idempotent *)
                      (out ++ [(p, f, tnid c, false)])
    end
  end.

(* events a stack of frames stands for *)
Fixpoint frames_events (st : list tframe) (vis : list nat) : list tevent * list nat :=
  match st with
  | [] => ([], vis)
  | TFinish p f c :: st' => let '(e, v) := frames_events st' vis in ((p, f, tnid c, true) :: e, v)
  | TEnter p f c :: st' => let '(e1, v1) := ev p f c vis in
                          let '(e2, v2) := frames_events st' v1 in (e1 ++ e2, v2)
  end.
Definition fmeasure (fr : tframe) := match fr with TEnter _ _ c => 2 * tsize c | TFinish _ _ _ => 1 end.
Fixpoint smeasure (st : list tframe) := match st with [] => 0 | fr :: st' => fmeasure fr + smeasure st' end.

Lemma frames_events_app a b vis :
  frames_events (a ++ b) vis =
  let '(e1, v1) := frames_events a vis in let '(e2, v2) := frames_events b v1 in (e1 ++ e2, v2).
Proof.
  revert vis. induction a as [|fr a IH]; intros vis; cbn [app frames_events].
  - destruct (frames_events b vis). reflexivity.
  - destruct fr as [p f c|p f c].
    + destruct (ev p f c vis) as [e1 v1]. rewrite IH. destruct (frames_events a v1) as [e2 v2].
      destruct (frames_events b v2) as [e3 v3]. rewrite app_assoc. reflexivity.
    + rewrite IH. destruct (frames_events a vis) as [e2 v2]. destruct (frames_events b v2) as [e3 v3]. reflexivity.
Qed.

Lemma frames_of_events parent : forall l k vis,
  frames_events (frames_of parent k l) vis = ev_list parent k l vis.
Proof.
  induction l as [|x l IH]; intros k vis; cbn; auto.
  destruct (ev parent k x vis) as [e1 v1]. unfold frames_of in IH. rewrite IH. reflexivity.
Qed.
Lemma smeasure_app a b : smeasure (a ++ b) = smeasure a + smeasure b.
Proof. induction a as [|x a IH]; cbn; auto. rewrite IH. lia. Qed.
Lemma smeasure_frames_of parent : forall l k, smeasure (frames_of parent k l) = 2 * tsizes l.
Proof. induction l as [|x l IH]; intros k; cbn; auto. unfold frames_of in IH. rewrite IH. lia. Qed.
Lemma tsize_pos c : 1 <= tsize c.
Proof. destruct c; cbn; lia. Qed.

Theorem traverse_spec : forall fuel stack vis out,
  smeasure stack <= fuel ->
  traverse_loop fuel stack vis out = Some (out ++ fst (frames_events stack vis)).
Proof.
  induction fuel as [|fuel IH]; intros stack vis out Hm.
  - destruct stack as [|fr st]; [cbn; rewrite app_nil_r; reflexivity|].
    cbn in Hm. destruct fr as [p f c|p f c]; cbn in Hm; pose proof (tsize_pos c); lia.
  - destruct stack as [|fr st]; [cbn; rewrite app_nil_r; reflexivity|].
    cbn [smeasure] in Hm. destruct fr as [p f c|p f c]; cbn [traverse_loop].
    + (* TEnter *)
      destruct c as [i|i l].
      * (* leaf: no children, not recorded *)
        cbn [tnid tis_leaf tkids]. assert (Hc : (if tmem i vis then [] else child_frames (TLeaf i)) = []) by (destruct (tmem i vis); reflexivity).
        rewrite Hc. cbn [app orb]. cbn [fmeasure tsize] in Hm.
        rewrite IH by (cbn; lia). cbn [frames_events ev].
        destruct (frames_events st vis) as [e v]. cbn [fst]. rewrite <- !app_assoc. reflexivity.
      * cbn [tnid tis_leaf]. cbn [fmeasure] in Hm. rewrite tsize_cont in Hm.
        cbn [frames_events]. rewrite ev_cont. destruct (tmem i vis) eqn:Em.
        -- (* already expanded: enter and finish only *)
           cbn [app orb]. rewrite IH by (cbn; lia). cbn [frames_events tnid].
           destruct (frames_events st vis) as [e v]. cbn [fst]. rewrite <- !app_assoc. reflexivity.
        -- cbn [orb]. change (child_frames (TCont i l)) with (frames_of i 0 l).
           rewrite IH by (rewrite smeasure_app, smeasure_frames_of; cbn; lia).
           rewrite frames_events_app, frames_of_events.
           destruct (ev_list i 0 l (i :: vis)) as [es v']. cbn [frames_events tnid].
           destruct (frames_events st v') as [e2 v2]. cbn [fst].
           rewrite <- !app_assoc. cbn. rewrite <- app_assoc. cbn. reflexivity.
    + (* TFinish *)
      cbn [fmeasure] in Hm. rewrite IH by lia. cbn [frames_events].
      destruct (frames_events st vis) as [e v]. cbn [fst]. rewrite <- app_assoc. reflexivity.
Qed.
