(* C19 — alternative spellings of the grammar language are interchangeable.
   MODEL Elab.v: _create_parsing_expression as a function from (already
   transformed) syntax nodes to expressions, constructor-call form included.
   The character-level alternatives (= : =>, newline vs ;, comments, blank lines,
   line breaks around operators, redundant parentheses, ignore/ignored, bare
   expression vs start = expr) are decided by rendering every generated grammar
   in several spellings and comparing the exported expression objects and the
   behaviour (harness/props/c19.py); they live in the meta-grammar text, whose
   meaning is covered by C01-C06 like any grammar's (partial). *)
From Coq Require Import List Arith Bool String.
Import ListNotations.
Open Scope string_scope.
Require Import Elab OpTable Pratt.

(* each documented pair elaborates to the SAME expression (equal expressions behave equally) *)
Theorem C19_opt   : forall a, elab (SPostfix a "?") = elab (SCall (ERef "Opt") [Pos a]).
Proof. exact opt_pair. Qed.
Theorem C19_star  : forall a, elab (SPostfix a "*") = elab (SCall (ERef "List") [Pos a]).
Proof. exact star_pair. Qed.
Theorem C19_plus  : forall a, elab (SPostfix a "+") = elab (SCall (ERef "Some") [Pos a]).
Proof. exact plus_pair. Qed.
Theorem C19_right : forall a b, elab (SInfix a ">>" b) = elab (SCall (ERef "Right") [Pos a; Pos b]).
Proof. exact right_pair. Qed.
Theorem C19_left  : forall a b, elab (SInfix a "<<" b) = elab (SCall (ERef "Left") [Pos a; Pos b]).
Proof. exact left_pair. Qed.
Theorem C19_seq   : forall a b, elab (SList [a; b]) = elab (SCall (ERef "Seq") [Pos a; Pos b]).
Proof. exact seq_pair. Qed.
Theorem C19_sep   : forall a b, elab (SInfix a "//" b) = elab (SCall (ERef "Sep") [Pos a; Pos b]).
Proof. exact sep_pair. Qed.
Theorem C19_sep_trailer : forall a b, elab (SInfix a "/?" b) =
  elab (SCall (ERef "Sep") [Pos a; Pos b; Kw "allow_trailer" (EPy "True")]).
Proof. exact sept_pair. Qed.
Theorem C19_repeat : forall a, elab (SRepeat a (Some (EPy "1")) (Some (EPy "2"))) =
  elab (SCall (ERef "List") [Pos a; Kw "min_len" (EPy "1"); Kw "max_len" (EPy "2")]).
Proof. exact rep_pair. Qed.
Theorem C19_choice : forall a b, (forall es, a <> EChoice es) -> (forall es, b <> EChoice es) ->
  elab (SInfix a "|" b) = elab (SCall (ERef "Choice") [Pos a; Pos b]).
Proof. exact choice_pair. Qed.
Print Assumptions C19_choice.
Print Assumptions C19_sep_trailer.

(* grouping of unparenthesised operators: the Expr table of grammar.txt (one spelling per row)
   run through the operator loop gives the tree of the precedence reference, for ALL token
   strings up to length 5 over the 8-letter alphabet (kernel computation) *)
Theorem C19_grouping : forall w, In w (all_toks alphaExpr 5) -> same (pratt tbExpr w) (loop tbExpr w) = true.
Proof. exact (agree_on_forall tbExpr alphaExpr 5 pratt_eq_loop_Expr). Qed.
Print Assumptions C19_grouping.
