(* C16 — transform rewrites bottom-up, once per xnode, preserving metadata.
   MODEL Transform.tr (with the callback chain chainf); tied to /repo by
   harness/props/c16.py on random trees and a closed family of callbacks. *)
From Coq Require Import List Arith Bool.
Import ListNotations.
Require Import Transform.

(* identity callback: the result has the same shape, classes and metadata as the input
   (it is the very same object except where a list sits below it: lists are always rebuilt) *)
Theorem C16_identity : forall n s, shape_of (fst (tr idf n s)) = shape_of n.
Proof. exact identity_shape. Qed.
Print Assumptions C16_identity.

(* exactly once per object occurrence of the input, for ANY callback *)
Theorem C16_once : forall f n s, length (xlog (snd (tr f n s))) = length (xlog s) + nobj n.
Proof. exact tr_log_length. Qed.
Print Assumptions C16_once.

(* children before parents: a parent is passed to the callbacks last, rebuilt from its
   already transformed children *)
Theorem C16_children_first : forall f i c fs m s,
  exists l n1, xlog (snd (tr f (XObj i c fs m) s)) = l ++ [xnid n1] /\ fst (tr f (XObj i c fs m) s) = f n1.
Proof. exact tr_obj_logs_last. Qed.
Print Assumptions C16_children_first.

(* a replacement without metadata of its own carries the metadata of the xnode it stands for;
   one that has metadata keeps it *)
Theorem C16_metadata_inherited : forall i c fs m j c' fs', Nat.eqb i j = false ->
  carry_meta (XObj i c fs m) (XObj j c' fs' None) = XObj j c' fs' m.
Proof. exact carry_meta_inherits. Qed.
Print Assumptions C16_metadata_inherited.
Theorem C16_metadata_own_kept : forall prev j c' fs' m',
  carry_meta prev (XObj j c' fs' (Some m')) = XObj j c' fs' (Some m').
Proof. exact carry_meta_keeps_own. Qed.
Print Assumptions C16_metadata_own_kept.

(* a chain of identity callbacks is the identity *)
Theorem C16_chain_of_identities : forall ks n, Forall (fun k => k = CId) ks -> chainf ks n = n.
Proof. exact chainf_id_only. Qed.
Print Assumptions C16_chain_of_identities.

(* the full metadata statement, for any chain of callbacks: whatever the chain makes of the node in between (a scalar,
   a list, copies, fresh objects), as long as no callback brings position metadata of its own or answers with another
   node of the tree, a result that is a parsed object carries the metadata of the node it stands for *)
Theorem C16_chain_keeps_metadata : forall ks i c fs m, i < FRESH -> Forall brings_no_metadata ks ->
  match chainf ks (XObj i c fs m) with XObj _ _ _ m' => m' = m | _ => True end.
Proof. exact chain_keeps_metadata. Qed.
Print Assumptions C16_chain_keeps_metadata.

(* ... which the chain as shipped violated (metadata was handed over from the previous VALUE only): node -> scalar ->
   fresh object lost it.  Repaired in /repo; the witness is the replay of the finding. *)
Example C16_shipped_chain_refuted :
  shipped_chainf [CLeaf 11; CWrap 12] (XObj 3 11 [] (Some 77)) = XObj (FRESH + 1) 12 [] None /\
  chainf [CLeaf 11; CWrap 12] (XObj 3 11 [] (Some 77)) = XObj (FRESH + 1) 12 [] (Some 77).
Proof. exact shipped_chain_loses_metadata. Qed.

(* the input tree is never modified: metadata is attached to a node made by the hand-over itself; whatever comes back
   under an identity of the input is the callback's answer, untouched *)
Theorem C16_input_objects_untouched : forall fr last prev now, FRESH <= fr ->
  xnid (hand_over fr last prev now) < FRESH -> hand_over fr last prev now = now.
Proof. exact hand_over_leaves_input_objects. Qed.
Print Assumptions C16_input_objects_untouched.
(* ... which the rule as shipped violated: a callback that unwraps a node (answers with its child, an input object
   without metadata) left that input object with the metadata of its parent.  Repaired in /repo. *)
Example C16_shipped_hand_over_refuted :
  carry_meta (XObj 1 10 [XObj 2 11 [] None] (Some 77)) (apply_cb (CChild 10) FRESH (XObj 1 10 [XObj 2 11 [] None] (Some 77)))
    = XObj 2 11 [] (Some 77)
  /\ hand_over FRESH (Some 77) (XObj 1 10 [XObj 2 11 [] None] (Some 77)) (apply_cb (CChild 10) FRESH (XObj 1 10 [XObj 2 11 [] None] (Some 77)))
    = XObj FRESH 11 [] (Some 77).
Proof. exact shipped_hand_over_writes_into_input. Qed.

(* non-vacuity / examples: replacement inherits metadata, the parent copy keeps the parent's *)
Example C16_example :
  fst (tr (chainf [CRepl 11 12]) (XObj 1 10 [XLeaf 2; XObj 3 11 [XLeaf 4] (Some 77)] (Some 66)) (TS 100 []))
  = XObj 100 10 [XLeaf 2; XObj (FRESH + 0) 12 [] (Some 77)] (Some 66).
Proof. vm_compute. reflexivity. Qed.
