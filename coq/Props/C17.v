(* C17 — nesting depth never changes meaning or exhausts the Python stack.
   Two theorems: (1) on the specification, semantically transparent wrappers
   nested to ANY depth return the correspondingly wrapped value (so do the
   generated parsers, by the refinement theorem of C01); (2) executing a
   sub-expression through a helper function that receives only its declared
   free variables — what Expression.compile does when the 20-block budget is
   exhausted — is transparent for EVERY placement of helpers (proved on the
   mini-language of Spill.v: literals, sequence, choice, let, inline reads,
   data-dependent predicate and count), provided each helper is given the names
   its body reads.  The block accounting itself need not be modelled. *)
From Coq Require Import List Arith Bool.
Import ListNotations.
Require Import Model Spec SpecFacts.
Require Spill.

Theorem C17_wrappers_transparent :
  forall g funs ignored t rx ws n E e p v q,
    dead_ok g funs ignored t rx ws -> peg g funs ignored t rx n E e p = Match v q ->
    peg g funs ignored t rx (length ws + n) E (wrap_all ws e) p = Match (wrapv_all ws v) q.
Proof. exact wrappers_transparent. Qed.
Print Assumptions C17_wrappers_transparent.

Theorem C17_spill_transparent : forall t n e sc E s,
  Spill.no_shadow sc e -> Spill.spills_ok e -> Spill.scope_of sc E -> Spill.sub E (Spill.locals s) ->
  Spill.agree E (Spill.peg t n E e (Spill.pos s)) (Spill.exec t n e s).
Proof. exact Spill.flat_refines_lexical. Qed.
Print Assumptions C17_spill_transparent.

(* non-vacuity: 40 wrappers of mixed kinds around a literal *)
Example C17_forty_wrappers :
  let ws := concat (repeat [WSeq; WOpt; WFailOr; WChoiceFail (Str [122; 122] false)] 10) in
  peg [] [] None [97] (fun _ _ => None) (length ws + 1) [] (wrap_all ws (Str [97] false)) 0
  = Match (wrapv_all ws (VStr [97])) 1.
Proof. vm_compute. reflexivity. Qed.

(* a helper that is not given a name its body reads dies with a NameError (the shipped
   freevars() sees no inline reads: the known finding shared with C06) *)
Example C17_missing_free_variable_stuck : Spill.exec [97; 98] 10 Spill.d12 (Spill.mk false Spill.VNone 0 []) = Spill.Stuck.
Proof. exact Spill.d12_shipped_stuck. Qed.
