(* C20 — user-chosen names cannot collide with generated code.
   Names.v models the two namespaces that share a generated function: user
   identifiers (no leading underscore) and the generator's registers and
   temporaries (_<base><counter>).  The theorem is the hygiene argument; that the
   generator really allocates its names this way is checked on every run by a
   static scan of the emitted source, and the behavioural claim (renaming changes
   nothing else) by renaming runs (harness/props/c20.py).  Module-level names
   (rules named like builtins the runtime calls, templates named like expression
   constructors) are outside this theorem: see the known findings. *)
From Coq Require Import List Arith Bool.
Import ListNotations.
Require Import Model Spec Rename Names.

Theorem C20_user_names_never_temporaries : forall u base k, user_ok u = true -> u <> temp base k.
Proof. exact user_never_temp. Qed.
Print Assumptions C20_user_names_never_temporaries.

Theorem C20_user_names_never_reserved : forall u r, user_ok u = true -> reserved r = true -> u <> r.
Proof. exact user_never_reserved. Qed.
Print Assumptions C20_user_names_never_reserved.

Example C20_shipped_allocation_collides : user_ok [118;97;108;117;101;50] = true
  /\ shipped_temp [118;97;108;117;101] 2 = [118;97;108;117;101;50].
Proof. exact shipped_collision. Qed.

(* module level: the three names a user rule/class gives the module (u, _parse_u, _try_u) are never one of the
   generator's own module-level functions (_function_<id>, _raise_error<id>, _matcher<id>), for any ids *)
Theorem C20_rule_names_never_generated_functions :
  forall u k j, user_ok u = true -> forall a b, In a (derived u) -> In b (generated k ++ generated j) -> a <> b.
Proof. exact derived_never_generated. Qed.
Print Assumptions C20_rule_names_never_generated_functions.

Example C20_shipped_helper_names_collide :
  user_ok ([102;117;110;99;116;105;111;110;95] ++ digits 5) = true /\
  In (shipped_helper 5) (derived ([102;117;110;99;116;105;111;110;95] ++ digits 5)).
Proof. exact shipped_helper_collision. Qed.

(* the semantic half: renaming the bound names of a grammar (let variables, class fields, parameters, names mentioned
   by inline Python and repetition counts, keyword arguments) by ANY injective map changes nothing but those names:
   same matches, same end positions, same failures, the values equal up to the names closures carry *)
Theorem C20_renaming_changes_only_names :
  forall (r : nat -> nat), (forall x y, r x = r y -> x = y) ->
  forall (g funs : list (list nat * expr)) (ignored : option nat) (t : list nat) (rx : nat -> nat -> option nat)
         n e E p,
    peg (rn_g r g) (rn_g r funs) ignored t rx n (rn_E r E) (rn_e r e) p = rn_r r (peg g funs ignored t rx n E e p).
Proof. exact peg_rename. Qed.
Print Assumptions C20_renaming_changes_only_names.

(* not vacuous: a let, a data-dependent count and a class field, renamed by x -> x + 100 *)
Example C20_renaming_witness :
  let e := Let 1 false (Apply (Rx 0 false) (Py (PFn FInt)) false)
             (Class 5 [(Some 2, true, Rep (Str [97] false) (BVar 1) (BVar 1)); (Some 3, true, Py (PVar 2))]) in
  let t := [50; 97; 97; 98] in
  let rx := fun (_ p : nat) => if Nat.eqb p 0 then Some 1 else None in
  peg [] [] None t rx 9 [] e 0 = peg [] [] None t rx 9 [] (rn_e (fun x => x + 100) e) 0 /\
  exists v, peg [] [] None t rx 9 [] e 0 = Match v 3.
Proof. vm_compute. split; eauto. Qed.
