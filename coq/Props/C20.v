(* C20 — user-chosen names cannot collide with generated code.
   Names.v models the two namespaces that share a generated function: user
   identifiers (no leading underscore) and the generator's registers and
   temporaries (_<base><counter>).  The theorem is the hygiene argument; that the
   generator really allocates its names this way is checked on every run by a
   static scan of the emitted source, and the behavioural claim (renaming changes
   nothing else) by renaming runs (harness/props/c20.py).  Module-level names
   (rules named like builtins the runtime calls, templates named like expression
   constructors) are outside this theorem: see the known findings. *)
From Coq Require Import List Arith Bool.
Import ListNotations.
Require Import Names.

Theorem C20_user_names_never_temporaries : forall u base k, user_ok u = true -> u <> temp base k.
Proof. exact user_never_temp. Qed.
Print Assumptions C20_user_names_never_temporaries.

Theorem C20_user_names_never_reserved : forall u r, user_ok u = true -> reserved r = true -> u <> r.
Proof. exact user_never_reserved. Qed.
Print Assumptions C20_user_names_never_reserved.

Example C20_shipped_allocation_collides : user_ok [118;97;108;117;101;50] = true
  /\ shipped_temp [118;97;108;117;101] 2 = [118;97;108;117;101;50].
Proof. exact shipped_collision. Qed.
