(* C15 — visit and traverse enumerate the whole tree, once, in order.
   Trees: every node carries the identity CPython gives it (equal leaves may
   or may not share an identity: the theorems hold for every assignment).
   MODEL  visit_loop / traverse_loop: the explicit-stack loops of the runtime.
   SPEC   dfs / ev: the recursive definitions the property describes. *)
From Coq Require Import List Arith Bool.
Import ListNotations.
Require Import Visit Traverse.

(* visit = recursive preorder with first-occurrence de-duplication of objects,
   through fields, lists, tuples and dict values — for every stack of pending
   nodes, every visited set, and any fuel >= the obvious size measure *)
Theorem C15_visit_is_dfs : forall fuel stack vis out,
  sizes stack <= fuel ->
  visit_loop fuel stack vis out = Some (let '(o, v) := dfs_list stack vis in (out ++ o, v)).
Proof. exact visit_is_dfs. Qed.
Print Assumptions C15_visit_is_dfs.

(* ... every reachable object exactly once (no identity twice, none that was already visited) *)
Theorem C15_visit_once : forall n vis,
  let '(o, v) := dfs n vis in
  (forall i, In i o -> ~ In i vis) /\ NoDup o /\ (forall i, In i v <-> In i o \/ In i vis).
Proof. intros n vis. apply (dfs_fresh (size n)). apply le_n. Qed.
Print Assumptions C15_visit_once.

(* traverse emits exactly the bracketed recursive event sequence: one entering and
   one finished event per occurrence (root, field, element, dict entry), a container's
   two events enclosing those of its children, a container already seen is not expanded again *)
Theorem C15_traverse_spec : forall fuel stack vis out,
  smeasure stack <= fuel ->
  traverse_loop fuel stack vis out = Some (out ++ fst (frames_events stack vis)).
Proof. exact traverse_spec. Qed.
Print Assumptions C15_traverse_spec.

(* repeated equal leaves (the same cached object twice) each get their two events *)
Example C15_repeated_leaves :
  traverse_loop 50 [TEnter 0 0 (TCont 1 [TLeaf 7; TLeaf 7])] [] [] =
  Some [(0,0,1,false); (1,0,7,false); (1,0,7,true); (1,1,7,false); (1,1,7,true); (0,0,1,true)].
Proof. vm_compute. reflexivity. Qed.
