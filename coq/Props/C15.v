(* C15 — visit and traverse enumerate the whole tree, once, in order.
   Trees: every node carries the identity CPython gives it (equal leaves may
   or may not share an identity: the theorems hold for every assignment).
   MODEL  visit_loop / traverse_loop: the explicit-stack loops of the runtime.
   SPEC   dfs / ev: the recursive definitions the property describes. *)
From Coq Require Import List Arith Bool.
Import ListNotations.
Require Import Visit Traverse.

(* visit = recursive preorder with first-occurrence de-duplication of objects,
   through fields, lists, tuples and dict values — for every stack of pending
   nodes, every visited set, and any fuel >= the obvious size measure *)
Theorem C15_visit_is_dfs : forall fuel stack vis out,
  sizes stack <= fuel ->
  visit_loop fuel stack vis out = Some (let '(o, v) := dfs_list stack vis in (out ++ o, v)).
Proof. exact visit_is_dfs. Qed.
Print Assumptions C15_visit_is_dfs.

(* ... every reachable object exactly once (no identity twice, none that was already visited) *)
Theorem C15_visit_once : forall n vis,
  let '(o, v) := dfs n vis in
  (forall i, In i o -> ~ In i vis) /\ NoDup o /\ (forall i, In i v <-> In i o \/ In i vis).
Proof. intros n vis. apply (dfs_fresh (size n)). apply le_n. Qed.
Print Assumptions C15_visit_once.

(* visit as repaired: ONE visited set for objects and containers, each expanded only the first time it is met
   (a container shared many times, or — outside this finite model — one that contains itself) *)
Theorem C15_visit_marks_containers : forall fuel stack vis out,
  sizes stack <= fuel ->
  visit_loop2 fuel stack vis out = Some (let '(o, v) := dfs2_list stack vis in (out ++ o, v)).
Proof. exact visit2_is_dfs2. Qed.
Print Assumptions C15_visit_marks_containers.

(* ... every yielded identity is new and none is yielded twice ... *)
Theorem C15_visit_marked_once : forall n vis,
  let '(o, v) := dfs2 n vis in
  (forall i, In i o -> ~ In i vis) /\ NoDup o /\ (forall i, In i o \/ In i vis -> In i v).
Proof. intros n vis. apply (dfs2_fresh (size n)). apply le_n. Qed.
Print Assumptions C15_visit_marked_once.

(* ... and nothing reachable is lost by skipping a container met before: every object of the tree is yielded, when
   an identity stands for one node (two occurrences of an identity have the same children: `sub`) and identities of
   containers and objects differ *)
Theorem C15_visit_marked_complete : forall (sub : nat -> list node) n,
  wf sub n -> (forall i, In i (objs n) -> ~ In i (conts n)) ->
  forall i, In i (objs n) -> In i (fst (dfs2 n [])).
Proof. exact visit2_complete. Qed.
Print Assumptions C15_visit_marked_complete.

(* not vacuous: a list shared twice below an object satisfies wf, and is expanded once *)
Example C15_shared_container_witness :
  let shared := Cont 5 [Obj 6 []; Obj 7 []] in
  let t := Obj 1 [shared; Cont 8 [shared; Obj 9 []]] in
  wf (fun i => match i with 1 => [shared; Cont 8 [shared; Obj 9 []]] | 5 => [Obj 6 []; Obj 7 []] | 8 => [shared; Obj 9 []] | _ => [] end) t
  /\ fst (dfs2 t []) = [1; 6; 7; 9]
  /\ visit_loop2 20 [t] [] [] = Some ([1; 6; 7; 9], [9; 8; 7; 6; 5; 1]).
Proof. vm_compute. repeat split; auto. Qed.

(* traverse emits exactly the bracketed recursive event sequence: one entering and
   one finished event per occurrence (root, field, element, dict entry), a container's
   two events enclosing those of its children, a container already seen is not expanded again *)
Theorem C15_traverse_spec : forall fuel stack vis out,
  smeasure stack <= fuel ->
  traverse_loop fuel stack vis out = Some (out ++ fst (frames_events stack vis)).
Proof. exact traverse_spec. Qed.
Print Assumptions C15_traverse_spec.

(* repeated equal leaves (the same cached object twice) each get their two events *)
Example C15_repeated_leaves :
  traverse_loop 50 [TEnter 0 0 (TCont 1 [TLeaf 7; TLeaf 7])] [] [] =
  Some [(0,0,1,false); (1,0,7,false); (1,0,7,true); (1,1,7,false); (1,1,7,true); (0,0,1,true)].
Proof. vm_compute. reflexivity. Qed.
