(* C18 — parse calls are isolated from each other.
   In the model every piece of per-call state (memo, stack of suspended
   generators, registers, line/column tables) is created inside the call:
   parse_model is a FUNCTION of the grammar and the call's arguments.  A module
   with a history is modelled as the grammar plus a log of earlier calls; the
   theorems say that the log cannot influence an outcome, for any history and
   any interleaving of two calls' positions in it.  What a theorem cannot show is
   that the implementation has no state the model does not know about, nor what
   CPython's scheduler does: that part is decided by the history/thread runs of
   harness/props/c18.py (partial). *)
From Coq Require Import List Arith Bool.
Import ListNotations.
Require Import Model Entry.

Record call := { c_text : list nat; c_rx : nat -> nat -> option nat; c_entry : nat; c_pos : nat; c_full : bool }.
Definition do_call (g funs : list (list nat * expr)) (ig : option nat) (fuel : nat) (c : call) : outcome :=
  parse_model true g funs ig (c_text c) (c_rx c) fuel (c_entry c) (c_pos c) (c_full c).

(* a module state: what happened before is only a log; a step appends to it *)
Definition mstate : Type := list (call * outcome).
Definition step g funs ig fuel (m : mstate) (c : call) : mstate * outcome :=
  let o := do_call g funs ig fuel c in (m ++ [(c, o)], o).
Fixpoint run_history g funs ig fuel (m : mstate) (h : list call) : mstate :=
  match h with [] => m | c :: h' => run_history g funs ig fuel (fst (step g funs ig fuel m c)) h' end.

Theorem C18_outcome_independent_of_history : forall g funs ig fuel h c,
  snd (step g funs ig fuel (run_history g funs ig fuel [] h) c) = do_call g funs ig fuel c.
Proof. intros. reflexivity. Qed.
Print Assumptions C18_outcome_independent_of_history.

(* two calls in either order produce the outcomes they produce alone *)
Theorem C18_calls_commute : forall g funs ig fuel m a b,
  let '(m1, oa) := step g funs ig fuel m a in
  let '(_, ob) := step g funs ig fuel m1 b in
  let '(m2, ob') := step g funs ig fuel m b in
  let '(_, oa') := step g funs ig fuel m2 a in
  oa = oa' /\ ob = ob'.
Proof. intros. cbn. split; reflexivity. Qed.
Print Assumptions C18_calls_commute.
