(* C02 — operator tables build the tree dictated by precedence and associativity.
   MODEL OpTable.v: the shunting-yard loop of OperatorTable._compile over a token
   list (sub-parsers for prefix/operand/postfix/infix are the Longest of the rows,
   here functions of the position), with _operator_marker / _outer_checkpoint.
   (Model.v holds the same loop at the level of arbitrary sub-expressions; both are
   compared with the implementation on every run by harness/props/c02.py.)
   SPEC Pratt.v: precedence climbing written from the property's wording. *)
From Coq Require Import List Arith Bool.
Import ListNotations.
Require Import OpTable Pratt PrecOk.

(* yield: for ANY table and ANY token sequence, whatever tree the loop returns
   reads back, in order, as exactly the tokens it consumed (no operator invented,
   none lost, a dangling operator left unconsumed) *)
Theorem C02_yield : forall tb toks k sf t e,
  main2 tb toks k (MK [] [] 0 0 0) = Some sf -> finish sf = Some (t, e) -> yield t = firstn e toks.
Proof. exact run2_yield. Qed.
Print Assumptions C02_yield.

(* precedence and associativity: for ANY table and ANY token sequence (no bound on either) the tree the
   loop returns is well-formed in the sense of PrecOk.pok: at every infix node the operators on the right
   spine of the left operand sit in tighter rows (or the same row when it is left-associative), those on the
   left spine of the right operand sit in tighter rows (or the same row when it is right-associative), so that
   operators of a non-associative row are never chained; the operand of a prefix (postfix) node has only
   operators of tighter rows on its left (right) spine.  Rows are found by the kind of node, first row first. *)
Theorem C02_precedence_and_associativity : forall tb toks k sf t e,
  main2 tb toks k (MK [] [] 0 0 0) = Some sf -> finish sf = Some (t, e) -> pok tb t = true.
Proof. exact run2_pok. Qed.
Print Assumptions C02_precedence_and_associativity.
Corollary C02_loop_respects_precedence : forall tb toks t e, loop tb toks = Some (t, e) ->
  pok tb t = true /\ yield t = firstn e toks.
Proof.
  intros tb toks t e H. unfold loop in H. destruct (main2 tb toks (length toks + 1) (MK [] [] 0 0 0)) as [sf|] eqn:E; [|discriminate].
  split; [exact (run2_pok _ _ _ _ _ _ E H) | exact (run2_yield _ _ _ _ _ _ E H)].
Qed.
Print Assumptions C02_loop_respects_precedence.
(* the statement is not vacuous and the judgement discriminates: on 12 * 34 ^ 56 ^ 78 - 90 the loop returns
   ((12 * (34 ^ (56 ^ 78))) - 90), which is well-formed, while the other groupings of the same tokens are not *)
Example C02_pok_accepts_and_rejects :
  loop tbA [TOpd 12; TOp STAR; TOpd 34; TOp HAT; TOpd 56; TOp HAT; TOpd 78; TOp MINUS; TOpd 90]
    = Some (Inf (Inf (Opd 12) STAR (Inf (Opd 34) HAT (Inf (Opd 56) HAT (Opd 78)))) MINUS (Opd 90), 9)
  /\ pok tbA (Inf (Inf (Opd 12) STAR (Inf (Opd 34) HAT (Inf (Opd 56) HAT (Opd 78)))) MINUS (Opd 90)) = true
  /\ pok tbA (Inf (Inf (Opd 12) STAR (Inf (Inf (Opd 34) HAT (Opd 56)) HAT (Opd 78))) MINUS (Opd 90)) = false
  /\ pok tbA (Inf (Inf (Inf (Opd 12) STAR (Opd 34)) HAT (Inf (Opd 56) HAT (Opd 78))) MINUS (Opd 90)) = false
  /\ pok tbA (Inf (Opd 12) STAR (Inf (Inf (Opd 34) HAT (Inf (Opd 56) HAT (Opd 78))) MINUS (Opd 90))) = false
  /\ pok tb4 (Inf (Inf (Opd 1) MINUS (Opd 2)) MINUS (Opd 3)) = false
  /\ pok tb4 (Inf (Opd 1) MINUS (Inf (Opd 2) MINUS (Opd 3))) = false
  /\ pok tbA (Pre MINUS (Post (Opd 1) PCT)) = false /\ pok tbA (Post (Pre MINUS (Opd 1)) PCT) = true.
Proof. vm_compute. repeat split; reflexivity. Qed.

(* extent: for ANY table and ANY token sequence the expression the loop returns ends at e only where it has to end:
   no postfix operator of the table stands at e, and no infix operator either - unless that operator is not followed by an
   operand (after any number of prefix operators comes no operand: it is left unconsumed) or belongs to a non-associative
   row (operators of such a row are not chained).  Together with C02_yield: the run consumed is a longest one. *)
Theorem C02_extent : forall tb toks k sf t e,
  main2 tb toks k (MK [] [] 0 0 0) = Some sf -> finish sf = Some (t, e) -> stop_ok tb toks e.
Proof. exact run2_stop. Qed.
Print Assumptions C02_extent.
(* each stop reason occurs: 1+2 3 (no operator), 1+ and 1+- (dangling), 1-2-3 with a non-associative row, 1% (end of input) *)
Example C02_extent_reasons :
  loop tbA [TOpd 1; TOp PLUS; TOpd 2; TOpd 3] = Some (Inf (Opd 1) PLUS (Opd 2), 3)
  /\ loop tbA [TOpd 1; TOp PLUS] = Some (Opd 1, 1)
  /\ loop tbA [TOpd 1; TOp PLUS; TOp MINUS] = Some (Opd 1, 1)
  /\ loop tb4 [TOpd 1; TOp MINUS; TOpd 2; TOp MINUS; TOpd 3] = Some (Inf (Opd 1) MINUS (Opd 2), 3)
  /\ loop tbA [TOpd 1; TOp PCT] = Some (Post (Opd 1) PCT, 2).
Proof. vm_compute. repeat split; reflexivity. Qed.

(* the loop returns the tree and the extent of the reference (precedence, associativity,
   non-chaining of non-associative rows, prefix/postfix attachment, longest run):
   proved here for ALL token strings up to the stated length over four tables that
   exercise every kind of row and spellings shared between prefix, infix and postfix rows.
   (Finite statements, decided by computation inside the kernel; the unbounded part of
   "the tree dictated by precedence and associativity" is C02_precedence_and_associativity above.) *)
Theorem C02_reference_arithmetic_table : forall w, In w (all_toks alphaA 6) -> same (pratt tbA w) (loop tbA w) = true.
Proof. exact (agree_on_forall tbA alphaA 6 pratt_eq_loop_A). Qed.
Print Assumptions C02_reference_arithmetic_table.
Theorem C02_reference_loose_prefix_postfix : forall w, In w (all_toks alphaB 5) -> same (pratt tbB w) (loop tbB w) = true.
Proof. exact (agree_on_forall tbB alphaB 5 pratt_eq_loop_B). Qed.
Print Assumptions C02_reference_loose_prefix_postfix.
Theorem C02_reference_shared_spellings : forall w, In w (all_toks alphaC 7) -> same (pratt tbC w) (loop tbC w) = true.
Proof. exact (agree_on_forall tbC alphaC 7 pratt_eq_loop_C). Qed.
Print Assumptions C02_reference_shared_spellings.
Theorem C02_reference_minus_everywhere : forall w, In w (all_toks [TOpd 1; TOp MINUS] 9) -> same (pratt tbD w) (loop tbD w) = true.
Proof. exact (agree_on_forall tbD [TOpd 1; TOp MINUS] 9 pratt_eq_loop_D). Qed.
Print Assumptions C02_reference_minus_everywhere.

Theorem C02_reference_infix_and_postfix_spelling : forall w, In w (all_toks alphaE 7) -> same (pratt tbE w) (loop tbE w) = true.
Proof. exact (agree_on_forall tbE alphaE 7 pratt_eq_loop_E). Qed.
Print Assumptions C02_reference_infix_and_postfix_spelling.

(* the loop as shipped (non-associative conflict only leaves the inner loop; no restore
   after a dangling operator with a literal operand) violates the yield statement *)
Example C02_shipped_nonassoc_refuted : yield_ok tb4 in4 true true false = false.
Proof. exact D4_refuted. Qed.
Example C02_shipped_dangling_operator_refuted : yield_ok tb5 in5 false false false = false.
Proof. exact D5_refuted. Qed.
