(* C02 — operator tables build the tree dictated by precedence and associativity.
   MODEL OpTable.v: the shunting-yard loop of OperatorTable._compile over a token
   list (sub-parsers for prefix/operand/postfix/infix are the Longest of the rows,
   here functions of the position), with _operator_marker / _outer_checkpoint.
   (Model.v holds the same loop at the level of arbitrary sub-expressions; both are
   compared with the implementation on every run by harness/props/c02.py.)
   SPEC Pratt.v: precedence climbing written from the property's wording. *)
From Coq Require Import List Arith Bool.
Import ListNotations.
Require Import OpTable Pratt.

(* yield: for ANY table and ANY token sequence, whatever tree the loop returns
   reads back, in order, as exactly the tokens it consumed (no operator invented,
   none lost, a dangling operator left unconsumed) *)
Theorem C02_yield : forall tb toks k sf t e,
  main2 tb toks k (MK [] [] 0 0 0) = Some sf -> finish sf = Some (t, e) -> yield t = firstn e toks.
Proof. exact run2_yield. Qed.
Print Assumptions C02_yield.

(* the loop returns the tree and the extent of the reference (precedence, associativity,
   non-chaining of non-associative rows, prefix/postfix attachment, longest run):
   proved here for ALL token strings up to the stated length over four tables that
   exercise every kind of row and spellings shared between prefix, infix and postfix rows.
   (Finite statements, decided by computation inside the kernel; the unbounded
   equivalence loop = reference is not proved — see DESIGN.md.) *)
Theorem C02_reference_arithmetic_table : forall w, In w (all_toks alphaA 6) -> same (pratt tbA w) (loop tbA w) = true.
Proof. exact (agree_on_forall tbA alphaA 6 pratt_eq_loop_A). Qed.
Print Assumptions C02_reference_arithmetic_table.
Theorem C02_reference_loose_prefix_postfix : forall w, In w (all_toks alphaB 5) -> same (pratt tbB w) (loop tbB w) = true.
Proof. exact (agree_on_forall tbB alphaB 5 pratt_eq_loop_B). Qed.
Print Assumptions C02_reference_loose_prefix_postfix.
Theorem C02_reference_shared_spellings : forall w, In w (all_toks alphaC 7) -> same (pratt tbC w) (loop tbC w) = true.
Proof. exact (agree_on_forall tbC alphaC 7 pratt_eq_loop_C). Qed.
Print Assumptions C02_reference_shared_spellings.
Theorem C02_reference_minus_everywhere : forall w, In w (all_toks [TOpd 1; TOp MINUS] 9) -> same (pratt tbD w) (loop tbD w) = true.
Proof. exact (agree_on_forall tbD [TOpd 1; TOp MINUS] 9 pratt_eq_loop_D). Qed.
Print Assumptions C02_reference_minus_everywhere.

Theorem C02_reference_infix_and_postfix_spelling : forall w, In w (all_toks alphaE 7) -> same (pratt tbE w) (loop tbE w) = true.
Proof. exact (agree_on_forall tbE alphaE 7 pratt_eq_loop_E). Qed.
Print Assumptions C02_reference_infix_and_postfix_spelling.

(* the loop as shipped (non-associative conflict only leaves the inner loop; no restore
   after a dangling operator with a literal operand) violates the yield statement *)
Example C02_shipped_nonassoc_refuted : yield_ok tb4 in4 true true false = false.
Proof. exact D4_refuted. Qed.
Example C02_shipped_dangling_operator_refuted : yield_ok tb5 in5 false false false = false.
Proof. exact D5_refuted. Qed.
