(* C11 — behaviour does not depend on how the grammar module was produced.
   The only semantic switch among the variants is _Flags.uses_context (a
   `grammar <name>` header): it threads one more leading parameter through every
   generated signature and call.  Conv.v models how parameter lists and argument
   lists are built; the theorems say that every call binds (no TypeError) and
   that the user-visible bindings are the same with and without a name — so the
   expression model (Model.exec) needs no such switch.  That CPython executes the
   emitted text the same way in a fresh module, that include_source only adds an
   attribute and that compiling twice changes nothing are decided by the
   differential runs of harness/props/c11.py (partial). *)
From Coq Require Import List Arith Bool.
Import ListNotations.
Require Import Conv.

Theorem C11_every_call_binds : forall named fv,
  exists b, bind (params named fv) (call_args named (captured (cutoff_of named) (params named fv))) = Some b
            /\ well_bound b.
Proof. exact convention_ok. Qed.
Print Assumptions C11_every_call_binds.

Theorem C11_name_header_irrelevant : forall fv b1 b2,
  bind (params true fv) (call_args true (captured (cutoff_of true) (params true fv))) = Some b1 ->
  bind (params false fv) (call_args false (captured (cutoff_of false) (params false fv))) = Some b2 ->
  user_part b1 = user_part b2.
Proof. exact convention_independent_of_name. Qed.
Print Assumptions C11_name_header_irrelevant.

Example C11_shipped_cutoff_refuted :
  bind (params true [7]) (call_args true (shipped_captured (params true [7]))) = None.
Proof. exact shipped_convention_refuted_named. Qed.
