(* C04 — ignored patterns are skipped exactly at token boundaries.
   The translator rewrites the grammar (skip_ignored flag on every literal,
   synthetic rule _ignored = Skip(ignore rules), start body prefixed with it);
   the model/spec give the flag its meaning, the theorems below say what that
   meaning is, and harness/props/c04.py checks on every run that the translator
   placed the flags as stated and that the result behaves like the grammar
   with skipping written out explicitly. *)
From Coq Require Import List Arith Bool.
Import ListNotations.
Require Import Model Spec Refine IgnoreFacts.

(* generated code = specification, for grammars with ignore declarations as well
   (the rule call to _ignored after a literal is part of both semantics) *)
Theorem C04_exec_refines_peg :
  forall (g funs : list (list nat * expr)) (ignored : option nat)
         (t : list nat) (rx : nat -> nat -> option nat),
    (forall r ps b, nth_error g r = Some (ps, b) -> wf ps b) ->
    (forall fid ps b, nth_error funs fid = Some (ps, b) -> wf ps b) ->
    (forall r, ignored = Some r -> exists es, nth_error g r = Some ([], Skip es)) ->
    forall n e sc E s, wf sc e -> scope_of sc E -> sub E (locals s) ->
      match peg g funs ignored t rx n E e (pos s), exec true g funs ignored t rx n e s with
      | Fuel, OutOfFuel => True
      | Raise, _ => True
      | Match v p', Done s' => status s' = true /\ result s' = v /\ pos s' = p' /\ sub E (locals s')
      | Fails, Done s' => status s' = false /\ always e = false
                          /\ (partial true e = false -> pos s' = pos s) /\ sub E (locals s')
      | _, _ => False
      end.
Proof. exact exec_refines_peg. Qed.
Print Assumptions C04_exec_refines_peg.

(* a literal carrying the flag means exactly  literal << _ignored : ignorable
   text is consumed immediately AFTER a successfully matched literal, its value
   never shows in the result, and a literal that fails consumes nothing *)
Theorem C04_flagged_string_literal :
  forall g funs t rx r b, nth_error g r = Some ([], b) ->
  forall n E s p, s <> [] -> (forall q, peg g funs (Some r) t rx n [] b q <> Fails) ->
    peg g funs (Some r) t rx (S n) E (Str s true) p
    = peg g funs (Some r) t rx (S (S n)) E (Discard (Str s false) (Ref r) false) p.
Proof. exact flagged_literal_is_discard. Qed.
Print Assumptions C04_flagged_string_literal.

Theorem C04_flagged_regex_literal :
  forall g funs t rx r b, nth_error g r = Some ([], b) ->
  forall n E id p, (forall q, peg g funs (Some r) t rx n [] b q <> Fails) ->
    peg g funs (Some r) t rx (S n) E (Rx id true) p
    = peg g funs (Some r) t rx (S (S n)) E (Discard (Rx id false) (Ref r) false) p.
Proof. exact flagged_regex_is_discard. Qed.
Print Assumptions C04_flagged_regex_literal.

(* ... and at no other point: an unflagged literal does not consult the ignore rule *)
Theorem C04_unflagged_literal :
  forall g funs t rx n E s p ig,
    peg g funs ig t rx (S n) E (Str s false) p = peg g funs None t rx (S n) E (Str s false) p.
Proof. exact unflagged_literal_ignores. Qed.
Print Assumptions C04_unflagged_literal.
