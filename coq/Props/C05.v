(* C05 — bound names and data-dependent predicates see the values parsed earlier.
   SPEC: lexically scoped environments (Spec.peg: `let x = a in b` evaluates b in
   E[x := value of a] and the binding ends with b; class members see the earlier
   named members; every rule invocation starts from the empty environment).
   MODEL: ONE flat namespace of Python locals per generated function; a let that
   the translator marked as shadowing saves and restores the outer value. *)
From Coq Require Import List Arith Bool.
Import ListNotations.
Require Import Model Spec Refine.

(* flat locals refine lexical scoping: after every sub-expression the locals
   agree with the lexical environment on its whole domain (sub E (locals s')),
   so a later read of a name in scope sees the value bound in the CURRENT
   attempt, never one from an abandoned alternative, a sibling or a shadowing
   inner let.  Hypothesis on lets (inside wf): the shadows flag is set exactly
   when the name is in the static scope. *)
Theorem C05_scoping :
  forall (g funs : list (list nat * expr)) (ignored : option nat)
         (t : list nat) (rx : nat -> nat -> option nat),
    (forall r ps b, nth_error g r = Some (ps, b) -> wf ps b) ->
    (forall fid ps b, nth_error funs fid = Some (ps, b) -> wf ps b) ->
    (forall r, ignored = Some r -> exists es, nth_error g r = Some ([], Skip es)) ->
    forall n e sc E s, wf sc e -> scope_of sc E -> sub E (locals s) ->
      match peg g funs ignored t rx n E e (pos s), exec true g funs ignored t rx n e s with
      | Fuel, OutOfFuel => True
      | Raise, _ => True
      | Match v p', Done s' => status s' = true /\ result s' = v /\ pos s' = p' /\ sub E (locals s')
      | Fails, Done s' => status s' = false /\ always e = false
                          /\ (partial true e = false -> pos s' = pos s) /\ sub E (locals s')
      | _, _ => False
      end.
Proof. exact exec_refines_peg. Qed.
Print Assumptions C05_scoping.

(* what the specification says *)
Theorem C05_let_is_lexical : forall g funs ig t rx n E x sh a body p v p1,
  peg g funs ig t rx n E a p = Match v p1 ->
  peg g funs ig t rx (S n) E (Let x sh a body) p = peg g funs ig t rx n ((x, v) :: E) body p1.
Proof. intros. cbn [peg]. now rewrite H. Qed.
Print Assumptions C05_let_is_lexical.

Theorem C05_where : forall g funs ig t rx n E e pred p v p1 fn p2 w,
  peg g funs ig t rx n E e p = Match v p1 -> peg g funs ig t rx n E pred p1 = Match (VFun fn) p2 ->
  apply_fun E fn v = Some w ->
  peg g funs ig t rx (S n) E (Where e pred) p = if truthy w then Match v p2 else Fails.
Proof. intros. cbn [peg]. now rewrite H, H0, H1. Qed.
Print Assumptions C05_where.

Theorem C05_apply : forall g funs ig t rx n E a b p va p1 fn p2 w,
  peg g funs ig t rx n E a p = Match va p1 -> peg g funs ig t rx n E b p1 = Match (VFun fn) p2 ->
  apply_fun E fn va = Some w ->
  peg g funs ig t rx (S n) E (Apply a b false) p = Match w p2.      (* a |> f  =  f(a) *)
Proof. intros. cbn [peg]. now rewrite H, H0, H1. Qed.
Print Assumptions C05_apply.

Theorem C05_apply_left : forall g funs ig t rx n E a b p fn p1 vb p2 w,
  peg g funs ig t rx n E a p = Match (VFun fn) p1 -> peg g funs ig t rx n E b p1 = Match vb p2 ->
  apply_fun E fn vb = Some w ->
  peg g funs ig t rx (S n) E (Apply a b true) p = Match w p2.       (* f <| a  =  f(a) *)
Proof. intros. cbn [peg]. now rewrite H, H0, H1. Qed.
Print Assumptions C05_apply_left.

(* class: exactly the named, non-omitted members become fields, in declaration order;
   every named member is visible to the later ones; a failing member (requires) fails the class *)
Theorem C05_class_member : forall pgE cls start name isf e ms E q acc v q',
  pgE E e q = Match v q' ->
  class_spec pgE cls start ((name, isf, e) :: ms) E q acc =
  class_spec pgE cls start ms (match name with Some x => (x, v) :: E | None => E end) q'
             (match field_name name isf with Some _ => v :: acc | None => acc end).
Proof. intros. cbn [class_spec]. now rewrite H. Qed.
Print Assumptions C05_class_member.

(* non-vacuity and the shipped defect: let x = "a" in [(let x = "b" in `x`), `x`] on "ab" *)
Definition ex_g (flag : bool) : list (list nat * expr) :=
  [([], Let 1 false (Str [97] false) (Seq [Let 1 flag (Str [98] false) (Py (PVar 1)); Py (PVar 1)]))].
Example C05_hypotheses_satisfiable :
  (forall r b, nth_error (ex_g true) r = Some ([], b) -> wf [] b)
  /\ match exec true (ex_g true) [] None [97; 98] (fun _ _ => None) 10 (Ref 0) (fresh 0) with
     | Done s => result s = VList [VStr [98]; VStr [97]] | _ => False end.
Proof.
  split; [|vm_compute; reflexivity].
  intros [|r] b H; cbn in H; [|destruct r; discriminate]. inversion H; subst. cbn. intuition; discriminate.
Qed.
Example C05_unmarked_shadowing_refuted :
  match exec true (ex_g false) [] None [97; 98] (fun _ _ => None) 10 (Ref 0) (fresh 0) with
  | Done s => result s = VList [VStr [98]; VStr [98]] | _ => False end.
Proof. vm_compute. reflexivity. Qed.
