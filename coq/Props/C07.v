(* C07 — packrat guarantee: a rule is evaluated at most once per position.
   MODEL Run.v: _run (translator.py:654-681) as a machine over abstract rule
   bodies (interaction trees): state = (stack of suspended generators each with
   its memo key or None, memo, value being sent, log of memoised body starts,
   number of unkeyed starts); one step = one iteration of the `while stack`
   loop (send; then pop+store-if-keyed / memo hit / push).  A call whose key
   cannot be hashed (unhashable argument of a parameterised rule, CallU) runs in
   a frame with key None: never stored, never looked up.
   Tied to /repo by harness/props/c07.py: the REAL _run is driven with scripted
   generator functions and compared with the extracted machine (log, result). *)
From Coq Require Import List Arith Bool.
Import ListNotations.
Require Import Run.

(* memo transparency: whenever direct, memo-free recursive evaluation of the
   bodies yields r, the machine terminates with exactly r, every memo entry is a
   value of direct evaluation, and a memo hit replays that value *)
Theorem C07_memo_transparent : forall (value : Type) (body : key -> comp value) (dummy : triple value) n start_key r,
  eval value body n start_key = Some r ->
  exists j m' lg' u', steps value body dummy j (MS value [(Some start_key, fun _ => body start_key)] (fun _ => None) dummy [start_key] 0)
                   = MS value [] m' r lg' u' /\ memo_ok value body m'.
Proof. exact run_transparent. Qed.
Print Assumptions C07_memo_transparent.

(* at most once: under the exact no-left-recursion hypothesis (a rank on keys
   that every call strictly decreases) the log of body starts never contains a
   key twice, after any number of steps - also when some calls go through
   unkeyed frames (calls made inside an unkeyed frame count against the rule
   that made the unkeyed call) *)
Theorem C07_at_most_once : forall (value : Type) (body : key -> comp value) (dummy : triple value) (R : key -> nat),
  (forall k, calls_lt value R (R k) (body k)) ->
  forall j k0, NoDup (log value (steps value body dummy j
                 (MS value [(Some k0, fun _ => body k0)] (fun _ => None) dummy [k0] 0))).
Proof. exact at_most_once. Qed.
Print Assumptions C07_at_most_once.

(* hence at most (number of rules) x (input length + 1) body evaluations *)
Theorem C07_bound : forall nrules len (lg : list (nat * nat)),
  NoDup lg -> (forall k, In k lg -> in_range nrules len k) -> length lg <= nrules * S len.
Proof. exact eval_bound. Qed.
Print Assumptions C07_bound.

(* non-vacuity: a diamond  S -> A B ; A -> C ; B -> C  evaluates C once *)
Definition ex_scr : list (key * list call) :=
  [((0, 0), [CK (1, 0); CK (2, 0)]); ((1, 0), [CK (3, 0)]); ((2, 0), [CK (3, 0)]); ((3, 0), [])].
Example C07_diamond :
  let '(s, fin) := run_script ex_scr 3 50 (0, 0) in
  fin = true /\ cur nat s = (true, 5, 0) /\ rev (log nat s) = [(0, 0); (1, 0); (3, 0); (2, 0)].
Proof. vm_compute. auto. Qed.

(* the same diamond where S reaches A and B through unhashable keys: A and B are started
   unkeyed (twice, never logged or stored), C is still evaluated once *)
Definition ex_scr_u : list (key * list call) :=
  [((0, 0), [CU (1, 0); CU (2, 0); CU (1, 0)]); ((1, 0), [CK (3, 0)]); ((2, 0), [CK (3, 0)]); ((3, 0), [])].
Example C07_diamond_unkeyed :
  let '(s, fin) := run_script ex_scr_u 3 50 (0, 0) in
  fin = true /\ cur nat s = (true, 7, 0) /\ rev (log nat s) = [(0, 0); (3, 0)] /\ ustarts nat s = 3.
Proof. vm_compute. auto. Qed.
