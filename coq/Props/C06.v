(* C06 — parameterised rules behave like their expansion (statements are extended below).
   MODEL exec (Model.v): Call / RefL / argument passing as the generated code does it
   (rule function, local value, inline-Python value, wrapped string literal, lifted
   argument function with its sorted free variables, arity check at invocation). *)
From Coq Require Import List Arith Bool.
Import ListNotations.
Require Import Model.

(* two instantiations of one template at one position with different arguments are
   independent, and a nested instantiation sees its own argument *)
Definition ex_g : list (list nat * expr) :=
  [([], Seq [Call (inl 1) [(None, AStrLit [97] false)]; Call (inl 1) [(None, AStrLit [98] false)]]);
   ([1], Seq [RefL 1; RefL 1])].
Example C06_two_instantiations :
  match exec true ex_g [] None [97; 97; 98; 98] (fun _ _ => None) 20 (Ref 0) (fresh 0) with
  | Done s => status s = true /\ pos s = 4 | _ => False end.
Proof. vm_compute. auto. Qed.
