(* C06 — parameterised rules behave like their expansion.
   SPEC (Spec.peg, clauses Call and RefL): T(args) is the body of T evaluated in
   a scope of its own in which every parameter is bound — positionally, then by
   keyword — to its argument: a rule, a value of the caller, a literal, or an
   argument EXPRESSION together with the values of the caller's names it
   mentions (a closure: the argument substituted for the parameter, evaluated
   where and when the body uses the parameter).
   MODEL (Model.exec): what the generated code does — argumentize, lifted
   argument functions with their sorted free variables, _ParseFunction, arity
   check at invocation, the callee's fresh Python locals. *)
From Coq Require Import List Arith Bool.
Import ListNotations.
Require Import Model Spec Refine.

(* the refinement theorem covers Call and RefL: the generated calling convention
   implements the specification, never gets stuck (no TypeError / NameError) where
   the specification is defined, and instantiations cannot influence each other
   (the callee's locals are its own; the caller's are untouched: sub E (locals s')) *)
Theorem C06_calls_refine_spec :
  forall (g funs : list (list nat * expr)) (ignored : option nat)
         (t : list nat) (rx : nat -> nat -> option nat),
    (forall r ps b, nth_error g r = Some (ps, b) -> wf ps b) ->
    (forall fid ps b, nth_error funs fid = Some (ps, b) -> wf ps b) ->
    (forall r, ignored = Some r -> exists es, nth_error g r = Some ([], Skip es)) ->
    forall n e sc E s, wf sc e -> scope_of sc E -> sub E (locals s) ->
      match peg g funs ignored t rx n E e (pos s), exec true g funs ignored t rx n e s with
      | Fuel, OutOfFuel => True
      | Raise, _ => True
      | Match v p', Done s' => status s' = true /\ result s' = v /\ pos s' = p' /\ sub E (locals s')
      | Fails, Done s' => status s' = false /\ always e = false
                          /\ (partial true e = false -> pos s' = pos s) /\ sub E (locals s')
      | _, _ => False
      end.
Proof. exact exec_refines_peg. Qed.
Print Assumptions C06_calls_refine_spec.

(* what the specification says *)
Theorem C06_call_is_body_with_parameters_bound : forall g funs ig t rx n E r ps b args en p,
  nth_error g r = Some (ps, b) -> bind_args E ps args [] = Some en ->
  peg g funs ig t rx (S n) E (Call (inl r) args) p = peg g funs ig t rx n en b p.
Proof. intros. cbn [peg call_target]. now rewrite H, H0. Qed.
Print Assumptions C06_call_is_body_with_parameters_bound.

Theorem C06_parameter_use_is_the_argument_expression : forall g funs ig t rx n E x fid given ps b p,
  lookup x E = Some (VClos fid given) -> nth_error funs fid = Some (ps, b) -> length ps = length given ->
  peg g funs ig t rx (S n) E (RefL x) p = peg g funs ig t rx n (combine ps given) b p.
Proof. intros. cbn [peg]. rewrite H, H0. apply Nat.eqb_eq in H1. now rewrite H1. Qed.
Print Assumptions C06_parameter_use_is_the_argument_expression.

(* keyword arguments bind by name, positional ones in order; the callee's scope is exactly its parameters *)
Theorem C06_callee_scope_is_its_parameters : forall L ps args en,
  bind_args L ps args [] = Some en -> forall x, In x ps <-> exists v, lookup x en = Some v.
Proof. exact scope_of_bind_args. Qed.
Print Assumptions C06_callee_scope_is_its_parameters.

(* non-vacuity: two instantiations of one template at one position with different arguments,
   and a data-dependent argument that captures a name of the call site *)
Definition ex_g : list (list nat * expr) :=
  [([], Seq [Call (inl 1) [(None, AStrLit [97] false)]; Call (inl 1) [(None, AStrLit [98] false)]]);
   ([1], Seq [RefL 1; RefL 1])].
Example C06_two_instantiations :
  peg ex_g [] None [97; 97; 98; 98] (fun _ _ => None) 20 [] (Ref 0) 0
  = Match (VList [VList [VStr [97]; VStr [97]]; VList [VStr [98]; VStr [98]]]) 4
  /\ match exec true ex_g [] None [97; 97; 98; 98] (fun _ _ => None) 20 (Ref 0) (fresh 0) with
     | Done s => status s = true /\ pos s = 4 | _ => False end.
Proof. vm_compute. auto. Qed.
(* let n = "a" in T(x = (n-dependent expression)): the closure carries the value of n *)
Definition ex_g2 : list (list nat * expr) :=
  [([], Let 2 false (Str [97] false) (Call (inl 1) [(None, AFun 0 [2])]));
   ([1], Seq [RefL 1; RefL 1])].
Definition ex_funs2 : list (list nat * expr) := [([2], Seq [Str [98] false; Py (PVar 2)])].
Example C06_captured_name :
  peg ex_g2 ex_funs2 None [97; 98; 98] (fun _ _ => None) 20 [] (Ref 0) 0
  = Match (VList [VList [VStr [98]; VStr [97]]; VList [VStr [98]; VStr [97]]]) 3.
Proof. vm_compute. reflexivity. Qed.
