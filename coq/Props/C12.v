(* C12 — the shipped grammar-description parser is a fixed point of the generator.
   What a theorem can carry here is only the inference the check makes: generation
   is a function of the installed parser text (grammar.txt and the generator code
   being fixed for the run); if one regeneration reproduces the installed text,
   every further regeneration does, and two parsers with the same text behave the
   same on every description.  The premises — text(gen 1) = shipped text,
   text(gen 2) = text(gen 1) — are concrete computations on the real generator,
   repeated on every run by harness/props/c12.py. *)
From Coq Require Import List Arith.

Section Bootstrap.
Variable text : Type.                     (* parser source text *)
Variable regenerate : text -> text.       (* install the text, compile grammar.txt with the current code *)
Variable behaviour : Type.
Variable run : text -> behaviour.         (* what a parser with this text does on all descriptions *)

Theorem C12_regeneration_never_changes_it : forall shipped,
  regenerate shipped = shipped -> forall n, Nat.iter n regenerate shipped = shipped.
Proof. intros shipped H n. induction n as [|n IH]; [reflexivity|]. cbn [Nat.iter nat_rect]. unfold Nat.iter in IH. rewrite IH. exact H. Qed.

Theorem C12_same_text_same_behaviour : forall shipped n,
  regenerate shipped = shipped -> run (Nat.iter n regenerate shipped) = run shipped.
Proof. intros shipped n H. rewrite (C12_regeneration_never_changes_it shipped H n). reflexivity. Qed.
End Bootstrap.
Print Assumptions C12_regeneration_never_changes_it.
Print Assumptions C12_same_text_same_behaviour.
