(* C10 — class instances carry the exact span of input they were parsed from. *)
From Coq Require Import List Arith Bool ZArith.
Import ListNotations.
Require Import ExcerptModel Model Spec Refine Within Entry Finalize.

(* exactness: the (start, end) pair the generated code stores on an instance is
   the one the specification assigns (class_spec: start = where the class began,
   end = position after its last member, ignorable text skipped after its last
   token included) — it is part of `result s' = v` in the refinement theorem *)
Theorem C10_span_exact :
  forall (g funs : list (list nat * expr)) (ignored : option nat)
         (t : list nat) (rx : nat -> nat -> option nat),
    (forall r ps b, nth_error g r = Some (ps, b) -> wf g funs ignored t rx ps b) ->
    (forall fid ps b, nth_error funs fid = Some (ps, b) -> wf g funs ignored t rx ps b) ->
    (forall r, ignored = Some r -> exists es, nth_error g r = Some ([], Skip es)) ->
    forall n e sc E s v p', wf g funs ignored t rx sc e -> scope_of sc E -> sub E (locals s) ->
      peg g funs ignored t rx n E e (pos s) = Match v p' ->
      exists s', exec true g funs ignored t rx n e s = Done s' /\ status s' = true /\ result s' = v /\ pos s' = p'.
Proof.
  intros g funs ignored t rx Hg Hf Hi n e sc E s v p' Hw Hs Hl Hp.
  pose proof (exec_refines_peg g funs ignored t rx Hg Hf Hi n e sc E s Hw Hs Hl) as H.
  unfold agree in H. rewrite Hp in H.
  destruct (exec true g funs ignored t rx n e s) as [s'| |]; try contradiction.
  destruct H as (A & B & C & _). eauto.
Qed.
Print Assumptions C10_span_exact.

(* nesting: a match from p to q lies inside the text and every span stored
   anywhere in its value lies inside [p, q], the fields of every instance inside
   that instance's own span (lookahead, Backtrack and reads of earlier values aside) *)
Theorem C10_nested :
  forall (g funs : list (list nat * expr)) (ignored : option nat) (t : list nat) (rx : nat -> nat -> option nat),
    (forall id p q, rx id p = Some q -> p <= q <= length t) ->
    (forall r b, nth_error g r = Some ([], b) -> plain b) ->
    forall n e E, plain e -> good (length t) (peg g funs ignored t rx n E) e.
Proof. exact peg_within. Qed.
Print Assumptions C10_nested.

(* finalisation: (start, end) becomes (start, end - 1) with the line and column of those offsets *)
Theorem C10_finalised_span : forall t c fs s e, s < e -> e <= length t ->
  exists fs' a b, finalize t (VObj c fs (s, e)) = FObj c fs' ((Z.of_nat s, Some a), (Z.of_nat (e - 1), Some b))
                  /\ line_col t s = Some a /\ line_col t (e - 1) = Some b.
Proof. exact finalize_span. Qed.
Print Assumptions C10_finalised_span.
