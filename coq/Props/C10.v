(* C10 — class instances carry the exact span of input they were parsed from. *)
From Coq Require Import List Arith Bool ZArith.
Import ListNotations.
Require Import ExcerptModel Model Spec Refine Within SpanSpec Ordered Entry Finalize.
Require Visit FinalizeVisit.

(* exactness: the (start, end) pair the generated code stores on an instance is
   the one the specification assigns (class_spec: start = where the class began,
   end = position after its last member, ignorable text skipped after its last
   token included) — it is part of `result s' = v` in the refinement theorem *)
Theorem C10_span_exact :
  forall (g funs : list (list nat * expr)) (ignored : option nat)
         (t : list nat) (rx : nat -> nat -> option nat),
    (forall r ps b, nth_error g r = Some (ps, b) -> wf ps b) ->
    (forall fid ps b, nth_error funs fid = Some (ps, b) -> wf ps b) ->
    (forall r, ignored = Some r -> exists es, nth_error g r = Some ([], Skip es)) ->
    forall n e sc E s v p', wf sc e -> scope_of sc E -> sub E (locals s) ->
      peg g funs ignored t rx n E e (pos s) = Match v p' ->
      exists s', exec true g funs ignored t rx n e s = Done s' /\ status s' = true /\ result s' = v /\ pos s' = p'.
Proof.
  intros g funs ignored t rx Hg Hf Hi n e sc E s v p' Hw Hs Hl Hp.
  pose proof (exec_refines_peg g funs ignored t rx Hg Hf Hi n e sc E s Hw Hs Hl) as H.
  unfold agree in H. rewrite Hp in H.
  destruct (exec true g funs ignored t rx n e s) as [s'| |]; try contradiction.
  destruct H as (A & B & C & _). eauto.
Qed.
Print Assumptions C10_span_exact.

(* nesting: a match from p to q lies inside the text and every span stored
   anywhere in its value lies inside [p, q], the fields of every instance inside
   that instance's own span (lookahead, Backtrack and reads of earlier values aside) *)
Theorem C10_nested :
  forall (g funs : list (list nat * expr)) (ignored : option nat) (t : list nat) (rx : nat -> nat -> option nat),
    (forall id p q, rx id p = Some q -> p <= q <= length t) ->
    (forall r b, nth_error g r = Some ([], b) -> plain b) ->
    forall n e E, plain e -> good (length t) (peg g funs ignored t rx n E) e.
Proof. exact peg_within. Qed.
Print Assumptions C10_nested.

(* finalisation: (start, end) becomes (start, end - 1) with the line and column of those offsets *)
Theorem C10_finalised_span : forall t c fs s e, s < e -> e <= length t ->
  exists fs' a b, finalize t (VObj c fs (s, e)) = FObj c fs' ((Z.of_nat s, Some a), (Z.of_nat (e - 1), Some b))
                  /\ line_col t s = Some a /\ line_col t (e - 1) = Some b.
Proof. exact finalize_span. Qed.
Print Assumptions C10_finalised_span.

(* sibling order: the value of every match passes the judge SpanSpec.spans_ordered (the one the harness runs on the
   implementation's results), for any plain expression, nesting and input *)
Theorem C10_spans_ordered :
  forall (g funs : list (list nat * expr)) (ignored : option nat) (t : list nat) (rx : nat -> nat -> option nat),
    (forall id p q, rx id p = Some q -> p <= q <= length t) ->
    (forall r b, nth_error g r = Some ([], b) -> plain b) ->
    forall n e E p v q, plain e -> p <= length t ->
      peg g funs ignored t rx n E e p = Match v q -> spans_ordered p q v = true.
Proof. exact peg_spans_ordered. Qed.
Print Assumptions C10_spans_ordered.

(* what passing the judge means: all spans lie between the start of the match and its end ... *)
Theorem C10_judge_spans_inside : forall lo hi v, spans_ordered lo hi v = true -> Forall (inside lo hi) (spans v).
Proof. exact judge_spans_inside. Qed.
Print Assumptions C10_judge_spans_inside.

(* ... successive list elements are disjoint and in input order ... *)
Theorem C10_list_elements_in_order : forall lo hi l, spans_ordered lo hi (VList l) = true ->
  forall l1 a rest, l = l1 ++ a :: rest -> forall b sa sb, In b rest -> In sa (spans a) -> In sb (spans b) -> snd sa <= fst sb.
Proof. exact judge_list_elements_in_order. Qed.
Print Assumptions C10_list_elements_in_order.

(* ... and the fields of an instance lie inside its span, disjoint and in input order *)
Theorem C10_fields_nested_and_ordered : forall lo hi c fs s e, spans_ordered lo hi (VObj c fs (s, e)) = true ->
  lo <= s /\ s <= e /\ e <= hi /\ Forall (inside s e) (spansl fs) /\
  forall l1 a rest, fs = l1 ++ a :: rest -> forall b sa sb, In b rest -> In sa (spans a) -> In sb (spans b) -> snd sa <= fst sb.
Proof. exact judge_fields_nested_and_ordered. Qed.
Print Assumptions C10_fields_nested_and_ordered.

(* the judge is not vacuous: it accepts siblings in input order and rejects the same siblings swapped or overlapping *)
Example C10_judge_discriminates :
  spans_ordered 0 4 (VList [VObj 1 [VStr [97]] (0, 2); VObj 1 [VStr [98]] (2, 4)]) = true /\
  spans_ordered 0 4 (VList [VObj 1 [VStr [98]] (2, 4); VObj 1 [VStr [97]] (0, 2)]) = false /\
  spans_ordered 0 4 (VList [VObj 1 [] (0, 3); VObj 1 [] (2, 4)]) = false /\
  spans_ordered 0 4 (VObj 2 [VObj 1 [] (0, 5)] (0, 4)) = false.
Proof. vm_compute. auto. Qed.

(* EVERY class instance of the result is finalised: _finalize_parse_info walks the result with visit, and visit yields
   every object reachable through lists, tuples, dict values and fields - also below objects that carry no span of
   their own (operator nodes, objects built by inline Python) and inside shared containers; each is converted once,
   nothing else is touched.  (wf: an identity stands for one node; identities of containers and objects differ.) *)
Theorem C10_every_instance_finalised : forall (sub : nat -> list Visit.node) n sp,
  Visit.wf sub n -> (forall i, In i (Visit.objs n) -> ~ In i (Visit.conts n)) ->
  exists o sp', FinalizeVisit.finalize_all (Visit.size n) n sp = Some sp' /\ NoDup o
    /\ (forall i, In i (Visit.objs n) -> In i o)
    /\ (forall i, In i o -> sp' i = FinalizeVisit.conv (sp i))
    /\ (forall i, ~ In i o -> sp' i = sp i).
Proof. exact FinalizeVisit.finalize_reaches_every_instance. Qed.
Print Assumptions C10_every_instance_finalised.
