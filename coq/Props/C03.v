(* C03 — bounded repetition and separated lists (placeholder; corollaries are added below) *)
From Coq Require Import List Arith Bool.
Import ListNotations.
Require Import Model Spec Refine.

Theorem C03_exec_refines_peg :
  forall (g funs : list (list nat * expr)) (named : bool) (ignored : option nat)
         (t : list nat) (rx : nat -> nat -> option nat),
    (forall (r : nat) (b : expr), nth_error g r = Some ([], b) -> wf g ignored t rx [] b) ->
    (forall r : nat, ignored = Some r -> exists es : list expr, nth_error g r = Some ([], Skip es)) ->
    forall n : nat, IHT g funs named ignored t rx n.
Proof. exact exec_refines_peg. Qed.
Print Assumptions C03_exec_refines_peg.
