(* C03 — Bounded repetition and separated lists honour their bounds and options.
   The refinement theorem of C01 covers List (literal and run-time bounds) and
   Sep (four options); the statements below are its C03 reading. *)
From Coq Require Import List Arith Bool.
Import ListNotations.
Require Import Model Spec SpecFacts Refine.

(* the generated code for e{..} and Sep(..) inside ANY enclosing expression
   returns what the specification returns; an uncompleted list leaves the
   position where it started whenever the enclosing code relies on that *)
Theorem C03_exec_refines_peg :
  forall (g funs : list (list nat * expr)) (ignored : option nat)
         (t : list nat) (rx : nat -> nat -> option nat),
    (forall r ps b, nth_error g r = Some (ps, b) -> wf ps b) ->
    (forall fid ps b, nth_error funs fid = Some (ps, b) -> wf ps b) ->
    (forall r, ignored = Some r -> exists es, nth_error g r = Some ([], Skip es)) ->
    forall n e sc E s, wf sc e -> scope_of sc E -> sub E (locals s) ->
      match peg g funs ignored t rx n E e (pos s), exec true g funs ignored t rx n e s with
      | Fuel, OutOfFuel => True
      | Raise, _ => True
      | Match v p', Done s' => status s' = true /\ result s' = v /\ pos s' = p' /\ sub E (locals s')
      | Fails, Done s' => status s' = false /\ always e = false
                          /\ (partial true e = false -> pos s' = pos s) /\ sub E (locals s')
      | _, _ => False
      end.
Proof. exact exec_refines_peg. Qed.
Print Assumptions C03_exec_refines_peg.

(* what the specification says: never more than the upper bound, never fewer
   than the lower bound (literal or run-time values mn, mx) *)
Theorem C03_bounds : forall pg k e mn mx p v q,
  bounds_conflict mn mx = false ->
  rep_spec pg k e mn mx p [] = Match v q ->
  exists l, v = VList l /\ mnv0 mn <= length l /\ (forall m, mx = Some m -> length l <= m).
Proof.
  intros pg k e mn mx p v q Hc H.
  destruct (rep_spec_bounds pg k e mn mx p [] v q) as (l & A & B & _ & D); auto.
  - intros m ->. cbn in Hc. apply Nat.ltb_ge in Hc. cbn. split; [exact Hc | apply Nat.le_0_l].
  - eauto.
Qed.
Print Assumptions C03_bounds.

(* the list stops at the first element that does not match (greedy, no skipping) *)
Theorem C03_greedy_stop : forall pg k e mn mx p acc,
  at_max mx (length acc) = false -> pg e p = Fails ->
  rep_spec pg (S k) e mn mx p acc =
    if Nat.leb (mnv0 mn) (length acc) then Match (VList (rev acc)) p else Fails.
Proof. intros pg k e mn mx p acc H1 H2. cbn [rep_spec]. rewrite H1, H2. reflexivity. Qed.
Print Assumptions C03_greedy_stop.

(* Sep: a trailing separator is consumed iff allow_trailer: the end position is
   the checkpoint, which moves past a separator only when trailers are allowed *)
Theorem C03_trailer : forall pg k e sp keep trailer p acc cp saw v p1 sv p2,
  pg e p = Match v p1 -> pg sp p1 = Match sv p2 ->
  sep_spec pg (S k) e sp keep trailer p acc cp saw =
  sep_spec pg k e sp keep trailer p2 (if keep then sv :: v :: acc else v :: acc) (if trailer then p2 else p1) true.
Proof. intros. cbn [sep_spec]. rewrite H, H0. reflexivity. Qed.
Print Assumptions C03_trailer.

(* non-vacuity: a data-dependent repetition  let n = N in "a"{n}  on "2aa" *)
Definition ex_g : list (list nat * expr) :=
  [([], Let 1 false (Ref 1) (Rep (Str [97] false) (BVar 1) (BVar 1)));
   ([], Apply (Rx 0 false) (Py (PFn FInt)) false)].
Definition ex_rx (id p : nat) : option nat := if Nat.eqb p 0 then Some 1 else None.
Example C03_data_dependent_runs :
  peg ex_g [] None [50; 97; 97; 97] ex_rx 10 [] (Ref 0) 0 = Match (VList [VStr [97]; VStr [97]]) 3
  /\ (forall r b, nth_error ex_g r = Some ([], b) -> wf [] b).
Proof.
  split; [vm_compute; reflexivity|].
  intros [|[|r]] b H; cbn in H; [| |destruct r; discriminate]; inversion H; subst; cbn; intuition.
Qed.
