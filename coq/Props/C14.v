(* C14 — parsed objects are values: equality, hashing, copying and repr agree.
   MODEL Objects.v: ParsedObject.__eq__ / __hash__ / _hash over nested values
   (scalars with Python's == already quotiented: True == 1, str <> bytes; lists,
   tuples, objects), builtin hash abstract (hprim, htuple) and assumed to respect
   == on scalars (Python's guarantee).  Dicts, deepcopy/pickle and repr are
   decided by differential runs (harness/props/c14.py), not by a theorem. *)
From Coq Require Import List ZArith Bool.
Import ListNotations.
Require Import Objects.

(* == holds exactly when both objects have the same class and pairwise equal fields *)
Theorem C14_eq_iff : forall c d xs ys, py_eq (Ob c xs) (Ob d ys) = Nat.eqb c d && eq_list xs ys.
Proof. exact py_eq_unfold_O. Qed.
Print Assumptions C14_eq_iff.

(* == is an equivalence relation *)
Theorem C14_eq_refl : forall a, py_eq a a = true.
Proof. exact py_eq_refl. Qed.
Print Assumptions C14_eq_refl.
Theorem C14_eq_sym : forall a b, py_eq a b = py_eq b a.
Proof. exact py_eq_sym. Qed.
Print Assumptions C14_eq_sym.
Theorem C14_eq_trans : forall a b c, py_eq a b = true -> py_eq b c = true -> py_eq a c = true.
Proof. exact py_eq_trans. Qed.
Print Assumptions C14_eq_trans.

(* equal objects have equal hashes, also when fields hold lists (unhashable: xor of
   the members) or tuples with unhashable members, for any builtin hash that respects == *)
Theorem C14_eq_implies_hash : forall (hprim : prim -> Z) (htuple : list Z -> Z),
  (forall a b, prim_eqb a b = true -> hprim a = hprim b) ->
  forall a b, py_eq a b = true -> py_hash hprim htuple a = py_hash hprim htuple b.
Proof. exact eq_implies_hash. Qed.
Print Assumptions C14_eq_implies_hash.

(* _replace: the given field is replaced, every other field is kept, same arity *)
Theorem C14_replace : forall (k : nat) v fs,
  ((k < length fs)%nat -> nth_error (replace_nth k v fs) k = Some v)
  /\ (forall j, k <> j -> nth_error (replace_nth k v fs) j = nth_error fs j)
  /\ length (replace_nth k v fs) = length fs.
Proof. intros. split; [apply replace_nth_same|split; [intros; apply replace_nth_other; auto | apply replace_nth_length]]. Qed.
Print Assumptions C14_replace.

Example C14_true_equals_one : py_eq (Ob 1%nat [Pm (QNum 1); Ls [Pm QNone]]) (Ob 1 [Pm (QNum 1); Ls [Pm QNone]]) = true
  /\ py_eq (Ob 1%nat [Pm (QStr [97%nat])]) (Ob 1 [Pm (QBytes [97%nat])]) = false
  /\ py_eq (Ob 1%nat [Ls []]) (Ob 1 [Tp []]) = false.
Proof. vm_compute. auto. Qed.
