(* C09 — Reported error locations point at a real, consistent input location.
   ONLY statements, each closed by `exact`, each followed by Print Assumptions.
   Model: ExcerptModel.v (tied to sourcer/translator.py by Gen/ExcerptGen.v +
   Gen/TieExcerpt_*.v, regenerated on every run, and by the behavioural
   correspondence of harness/props/c09.py).  Spec: ExcerptSpec.v. *)
From Coq Require Import List Arith Bool.
Import ListNotations.
Require Import ExcerptModel ExcerptSpec ExcerptProofs.

(* line = 1 + newlines before the index, column = 1 + offset from the start of
   its line — for every text and every index not holding a line break *)
Theorem C09_linecol : forall t i,
  i < length t -> nth_error t i <> Some NL ->
  exists s, is_line_start t i s /\
            line_col t i = Some (1 + count_nl (firstn i t), 1 + (i - s)).
Proof. exact linecol_correct. Qed.
Print Assumptions C09_linecol.

(* the same, judged by the executable specification used on the implementation *)
Theorem C09_linecol_spec : forall t i,
  i < length t -> nth_error t i <> Some NL ->
  exists lc, line_col t i = Some lc /\ linecol_ok t i lc = true.
Proof. exact linecol_spec. Qed.
Print Assumptions C09_linecol_spec.

(* the message: ONE excerpt line (no line break inside), then the caret line,
   the caret standing under text[i] — all four regimes, any line length, any column *)
Theorem C09_excerpt_one_line_and_caret : forall t i s,
  i < length t -> nth_error t i <> Some NL -> is_line_start t i s ->
  exists line k,
    extract_text t i (1 + (i - s)) = line ++ [NL] ++ repeat 32 k ++ [94]
    /\ existsb (Nat.eqb NL) line = false
    /\ nth_error line k = nth_error t i.
Proof. exact excerpt_text_correct. Qed.
Print Assumptions C09_excerpt_one_line_and_caret.

Theorem C09_excerpt_spec : forall t i,
  i < length t -> nth_error t i <> Some NL ->
  excerpt_ok t i (extract_text t i (spec_col t i)) = true.
Proof. exact excerpt_spec. Qed.
Print Assumptions C09_excerpt_spec.

(* line and column are None exactly at end of input *)
Theorem C09_none_iff_end_of_input : forall t pos,
  (length t <= pos -> error_line_col t pos = Some None) /\
  (pos < length t -> exists lc, error_line_col t pos = Some (Some lc) /\ line_col t pos = Some lc).
Proof. intros t pos. split; [apply error_line_col_eoi | apply error_line_col_inside]. Qed.
Print Assumptions C09_none_iff_end_of_input.

(* bytes input: the window that is shown contains text[pos] *)
Theorem C09_bytes_window : forall t pos, pos < length t ->
  nth_error (bytes_window t pos) (Nat.min pos 1) = nth_error t pos.
Proof. exact bytes_window_has_pos. Qed.
Print Assumptions C09_bytes_window.

(* non-vacuity: the hypotheses hold on a 200-character line in the both-ends regime *)
Example C09_hypotheses_satisfiable :
  63 < length (mk 200 59) /\ nth_error (mk 200 59) 63 <> Some NL /\ is_line_start (mk 200 59) 63 4.
Proof. exact excerpt_hyps_satisfiable. Qed.

(* the threshold the code shipped with (40) falsifies the statement *)
Example C09_threshold_40_refuted :
  existsb (Nat.eqb NL) (fst (extract 40 (mk 100 59) 63 60)) = true.
Proof. exact threshold_40_refuted. Qed.
