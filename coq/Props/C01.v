(* C01 — Generated parsers implement PEG semantics for the core expressions.
   ONLY statements, closed by `exact`, each followed by Print Assumptions.
   MODEL  exec (Model.v): the register machine of the generated code, one clause
          per _compile, checkpoints emitted/omitted by the two static flags.
   SPEC   peg  (Spec.v): ordered choice from the same position, greedy bounded
          repetition, lookahead, Longest = farthest end (first on ties), ...
   The model is tied to /repo by harness/props/c01.py on every run. *)
From Coq Require Import List Arith Bool.
Import ListNotations.
Require Import Model Spec Refine.

(* The main theorem, statement in full.  For every grammar whose rule bodies
   are well formed (wf: at least
   one alternative in a choice; nothing else for the C01 constructs), every
   text, every regex oracle, every amount of fuel n, every expression e nested
   to any depth, every register state s:
   - the spec runs out of fuel exactly when the model does (left recursion,
     repetition of a nullable element: both diverge, for every n);
   - if the spec matches with (v, p') the generated code ends with status
     true, exactly that value and exactly that position;
   - if the spec fails the generated code ends with status false, e is not
     flagged always_succeeds, and if e is flagged "cannot partially succeed"
     the position register is back where e started (no trace);
   - the generated code never gets stuck (NameError/TypeError) unless the spec
     says Raise (names unbound / non-functions applied: outside the property). *)
Theorem C01_exec_refines_peg :
  forall (g funs : list (list nat * expr)) (ignored : option nat)
         (t : list nat) (rx : nat -> nat -> option nat),
    (forall r ps b, nth_error g r = Some (ps, b) -> wf ps b) ->
    (forall fid ps b, nth_error funs fid = Some (ps, b) -> wf ps b) ->
    (forall r, ignored = Some r -> exists es, nth_error g r = Some ([], Skip es)) ->
    forall n e sc E s, wf sc e -> scope_of sc E -> sub E (locals s) ->
      match peg g funs ignored t rx n E e (pos s), exec true g funs ignored t rx n e s with
      | Fuel, OutOfFuel => True
      | Raise, _ => True
      | Match v p', Done s' => status s' = true /\ result s' = v /\ pos s' = p' /\ sub E (locals s')
      | Fails, Done s' => status s' = false /\ always e = false
                          /\ (partial true e = false -> pos s' = pos s) /\ sub E (locals s')
      | _, _ => False
      end.
Proof. exact exec_refines_peg. Qed.
Print Assumptions C01_exec_refines_peg.

(* what the specification says about `|`: every alternative is tried from the
   SAME position, and the first one that matches is taken *)
Theorem C01_choice_commits_to_first_match : forall pg e es p v q,
  pg e p = Match v q -> choice_spec pg (e :: es) p = Match v q.
Proof. intros pg e es p v q H. cbn. now rewrite H. Qed.
Print Assumptions C01_choice_commits_to_first_match.

Theorem C01_choice_next_alternative_from_same_position : forall pg e es p,
  pg e p = Fails -> choice_spec pg (e :: es) p = choice_spec pg es p.
Proof. intros pg e es p H. cbn. now rewrite H. Qed.
Print Assumptions C01_choice_next_alternative_from_same_position.

(* non-vacuity: the grammar  start = "a"{2} | "ab"  (the shape on which the
   shipped List flag was wrong) satisfies the hypotheses, and on "ab" both
   sides return the second alternative *)
Definition ex_g : list (list nat * expr) :=
  [([], Choice [Rep (Str [97] false) (BLit 2) (BLit 2); Str [97; 98] false])].
Example C01_hypotheses_satisfiable :
  (forall r b, nth_error ex_g r = Some ([], b) -> wf [] b)
  /\ peg ex_g [] None [97; 98] (fun _ _ => None) 10 [] (Ref 0) 0 = Match (VStr [97; 98]) 2.
Proof.
  split; [|vm_compute; reflexivity].
  intros [|[|r]] b H; cbn in H; try discriminate. injection H as <-.
  cbn. repeat split; auto; discriminate.
Qed.
(* with the flag as shipped (list_fixed = false) the model rejects "ab": refuted *)
Example C01_shipped_list_flag_refuted :
  match exec false ex_g [] None [97; 98] (fun _ _ => None) 10 (Ref 0) (fresh 0) with
  | Done s => status s = false | _ => False end.
Proof. vm_compute. reflexivity. Qed.
