(* C08 — parse has exactly three outcomes, fixed by the start rule's match.
   MODEL parse_model (Entry.v): the tail of _run and _finalize_parse_info.
   Tied to /repo by harness/props/c08.py (every rule and class as entry point,
   every start offset, both values of fullparse, the empty input). *)
From Coq Require Import List Arith Bool ZArith.
Import ListNotations.
Require Import ExcerptModel Model Spec Refine Entry Finalize EntryProofs Shift.

(* For every well-formed grammar, every entry rule (parameterless rule or
   class), every text, offset p and value of fullparse:
   - the rule matches with (v, q)  =>  parse returns v (spans finalised) when
     fullparse is false or q = len(text), and otherwise raises
     PartialParseError carrying that same value and last_position.index = q;
   - the rule does not match        =>  ParseError;
   - nothing else (no Crash), also on the empty text and for zero-width matches. *)
Theorem C08_three_outcomes :
  forall (g funs : list (list nat * expr)) (ignored : option nat)
         (t : list nat) (rx : nat -> nat -> option nat),
    (forall r ps b, nth_error g r = Some (ps, b) -> wf ps b) ->
    (forall fid ps b, nth_error funs fid = Some (ps, b) -> wf ps b) ->
    (forall r, ignored = Some r -> exists es, nth_error g r = Some ([], Skip es)) ->
    forall fuel entry b p full, nth_error g entry = Some ([], b) ->
      match peg g funs ignored t rx fuel [] b p,
            parse_model true g funs ignored t rx fuel entry p full with
      | Spec.Fuel, Entry.Fuel => True
      | Raise, _ => True
      | Match v q, o => o = (if full && Nat.ltb q (length t)
                             then Partial (finalize t v) (fin_pos t (Z.of_nat q))
                             else Return (finalize t v))
      | Fails, ParseErr _ => True
      | _, _ => False
      end.
Proof. exact parse_three_outcomes. Qed.
Print Assumptions C08_three_outcomes.

(* the position carried by PartialParseError is inside the text: it has the
   line and column of its index *)
Theorem C08_partial_position : forall t (q : nat), q < length t ->
  exists lc, fin_pos t (Z.of_nat q) = (Z.of_nat q, Some lc) /\ line_col t q = Some lc.
Proof. exact fin_pos_inside. Qed.
Print Assumptions C08_partial_position.

(* span finalisation is total: offsets outside the text (objects that consumed
   nothing) simply have no line/column — no IndexError *)
Theorem C08_finalisation_outside : forall t (i : Z), (i < 0 \/ Z.of_nat (length t) <= i)%Z ->
  fin_pos t i = (i, None).
Proof. exact fin_pos_outside. Qed.
Print Assumptions C08_finalisation_outside.

(* non-vacuity: a zero-width class instance on the EMPTY text returns normally *)
Definition ex_g : list (list nat * expr) := [([], Class 1 [(Some 1, true, Opt (Str [97] false))])].
Example C08_zero_width_on_empty_text :
  parse_model true ex_g [] None [] (fun _ _ => None) 10 0 0 true
  = Return (FObj 1 [FNone] ((0%Z, None), ((-1)%Z, None))).
Proof. vm_compute. reflexivity. Qed.

(* the shift law: parsing text from offset k is parsing text[k:] from 0 with the end of the match and every span in
   the value shifted by k — any expression without Backtrack, any nesting, template calls included, any input; the
   two regex oracles are related the way regular expressions without lookbehind or anchors are *)
Theorem C08_shift_law :
  forall (g funs : list (list nat * expr)) (ignored : option nat) (t : list nat) (k : nat)
         (rx rx' : nat -> nat -> option nat),
    (forall id p, rx id (p + k) = option_map (fun q => q + k) (rx' id p)) ->
    (forall r ps b, nth_error g r = Some (ps, b) -> nobt b) ->
    (forall fid ps b, nth_error funs fid = Some (ps, b) -> nobt b) ->
    forall n e E p, nobt e ->
      peg g funs ignored t rx n (shE k E) e (p + k) = shr k (peg g funs ignored (skipn k t) rx' n E e p).
Proof. exact peg_shift. Qed.
Print Assumptions C08_shift_law.

(* not vacuous: a class inside a repetition, text "xx" ++ "abab", offset 2 *)
Example C08_shift_law_witness :
  let g := [([], Rep (Ref 1) BNone BNone); ([], Class 7 [(Some 1, true, Str [97] false); (Some 2, true, Str [98] false)])] in
  let t := [120; 120; 97; 98; 97; 98] in
  peg g [] None t (fun _ _ => None) 9 [] (Ref 0) 2
  = Match (VList [VObj 7 [VStr [97]; VStr [98]] (2, 4); VObj 7 [VStr [97]; VStr [98]] (4, 6)]) 6 /\
  peg g [] None (skipn 2 t) (fun _ _ => None) 9 [] (Ref 0) 0
  = Match (VList [VObj 7 [VStr [97]; VStr [98]] (0, 2); VObj 7 [VStr [97]; VStr [98]] (2, 4)]) 4.
Proof. vm_compute. auto. Qed.
