(* C13 — inheritance: overrides are late-bound, super is the parent, parent untouched.
   Ctx.v models name resolution through the per-module context objects; the
   theorems are about that resolution (for chains of ANY length).  The behaviour
   of the modules themselves — importlib/sys.modules plumbing, the re-parsing of
   the parent's description, ignore rules of parent and child — is decided by
   comparing every chain with its flattened grammar (harness/props/c13.py): partial. *)
From Coq Require Import List Arith Bool.
Import ListNotations.
Require Import Ctx.

Theorem C13_context_is_late_binding : forall (body : Type) (chain : list (module body)) n,
  assoc body n (context body chain) = resolve body chain n.
Proof. exact context_is_resolution. Qed.
Print Assumptions C13_context_is_late_binding.

Theorem C13_override_wins : forall (body : Type) (m : module body) rest n b,
  assoc body n m = Some b -> assoc body n (context body (m :: rest)) = Some b.
Proof. exact override_wins. Qed.
Print Assumptions C13_override_wins.

Theorem C13_unmentioned_rules_as_in_parent : forall (body : Type) (m : module body) rest n,
  assoc body n m = None -> assoc body n (context body (m :: rest)) = assoc body n (context body rest).
Proof. exact inherited_as_in_parent. Qed.
Print Assumptions C13_unmentioned_rules_as_in_parent.

Theorem C13_super_is_the_static_parent : forall (body : Type) (extra chain : list (module body)) k n,
  super_resolve body (extra ++ chain) (length extra + k) n = super_resolve body chain k n.
Proof. exact super_is_static. Qed.
Print Assumptions C13_super_is_the_static_parent.
