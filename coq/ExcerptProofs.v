(* PROOFS about ExcerptModel.v (C09): line/column map, excerpt and caret, for
   every text, every line length and every column. *)
From Coq Require Import List Arith Bool Lia.
Import ListNotations.
Require Import ExcerptModel ExcerptSpec.

(* ---------- specification vocabulary ---------- *)
Definition no_nl (t : text) (a b : nat) := forall j, a <= j -> j < b -> nth_error t j <> Some NL.
(* s is the start of the line containing i *)
Definition is_line_start (t : text) (i s : nat) :=
  s <= i /\ no_nl t s i /\ (s = 0 \/ nth_error t (s - 1) = Some NL).

(* ---------- list lemmas ---------- *)
Lemma nth_firstn {A} (l : list A) : forall n k, k < n -> nth_error (firstn n l) k = nth_error l k.
Proof. induction l as [|x l IH]; intros [|n] [|k] H; cbn; auto; try lia. apply IH. lia. Qed.
Lemma nth_skipn {A} (l : list A) : forall a k, nth_error (skipn a l) k = nth_error l (a + k).
Proof. induction l as [|x l IH]; intros [|a] k; cbn; auto. destruct k; auto. Qed.
Lemma slice_length t a b : a <= b -> b <= length t -> length (slice t a b) = b - a.
Proof. intros. unfold slice. rewrite firstn_length, skipn_length. lia. Qed.
Lemma nth_slice t a b k : k < b - a -> nth_error (slice t a b) k = nth_error t (a + k).
Proof. intros H. unfold slice. rewrite nth_firstn by exact H. apply nth_skipn. Qed.
Lemma slice_no_nl t a b : no_nl t a b -> existsb (Nat.eqb NL) (slice t a b) = false.
Proof.
  intros H. destruct (existsb (Nat.eqb NL) (slice t a b)) eqn:E; auto.
  apply existsb_exists in E. destruct E as (x & Hin & Hx). apply Nat.eqb_eq in Hx. subst x.
  apply In_nth_error in Hin. destruct Hin as (k & Hk).
  assert (k < b - a).
  { assert (k < length (slice t a b)) by (apply nth_error_Some; congruence).
    unfold slice in H0. rewrite firstn_length in H0. lia. }
  rewrite nth_slice in Hk by assumption. exfalso. apply (H (a + k)); try lia. congruence.
Qed.

(* ---------- find_nl_from ---------- *)
Lemma find_nl_spec : forall t p, p <= length t ->
  p <= find_nl_from t p /\ find_nl_from t p <= length t /\ no_nl t p (find_nl_from t p)
  /\ (find_nl_from t p < length t -> nth_error t (find_nl_from t p) = Some NL).
Proof.
  unfold no_nl.
  induction t as [|c t IH]; intros p Hp.
  - cbn in Hp. assert (p = 0) by lia. subst. cbn. split; [lia|]. split; [lia|]. split; intros; lia.
  - destruct p as [|p]; cbn [find_nl_from].
    + destruct (Nat.eqb_spec c NL) as [E|E].
      * subst. split; [lia|]. split; [cbn; lia|]. split; [intros; lia|]. intros _. reflexivity.
      * destruct (IH 0 ltac:(lia)) as (A & B & C & D). cbn [length].
        split; [lia|]. split; [lia|]. split.
        -- intros [|j] Hj1 Hj2; cbn; [congruence|]. apply C; lia.
        -- intros He. cbn. apply D. lia.
    + cbn [length] in Hp. destruct (IH p ltac:(lia)) as (A & B & C & D). cbn [length].
      split; [lia|]. split; [lia|]. split.
      * intros [|j] Hj1 Hj2; [lia|]. cbn. apply C; lia.
      * intros He. cbn. apply D. lia.
Qed.

(* ---------- line/column map ---------- *)
(* generalised invariant: s0 = start of the current line (absolute index), off = absolute index of t's head *)
Lemma lc_map_spec : forall t line col i,
  i < length t -> nth_error t i <> Some NL ->
  exists s,
    nth_error (lc_map t line col) i =
      Some (line + count_nl (firstn i t), if Nat.eqb s 0 then col + i + 1 else i - s + 1)
    /\ s <= i /\ no_nl t s i /\ (s = 0 \/ nth_error t (s - 1) = Some NL).
Proof.
  unfold no_nl.
  induction t as [|c t IH]; intros line col i Hi Hnl; [cbn in Hi; lia|].
  destruct i as [|i].
  - exists 0. cbn. cbn in Hnl. destruct (Nat.eqb_spec c NL) as [E|E]; [subst; congruence|].
    cbn. split; [f_equal; f_equal; unfold count_nl; cbn; lia|]. split; [lia|]. split; [intros j; lia|auto].
  - cbn [length] in Hi. cbn [nth_error] in Hnl. cbn [lc_map].
    destruct (Nat.eqb_spec c NL) as [E|E].
    + subst c. destruct (IH (S line) 0 i ltac:(lia) Hnl) as (s & Hs & Hle & Hno & Hst).
      cbn [nth_error firstn]. unfold count_nl in *. cbn [filter]. change (NL =? NL) with true. cbn [length].
      destruct (Nat.eqb_spec s 0) as [Es|Es].
      * (* the line starts right after this newline: absolute start 1 *)
        exists 1. subst s. rewrite Hs. cbn [Nat.eqb]. split; [f_equal; f_equal; lia|].
        split; [lia|]. split.
        -- intros [|j] Hj1 Hj2; [lia|]. cbn. apply Hno; lia.
        -- right. reflexivity.
      * exists (S s). rewrite Hs. cbn [Nat.eqb]. split; [f_equal; f_equal; lia|].
        split; [lia|]. split.
        -- intros [|j] Hj1 Hj2; [lia|]. cbn. apply Hno; lia.
        -- right. destruct Hst as [Hst|Hst]; [contradiction|]. destruct s; [contradiction|]. cbn in *.
           rewrite Nat.sub_0_r in *. exact Hst.
    + destruct (IH line (S col) i ltac:(lia) Hnl) as (s & Hs & Hle & Hno & Hst).
      cbn [nth_error firstn]. unfold count_nl in *. cbn [filter].
      replace (NL =? c) with false by (symmetry; apply Nat.eqb_neq; auto).
      destruct (Nat.eqb_spec s 0) as [Es|Es].
      * exists 0. subst s. rewrite Hs. cbn [Nat.eqb]. split; [f_equal; f_equal; lia|].
        split; [lia|]. split; [|left; reflexivity].
        intros [|j] Hj1 Hj2; cbn; [congruence|]. apply Hno; lia.
      * exists (S s). rewrite Hs. cbn [Nat.eqb]. split; [f_equal; f_equal; lia|].
        split; [lia|]. split.
        -- intros [|j] Hj1 Hj2; [lia|]. cbn. apply Hno; lia.
        -- right. destruct Hst as [Hst|Hst]; [contradiction|]. destruct s; [contradiction|]. cbn in *.
           rewrite Nat.sub_0_r in *. exact Hst.
Qed.

(* C09_linecol *)
Theorem linecol_correct t i :
  i < length t -> nth_error t i <> Some NL ->
  exists s, is_line_start t i s /\
            line_col t i = Some (1 + count_nl (firstn i t), 1 + (i - s)).
Proof.
  intros Hi Hnl. destruct (lc_map_spec t 1 0 i Hi Hnl) as (s & Hs & Hle & Hno & Hst).
  exists s. split; [repeat split; auto|]. unfold line_col. rewrite Hs. f_equal. f_equal.
  destruct (Nat.eqb_spec s 0); subst; lia.
Qed.

(* ---------- the excerpt (K = 42) ---------- *)
Definition caret_ok (t : text) (i : nat) (r : text * nat) : Prop :=
  existsb (Nat.eqb NL) (fst r) = false /\ nth_error (fst r) (snd r) = nth_error t i.

(* C09_excerpt_one_line and C09_caret, all four regimes, any line length and column *)
Theorem excerpt_correct t i s :
  i < length t -> nth_error t i <> Some NL -> is_line_start t i s ->
  caret_ok t i (extract 42 t i (1 + (i - s))).
Proof.
  intros Hi Hnl (Hle & Hno & _).
  destruct (find_nl_spec t (i + 1) ltac:(lia)) as (A & B & C & _).
  set (e := find_nl_from t (i + 1)) in *.
  assert (Hline : no_nl t s e).
  { intros j Hj1 Hj2. destruct (Nat.lt_ge_cases j i); [apply Hno; lia|].
    destruct (Nat.eq_dec j i); [subst; exact Hnl|]. apply C; lia. }
  unfold extract. fold e.
  replace (i - (1 + (i - s) - 1)) with s by lia.
  replace (1 + (i - s) - 1) with (i - s) by lia.
  unfold caret_ok.
  destruct (Nat.ltb_spec (e - s) 96).
  - cbn [fst snd]. split; [apply slice_no_nl; auto|]. rewrite nth_slice by lia. f_equal. lia.
  - destruct (Nat.ltb_spec (1 + (i - s)) 60).
    + cbn [fst snd]. split.
      * rewrite existsb_app, slice_no_nl; [reflexivity|]. intros j Hj1 Hj2. apply Hline; lia.
      * rewrite nth_error_app1 by (rewrite slice_length; lia). rewrite nth_slice by lia. f_equal. lia.
    + destruct (Nat.ltb_spec (e - i) 42).
      * cbn [fst snd]. split.
        -- rewrite existsb_app, slice_no_nl; [reflexivity|]. intros j Hj1 Hj2. apply Hline; lia.
        -- rewrite nth_error_app2 by (cbn; lia). cbn [length dots_l].
           rewrite nth_slice by lia. f_equal. lia.
      * cbn [fst snd]. rewrite <- app_assoc. split.
        -- rewrite !existsb_app, slice_no_nl; [reflexivity|]. intros j Hj1 Hj2. apply Hline; lia.
        -- rewrite nth_error_app2 by (cbn; lia). cbn [length dots_l].
           rewrite nth_error_app1 by (rewrite slice_length; lia). rewrite nth_slice by lia. f_equal. lia.
Qed.


(* the literal model (full message text) is the rendering of the pair model *)
Lemma extract_text_render t pos col : extract_text t pos col = render (extract 42 t pos col).
Proof.
  unfold extract_text, extract, render.
  destruct (Nat.ltb _ 96); [reflexivity|].
  destruct (Nat.ltb col 60); [reflexivity|].
  destruct (Nat.ltb _ 42); reflexivity.
Qed.

(* C09, on the message text itself: the excerpt is ONE line followed by the
   caret line, and the caret stands under text[i] *)
Theorem excerpt_text_correct t i s :
  i < length t -> nth_error t i <> Some NL -> is_line_start t i s ->
  exists line k,
    extract_text t i (1 + (i - s)) = line ++ [NL] ++ repeat 32 k ++ [94]
    /\ existsb (Nat.eqb NL) line = false
    /\ nth_error line k = nth_error t i.
Proof.
  intros Hi Hnl Hs. destruct (excerpt_correct t i s Hi Hnl Hs) as (A & B).
  exists (fst (extract 42 t i (1 + (i - s)))), (snd (extract 42 t i (1 + (i - s)))).
  split; [|split; assumption].
  rewrite extract_text_render. unfold render, caret_at. now rewrite <- !app_assoc.
Qed.

(* with the threshold the code shipped with (40) the statement is false *)
Definition mk (L c : nat) : text :=
  [97;97;97;NL] ++ repeat 97 c ++ [88] ++ repeat 97 (L - c - 1) ++ [NL;98;98;98].
Example threshold_40_refuted :
  existsb (Nat.eqb NL) (fst (extract 40 (mk 100 59) 63 60)) = true.
Proof. vm_compute. reflexivity. Qed.

(* non-vacuity: a concrete long line satisfies the hypotheses, in the both-ends regime *)
Example excerpt_hyps_satisfiable :
  63 < length (mk 200 59) /\ nth_error (mk 200 59) 63 <> Some NL /\ is_line_start (mk 200 59) 63 4.
Proof.
  split; [vm_compute; lia|]. split; [vm_compute; congruence|].
  split; [lia|]. split; [|right; reflexivity].
  intros j Hj1 Hj2.
  assert (forallb (fun j => negb (match nth_error (mk 200 59) j with Some c => Nat.eqb c NL | None => false end))
                  (seq 4 59) = true) as F by (vm_compute; reflexivity).
  rewrite forallb_forall in F. specialize (F j). rewrite in_seq in F. specialize (F ltac:(lia)).
  destruct (nth_error (mk 200 59) j) as [c|]; [|congruence].
  intros E. injection E as ->. discriminate.
Qed.

(* bytes input: the window holds text[pos] at offset min pos 1 *)
Lemma bytes_window_has_pos t pos : pos < length t ->
  nth_error (bytes_window t pos) (Nat.min pos 1) = nth_error t pos.
Proof.
  intros H. unfold bytes_window. rewrite Nat.max_0_l.
  rewrite nth_slice by lia. f_equal. lia.
Qed.

(* end of input => no line/column; otherwise the entry of the map *)
Lemma error_line_col_eoi t pos : length t <= pos -> error_line_col t pos = Some None.
Proof. intros H. unfold error_line_col. apply Nat.leb_le in H. now rewrite H. Qed.
Lemma error_line_col_inside t pos : pos < length t ->
  exists lc, error_line_col t pos = Some (Some lc) /\ line_col t pos = Some lc.
Proof.
  intros H. unfold error_line_col. replace (length t <=? pos) with false by (symmetry; apply Nat.leb_gt; lia).
  unfold line_col. destruct (nth_error (lc_map t 1 0) pos) eqn:E; [eauto|].
  apply nth_error_None in E.
  assert (L : forall t l c, length (lc_map t l c) = length t).
  { clear. induction t as [|x t IH]; intros; cbn; auto. destruct (x =? NL); cbn; rewrite IH; auto. }
  rewrite L in E. lia.
Qed.

(* ---------- the executable judges of ExcerptSpec.v accept the model ---------- *)

Lemma take_line_no_nl l : existsb (Nat.eqb NL) (take_line l) = false.
Proof.
  induction l as [|c l IH]; cbn [take_line existsb]; auto.
  destruct (Nat.eqb_spec c NL) as [E|E]; cbn [existsb]; auto.
  rewrite IH. replace (NL =? c) with false by (symmetry; apply Nat.eqb_neq; auto). reflexivity.
Qed.
Lemma take_line_length l : length (take_line l) <= length l.
Proof. induction l as [|c l IH]; cbn; auto. destruct (c =? NL); cbn; lia. Qed.
Lemma take_line_le_i t i : i <= length t -> length (take_line (rev (firstn i t))) <= i.
Proof. intros H. pose proof (take_line_length (rev (firstn i t))) as L. rewrite rev_length, firstn_length in L. lia. Qed.
Lemma take_line_prefix l : exists r, l = take_line l ++ r /\ (r = [] \/ exists r', r = NL :: r').
Proof.
  induction l as [|c l (r & E & H)]; cbn; [exists []; auto|].
  destruct (Nat.eqb_spec c NL) as [Ec|Ec].
  - subst c. exists (NL :: l). split; auto. right; eauto.
  - exists r. split; [cbn; congruence|auto].
Qed.

Lemma spec_col_line_start t i : i <= length t ->
  is_line_start t i (i - length (take_line (rev (firstn i t)))).
Proof.
  intros Hi. destruct (take_line_prefix (rev (firstn i t))) as (r & E & Hr).
  set (k := length (take_line (rev (firstn i t)))) in *.
  assert (Hlen : length (rev (firstn i t)) = i) by (rewrite rev_length, firstn_length; lia).
  assert (Hk : k <= i) by (rewrite <- Hlen, E, app_length; fold k; lia).
  (* t[j] for j < i is (rev (firstn i t))[i - 1 - j] *)
  assert (Hnth : forall j, j < i -> nth_error t j = nth_error (rev (firstn i t)) (i - 1 - j)).
  { intros j Hj. rewrite <- (nth_firstn t i j Hj).
    rewrite <- (rev_involutive (firstn i t)) at 1.
    destruct (nth_error (rev (firstn i t)) (i - 1 - j)) eqn:En.
    - apply nth_error_nth with (d := 0) in En.
      assert (Hj' : j < length (rev (rev (firstn i t)))) by (rewrite rev_involutive, firstn_length; lia).
      rewrite (nth_error_nth' _ 0 Hj'). rewrite rev_nth by (rewrite Hlen; lia).
      rewrite Hlen. replace (i - S j) with (i - 1 - j) by lia. congruence.
    - apply nth_error_None in En. lia. }
  split; [lia|]. split.
  - intros j Hj1 Hj2. rewrite Hnth by lia. rewrite E.
    rewrite nth_error_app1 by (fold k; lia). intros En.
    pose proof (take_line_no_nl (rev (firstn i t))) as Hno.
    apply nth_error_In in En.
    assert (existsb (Nat.eqb NL) (take_line (rev (firstn i t))) = true)
      by (apply existsb_exists; exists NL; split; auto; apply Nat.eqb_refl).
    congruence.
  - destruct Hr as [->|(r' & ->)].
    + left. rewrite app_nil_r in E. assert (k = i) by (unfold k; rewrite <- E; exact Hlen). lia.
    + destruct (Nat.eq_dec k i) as [Ek|Ek]; [left; lia|right].
      rewrite Hnth by lia. rewrite E. rewrite nth_error_app2 by (fold k; lia). fold k.
      replace (i - 1 - (i - k - 1) - k) with 0 by lia. reflexivity.
Qed.

Lemma line_start_unique t i s1 s2 : is_line_start t i s1 -> is_line_start t i s2 -> s1 = s2.
Proof.
  intros (A1 & B1 & C1) (A2 & B2 & C2).
  destruct (Nat.lt_trichotomy s1 s2) as [H|[H|H]]; auto; exfalso.
  - destruct C2 as [C2|C2]; [lia|]. apply (B1 (s2 - 1)); auto; lia.
  - destruct C1 as [C1|C1]; [lia|]. apply (B2 (s1 - 1)); auto; lia.
Qed.

(* C09_linecol against the executable specification *)
Theorem linecol_spec t i :
  i < length t -> nth_error t i <> Some NL ->
  exists lc, line_col t i = Some lc /\ linecol_ok t i lc = true.
Proof.
  intros Hi Hnl. destruct (linecol_correct t i Hi Hnl) as (s & Hs & E).
  pose proof (spec_col_line_start t i ltac:(lia)) as Hs'.
  pose proof (line_start_unique _ _ _ _ Hs Hs') as ->.
  eexists; split; [exact E|]. unfold linecol_ok, spec_line, spec_col. cbn [fst snd].
  pose proof (take_line_le_i t i ltac:(lia)) as Hk.
  set (k := length (take_line (rev (firstn i t)))) in *.
  replace (i - (i - k)) with k by lia.
  now rewrite !Nat.eqb_refl.
Qed.

Lemma split_nl_app line rest : existsb (Nat.eqb NL) line = false ->
  split_nl (line ++ NL :: rest) = (line, Some rest).
Proof.
  induction line as [|c l IH]; cbn; intros H; [reflexivity|].
  apply orb_false_iff in H as (H1 & H2).
  replace (c =? NL) with false by (rewrite Nat.eqb_sym; auto). now rewrite IH.
Qed.
Lemma caret_off_spaces k : caret_off (repeat 32 k ++ [94]) = Some k.
Proof. induction k as [|k IH]; cbn; auto. now rewrite IH. Qed.

(* C09_excerpt against the executable specification *)
Theorem excerpt_spec t i :
  i < length t -> nth_error t i <> Some NL ->
  excerpt_ok t i (extract_text t i (spec_col t i)) = true.
Proof.
  intros Hi Hnl. pose proof (spec_col_line_start t i ltac:(lia)) as Hs.
  destruct (excerpt_text_correct t i _ Hi Hnl Hs) as (line & k & E & Hno & Hk).
  pose proof (take_line_le_i t i ltac:(lia)) as Hn.
  unfold spec_col. set (n := length (take_line (rev (firstn i t)))) in *.
  replace (i - (i - n)) with n in E by lia.
  unfold excerpt_ok. rewrite E. cbn [app]. rewrite split_nl_app by exact Hno.
  rewrite caret_off_spaces. rewrite Hk.
  destruct (nth_error t i); cbn; auto using Nat.eqb_refl.
Qed.
