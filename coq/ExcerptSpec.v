(* SPECIFICATION for C09, executable: what a reported location and its excerpt
   must look like, written from the property's wording only (no reference to
   how the runtime computes them).  The extracted judges are what the check
   applies to the real implementation's output. *)
From Coq Require Import List Arith Bool.
Import ListNotations.
Require Import ExcerptModel.

Definition count_nl (t : text) := length (filter (Nat.eqb NL) t).

Fixpoint take_line (t : text) : text :=      (* longest prefix without a line break *)
  match t with
  | [] => []
  | c :: t' => if Nat.eqb c NL then [] else c :: take_line t'
  end.

(* line = 1 + newlines before i;  column = 1 + offset from the start of its line *)
Definition spec_line (t : text) (i : nat) : nat := 1 + count_nl (firstn i t).
Definition spec_col (t : text) (i : nat) : nat := 1 + length (take_line (rev (firstn i t))).

Definition linecol_ok (t : text) (i : nat) (lc : nat * nat) : bool :=
  Nat.eqb (fst lc) (spec_line t i) && Nat.eqb (snd lc) (spec_col t i).

(* the message part: <one line> NL <spaces> ^ ; the caret stands under text[i] *)
Fixpoint split_nl (m : text) : text * option text :=
  match m with
  | [] => ([], None)
  | c :: m' => if Nat.eqb c NL then ([], Some m')
               else let '(a, b) := split_nl m' in (c :: a, b)
  end.
Fixpoint caret_off (l : text) : option nat :=
  match l with
  | [] => None
  | c :: l' => if Nat.eqb c 94 then (match l' with [] => Some 0 | _ => None end)
               else if Nat.eqb c 32 then option_map S (caret_off l') else None
  end.
Definition opt_nat_eqb (a b : option nat) : bool :=
  match a, b with Some x, Some y => Nat.eqb x y | None, None => true | _, _ => false end.
Definition excerpt_ok (t : text) (i : nat) (m : text) : bool :=
  match split_nl m with
  | (line, Some cl) =>
      match caret_off cl with
      | Some k => opt_nat_eqb (nth_error line k) (nth_error t i)
      | None => false
      end
  | _ => false
  end.
