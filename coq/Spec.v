(* the specification for ExecDraft2.v with
   four-way results (out of fuel / raises / no match / match), lexically scoped
   environments, and the same fuel skeleton as the model, so that the
   refinement is one induction (RefineDraft3.v). *)
From Coq Require Import List Arith Bool Lia.
Import ListNotations.
Require Import Model.

Inductive sres := Fuel | Raise | Fails | Match (v : value) (p : nat).

Definition mnv0 (mn : option nat) := match mn with Some m => m | None => 0 end.
(* e{m,n} with m > n is rejected by the constructor when both are literals; with
   run-time bounds the list fails: never more than n elements, and n < m are too few *)
Definition bounds_conflict (mn mx : option nat) : bool :=
  match mx with Some m => Nat.ltb m (mnv0 mn) | None => false end.

Section Loops.
Variable pg : expr -> nat -> sres.

Fixpoint seq_spec (es : list expr) (p : nat) (acc : list value) : sres :=
  match es with
  | [] => Match (VList (rev acc)) p
  | e :: es' => match pg e p with
                | Match v p' => seq_spec es' p' (v :: acc)
                | other => other end
  end.
Fixpoint choice_spec (es : list expr) (p : nat) : sres :=
  match es with
  | [] => Fails
  | e :: es' => match pg e p with Fails => choice_spec es' p | other => other end
  end.
Fixpoint rep_spec (k : nat) (e : expr) (mn mx : option nat) (p : nat) (acc : list value) : sres :=
  if at_max mx (length acc) then Match (VList (rev acc)) p else
  match k with
  | 0 => Fuel
  | S k => match pg e p with
           | Fails => if Nat.leb (match mn with Some m => m | None => 0 end) (length acc)
                      then Match (VList (rev acc)) p else Fails
           | Match v p' => rep_spec k e mn mx p' (v :: acc)
           | other => other end
  end.
(* Skip: first item that matches with progress; inl = scan result, inr = abort *)
Fixpoint skip_first (es : list expr) (p : nat) : option nat + sres :=
  match es with
  | [] => inl None
  | e :: es' => match pg e p with
                | Match _ q => if Nat.eqb q p then skip_first es' p else inl (Some q)
                | Fails => skip_first es' p
                | other => inr other
                end
  end.
Fixpoint skip_spec (k : nat) (es : list expr) (p : nat) : sres :=
  match k with
  | 0 => Fuel
  | S k => match skip_first es p with
           | inr other => other
           | inl None => Match VNone p
           | inl (Some q) => skip_spec k es q
           end
  end.
Fixpoint longest_spec (es : list expr) (p : nat) (best : option (value * nat)) : sres :=
  match es with
  | [] => match best with Some (v, q) => Match v q | None => Fails end
  | e :: es' => match pg e p with
                | Fails => longest_spec es' p best
                | Match v q => match best with
                               | None => longest_spec es' p (Some (v, q))
                               | Some (_, bq) => if Nat.ltb bq q then longest_spec es' p (Some (v, q))
                                                 else longest_spec es' p best end
                | other => other end
  end.
Inductive sepres := SFuel | SRaise | SDone (acc : list value) (cp : nat) (saw : bool).
Fixpoint sep_spec (k : nat) (e sp : expr) (keep trailer : bool) (p : nat)
         (acc : list value) (cp : nat) (saw : bool) : sepres :=
  match k with
  | 0 => SFuel
  | S k =>
    match pg e p with
    | Fuel => SFuel | Raise => SRaise
    | Fails => SDone (if keep && negb trailer then tl acc else acc) cp saw
    | Match v p1 =>
      match pg sp p1 with
      | Fuel => SFuel | Raise => SRaise
      | Fails => SDone (v :: acc) p1 saw
      | Match sv p2 => sep_spec k e sp keep trailer p2 (if keep then sv :: v :: acc else v :: acc)
                                (if trailer then p2 else p1) true
      end
    end
  end.
Definition sep_final (allow_empty reqsep : bool) (acc : list value) (cp : nat) (saw : bool) : sres :=
  let nonempty := match acc with [] => false | _ => true end in
  let ok := if allow_empty && reqsep then negb nonempty || saw
            else if reqsep then saw
            else if allow_empty then true
            else nonempty in
  if ok then Match (VList (rev acc)) cp else Fails.
End Loops.

Section Spec.
Variable g : list (list nat * expr).
Variable funs : list (list nat * expr).     (* argument expressions lifted into functions: (free variables, body) *)
Variable ignored : option nat.
Variable t : list nat.
Variable rx : nat -> nat -> option nat.

Definition bound_val (E : env) (b : bound) : option (option nat) :=
  match b with
  | BNone => Some None
  | BLit n => Some (Some n)
  | BVar x => match lookup x E with Some (VInt n) => Some (Some n) | _ => None end
  end.

(* class members: the environment grows with every named member *)
Fixpoint class_spec (pgE : env -> expr -> nat -> sres) (cls start : nat)
         (ms : list (option nat * bool * expr)) (E : env) (q : nat) (acc : list value) : sres :=
  match ms with
  | [] => Match (VObj cls (rev acc) (start, q)) q
  | (name, isfield, e) :: ms' =>
      match pgE E e q with
      | Match v q' => class_spec pgE cls start ms'
                        (match name with Some x => (x, v) :: E | None => E end) q'
                        (match field_name name isfield with Some _ => v :: acc | None => acc end)
      | other => other end
  end.

Fixpoint peg (n : nat) (E : env) (e : expr) (p : nat) : sres :=
  match n with
  | 0 => Fuel
  | S n =>
    let skipw (sk : bool) (q : nat) (v : value) : sres :=
        if sk then match ignored with
                   | Some r => match nth_error g r with
                               | Some ([], b) => match peg n [] b q with
                                                 | Match _ q' => Match v q'
                                                 | Fails => Match v q
                                                 | other => other end
                               | _ => Raise end
                   | None => Match v q end
        else Match v q in
    match e with
    | Str s sk => match s with
                  | [] => Match (VStr []) p
                  | _ => if prefix_at s t p then skipw sk (p + length s) (VStr s) else Fails end
    | Rx id sk => match rx id p with Some q => skipw sk q (VStr (slice t p q)) | None => Fails end
    | Byte b sk => match nth_error t p with
                   | Some c => if Nat.eqb c b then skipw sk (S p) (VInt b) else Fails
                   | None => Fails end
    | Ref r => match nth_error g r with Some ([], b) => peg n [] b p | _ => Raise end
    | Seq es => seq_spec (peg n E) es p []
    | Discard a b dl => match peg n E a p with
                        | Match va p1 => match peg n E b p1 with
                                         | Match vb p2 => Match (if dl then vb else va) p2
                                         | other => other end
                        | other => other end
    | Choice es => choice_spec (peg n E) es p
    | Opt e => match peg n E e p with Fails => Match VNone p | other => other end
    | Rep e mn mx =>
        match mx with
        | BLit 0 => Match (VList []) p
        | _ => match bound_val E mn, bound_val E mx with
               | Some mnv, Some mxv =>
                   (* run-time bounds with lower > upper: at most `upper` elements are taken, which is fewer than
                      the lower bound asks for: the list fails (the constructor rejects such literal bounds) *)
                   if bounds_conflict mnv mxv
                   then match rep_spec (peg n E) n e mnv mxv p [] with Match _ _ => Fails | other => other end
                   else rep_spec (peg n E) n e mnv mxv p []
               | _, _ => Raise end
        end
    | Expect e => match peg n E e p with Match v _ => Match v p | other => other end
    | ExpectNot e => match peg n E e p with Fails => Match VNone p | Match _ _ => Fails | other => other end
    | Skip es => skip_spec (peg n E) n es p
    | Longest es => longest_spec (peg n E) es p None
    | Backtrack k => if Nat.leb k p then Match VNone (p - k) else Fails
    | Fail => Fails
    | Sep e sp discard trailer allow_empty reqsep =>
        match sep_spec (peg n E) n e sp (negb discard) trailer p [] p false with
        | SFuel => Fuel | SRaise => Raise
        | SDone acc cp saw => sep_final allow_empty reqsep acc cp saw
        end
    | Py py => match eval_py E py with Some v => Match v p | None => Raise end
    | Apply a b apply_left =>
        match peg n E a p with
        | Match va p1 =>
            match peg n E b p1 with
            | Match vb p2 =>
                let '(f, x) := if apply_left then (va, vb) else (vb, va) in
                match f with
                | VFun fn => match apply_fun E fn x with Some v => Match v p2 | None => Raise end
                | _ => Raise end
            | other => other end
        | other => other end
    | Where e pred =>
        match peg n E e p with
        | Match v p1 =>
            match peg n E pred p1 with
            | Match (VFun fn) p2 => match apply_fun E fn v with
                                    | Some w => if truthy w then Match v p2 else Fails
                                    | None => Raise end
            | Match _ _ => Raise
            | other => other end
        | other => other end
    | Let x _ a body => match peg n E a p with
                      | Match v p1 => peg n ((x, v) :: E) body p1
                      | other => other end
    | Class cls ms => class_spec (peg n) cls p ms E p []
    (* a name that holds a parser, used as a parser: the rule it names, the literal it is, or the argument
       expression it stands for — evaluated in the environment of the call site that passed it (its captured
       values), i.e. the argument substituted for the parameter *)
    | RefL x =>
        match lookup x E with
        | Some (VRule r) => match nth_error g r with Some ([], b) => peg n [] b p | _ => Raise end
        | Some (VLit sl sk) => peg n [] (Str sl sk) p
        | Some (VClos fid given) =>
            match nth_error funs fid with
            | Some (ps, b) => if Nat.eqb (length ps) (length given) then peg n (combine ps given) b p else Raise
            | None => Raise
            end
        | _ => Raise
        end
    (* T(args): the body of T with every parameter bound to the corresponding argument (positional, then by
       keyword), in a scope of its own *)
    | Call callee args =>
        match call_target E callee with
        | Some r =>
            match nth_error g r with
            | Some (ps, b) =>
                match bind_args E ps args [] with
                | Some en => peg n en b p
                | None => Raise
                end
            | None => Raise
            end
        | None => Raise
        end
    | OpTable _ _ _ _ => Raise        (* specified separately (OpTable.v / Pratt.v) *)
    end
  end.
End Spec.
