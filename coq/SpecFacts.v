(* Consequences of the specification (Spec.v) used by the property files. *)
From Coq Require Import List Arith Bool Lia.
Import ListNotations.
Require Import Model Spec.

Section R.
Variable pg : expr -> nat -> sres.

(* a bounded repetition returns a list whose length lies within the bounds *)
Lemma rep_spec_bounds : forall k e mn mx p acc v q,
  (forall m, mx = Some m -> mnv0 mn <= m /\ length acc <= m) ->
  rep_spec pg k e mn mx p acc = Match v q ->
  exists l, v = VList l /\ mnv0 mn <= length l /\ length acc <= length l
            /\ (forall m, mx = Some m -> length l <= m).
Proof.
  induction k as [|k IH]; intros e mn mx p acc v q Hb H; cbn [rep_spec] in H.
  - destruct (at_max mx (length acc)) eqn:Em; [|discriminate]. inversion H; subst.
    exists (rev acc). rewrite rev_length. destruct mx as [m|]; [|discriminate]. cbn in Em. apply Nat.eqb_eq in Em.
    destruct (Hb m eq_refl). repeat split; auto; try lia. intros m' E; inversion E; lia.
  - destruct (at_max mx (length acc)) eqn:Em.
    + inversion H; subst. exists (rev acc). rewrite rev_length. destruct mx as [m|]; [|discriminate]. cbn in Em.
      apply Nat.eqb_eq in Em. destruct (Hb m eq_refl). repeat split; auto; try lia. intros m' E; inversion E; lia.
    + destruct (pg e p) as [| | |v1 p1] eqn:Ee; try discriminate.
      * destruct (Nat.leb_spec (match mn with Some m => m | None => 0 end) (length acc)) as [Hle|Hgt]; [|discriminate].
        inversion H; subst. exists (rev acc). rewrite rev_length. repeat split; auto.
        intros m E. destruct (Hb m E). lia.
      * apply IH in H.
        -- destruct H as (l & A & B & C & D). exists l. cbn [length] in C. repeat split; auto. lia.
        -- intros m E. destruct (Hb m E) as (A & B). split; auto. cbn [length].
           subst mx. cbn in Em. apply Nat.eqb_neq in Em. lia.
Qed.
End R.

(* ---- C17: semantically transparent wrappers, nested to ANY depth ---- *)
Section Wrap.
Variable g funs : list (list nat * expr).
Variable ignored : option nat.
Variable t : list nat.
Variable rx : nat -> nat -> option nat.
Notation PEG := (peg g funs ignored t rx).

Inductive wrapper := WSeq | WOpt | WChoiceFail (dead : expr) | WFailOr.
Definition wrap1 (w : wrapper) (e : expr) : expr :=
  match w with
  | WSeq => Seq [e]
  | WOpt => Opt e
  | WChoiceFail dead => Choice [dead; e]
  | WFailOr => Choice [Fail; e]
  end.
Definition wrapv (w : wrapper) (v : value) : value := match w with WSeq => VList [v] | _ => v end.
Fixpoint wrap_all (ws : list wrapper) (e : expr) : expr :=
  match ws with [] => e | w :: ws' => wrap1 w (wrap_all ws' e) end.
Fixpoint wrapv_all (ws : list wrapper) (v : value) : value :=
  match ws with [] => v | w :: ws' => wrapv w (wrapv_all ws' v) end.

(* a dead branch: fails at every position, with any fuel *)
Definition dead_ok (ws : list wrapper) :=
  forall d, In (WChoiceFail d) ws -> forall n E p, PEG (S n) E d p = Fails.

(* a matching inner expression under any stack of wrappers, of any length, gives the
   correspondingly wrapped value and the same end position *)
Theorem wrappers_transparent : forall ws n E e p v q,
  dead_ok ws -> PEG n E e p = Match v q ->
  PEG (length ws + n) E (wrap_all ws e) p = Match (wrapv_all ws v) q.
Proof.
  induction ws as [|w ws IH]; intros n E e p v q Hd H; [exact H|].
  assert (Hd' : dead_ok ws) by (intros d Hin; apply Hd; right; exact Hin).
  specialize (IH n E e p v q Hd' H).
  cbn [length wrap_all wrapv_all plus].
  set (m := length ws + n) in *.
  assert (Hpos : exists m', m = S m').
  { destruct m as [|m']; [cbn in IH; discriminate | eauto]. }
  destruct Hpos as (m' & Em).
  destruct w as [| |dead|]; cbn [wrap1 wrapv].
  - cbn [peg seq_spec]. rewrite IH. reflexivity.
  - cbn [peg]. rewrite IH. reflexivity.
  - cbn [peg choice_spec]. rewrite Em at 1. rewrite (Hd dead (or_introl eq_refl) m' E p). rewrite IH. reflexivity.
  - cbn [peg choice_spec]. rewrite Em at 1. cbn [peg]. rewrite IH. reflexivity.
Qed.
End Wrap.
