(* Consequences of the specification (Spec.v) used by the property files. *)
From Coq Require Import List Arith Bool Lia.
Import ListNotations.
Require Import Model Spec.

Section R.
Variable pg : expr -> nat -> sres.

(* a bounded repetition returns a list whose length lies within the bounds *)
Lemma rep_spec_bounds : forall k e mn mx p acc v q,
  (forall m, mx = Some m -> mnv0 mn <= m /\ length acc <= m) ->
  rep_spec pg k e mn mx p acc = Match v q ->
  exists l, v = VList l /\ mnv0 mn <= length l /\ length acc <= length l
            /\ (forall m, mx = Some m -> length l <= m).
Proof.
  induction k as [|k IH]; intros e mn mx p acc v q Hb H; cbn [rep_spec] in H.
  - destruct (at_max mx (length acc)) eqn:Em; [|discriminate]. inversion H; subst.
    exists (rev acc). rewrite rev_length. destruct mx as [m|]; [|discriminate]. cbn in Em. apply Nat.eqb_eq in Em.
    destruct (Hb m eq_refl). repeat split; auto; try lia. intros m' E; inversion E; lia.
  - destruct (at_max mx (length acc)) eqn:Em.
    + inversion H; subst. exists (rev acc). rewrite rev_length. destruct mx as [m|]; [|discriminate]. cbn in Em.
      apply Nat.eqb_eq in Em. destruct (Hb m eq_refl). repeat split; auto; try lia. intros m' E; inversion E; lia.
    + destruct (pg e p) as [| | |v1 p1] eqn:Ee; try discriminate.
      * destruct (Nat.leb_spec (match mn with Some m => m | None => 0 end) (length acc)) as [Hle|Hgt]; [|discriminate].
        inversion H; subst. exists (rev acc). rewrite rev_length. repeat split; auto.
        intros m E. destruct (Hb m E). lia.
      * apply IH in H.
        -- destruct H as (l & A & B & C & D). exists l. cbn [length] in C. repeat split; auto. lia.
        -- intros m E. destruct (Hb m E) as (A & B). split; auto. cbn [length].
           subst mx. cbn in Em. apply Nat.eqb_neq in Em. lia.
Qed.
End R.
