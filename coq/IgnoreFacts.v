(* C04_exact_boundaries, the local fact —
   a literal carrying the skip_ignored flag means exactly `literal << _ignored`
   (the synthetic rule never fails because it is a Skip), nothing more. *)
From Coq Require Import List Arith Bool Lia.
Import ListNotations.
Require Import Model Spec.

Section I.
Variables (g funs : list (list nat * expr)) (t : list nat) (rx : nat -> nat -> option nat) (r : nat) (b : expr).
Hypothesis Hr : nth_error g r = Some ([], b).
Notation PEG := (peg g funs (Some r) t rx).

(* the flagged literal at fuel n+1 is the explicit `lit << _ignored` at fuel n+2 *)
Lemma flagged_literal_is_discard n E s p :
  s <> [] ->
  (forall q, PEG n [] b q <> Fails) ->
  PEG (S n) E (Str s true) p = PEG (S (S n)) E (Discard (Str s false) (Ref r) false) p.
Proof.
  intros Hs Hnf. destruct s as [|c s]; [congruence|].
  cbn [peg]. destruct (prefix_at (c :: s) t p); [|reflexivity].
  rewrite Hr. specialize (Hnf (p + length (c :: s))).
  destruct (PEG n [] b (p + length (c :: s))); try reflexivity. congruence.
Qed.

Lemma flagged_regex_is_discard n E id p :
  (forall q, PEG n [] b q <> Fails) ->
  PEG (S n) E (Rx id true) p = PEG (S (S n)) E (Discard (Rx id false) (Ref r) false) p.
Proof.
  intros Hnf. cbn [peg]. destruct (rx id p) as [q|]; [|reflexivity].
  rewrite Hr. specialize (Hnf q). destruct (PEG n [] b q); try reflexivity. congruence.
Qed.

(* an unflagged literal does not look at the ignored rule at all *)
Lemma unflagged_literal_ignores n E s p ig :
  peg g funs ig t rx (S n) E (Str s false) p = peg g funs None t rx (S n) E (Str s false) p.
Proof. cbn [peg]. destruct s; [reflexivity|]. destruct (prefix_at _ t p); reflexivity. Qed.
End I.
Print Assumptions flagged_literal_is_discard.
