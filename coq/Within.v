(* C10_nested / C08's no-crash precondition
   on the specification SpecDraft3.v — a match from p to q satisfies
   p <= q <= length text, and every span stored anywhere in the resulting value
   lies inside [p, q], each instance's fields inside that instance's span
   (lookahead, Backtrack and reads of earlier values aside). *)
From Coq Require Import List Arith Bool Lia.
Import ListNotations.
Require Import Model Spec.

Definition okfun (f : pyfun) : bool := match f with FKVar _ => false | _ => true end.

Fixpoint within (lo hi : nat) (v : value) : Prop :=
  match v with
  | VFun f => okfun f = true
  | VList l | VTuple l | VNode _ l =>
      (fix all (lo hi : nat) (l : list value) {struct l} : Prop :=
         match l with [] => True | x :: l' => within lo hi x /\ all lo hi l' end) lo hi l
  | VObj _ fs (s, e) =>
      lo <= s /\ s <= e /\ e <= hi /\
      (fix all (lo hi : nat) (l : list value) {struct l} : Prop :=
         match l with [] => True | x :: l' => within lo hi x /\ all lo hi l' end) s e fs
  | _ => True
  end.
Fixpoint within_all (lo hi : nat) (l : list value) : Prop :=
  match l with [] => True | x :: l' => within lo hi x /\ within_all lo hi l' end.

Lemma within_list lo hi l : within lo hi (VList l) = within_all lo hi l.
Proof. reflexivity. Qed.
Lemma within_obj lo hi c fs s e : within lo hi (VObj c fs (s, e)) = (lo <= s /\ s <= e /\ e <= hi /\ within_all s e fs).
Proof. reflexivity. Qed.

Fixpoint vsize (v : value) : nat :=
  match v with
  | VList l | VTuple l | VNode _ l | VObj _ l _ =>
      S ((fix sz (l : list value) : nat := match l with [] => 0 | x :: l' => vsize x + sz l' end) l)
  | _ => 1
  end.
Fixpoint lsize (l : list value) : nat := match l with [] => 0 | x :: l' => vsize x + lsize l' end.

Lemma within_mono_aux : forall n v lo hi lo' hi', vsize v <= n -> lo' <= lo -> hi <= hi' ->
  within lo hi v -> within lo' hi' v.
Proof.
  induction n as [|n IH]; intros v lo hi lo' hi' Hn Hlo Hhi H; [destruct v; cbn in Hn; lia|].
  assert (HL : forall l, lsize l <= n -> within_all lo hi l -> within_all lo' hi' l).
  { induction l as [|x l IHl]; intros Hl Hw; cbn in *; auto. destruct Hw as (A & B).
    assert (vsize x >= 1) by (destruct x; cbn; lia).
    split; [eapply IH; eauto; lia | apply IHl; auto; lia]. }
  destruct v as [| | | |l|l|c fs [s e]|k l| | | | |]; auto.
  - change (within_all lo' hi' l). apply HL; auto. change (S (lsize l) <= S n) in Hn. lia.
  - change (within_all lo' hi' l). apply HL; auto. change (S (lsize l) <= S n) in Hn. lia.
  - rewrite within_obj in *. destruct H as (A & B & C & D). repeat split; auto; lia.
  - change (within_all lo' hi' l). apply HL; auto. change (S (lsize l) <= S n) in Hn. lia.
Qed.
Lemma within_mono v lo hi lo' hi' : lo' <= lo -> hi <= hi' -> within lo hi v -> within lo' hi' v.
Proof. apply (within_mono_aux (vsize v)). lia. Qed.
Lemma within_all_mono l lo hi lo' hi' : lo' <= lo -> hi <= hi' -> within_all lo hi l -> within_all lo' hi' l.
Proof. induction l as [|x l IH]; cbn; auto. intros A B (C & D). split; [eapply within_mono; eauto | auto]. Qed.
Lemma within_all_app lo hi a b : within_all lo hi (a ++ b) <-> within_all lo hi a /\ within_all lo hi b.
Proof. induction a as [|x a IH]; cbn; [tauto|]. rewrite IH. tauto. Qed.
Lemma within_all_rev lo hi l : within_all lo hi (rev l) <-> within_all lo hi l.
Proof. induction l as [|x l IH]; cbn; [tauto|]. rewrite within_all_app. cbn. tauto. Qed.

(* expressions for which the statement is meant *)
Definition py_const (p : pyexpr) : bool :=
  match p with PVar _ => false | _ => true end.
Fixpoint plain (e : expr) : Prop :=
  match e with
  | Str _ _ | Rx _ _ | Byte _ _ | Ref _ | Fail => True
  | Backtrack _ | Expect _ => False
  | Py p => py_const p = true /\ match p with PFn f => okfun f = true | _ => True end
  | Seq es | Choice es | Longest es | Skip es =>
      (fix all (l : list expr) : Prop := match l with [] => True | x :: l' => plain x /\ all l' end) es
  | Discard a b _ | Apply a b _ | Where a b | Sep a b _ _ _ _ | Let _ _ a b => plain a /\ plain b
  | Opt e | ExpectNot e | Rep e _ _ => plain e
  | Class _ ms => (fix all (l : list (option nat * bool * expr)) : Prop :=
                     match l with [] => True | (_, _, x) :: l' => plain x /\ all l' end) ms
  | OpTable _ _ _ _ => True
  | RefL _ | Call _ _ => False          (* template calls aside: an argument may carry a value parsed elsewhere *)
  end.
Lemma plain_Forall es :
  (fix all (l : list expr) : Prop := match l with [] => True | x :: l' => plain x /\ all l' end) es -> Forall plain es.
Proof. induction es as [|x es IH]; intros H; constructor; destruct H; auto. Qed.

Section G.
Variable len : nat.
(* what one sub-expression guarantees *)
Definition good (pg : expr -> nat -> sres) (e : expr) :=
  forall p v q, p <= len -> pg e p = Match v q -> p <= q /\ q <= len /\ within p q v.

Section Loops.
Variable pg : expr -> nat -> sres.

Lemma seq_within : forall es p0 p acc v q, Forall (good pg) es ->
  p0 <= p -> p <= len -> within_all p0 p acc ->
  seq_spec pg es p acc = Match v q -> p <= q /\ q <= len /\ within p0 q v.
Proof.
  induction es as [|e es IH]; intros p0 p acc v q HF H0 Hp Hacc H; cbn [seq_spec] in H.
  - inversion H; subst. rewrite within_list, within_all_rev. auto.
  - inversion HF as [|? ? He Hes]; subst.
    destruct (pg e p) as [| | |v1 p1] eqn:E1; try discriminate.
    destruct (He p v1 p1 Hp E1) as (A & B & C).
    destruct (IH p0 p1 (v1 :: acc) v q Hes ltac:(lia) B) as (D & F & G); auto.
    + cbn. split; [eapply within_mono; [| |exact C]; lia | eapply within_all_mono; [| |exact Hacc]; lia].
    + repeat split; auto; lia.
Qed.

Lemma choice_within : forall es p v q, Forall (good pg) es -> p <= len ->
  choice_spec pg es p = Match v q -> p <= q /\ q <= len /\ within p q v.
Proof.
  induction es as [|e es IH]; intros p v q HF Hp H; cbn [choice_spec] in H; [discriminate|].
  inversion HF as [|? ? He Hes]; subst.
  destruct (pg e p) as [| | |v1 p1] eqn:E1; try discriminate.
  - apply IH; auto.
  - inversion H; subst. apply He; auto.
Qed.

Lemma rep_within : forall k e mn mx p0 p acc v q, good pg e ->
  p0 <= p -> p <= len -> within_all p0 p acc ->
  rep_spec pg k e mn mx p acc = Match v q -> p <= q /\ q <= len /\ within p0 q v.
Proof.
  induction k as [|k IH]; intros e mn mx p0 p acc v q He H0 Hp Hacc H; cbn [rep_spec] in H.
  - destruct (at_max mx (length acc)); [|discriminate]. inversion H; subst.
    rewrite within_list, within_all_rev. auto.
  - destruct (at_max mx (length acc)).
    { inversion H; subst. rewrite within_list, within_all_rev. auto. }
    destruct (pg e p) as [| | |v1 p1] eqn:E1; try discriminate.
    + destruct (_ <=? _); [|discriminate]. inversion H; subst. rewrite within_list, within_all_rev. auto.
    + destruct (He p v1 p1 Hp E1) as (A & B & C).
      destruct (IH e mn mx p0 p1 (v1 :: acc) v q He ltac:(lia) B) as (D & F & G); auto.
      * cbn. split; [eapply within_mono; [| |exact C]; lia | eapply within_all_mono; [| |exact Hacc]; lia].
      * repeat split; auto; lia.
Qed.

Lemma skip_first_within : forall es p q, Forall (good pg) es -> p <= len ->
  skip_first pg es p = inl (Some q) -> p <= q /\ q <= len.
Proof.
  induction es as [|e es IH]; intros p q HF Hp H; cbn [skip_first] in H; [discriminate|].
  inversion HF as [|? ? He Hes]; subst.
  destruct (pg e p) as [| | |v1 p1] eqn:E1; try discriminate.
  - apply IH; auto.
  - destruct (He p v1 p1 Hp E1) as (A & B & C). destruct (p1 =? p); [apply IH; auto|].
    inversion H; subst. auto.
Qed.
Lemma skip_first_inr : forall es p r, skip_first pg es p = inr r -> r = Fuel \/ r = Raise.
Proof.
  induction es as [|e es IH]; intros p r H; cbn [skip_first] in H; [discriminate|].
  destruct (pg e p) as [| | |v1 p1]; try (inversion H; auto; fail).
  - eapply IH; eauto.
  - destruct (p1 =? p); [eapply IH; eauto | discriminate].
Qed.
Lemma skip_within : forall k es p v q, Forall (good pg) es -> p <= len ->
  skip_spec pg k es p = Match v q -> p <= q /\ q <= len /\ within p q v.
Proof.
  induction k as [|k IH]; intros es p v q HF Hp H; cbn [skip_spec] in H; [discriminate|].
  destruct (skip_first pg es p) as [[q1|]|r] eqn:E1.
  - destruct (skip_first_within es p q1 HF Hp E1) as (A & B).
    destruct (IH es q1 v q HF B H) as (C & D & F). repeat split; auto; try lia.
    eapply within_mono; [| |exact F]; lia.
  - inversion H; subst. cbn. auto.
  - destruct (skip_first_inr _ _ _ E1) as [-> | ->]; discriminate.
Qed.

Lemma longest_within : forall es p best v q, Forall (good pg) es -> p <= len ->
  (forall bv bq, best = Some (bv, bq) -> p <= bq /\ bq <= len /\ within p bq bv) ->
  longest_spec pg es p best = Match v q -> p <= q /\ q <= len /\ within p q v.
Proof.
  induction es as [|e es IH]; intros p best v q HF Hp Hb H; cbn [longest_spec] in H.
  - destruct best as [[bv bq]|]; [|discriminate]. inversion H; subst. apply Hb; auto.
  - inversion HF as [|? ? He Hes]; subst.
    destruct (pg e p) as [| | |v1 p1] eqn:E1; try discriminate.
    + exact (IH p best v q Hes Hp Hb H).
    + pose proof (He p v1 p1 Hp E1) as Hg.
      assert (Hnew : forall bv bq, Some (v1, p1) = Some (bv, bq) -> p <= bq /\ bq <= len /\ within p bq bv).
      { intros ? ? Hx. inversion Hx; subst. exact Hg. }
      destruct best as [[bv bq]|].
      * destruct (bq <? p1).
        -- exact (IH p _ v q Hes Hp Hnew H).
        -- exact (IH p _ v q Hes Hp Hb H).
      * exact (IH p _ v q Hes Hp Hnew H).
Qed.

Lemma sep_within : forall k e sp keep trailer p0 p acc cp saw acc' cp' saw', good pg e -> good pg sp ->
  p0 <= cp -> cp <= p -> p <= len ->
  within_all p0 p acc -> within_all p0 cp (if keep && negb trailer then tl acc else acc) ->
  sep_spec pg k e sp keep trailer p acc cp saw = SDone acc' cp' saw' ->
  p0 <= cp' /\ cp' <= len /\ within_all p0 cp' acc'.
Proof.
  induction k as [|k IH]; intros e sp keep trailer p0 p acc cp saw acc' cp' saw' He Hs H0 Hc Hp Hacc Hcom H;
    cbn [sep_spec] in H; [discriminate|].
  destruct (pg e p) as [| | |v1 p1] eqn:E1; try discriminate.
  - inversion H; subst. repeat split; auto; lia.
  - destruct (He p v1 p1 Hp E1) as (A & B & C).
    assert (W1 : within p0 p1 v1) by (eapply within_mono; [| |exact C]; lia).
    assert (W3 : within_all p0 p1 acc) by (eapply within_all_mono; [| |exact Hacc]; lia).
    destruct (pg sp p1) as [| | |v2 p2] eqn:E2; try discriminate.
    + inversion H; subst. repeat split; auto; try lia.
    + destruct (Hs p1 v2 p2 B E2) as (A2 & B2 & C2).
      assert (W2 : within p0 p2 v2) by (eapply within_mono; [| |exact C2]; lia).
      apply (IH e sp keep trailer p0 p2 (if keep then v2 :: v1 :: acc else v1 :: acc)
                (if trailer then p2 else p1) true acc' cp' saw' He Hs); try exact H; try (destruct trailer; lia).
      * destruct keep; cbn; repeat split; auto;
          try (eapply within_mono; [| |exact W1]; lia); try (eapply within_all_mono; [| |exact W3]; lia).
      * destruct keep, trailer; cbn; repeat split; auto;
          try (eapply within_mono; [| |exact W1]; lia); try (eapply within_all_mono; [| |exact W3]; lia).
Qed.
End Loops.
End G.

Section M.
Variables (g funs : list (list nat * expr)) (ignored : option nat) (t : list nat) (rx : nat -> nat -> option nat).
Notation PEG := (peg g funs ignored t rx).
Notation len := (length t).

Hypothesis rx_ok : forall id p q, rx id p = Some q -> p <= q /\ q <= len.
Hypothesis g_plain : forall r b, nth_error g r = Some ([], b) -> plain b.

Lemma prefix_at_len : forall s p, p <= len -> prefix_at s t p = true -> p + length s <= len.
Proof.
  induction s as [|c s IH]; intros p Hp H; cbn in *; [lia|].
  destruct (nth_error t p) eqn:E; [|discriminate]. apply andb_true_iff in H. destruct H as (_ & H).
  assert (p < len) by (apply nth_error_Some; congruence).
  specialize (IH (S p) ltac:(lia) H). lia.
Qed.

Lemma apply_fun_within E f x w lo hi :
  okfun f = true -> within lo hi x -> apply_fun E f x = Some w -> within lo hi w.
Proof.
  intros Hok Hx H. destruct f; cbn -[digits] in *; try discriminate.
  - destruct x as [| |[|c s]| | | | | | | | | |]; try discriminate.
    destruct (digits (c :: s) 0); inversion H; subst; exact I.
  - destruct (vlen x); inversion H; subst; exact I.
  - inversion H; subst; exact I.
  - destruct x; try discriminate. inversion H; subst. exact Hx.
  - destruct (lookup x0 E); inversion H; subst; exact I.
  - destruct (vlen x), (option_map vlen (lookup x0 E)) as [[]|]; inversion H; subst; exact I.
  - destruct x; try discriminate. inversion H; subst; exact I.
  - inversion H; subst. cbn. auto.
  - inversion H; subst. cbn. auto.
  - destruct (option_map vlen (lookup x0 E)) as [[]|]; try discriminate.
    destruct (lookup y E) as [[]|]; inversion H; subst; exact I.
Qed.

Lemma eval_py_within E py w lo hi :
  py_const py = true -> match py with PFn f => okfun f = true | _ => True end ->
  eval_py E py = Some w -> within lo hi w.
Proof.
  intros Hc Hf H. destruct py as [| | |m|x|f|x y|x]; cbn in H, Hc; try discriminate; try (inversion H; subst; exact I).
  - inversion H; subst. exact Hf.
  - destruct (option_map vlen (lookup x E)) as [[a|]|]; try discriminate.
    destruct (lookup y E) as [[]|]; inversion H; subst; exact I.
  - destruct (lookup x E) as [[]|]; inversion H; subst; exact I.
Qed.

Theorem peg_within : forall n e E, plain e -> good len (PEG n E) e.
Proof.
  induction n as [|n IH]; intros e E Hpl p v q Hp H; [discriminate|].
  assert (Hskip : forall (ig : option nat), ig = ignored ->
     forall (sk : bool) (q0 : nat) (v0 : value) v q, p <= q0 -> q0 <= len ->
     (forall lo hi, within lo hi v0) ->
     (if sk then match ig with
                 | Some r => match nth_error g r with
                             | Some ([], b) => match PEG n [] b q0 with
                                               | Fuel => Fuel | Raise => Raise
                                               | Fails => Match v0 q0
                                               | Match _ q' => Match v0 q' end
                             | _ => Raise end
                 | None => Match v0 q0 end
      else Match v0 q0) = Match v q -> p <= q /\ q <= len /\ within p q v).
  { intros ig Hig sk q0 v0 v1 q1 A B Call Hm. destruct sk; [|inversion Hm; subst; repeat split; auto].
    destruct ig as [r|]; [|inversion Hm; subst; repeat split; auto].
    destruct (nth_error g r) as [[[|] b]|] eqn:Er; try discriminate.
    destruct (PEG n [] b q0) as [| | |v2 q2] eqn:Eb; try discriminate.
    - inversion Hm; subst. repeat split; auto.
    - inversion Hm; subst. destruct (IH b [] (g_plain _ _ Er) q0 v2 q1 B Eb) as (X & Y & _).
      repeat split; auto; lia. }
  specialize (Hskip ignored eq_refl).
  destruct e as [sv sk|id sk|b sk|r|es|a b dl|es|e|e mn mx|e|e|es|es|k| |e sp discard trailer ae rs
                 |py|a b al|e pred|x sh a body|cls ms|pre opd post inf|x|callee args];
    cbn [peg] in H; cbn [plain] in Hpl.
  - (* Str *) destruct sv as [|c sv]; [inversion H; subst; repeat split; auto; exact I|].
    destruct (prefix_at (c :: sv) t p) eqn:Epf; [|discriminate].
    pose proof (prefix_at_len _ _ Hp Epf) as Hl.
    apply (Hskip sk (p + length (c :: sv)) (VStr (c :: sv)) v q); [lia | lia | intros; exact I | exact H].
  - (* Rx *) destruct (rx id p) as [q0|] eqn:Er; [|discriminate]. destruct (rx_ok _ _ _ Er).
    apply (Hskip sk q0 (VStr (slice t p q0)) v q); [lia | lia | intros; exact I | exact H].
  - (* Byte *) destruct (nth_error t p) as [c|] eqn:En; [|discriminate].
    destruct (c =? b); [|discriminate].
    assert (p < len) by (apply nth_error_Some; congruence).
    apply (Hskip sk (S p) (VInt b) v q); [lia | lia | intros; exact I | exact H].
  - (* Ref *) destruct (nth_error g r) as [[[|] bd]|] eqn:Er; try discriminate.
    apply (IH bd [] (g_plain _ _ Er) p v q Hp H).
  - (* Seq *) apply plain_Forall in Hpl.
    assert (HF : Forall (good len (PEG n E)) es) by (eapply Forall_impl; [|exact Hpl]; intros; apply IH; auto).
    apply (seq_within len (PEG n E) es p p [] v q HF); auto. exact I.
  - (* Discard *) destruct Hpl as (Ha & Hb).
    destruct (PEG n E a p) as [| | |va p1] eqn:Ea; try discriminate.
    destruct (IH a E Ha p va p1 Hp Ea) as (A & B & C).
    destruct (PEG n E b p1) as [| | |vb p2] eqn:Eb; try discriminate.
    destruct (IH b E Hb p1 vb p2 B Eb) as (A2 & B2 & C2).
    inversion H; subst. repeat split; auto; try lia.
    destruct dl; eapply within_mono; [| |exact C2| | |exact C]; lia.
  - (* Choice *) apply plain_Forall in Hpl.
    assert (HF : Forall (good len (PEG n E)) es) by (eapply Forall_impl; [|exact Hpl]; intros; apply IH; auto).
    apply (choice_within len (PEG n E) es p v q HF Hp H).
  - (* Opt *) destruct (PEG n E e p) as [| | |v1 p1] eqn:Ee; try discriminate.
    + inversion H; subst. repeat split; auto; exact I.
    + inversion H; subst. apply (IH e E Hpl p v q Hp Ee).
  - (* Rep *)
    assert (Hgen : forall mnv mxv, rep_spec (PEG n E) n e mnv mxv p [] = Match v q -> p <= q /\ q <= len /\ within p q v).
    { intros mnv mxv Hr. apply (rep_within len (PEG n E) n e mnv mxv p p [] v q); auto; try exact I; try (apply IH; auto). }
    destruct mx as [|[|m]|y].
    + destruct (bound_val E mn) as [a|], (bound_val E BNone) as [b|]; try discriminate.
      destruct (bounds_conflict a b); [match type of H with match ?X with _ => _ end = _ => destruct X; discriminate end|]. eapply Hgen; eauto.
    + inversion H; subst. repeat split; auto; exact I.
    + destruct (bound_val E mn) as [a|], (bound_val E (BLit (S m))) as [b|]; try discriminate.
      destruct (bounds_conflict a b); [match type of H with match ?X with _ => _ end = _ => destruct X; discriminate end|]. eapply Hgen; eauto.
    + destruct (bound_val E mn) as [a|], (bound_val E (BVar y)) as [b|]; try discriminate.
      destruct (bounds_conflict a b); [match type of H with match ?X with _ => _ end = _ => destruct X; discriminate end|]. eapply Hgen; eauto.
  - (* Expect *) contradiction.
  - (* ExpectNot *) destruct (PEG n E e p) as [| | |v1 p1]; try discriminate.
    inversion H; subst. repeat split; auto; exact I.
  - (* Skip *) apply plain_Forall in Hpl.
    assert (HF : Forall (good len (PEG n E)) es) by (eapply Forall_impl; [|exact Hpl]; intros; apply IH; auto).
    apply (skip_within len (PEG n E) n es p v q HF Hp H).
  - (* Longest *) apply plain_Forall in Hpl.
    assert (HF : Forall (good len (PEG n E)) es) by (eapply Forall_impl; [|exact Hpl]; intros; apply IH; auto).
    apply (longest_within len (PEG n E) es p None v q HF Hp); [intros; discriminate | exact H].
  - (* Backtrack *) contradiction.
  - (* Fail *) discriminate.
  - (* Sep *) destruct Hpl as (He & Hs).
    destruct (sep_spec (PEG n E) n e sp (negb discard) trailer p [] p false) as [| |acc cp saw] eqn:Es; try discriminate.
    destruct (sep_within len (PEG n E) n e sp (negb discard) trailer p p [] p false acc cp saw) as (A & B & C); auto.
    all: try (apply IH; auto; fail); try exact I; try (destruct (negb discard && negb trailer); exact I).
    unfold sep_final in H.
    match type of H with (if ?c then _ else _) = _ => destruct c end; [|discriminate].
    inversion H; subst. repeat split; auto. rewrite within_list, within_all_rev. exact C.
  - (* Py *) destruct Hpl as (Hc & Hf).
    destruct (eval_py E py) as [w|] eqn:Ev; [|discriminate]. inversion H; subst.
    repeat split; auto. eapply eval_py_within; eauto.
  - (* Apply *) destruct Hpl as (Ha & Hb).
    destruct (PEG n E a p) as [| | |va p1] eqn:Ea; try discriminate.
    destruct (IH a E Ha p va p1 Hp Ea) as (A & B & C).
    destruct (PEG n E b p1) as [| | |vb p2] eqn:Eb; try discriminate.
    destruct (IH b E Hb p1 vb p2 B Eb) as (A2 & B2 & C2).
    assert (Wa : within p p2 va) by (eapply within_mono; [| |exact C]; lia).
    assert (Wb : within p p2 vb) by (eapply within_mono; [| |exact C2]; lia).
    destruct al.
    + destruct va as [| | | | | | | |fn| | | |]; try discriminate.
      destruct (apply_fun E fn vb) as [w|] eqn:Ef; [|discriminate]. inversion H; subst.
      repeat split; auto; try lia. exact (apply_fun_within E fn vb v p q Wa Wb Ef).
    + destruct vb as [| | | | | | | |fn| | | |]; try discriminate.
      destruct (apply_fun E fn va) as [w|] eqn:Ef; [|discriminate]. inversion H; subst.
      repeat split; auto; try lia. exact (apply_fun_within E fn va v p q Wb Wa Ef).
  - (* Where *) destruct Hpl as (Ha & Hb).
    destruct (PEG n E e p) as [| | |va p1] eqn:Ea; try discriminate.
    destruct (IH e E Ha p va p1 Hp Ea) as (A & B & C).
    destruct (PEG n E pred p1) as [| | |vb p2] eqn:Eb; try discriminate.
    destruct (IH pred E Hb p1 vb p2 B Eb) as (A2 & B2 & C2).
    destruct vb as [| | | | | | | |fn| | | |]; try discriminate.
    destruct (apply_fun E fn va) as [w|]; [|discriminate]. destruct (truthy w); [|discriminate].
    inversion H; subst. repeat split; auto; try lia. eapply within_mono; [| |exact C]; lia.
  - (* Let *) destruct Hpl as (Ha & Hb).
    destruct (PEG n E a p) as [| | |va p1] eqn:Ea; try discriminate.
    destruct (IH a E Ha p va p1 Hp Ea) as (A & B & C).
    destruct (IH body ((x, va) :: E) Hb p1 v q B H) as (A2 & B2 & C2).
    repeat split; auto; try lia. eapply within_mono; [| |exact C2]; lia.
  - (* Class *)
    assert (HC : forall ms E0 q0 acc, p <= q0 -> q0 <= len -> within_all p q0 acc ->
              (fix all (l : list (option nat * bool * expr)) : Prop :=
                 match l with [] => True | (_, _, x) :: l' => plain x /\ all l' end) ms ->
              class_spec (PEG n) cls p ms E0 q0 acc = Match v q -> p <= q /\ q <= len /\ within p q v).
    { induction ms0 as [|[[name isf] e0] ms0 IHms]; intros E0 q0 acc A B C Hm Hc; cbn [class_spec] in Hc.
      - inversion Hc; subst. split; [lia|]. split; [lia|]. rewrite within_obj.
        split; [lia|]. split; [lia|]. split; [lia|]. rewrite within_all_rev. exact C.
      - destruct Hm as (He0 & Hms).
        destruct (PEG n E0 e0 q0) as [| | |v1 q1] eqn:E1; try discriminate.
        destruct (IH e0 E0 He0 q0 v1 q1 B E1) as (X & Y & Z).
        assert (W1 : within p q1 v1) by (eapply within_mono; [| |exact Z]; lia).
        assert (W2 : within_all p q1 acc) by (eapply within_all_mono; [| |exact C]; lia).
        apply (IHms (match name with Some x0 => (x0, v1) :: E0 | None => E0 end) q1
                    (match field_name name isf with Some _ => v1 :: acc | None => acc end)); try exact Hms; try exact Hc; try lia.
        destruct (field_name name isf); cbn; auto. }
    apply (HC ms E p [] (le_n _) Hp I Hpl H).
  - discriminate.
  - contradiction.
  - contradiction.
Qed.
End M.
