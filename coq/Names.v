(* C20: the namespaces of a generated function.  User-chosen identifiers (rules,
   classes, fields, parameters, let variables) are emitted verbatim; the generator's
   own names are the registers (_pos, _text, _status, _result, _ctx, ...) and the
   temporaries, allocated as  _<base><counter>  with one counter per base name.
   Identifiers are lists of character codes. *)
From Coq Require Import List Arith Bool Lia.
Import ListNotations.

Definition ident := list nat.
Definition UNDERSCORE := 95.
Definition reserved (s : ident) : bool := match s with c :: _ => Nat.eqb c UNDERSCORE | [] => false end.
Definition user_ok (s : ident) : bool := match s with c :: _ => negb (Nat.eqb c UNDERSCORE) | [] => false end.

(* decimal digits of the counter *)
Fixpoint digits_aux (fuel n : nat) (acc : list nat) : list nat :=
  match fuel with
  | 0 => acc
  | S f => let d := 48 + Nat.modulo n 10 in
           if Nat.ltb n 10 then d :: acc else digits_aux f (Nat.div n 10) (d :: acc)
  end.
Definition digits (n : nat) := digits_aux (S n) n [].
(* CodeBuilder.var as sourcer uses it: the base name gets a leading underscore *)
Definition temp (base : ident) (k : nat) : ident := UNDERSCORE :: base ++ digits k.

Lemma temp_reserved base k : reserved (temp base k) = true.
Proof. reflexivity. Qed.

(* no user identifier is a temporary or a register *)
Theorem user_never_reserved : forall u r, user_ok u = true -> reserved r = true -> u <> r.
Proof.
  intros u r Hu Hr E. subst r. destruct u as [|c u]; cbn in *; [discriminate|].
  rewrite Hr in Hu. discriminate.
Qed.
Corollary user_never_temp : forall u base k, user_ok u = true -> u <> temp base k.
Proof. intros u base k H. apply user_never_reserved; [exact H | apply temp_reserved]. Qed.

(* as shipped the base name was used as is: a user field named value2 IS the second `value` temporary *)
Definition shipped_temp (base : ident) (k : nat) : ident := base ++ digits k.
Example shipped_collision : user_ok [118;97;108;117;101;50] = true
  /\ shipped_temp [118;97;108;117;101] 2 = [118;97;108;117;101;50].
Proof. vm_compute. auto. Qed.
