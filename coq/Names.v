(* C20: the namespaces of a generated function.  User-chosen identifiers (rules,
   classes, fields, parameters, let variables) are emitted verbatim; the generator's
   own names are the registers (_pos, _text, _status, _result, _ctx, ...) and the
   temporaries, allocated as  _<base><counter>  with one counter per base name.
   Identifiers are lists of character codes. *)
From Coq Require Import List Arith Bool Lia.
Import ListNotations.

Definition ident := list nat.
Definition UNDERSCORE := 95.
Definition reserved (s : ident) : bool := match s with c :: _ => Nat.eqb c UNDERSCORE | [] => false end.
Definition user_ok (s : ident) : bool := match s with c :: _ => negb (Nat.eqb c UNDERSCORE) | [] => false end.

(* decimal digits of the counter *)
Fixpoint digits_aux (fuel n : nat) (acc : list nat) : list nat :=
  match fuel with
  | 0 => acc
  | S f => let d := 48 + Nat.modulo n 10 in
           if Nat.ltb n 10 then d :: acc else digits_aux f (Nat.div n 10) (d :: acc)
  end.
Definition digits (n : nat) := digits_aux (S n) n [].
(* CodeBuilder.var as sourcer uses it: the base name gets a leading underscore *)
Definition temp (base : ident) (k : nat) : ident := UNDERSCORE :: base ++ digits k.

Lemma temp_reserved base k : reserved (temp base k) = true.
Proof. reflexivity. Qed.

(* no user identifier is a temporary or a register *)
Theorem user_never_reserved : forall u r, user_ok u = true -> reserved r = true -> u <> r.
Proof.
  intros u r Hu Hr E. subst r. destruct u as [|c u]; cbn in *; [discriminate|].
  rewrite Hr in Hu. discriminate.
Qed.
Corollary user_never_temp : forall u base k, user_ok u = true -> u <> temp base k.
Proof. intros u base k H. apply user_never_reserved; [exact H | apply temp_reserved]. Qed.

(* as shipped the base name was used as is: a user field named value2 IS the second `value` temporary *)
Definition shipped_temp (base : ident) (k : nat) : ident := base ++ digits k.
Example shipped_collision : user_ok [118;97;108;117;101;50] = true
  /\ shipped_temp [118;97;108;117;101] 2 = [118;97;108;117;101;50].
Proof. vm_compute. auto. Qed.

(* ---- module level ----
   A user rule or class named u gives the module three names: u itself,
   _parse_u (its entry point) and _try_u (its parse function).  The generator's
   own module-level functions are _function_<id> (helpers split off by
   functionalize), _raise_error<id> and _matcher<id>. *)
Definition s_parse := [95;112;97;114;115;101;95].          (* "_parse_" *)
Definition s_try := [95;116;114;121;95].                    (* "_try_" *)
Definition s_function := [95;102;117;110;99;116;105;111;110;95].   (* "_function_" *)
Definition s_raise_error := [95;114;97;105;115;101;95;101;114;114;111;114].  (* "_raise_error" *)
Definition s_matcher := [95;109;97;116;99;104;101;114].     (* "_matcher" *)
Definition derived (u : ident) : list ident := [u; s_parse ++ u; s_try ++ u].
Definition helper (k : nat) : ident := s_function ++ digits k.
Definition error_fn (k : nat) : ident := s_raise_error ++ digits k.
Definition matcher (k : nat) : ident := s_matcher ++ digits k.
Definition generated (k : nat) : list ident := [helper k; error_fn k; matcher k].

Theorem derived_never_generated : forall u k j, user_ok u = true -> forall a b, In a (derived u) -> In b (generated k ++ generated j) -> a <> b.
Proof.
  intros u k j Hu a b Ha Hb E. subst b.
  destruct u as [|c u]; [discriminate|]. cbn in Hu.
  unfold derived in Ha. cbn [In] in Ha.
  assert (Hg : forall n, In a (generated n) -> False).
  { intros n Hn. unfold generated, helper, error_fn, matcher in Hn. cbn [In] in Hn.
    destruct Ha as [<- | [<- | [<- | []]]]; destruct Hn as [Hn | [Hn | [Hn | []]]]; cbn in Hn;
      try (injection Hn as Hc _; subst c; discriminate);
      try discriminate. }
  apply in_app_or in Hb. destruct Hb as [Hb | Hb]; eapply Hg; eauto.
Qed.

(* as shipped the helpers were called _parse_function_<id>: the entry point of a rule named function_5 *)
Definition shipped_helper (k : nat) : ident := s_parse ++ [102;117;110;99;116;105;111;110;95] ++ digits k.
Example shipped_helper_collision :
  user_ok ([102;117;110;99;116;105;111;110;95] ++ digits 5) = true /\
  In (shipped_helper 5) (derived ([102;117;110;99;116;105;111;110;95] ++ digits 5)).
Proof. vm_compute. auto. Qed.
