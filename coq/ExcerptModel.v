(* MODEL of the error-location runtime (sourcer/translator.py, _main_template):
   _map_index_to_line_and_column, _get_line_and_column, _extract_excerpt,
   _caret_at.  Text is a list of code points (nat); definitions only, the
   proofs are in ExcerptProofs.v so that the model still extracts when a
   proof breaks. *)
From Coq Require Import List Arith Bool.
Import ListNotations.

Definition NL := 10.
Definition text := list nat.

(* the for-loop of _map_index_to_line_and_column: the entry for a newline
   character already carries the next line number and column 0 *)
Fixpoint lc_map (t : text) (line col : nat) : list (nat * nat) :=
  match t with
  | [] => []
  | c :: t' => if Nat.eqb c NL then (S line, 0) :: lc_map t' (S line) 0
               else (line, S col) :: lc_map t' line (S col)
  end.
(* line_numbers[i], column_numbers[i]; None = IndexError *)
Definition line_col (t : text) (i : nat) : option (nat * nat) := nth_error (lc_map t 1 0) i.

(* text[a:b] for 0 <= a, 0 <= b *)
Definition slice (t : text) (a b : nat) : text := firstn (b - a) (skipn a t).

(* re.compile('\n').search(text, p).start(), or len(text) when there is none *)
Fixpoint find_nl_from (t : text) (p : nat) : nat :=
  match t with
  | [] => p
  | c :: t' => match p with
               | 0 => if Nat.eqb c NL then 0 else S (find_nl_from t' 0)
               | S p' => S (find_nl_from t' p')
               end
  end.

Definition dots_l := [46;46;46;32].    (* '... ' *)
Definition dots_r := [32;46;46;46].    (* ' ...' *)

(* _caret_at(index) = '\n' + (' ' * index) + '^' *)
Definition caret_at (index : nat) : text := ([NL] ++ repeat 32 index) ++ [94].

(* _extract_excerpt for str input, literally (Python's + associates to the left) *)
Definition extract_text (t : text) (pos col : nat) : text :=
  let start := pos - (col - 1) in
  let e := find_nl_from t (pos + 1) in
  if Nat.ltb (e - start) 96 then slice t start e ++ caret_at (col - 1)
  else if Nat.ltb col 60 then (slice t start (start + 90) ++ dots_r) ++ caret_at (col - 1)
  else if Nat.ltb (e - pos) 42 then (dots_l ++ slice t (e - 90) e) ++ caret_at (pos - (e - 90) + 4)
  else ((dots_l ++ slice t (pos - 42) (pos + 42)) ++ dots_r) ++ caret_at (42 + 4).

(* the same computation as (excerpt line, caret offset), with the threshold of
   the third regime as a parameter (42 in the code) *)
Definition extract (K : nat) (t : text) (pos col : nat) : text * nat :=
  let start := pos - (col - 1) in
  let e := find_nl_from t (pos + 1) in
  if Nat.ltb (e - start) 96 then (slice t start e, col - 1)
  else if Nat.ltb col 60 then (slice t start (start + 90) ++ dots_r, col - 1)
  else if Nat.ltb (e - pos) K then (dots_l ++ slice t (e - 90) e, pos - (e - 90) + 4)
  else ((dots_l ++ slice t (pos - 42) (pos + 42)) ++ dots_r, 42 + 4).
Definition render (r : text * nat) : text := fst r ++ caret_at (snd r).

(* bytes input: the window text[max(0, pos - 1) : pos + 2] that is repr()-ed *)
Definition bytes_window (t : text) (pos : nat) : text := slice t (Nat.max 0 (pos - 1)) (pos + 2).

(* what a _raise_errorN function reports (translator.py:166-202):
   end of input => (None, None); otherwise the map entry *)
Definition error_line_col (t : text) (pos : nat) : option (option (nat * nat)) :=
  if Nat.leb (length t) pos then Some None
  else match line_col t pos with Some lc => Some (Some lc) | None => None end.
