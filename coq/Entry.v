(* parse(text, pos, fullparse) — the tail of
   _run and _finalize_parse_info (translator.py:654-681, 800-819) on top of
   ExecDraft2: the three outcomes, span finalisation, and the crash cases. *)
From Coq Require Import List Arith Bool Lia ZArith.
Import ListNotations.
Require Import ExcerptModel Model.

(* a finalised position: (index, Some (line, column)) or (index, None) when the
   index lies outside the text (objects that consumed nothing: the end offset
   `end - 1` may be -1 or precede the start; the start may be len(text)) *)
Definition fpos : Type := (Z * option (nat * nat)).
Inductive fvalue :=
| FNone | FBoolV (b : bool) | FStr (s : list nat) | FNat (n : nat)
| FList (l : list fvalue) | FTup (l : list fvalue)
| FObj (cls : nat) (fields : list fvalue) (sp : fpos * fpos)
| FNode (k : nat) (l : list fvalue)
| FOther.

Inductive outcome :=
| Return (v : fvalue)
| Partial (v : fvalue) (p : fpos)
| ParseErr (idx : nat)
| Crash (why : nat)          (* 2 stuck during parsing, 3/4 bad entry point *)
| Fuel.

Section F.
Variable t : list nat.
Let m := lc_map t 1 0.
Let len := length t.

(* position(index) of _finalize_parse_info *)
Definition fin_pos (i : Z) : fpos :=
  if ((0 <=? i) && (i <? Z.of_nat len))%Z then (i, nth_error m (Z.to_nat i)) else (i, None).

Fixpoint finalize (v : value) : fvalue :=
  match v with
  | VNone => FNone | VBool b => FBoolV b | VStr s => FStr s | VInt n => FNat n
  | VList l => FList (map finalize l)
  | VTuple l => FTup (map finalize l)
  | VNode k l => FNode k (map finalize l)
  | VObj c fs (s, e) => FObj c (map finalize fs) (fin_pos (Z.of_nat s), fin_pos (Z.of_nat e - 1)%Z)
  | VLit sl _ => FStr sl
  | VFun _ | VErr _ | VRule _ | VClos _ _ => FOther
  end.
End F.

Definition parse_model (lf : bool) (g funs : list (list nat * expr)) (ignored : option nat) (t : list nat)
           (rx : nat -> nat -> option nat) (fuel : nat) (entry : nat) (p : nat) (fullparse : bool) : outcome :=
  match nth_error g entry with
  | None => Crash 3
  | Some (_ :: _, _) => Crash 4
  | Some ([], b) =>
    match exec lf g funs ignored t rx fuel b (fresh p) with
    | OutOfFuel => Fuel
    | Stuck _ => Crash 2
    | Done s =>
      if status s then
        let fv := finalize t (result s) in
        if fullparse && Nat.ltb (pos s) (length t)
        then Partial fv (fin_pos t (Z.of_nat (pos s)))
        else Return fv
      else ParseErr (pos s)
    end
  end.
