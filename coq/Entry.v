(* parse(text, pos, fullparse) — the tail of
   _run and _finalize_parse_info (translator.py:654-681, 800-819) on top of
   ExecDraft2: the three outcomes, span finalisation, and the crash cases. *)
From Coq Require Import List Arith Bool Lia ZArith.
Import ListNotations.
Require Import ExcerptModel Model.

(* a finalised position: index may be -1 (Python's negative indexing of `end - 1`) *)
Definition fpos : Type := (Z * nat * nat).
Inductive fvalue :=
| FNone | FBoolV (b : bool) | FStr (s : list nat) | FNat (n : nat)
| FList (l : list fvalue) | FTup (l : list fvalue)
| FObj (cls : nat) (fields : list fvalue) (sp : fpos * fpos)
| FNode (k : nat) (l : list fvalue)
| FOther.

Inductive outcome :=
| Return (v : fvalue)
| Partial (v : fvalue) (p : fpos)
| ParseErr (idx : nat)
| Crash (why : nat)          (* 1 IndexError, 2 stuck during parsing *)
| Fuel.

Section F.
Variable t : list nat.
Let m := lc_map t 1 0.
Let len := length t.

(* line_numbers[i] with Python list indexing: negative indices wrap, out of range raises *)
Definition py_index (i : Z) : option (nat * nat) :=
  if (0 <=? i)%Z then nth_error m (Z.to_nat i)
  else if (- Z.of_nat len <=? i)%Z then nth_error m (Z.to_nat (Z.of_nat len + i))
  else None.

Definition fin_pos (i : Z) : option fpos :=
  match py_index i with Some (l, c) => Some (i, l, c) | None => None end.

Fixpoint finalize (v : value) : option fvalue :=
  match v with
  | VNone => Some FNone | VBool b => Some (FBoolV b) | VStr s => Some (FStr s) | VInt n => Some (FNat n)
  | VList l => option_map FList
      ((fix go (l : list value) : option (list fvalue) :=
          match l with [] => Some [] | x :: l' =>
            match finalize x, go l' with Some a, Some r => Some (a :: r) | _, _ => None end end) l)
  | VTuple l => option_map FTup
      ((fix go (l : list value) : option (list fvalue) :=
          match l with [] => Some [] | x :: l' =>
            match finalize x, go l' with Some a, Some r => Some (a :: r) | _, _ => None end end) l)
  | VNode k l => option_map (FNode k)
      ((fix go (l : list value) : option (list fvalue) :=
          match l with [] => Some [] | x :: l' =>
            match finalize x, go l' with Some a, Some r => Some (a :: r) | _, _ => None end end) l)
  | VObj c fs (s, e) =>
      match fin_pos (Z.of_nat s), fin_pos (Z.of_nat e - 1)%Z,
            (fix go (l : list value) : option (list fvalue) :=
               match l with [] => Some [] | x :: l' =>
                 match finalize x, go l' with Some a, Some r => Some (a :: r) | _, _ => None end end) fs with
      | Some a, Some b, Some fs' => Some (FObj c fs' (a, b))
      | _, _, _ => None
      end
  | VLit sl _ => Some (FStr sl)
  | VFun _ | VErr _ | VRule _ | VClos _ _ => Some FOther
  end.
End F.

Definition parse_model (lf : bool) (g funs : list (list nat * expr)) (named : bool) (ignored : option nat) (t : list nat)
           (rx : nat -> nat -> option nat) (fuel : nat) (entry : nat) (p : nat) (fullparse : bool) : outcome :=
  match nth_error g entry with
  | None => Crash 3
  | Some (_ :: _, _) => Crash 4
  | Some ([], b) =>
    match exec lf g funs named ignored t rx fuel b (fresh p) with
    | OutOfFuel => Fuel
    | Stuck _ => Crash 2
    | Done s =>
      if status s then
        match finalize t (result s) with
        | None => Crash 1
        | Some fv =>
          if fullparse && Nat.ltb (pos s) (length t)
          then match fin_pos t (Z.of_nat (pos s)) with
               | Some fp => Partial fv fp
               | None => Crash 1
               end
          else Return fv
        end
      else ParseErr (pos s)
    end
  end.
