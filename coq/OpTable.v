(* C02: the shunting-yard loop of
   OperatorTable._compile (operator_table.py:83-166) over a token list,
   reproducing the two observed defects by vm_compute, and the statement of
   the yield invariant. *)
From Coq Require Import List Arith Bool Lia.
Import ListNotations.

Inductive assoc := APrefix | ALeft | ARight | AInfix | APostfix.
Definition assoc_id (a : assoc) : nat :=
  match a with APrefix => 0 | ALeft => 1 | ARight => 2 | AInfix => 3 | APostfix => 4 end.

Definition row : Type := (assoc * list nat).      (* operator spellings are numbers *)
Definition table := list row.

Inductive tok := TOpd (v : nat) | TOp (name : nat).
Inductive tree := Opd (v : nat) | Pre (o : nat) (t : tree) | Post (t : tree) (o : nat) | Inf (l : tree) (o : nat) (r : tree).

Definition opentry : Type := (nat * nat * nat).     (* precedence, assoc id, name *)

Definition is_prefix_row (a : assoc) := match a with APrefix => true | _ => false end.
Definition is_postfix_row (a : assoc) := match a with APostfix => true | _ => false end.
Definition is_infix_row (a : assoc) := match a with ALeft | ARight | AInfix => true | _ => false end.

(* Longest over rows of one kind: tokens have equal length, so first row wins *)
Fixpoint find_row (kind : assoc -> bool) (tb : table) (prec : nat) (name : nat) : option opentry :=
  match tb with
  | [] => None
  | (a, names) :: tb' =>
      if kind a && existsb (Nat.eqb name) names then Some (prec, assoc_id a, name)
      else find_row kind tb' (S prec) name
  end.

Section Loop.
Variable tb : table.
Variable toks : list tok.
Variable opd_partial : bool.     (* operands.can_partially_succeed() *)
Variable inf_partial : bool.     (* infixes.can_partially_succeed()  *)
Variable fix_nonassoc : bool.    (* false = as shipped *)

Definition parse_op (kind : assoc -> bool) (p : nat) : option (opentry * nat) :=
  match nth_error toks p with
  | Some (TOp n) => match find_row kind tb 0 n with Some e => Some (e, S p) | None => None end
  | _ => None
  end.
Definition parse_opd (p : nat) : option (nat * nat) :=
  match nth_error toks p with Some (TOpd v) => Some (v, S p) | _ => None end.

Record st := MK { opds : list tree; ops : list opentry; marker : nat; outer : nat; pos : nat }.

Definition pop_operator (s : st) : st :=
  match ops s, opds s with
  | (_, is_infix, o) :: ops', r :: opds' =>
      if Nat.eqb is_infix 0 then MK (Pre o r :: opds') ops' (marker s) (outer s) (pos s)
      else match opds' with
           | l :: opds'' => MK (Inf l o r :: opds'') ops' (marker s) (outer s) (pos s)
           | [] => s      (* IndexError in Python; unreachable under the invariant *)
           end
  | _, _ => s
  end.

Fixpoint prefixes (k : nat) (s : st) : st :=
  match k with 0 => s | S k =>
    match parse_op is_prefix_row (pos s) with
    | Some (e, p') => prefixes k (MK (opds s) (e :: ops s) (marker s) (outer s) p')
    | None => s
    end end.

Fixpoint pop_while (k : nat) (cond : opentry -> bool) (s : st) : st :=
  match k with 0 => s | S k =>
    match ops s with
    | e :: _ => if cond e then pop_while k cond (pop_operator s) else s
    | [] => s
    end end.

Fixpoint postfixes (k : nat) (s : st) : st :=
  match k with 0 => s | S k =>
    match parse_op is_postfix_row (pos s) with
    | Some ((prec, _, name), p') =>
        let s1 := pop_while (length (ops s)) (fun e => Nat.ltb (fst (fst e)) prec) s in
        match opds s1 with
        | t :: rest => postfixes k (MK (Post t name :: rest) (ops s1) (marker s1) (outer s1) p')
        | [] => s1
        end
    | None => s
    end end.

(* the precedence loop after an infix operator; returns (state, conflict?) *)
Fixpoint prec_loop (k : nat) (prec : nat) (s : st) : st * bool :=
  match k with 0 => (s, false) | S k =>
    match ops s with
    | (tp, ta, _) :: _ =>
        if Nat.ltb tp prec || (Nat.eqb tp prec && Nat.eqb ta 1) then prec_loop k prec (pop_operator s)
        else if Nat.eqb tp prec && Nat.eqb ta 3 then (MK (opds s) (ops s) (marker s) (outer s) (outer s), true)
        else (s, false)
    | [] => (s, false)
    end end.

Definition has_infix := existsb (fun r => is_infix_row (fst r)) tb.

Fixpoint main (k : nat) (s : st) : st :=
  match k with 0 => s | S k =>
    let s := prefixes (length toks + 1) s in
    match parse_opd (pos s) with
    | None =>
        if opd_partial && negb (match opds s with [] => true | _ => false end)
        then MK (opds s) (ops s) (marker s) (outer s) (outer s) else s
    | Some (v, p') =>
        let s := MK (Opd v :: opds s) (ops s) (marker s) (outer s) p' in
        let s := postfixes (length toks + 1) s in
        let s := MK (opds s) (ops s) (length (ops s)) (pos s) (pos s) in
        if negb has_infix then s else
        match parse_op is_infix_row (pos s) with
        | None =>
            if inf_partial && negb (match opds s with [] => true | _ => false end)
            then MK (opds s) (ops s) (marker s) (outer s) (outer s) else s
        | Some ((prec, a, name), p') =>
            let s := MK (opds s) (ops s) (marker s) (outer s) p' in
            let '(s, conflict) := prec_loop (length (ops s) + 1) prec s in
            if conflict && fix_nonassoc then s            (* repaired: leave the outer loop *)
            else
              let s := MK (opds s) ((prec, a, name) :: ops s) (length (ops s)) (outer s) (pos s) in
              main k s
        end
    end end.

Definition finish (s : st) : option (tree * nat) :=
  match opds s with
  | [] => None
  | _ =>
    (* operator_stack[:marker] keeps the marker oldest entries = the last `marker` of our list *)
    let keep := skipn (length (ops s) - marker s) (ops s) in
    let s := MK (opds s) keep (marker s) (outer s) (pos s) in
    let s := pop_while (length keep) (fun _ => true) s in
    match rev (opds s) with t :: _ => Some (t, pos s) | [] => None end
  end.

Definition run : option (tree * nat) :=
  finish (main (length toks + 1) (MK [] [] 0 0 0)).
End Loop.

(* in-order reading *)
Fixpoint yield (t : tree) : list tok :=
  match t with
  | Opd v => [TOpd v]
  | Pre o t => TOp o :: yield t
  | Post t o => yield t ++ [TOp o]
  | Inf l o r => yield l ++ TOp o :: yield r
  end.

Definition tok_eqb (a b : tok) : bool :=
  match a, b with
  | TOpd x, TOpd y => Nat.eqb x y
  | TOp x, TOp y => Nat.eqb x y
  | _, _ => false
  end.
Fixpoint toks_eqb (a b : list tok) : bool :=
  match a, b with
  | [], [] => true
  | x :: a', y :: b' => tok_eqb x y && toks_eqb a' b'
  | _, _ => false
  end.

(* C02_yield as a boolean: the tree reads back exactly the consumed tokens *)
Definition yield_ok (tb : table) (toks : list tok) (op ip fx : bool) : bool :=
  match run tb toks op ip fx with
  | Some (t, e) => toks_eqb (yield t) (firstn e toks)
  | None => true
  end.

Definition MINUS := 1. Definition PLUS := 2. Definition PCT := 3. Definition STAR := 4. Definition HAT := 5.

(* D4: prefix "-" and non-associative infix "-":  1 - 2 - 3 *)
Definition tb4 : table := [(APrefix, [MINUS]); (AInfix, [MINUS])].
Definition in4 := [TOpd 1; TOp MINUS; TOpd 2; TOp MINUS; TOpd 3].
Example D4_refuted : yield_ok tb4 in4 true true false = false.
Proof. vm_compute. reflexivity. Qed.
Example D4_repaired : run tb4 in4 true true true = Some (Inf (Opd 1) MINUS (Opd 2), 3).
Proof. vm_compute. reflexivity. Qed.

(* D5: literal operand (cannot partially succeed), dangling operator: 1 + *)
Definition tb5 : table := [(ALeft, [PLUS])].
Definition in5 := [TOpd 1; TOp PLUS].
Example D5_refuted : yield_ok tb5 in5 false false false = false.
Proof. vm_compute. reflexivity. Qed.

(* the arithmetic table of the test-suite: prefix +,- ; right ^ ; postfix % ; left *,/ ; left +,- *)
Definition tbA : table :=
  [(APrefix, [PLUS; MINUS]); (ARight, [HAT]); (APostfix, [PCT]); (ALeft, [STAR]); (ALeft, [PLUS; MINUS])].
(* 12 * 34 ^ 56 ^ 78 - 90 *)
(* -+-456%%% *)

(* exhaustive sanity sweep of the yield statement over all token strings of length <= 6
   (a test of the statement, not the theorem) *)
Fixpoint all_toks (alphabet : list tok) (n : nat) : list (list tok) :=
  match n with
  | 0 => [[]]
  | S n => [] :: flat_map (fun w => map (fun a => a :: w) alphabet) (all_toks alphabet n)
  end.
Definition alphaA := [TOpd 1; TOp PLUS; TOp MINUS; TOp PCT; TOp STAR; TOp HAT].
Example yield_sweep_repaired :
  forallb (fun w => yield_ok tbA w true true true) (all_toks alphaA 6) = true.
Proof. vm_compute. reflexivity. Qed.
Example yield_sweep_tb4_repaired :
  forallb (fun w => yield_ok tb4 w true true true) (all_toks [TOpd 1; TOp MINUS] 8) = true.
Proof. vm_compute. reflexivity. Qed.

(* ------------------------------------------------------------------ *)
(* The yield invariant (C02_yield) for the repaired loop.              *)
(* Stacks are read back top-down, so that pushes are computation steps. *)
(* ------------------------------------------------------------------ *)

Fixpoint rbB (opds : list tree) (ops : list opentry) : list tok :=
  match ops with
  | [] => []
  | (_, a, o) :: ops' =>
      if Nat.eqb a 0 then rbB opds ops' ++ [TOp o]
      else match opds with
           | l :: opds' => rbB opds' ops' ++ yield l ++ [TOp o]
           | [] => []
           end
  end.
Definition rbA (opds : list tree) (ops : list opentry) : list tok :=
  match opds with t :: opds' => rbB opds' ops ++ yield t | [] => [] end.

Definition is_inf (e : opentry) := negb (Nat.eqb (snd (fst e)) 0).
Definition n_infix (ops : list opentry) := length (filter is_inf ops).
Definition balA (opds : list tree) (ops : list opentry) := length opds = S (n_infix ops).

Lemma pop_rbA s :
  balA (opds s) (ops s) -> ops s <> [] ->
  rbA (opds (pop_operator s)) (ops (pop_operator s)) = rbA (opds s) (ops s)
  /\ balA (opds (pop_operator s)) (ops (pop_operator s))
  /\ length (ops (pop_operator s)) < length (ops s)
  /\ marker (pop_operator s) = marker s /\ outer (pop_operator s) = outer s /\ pos (pop_operator s) = pos s.
Proof.
  destruct s as [od op mk ou p]. cbn [opds ops marker outer pos]. intros Hb Hne.
  destruct op as [|[[pr a] o] op']; [congruence|]. clear Hne.
  unfold balA, n_infix in Hb. cbn [filter] in Hb. unfold is_inf at 1 in Hb. cbn [fst snd] in Hb.
  unfold pop_operator. cbn [opds ops marker outer pos].
  destruct od as [|r od']; [cbn in Hb; destruct (negb (a =? 0)); discriminate|].
  destruct (Nat.eqb a 0) eqn:Ea.
  - cbn [negb] in Hb. cbn [opds ops marker outer pos]. repeat split; auto.
    cbn [rbA rbB yield]. rewrite Ea. rewrite <- app_assoc. reflexivity.
  - cbn [negb length] in Hb. destruct od' as [|l od'']; [cbn in Hb; lia|].
    cbn [opds ops marker outer pos]. repeat split; auto.
    + cbn [rbA rbB yield]. rewrite Ea. rewrite <- !app_assoc. reflexivity.
    + unfold balA, n_infix. cbn [length] in *. lia.
Qed.

Lemma pop_while_rbA : forall k cond s,
  balA (opds s) (ops s) ->
  rbA (opds (pop_while k cond s)) (ops (pop_while k cond s)) = rbA (opds s) (ops s)
  /\ balA (opds (pop_while k cond s)) (ops (pop_while k cond s))
  /\ marker (pop_while k cond s) = marker s /\ outer (pop_while k cond s) = outer s
  /\ pos (pop_while k cond s) = pos s.
Proof.
  induction k as [|k IH]; intros cond s Hb; cbn [pop_while]; [auto|].
  destruct (ops s) as [|e op'] eqn:Eo; [rewrite Eo; auto|].
  rewrite <- Eo in *. destruct (cond e); [|auto].
  destruct (pop_rbA s Hb) as (H1 & H2 & _ & H4 & H5 & H6); [congruence|].
  destruct (IH cond (pop_operator s) H2) as (J1 & J2 & J4 & J5 & J6).
  repeat split; congruence.
Qed.

Lemma pop_all_single : forall k s,
  balA (opds s) (ops s) -> length (ops s) <= k ->
  exists t, opds (pop_while k (fun _ => true) s) = [t] /\ ops (pop_while k (fun _ => true) s) = []
            /\ yield t = rbA (opds s) (ops s).
Proof.
  assert (Hnil : forall s, balA (opds s) (ops s) -> ops s = [] ->
                 exists t, opds s = [t] /\ ops s = [] /\ yield t = rbA (opds s) (ops s)).
  { intros s Hb Eo. unfold balA, n_infix in Hb. rewrite Eo in *. cbn in Hb.
    destruct (opds s) as [|t [|]] eqn:Ed; cbn in Hb; try lia. exists t. cbn. auto. }
  induction k as [|k IH]; intros s Hb Hk.
  - cbn [pop_while]. apply Hnil; auto. destruct (ops s); auto. cbn in Hk. lia.
  - cbn [pop_while]. destruct (ops s) as [|e op'] eqn:Eo.
    + rewrite <- Eo in *. apply Hnil; auto.
    + rewrite <- Eo in *.
      destruct (pop_rbA s Hb) as (H1 & H2 & H3 & _); [congruence|].
      destruct (IH (pop_operator s) H2) as (t & T1 & T2 & T3); [rewrite Eo in *; cbn in *; lia|].
      exists t. repeat split; auto. congruence.
Qed.

(* ------------------------------------------------------------------ *)
(* C02_yield for the repaired loop: the position is always restored to *)
(* the outer checkpoint when the run ends, and a non-associative       *)
(* conflict ends the run.                                               *)
(* ------------------------------------------------------------------ *)
Section Yield.
Variable tb : table.
Variable toks : list tok.

Definition set_pos (s : st) (p : nat) := MK (opds s) (ops s) (marker s) (outer s) p.
Definition nonempty {A} (l : list A) := match l with [] => false | _ => true end.

Fixpoint main2 (k : nat) (s : st) : option st :=
  match k with 0 => None | S k =>
    let s := prefixes tb toks (length toks + 1) s in
    match parse_opd toks (pos s) with
    | None => Some (if nonempty (opds s) then set_pos s (outer s) else s)
    | Some (v, p') =>
        let s := MK (Opd v :: opds s) (ops s) (marker s) (outer s) p' in
        let s := postfixes tb toks (length toks + 1) s in
        let s := MK (opds s) (ops s) (length (ops s)) (pos s) (pos s) in
        if negb (has_infix tb) then Some s else
        match parse_op tb toks is_infix_row (pos s) with
        | None => Some s
        | Some ((prec, a, name), p') =>
            let '(s1, conflict) := prec_loop (length (ops s) + 1) prec (set_pos s p') in
            if conflict then Some s1
            else main2 k (MK (opds s1) ((prec, a, name) :: ops s1) (length (ops s1)) (outer s1) (pos s1))
        end
    end end.

Lemma firstn_snoc {A} (l : list A) : forall p x, nth_error l p = Some x -> firstn (S p) l = firstn p l ++ [x].
Proof.
  induction l as [|y l IH]; intros [|p] x H; cbn in *; try discriminate.
  - inversion H; reflexivity.
  - f_equal. apply IH; auto.
Qed.

Lemma find_row_spec kind : forall t0 p0 n e, find_row kind t0 p0 n = Some e ->
  snd e = n /\ exists a, snd (fst e) = assoc_id a /\ kind a = true.
Proof.
  induction t0 as [|[a names] t0 IH]; intros p0 n e H; cbn in H; [discriminate|].
  destruct (kind a && existsb (Nat.eqb n) names) eqn:E.
  - inversion H; subst. cbn. split; auto. exists a. apply andb_true_iff in E. tauto.
  - eapply IH; eauto.
Qed.

Lemma parse_op_spec kind p e p' : parse_op tb toks kind p = Some (e, p') ->
  p' = S p /\ nth_error toks p = Some (TOp (snd e)) /\ exists a, snd (fst e) = assoc_id a /\ kind a = true.
Proof.
  unfold parse_op. destruct (nth_error toks p) as [[v|n]|] eqn:E; try discriminate.
  destruct (find_row kind tb 0 n) as [e0|] eqn:F; [|discriminate].
  intros H. inversion H; subst. destruct (find_row_spec _ _ _ _ _ F) as (A & B). rewrite A. auto.
Qed.

Definition IA (s : st) := balA (opds s) (ops s) /\ rbA (opds s) (ops s) = firstn (pos s) toks.
Definition committed (s : st) :=
  opds s = [] \/
  (marker s <= length (ops s) /\
   balA (opds s) (skipn (length (ops s) - marker s) (ops s)) /\
   rbA (opds s) (skipn (length (ops s) - marker s) (ops s)) = firstn (outer s) toks).
Definition IB (s : st) :=
  length (opds s) = n_infix (ops s) /\ rbB (opds s) (ops s) = firstn (pos s) toks /\ committed s.

Lemma prefixes_IB : forall k s, IB s -> IB (prefixes tb toks k s).
Proof.
  induction k as [|k IH]; intros s H; cbn [prefixes]; auto.
  destruct (parse_op tb toks is_prefix_row (pos s)) as [[e p']|] eqn:E; auto.
  apply IH. destruct (parse_op_spec _ _ _ _ E) as (Hp & Hn & a & Ha & Hk).
  destruct a; cbn in Hk; try discriminate. cbn in Ha.
  destruct e as [[pr ai] nm]. cbn in Ha, Hn. subst ai p'.
  destruct H as (Hb & Hr & Hc). unfold IB. cbn [opds ops pos marker outer].
  split; [|split].
  - unfold n_infix in *. cbn [filter]. unfold is_inf at 1. cbn. exact Hb.
  - cbn [rbB]. cbn. rewrite Hr. symmetry. apply firstn_snoc. exact Hn.
  - unfold committed in *. cbn [opds ops marker outer pos].
    destruct Hc as [Hc|(Hm & Hba & Hra)]; [left; exact Hc|right].
    cbn [length]. replace (S (length (ops s)) - marker s) with (S (length (ops s) - marker s)) by lia.
    cbn [skipn]. repeat split; auto.
Qed.

Lemma postfixes_IA : forall k s, IA s -> IA (postfixes tb toks k s).
Proof.
  induction k as [|k IH]; intros s H; cbn [postfixes]; auto.
  destruct (parse_op tb toks is_postfix_row (pos s)) as [[[[prec ai] name] p']|] eqn:E; auto.
  destruct (parse_op_spec _ _ _ _ E) as (Hp & Hn & _). cbn in Hn. subst p'.
  destruct H as (Hb & Hr).
  destruct (pop_while_rbA (length (ops s)) (fun e => fst (fst e) <? prec) s Hb) as (R1 & R2 & _ & _ & R5).
  set (s1 := pop_while (length (ops s)) (fun e => fst (fst e) <? prec) s) in *.
  destruct (opds s1) as [|t rest] eqn:Eo.
  - unfold balA in R2. cbn in R2. lia.
  - apply IH. unfold IA. cbn [opds ops pos].
    split.
    + unfold balA in *. cbn [length] in *. exact R2.
    + cbn [rbA yield]. rewrite app_assoc.
      assert (Hx : rbB rest (ops s1) ++ yield t = firstn (pos s) toks).
      { rewrite <- Hr, <- R1. reflexivity. }
      rewrite Hx. symmetry. apply firstn_snoc. exact Hn.
Qed.

Lemma prec_loop_ok : forall k prec s, balA (opds s) (ops s) ->
  rbA (opds (fst (prec_loop k prec s))) (ops (fst (prec_loop k prec s))) = rbA (opds s) (ops s)
  /\ balA (opds (fst (prec_loop k prec s))) (ops (fst (prec_loop k prec s)))
  /\ outer (fst (prec_loop k prec s)) = outer s
  /\ marker (fst (prec_loop k prec s)) = marker s
  /\ length (ops (fst (prec_loop k prec s))) <= length (ops s)
  /\ (snd (prec_loop k prec s) = false -> pos (fst (prec_loop k prec s)) = pos s)
  /\ (snd (prec_loop k prec s) = true -> pos (fst (prec_loop k prec s)) = outer s).
Proof.
  induction k as [|k IH]; intros prec s Hb; cbn [prec_loop].
  - cbn. repeat split; auto. discriminate.
  - destruct (ops s) as [|[[tp ta] nm] ops'] eqn:Eo.
    + cbn. rewrite Eo. repeat split; auto. discriminate.
    + rewrite <- Eo in *.
      destruct ((tp <? prec) || (tp =? prec) && (ta =? 1)) eqn:E1.
      * destruct (pop_rbA s Hb) as (P1 & P2 & P3 & P4 & P5 & P6); [congruence|].
        destruct (IH prec (pop_operator s) P2) as (Q1 & Q2 & Q3 & Q4 & Q5 & Q6 & Q7).
        repeat split; try congruence; try lia.
        -- intros Hc. rewrite (Q6 Hc). exact P6.
        -- intros Hc. rewrite (Q7 Hc). exact P5.
      * destruct ((tp =? prec) && (ta =? 3)) eqn:E2; cbn [fst snd opds ops outer marker pos].
        -- repeat split; auto; try discriminate.
        -- repeat split; auto. discriminate.
Qed.

Lemma finish_ok sf t e :
  balA (opds sf) (skipn (length (ops sf) - marker sf) (ops sf)) ->
  rbA (opds sf) (skipn (length (ops sf) - marker sf) (ops sf)) = firstn (pos sf) toks ->
  finish sf = Some (t, e) -> yield t = firstn e toks.
Proof.
  intros Hb Hr Hf. unfold finish in Hf.
  destruct (opds sf) as [|o0 os] eqn:Eo; [discriminate|]. rewrite <- Eo in *.
  set (keep := skipn (length (ops sf) - marker sf) (ops sf)) in *.
  destruct (pop_all_single (length keep) (MK (opds sf) keep (marker sf) (outer sf) (pos sf))) as (t' & T1 & T2 & T3);
    [exact Hb | cbn; lia |].
  cbn [opds ops] in T3. rewrite T1 in Hf. cbn in Hf.
  assert (Hpos : forall k c s, pos (pop_while k c s) = pos s).
  { induction k as [|k IHk]; intros c s0; cbn [pop_while]; auto.
    destruct (ops s0) as [|e0 o']; auto. destruct (c e0); auto. rewrite IHk.
    unfold pop_operator. destruct (ops s0) as [|[[a b] c0] o2]; auto.
    destruct (opds s0) as [|r od]; auto. destruct (b =? 0); auto. destruct od; auto. }
  inversion Hf; subst. rewrite Hpos. cbn [pos]. rewrite T3. exact Hr.
Qed.

Theorem main2_yield : forall k s sf t e,
  IB s -> main2 k s = Some sf -> finish sf = Some (t, e) -> yield t = firstn e toks.
Proof.
  induction k as [|k IH]; intros s sf t e HIB Hm Hf; [discriminate|].
  cbn [main2] in Hm.
  pose proof (prefixes_IB (length toks + 1) s HIB) as HP.
  set (s1 := prefixes tb toks (length toks + 1) s) in *.
  destruct (parse_opd toks (pos s1)) as [[v p']|] eqn:Eopd.
  - (* an operand *)
    assert (Hn : nth_error toks (pos s1) = Some (TOpd v) /\ p' = S (pos s1)).
    { unfold parse_opd in Eopd. destruct (nth_error toks (pos s1)) as [[v0|n0]|]; try discriminate.
      inversion Eopd; subst; auto. }
    destruct Hn as (Hn & ->). destruct HP as (Hb & Hr & _).
    assert (HA : IA (MK (Opd v :: opds s1) (ops s1) (marker s1) (outer s1) (S (pos s1)))).
    { split; cbn [opds ops pos].
      - unfold balA. cbn [length]. rewrite Hb. reflexivity.
      - cbn [rbA yield]. rewrite Hr. symmetry. apply firstn_snoc. exact Hn. }
    pose proof (postfixes_IA (length toks + 1) _ HA) as HA2.
    set (s2 := postfixes tb toks (length toks + 1) _) in *.
    set (s3 := MK (opds s2) (ops s2) (length (ops s2)) (pos s2) (pos s2)) in *.
    assert (H3 : balA (opds s3) (ops s3) /\ rbA (opds s3) (ops s3) = firstn (pos s3) toks) by exact HA2.
    assert (Hfin3 : forall t e, finish s3 = Some (t, e) -> yield t = firstn e toks).
    { intros t0 e0. apply finish_ok; cbn [opds ops marker pos s3]; rewrite Nat.sub_diag; cbn [skipn]; apply HA2. }
    destruct (negb (has_infix tb)); [inversion Hm; subst; eauto|].
    destruct (parse_op tb toks is_infix_row (pos s3)) as [[[[prec a] name] p'']|] eqn:Einf;
      [|inversion Hm; subst; eauto].
    destruct (parse_op_spec _ _ _ _ Einf) as (Hp & Hn2 & a0 & Ha0 & Hk0). cbn in Hn2, Ha0. subst p''.
    assert (Hb4 : balA (opds (set_pos s3 (S (pos s3)))) (ops (set_pos s3 (S (pos s3))))) by apply H3.
    destruct (prec_loop_ok (length (ops s3) + 1) prec (set_pos s3 (S (pos s3))) Hb4) as (Q1 & Q2 & Q3 & Q4 & Q5 & Q6 & Q7).
    destruct (prec_loop (length (ops s3) + 1) prec (set_pos s3 (S (pos s3)))) as [s4 conflict] eqn:Epl.
    cbn [fst snd] in *. cbn [set_pos opds ops outer marker pos s3] in Q1, Q3, Q4, Q5, Q6, Q7.
    destruct conflict.
    + (* non-associative conflict: the run ends at the outer checkpoint *)
      inversion Hm; subst sf. eapply finish_ok; eauto.
      * replace (length (ops s4) - marker s4) with 0 by lia. exact Q2.
      * replace (length (ops s4) - marker s4) with 0 by lia. cbn [skipn].
        rewrite Q1, (Q7 eq_refl). apply HA2.
    + (* push the operator and go round again *)
      eapply IH; [|exact Hm|exact Hf].
      unfold IB. cbn [opds ops pos marker outer].
      assert (Hinf : is_inf (prec, a, name) = true).
      { unfold is_inf. cbn. rewrite Ha0. destruct a0; cbn in *; try discriminate; reflexivity. }
      split; [|split].
      * unfold n_infix. cbn [filter]. rewrite Hinf. cbn [length]. exact Q2.
      * cbn [rbB]. unfold is_inf in Hinf. cbn in Hinf. apply negb_true_iff in Hinf. rewrite Hinf.
        unfold balA in Q2. destruct (opds s4) as [|l od] eqn:Eo4; [cbn in Q2; discriminate|].
        rewrite app_assoc. cbn [rbA] in Q1. rewrite Q1. rewrite (Q6 eq_refl).
        destruct HA2 as (_ & HR). cbn [opds ops pos] in HR. rewrite HR.
        symmetry. apply firstn_snoc. exact Hn2.
      * right. unfold committed. cbn [opds ops marker outer pos length].
        replace (S (length (ops s4)) - length (ops s4)) with 1 by lia. cbn [skipn].
        split; [lia|]. split; [exact Q2|]. rewrite Q1, Q3. apply HA2.
  - (* no operand: the run ends; restore to the outer checkpoint *)
    destruct HP as (Hb & Hr & Hc).
    destruct (opds s1) as [|o0 os] eqn:Eo.
    + cbn [nonempty] in Hm. inversion Hm; subst sf. unfold finish in Hf. rewrite Eo in Hf. discriminate.
    + cbn [nonempty] in Hm. inversion Hm; subst sf.
      unfold committed in Hc. rewrite Eo in Hc. destruct Hc as [Hc|(Hc1 & Hc2 & Hc3)]; [discriminate|].
      eapply finish_ok; eauto; cbn [set_pos opds ops marker pos]; rewrite ?Eo; auto.
Qed.

End Yield.

(* from the initial state: whatever the repaired loop returns reads back as
   exactly the tokens it consumed *)
Corollary run2_yield tb toks k sf t e :
  main2 tb toks k (MK [] [] 0 0 0) = Some sf -> finish sf = Some (t, e) -> yield t = firstn e toks.
Proof.
  apply main2_yield. unfold IB. cbn. repeat split; auto. left. reflexivity.
Qed.
