(* C02: the tree returned by the operator-table loop respects precedence and
   associativity — for EVERY table and EVERY token sequence (no bound).

   The statement is declarative (no reference parser): [pok tb t] says that at
   every node of t the operators on the facing spines of the children bind
   tighter than the node's operator, or as tight on the side its associativity
   allows:
     Inf l o r  (row q, associativity a): every operator on the RIGHT spine of l
                 (through right operands of infix nodes and operands of prefix
                 nodes; a postfix node closes the spine) sits in a row q' < q, or
                 q' = q when a = left;  every operator on the LEFT spine of r
                 (through left operands of infix nodes and operands of postfix
                 nodes; a prefix node closes the spine) sits in a row q' < q, or
                 q' = q when a = right.  For a non-associative row neither side may
                 hold an operator of the same row: such operators are never chained.
     Pre o r    (row q): every operator on the left spine of r sits in a row q' < q.
     Post l o   (row q): every operator on the right spine of l sits in a row q' < q.
   Rows are looked up by the node's kind (a spelling shared between a prefix, an
   infix and a postfix row is resolved by where it stands), first row first.

   Together with C02_yield (the tree reads back as the consumed tokens) this is the
   "tree dictated by precedence and associativity"; uniqueness for tables without
   shared spellings is [pok_unique] below. *)
From Coq Require Import List Arith Bool Lia.
Import ListNotations.
Require Import OpTable.

Section Prec.
Variable tb : table.

Definition lk (kind : assoc -> bool) (o : nat) : option (nat * nat) :=
  match find_row kind tb 0 o with Some (q, a, _) => Some (q, a) | None => None end.

(* may an operator of row q' stand on the right spine of the LEFT operand of p = (row, assoc id)? *)
Definition okL (p : nat * nat) (q' : nat) : bool := (q' <? fst p) || ((q' =? fst p) && (snd p =? 1)).
(* ... on the left spine of the RIGHT operand of p? *)
Definition okR (p : nat * nat) (q' : nat) : bool := (q' <? fst p) || ((q' =? fst p) && (snd p =? 2)).

Fixpoint rsp (p : nat * nat) (t : tree) : bool :=
  match t with
  | Opd _ => true
  | Post _ _ => true
  | Pre o r => match lk is_prefix_row o with Some (q', _) => okL p q' && rsp p r | None => false end
  | Inf _ o r => match lk is_infix_row o with Some (q', _) => okL p q' && rsp p r | None => false end
  end.
Fixpoint lsp (p : nat * nat) (t : tree) : bool :=
  match t with
  | Opd _ => true
  | Pre _ _ => true
  | Post l o => match lk is_postfix_row o with Some (q', _) => okR p q' && lsp p l | None => false end
  | Inf l o _ => match lk is_infix_row o with Some (q', _) => okR p q' && lsp p l | None => false end
  end.
Fixpoint pok (t : tree) : bool :=
  match t with
  | Opd _ => true
  | Pre o r => match lk is_prefix_row o with Some p => pok r && lsp p r | None => false end
  | Post l o => match lk is_postfix_row o with Some p => pok l && rsp p l | None => false end
  | Inf l o r => match lk is_infix_row o with Some p => pok l && pok r && rsp p l && lsp p r | None => false end
  end.

(* ---- facts about the table lookup ---- *)
Lemma find_row_nth kind : forall t0 p0 n q ai nm, find_row kind t0 p0 n = Some (q, ai, nm) ->
  p0 <= q /\ nm = n /\ exists a names, nth_error t0 (q - p0) = Some (a, names) /\ ai = assoc_id a /\ kind a = true.
Proof.
  induction t0 as [|[a names] t0 IH]; intros p0 n q ai nm H; cbn [find_row] in H; [discriminate|].
  destruct (kind a && existsb (Nat.eqb n) names) eqn:E.
  - inversion H; subst. split; [lia|]. split; [reflexivity|]. exists a, names. rewrite Nat.sub_diag. cbn.
    apply andb_true_iff in E. tauto.
  - destruct (IH _ _ _ _ _ H) as (Hle & Hn & a' & names' & Hnth & Hai & Hk).
    split; [lia|]. split; [exact Hn|]. exists a', names'.
    replace (q - p0) with (S (q - S p0)) by lia. cbn [nth_error]. auto.
Qed.

Lemma lk_row kind o q a : lk kind o = Some (q, a) ->
  exists A names, nth_error tb q = Some (A, names) /\ a = assoc_id A /\ kind A = true.
Proof.
  unfold lk. destruct (find_row kind tb 0 o) as [[[q0 a0] nm]|] eqn:E; [|discriminate].
  intros H. inversion H; subst. destruct (find_row_nth _ _ _ _ _ _ _ E) as (_ & _ & A & names & Hn & Ha & Hk).
  rewrite Nat.sub_0_r in Hn. eauto.
Qed.

Lemma lk_same_row k1 k2 o1 o2 q a1 a2 : lk k1 o1 = Some (q, a1) -> lk k2 o2 = Some (q, a2) -> a1 = a2.
Proof.
  intros H1 H2. destruct (lk_row _ _ _ _ H1) as (A1 & n1 & E1 & -> & _).
  destruct (lk_row _ _ _ _ H2) as (A2 & n2 & E2 & -> & _). congruence.
Qed.

Lemma lk_prefix_id o q a : lk is_prefix_row o = Some (q, a) -> a = 0.
Proof. intros H. destruct (lk_row _ _ _ _ H) as (A & n & _ & -> & Hk). destruct A; cbn in *; congruence. Qed.
Lemma lk_postfix_id o q a : lk is_postfix_row o = Some (q, a) -> a = 4.
Proof. intros H. destruct (lk_row _ _ _ _ H) as (A & n & _ & -> & Hk). destruct A; cbn in *; congruence. Qed.
Lemma lk_infix_id o q a : lk is_infix_row o = Some (q, a) -> a = 1 \/ a = 2 \/ a = 3.
Proof. intros H. destruct (lk_row _ _ _ _ H) as (A & n & _ & -> & Hk). destruct A; cbn in *; auto; congruence. Qed.

Lemma parse_op_lk toks kind p q a nm p' : parse_op tb toks kind p = Some ((q, a, nm), p') ->
  lk kind nm = Some (q, a) /\ p' = S p /\ nth_error toks p = Some (TOp nm).
Proof.
  unfold parse_op. destruct (nth_error toks p) as [[v|n]|] eqn:E; try discriminate.
  destruct (find_row kind tb 0 n) as [[[q0 a0] n0]|] eqn:F; [|discriminate].
  intros H. inversion H; subst. destruct (find_row_nth _ _ _ _ _ _ _ F) as (_ & -> & _).
  unfold lk. rewrite F. auto.
Qed.

(* ---- the stack invariant ---- *)
(* an entry standing directly above the entry [below] (or above nothing) with left operand l *)
Definition fits_above (below : list opentry) (q : nat) (l : tree) : Prop :=
  match below with
  | [] => True
  | (q0, a0, _) :: _ => okR (q0, a0) q = true /\ lsp (q0, a0) l = true
  end.
(* an operand standing directly above the operators [below] *)
Definition top_fits (below : list opentry) (t : tree) : Prop :=
  match below with
  | [] => True
  | (q0, a0, _) :: _ => lsp (q0, a0) t = true
  end.

(* before an operand: every pending operator is a table entry of its kind; every pending infix
   operator has a well-formed left operand whose right spine it dominates, and it fits (with that
   operand) under the operator below *)
Fixpoint PB (opds : list tree) (ops : list opentry) : Prop :=
  match ops with
  | [] => opds = []
  | (q, a, o) :: ops' =>
      if Nat.eqb a 0 then lk is_prefix_row o = Some (q, a) /\ PB opds ops'
      else match opds with
           | l :: opds' => lk is_infix_row o = Some (q, a) /\ pok l = true /\ rsp (q, a) l = true
                           /\ fits_above ops' q l /\ PB opds' ops'
           | [] => False
           end
  end.
(* after an operand *)
Definition PA (opds : list tree) (ops : list opentry) : Prop :=
  match opds with
  | [] => False
  | t :: rest => pok t = true /\ top_fits ops t /\ PB rest ops
  end.

Definition top_rsp (p : nat * nat) (opds : list tree) : Prop :=
  match opds with t :: _ => rsp p t = true | [] => True end.
Definition okL' (po : option (nat * nat)) (q' : nat) : bool := match po with Some p => okL p q' | None => true end.
Definition top_rsp' (po : option (nat * nat)) (opds : list tree) : Prop :=
  match po with Some p => top_rsp p opds | None => True end.

Lemma pop_PA s po : PA (opds s) (ops s) -> ops s <> [] ->
  top_rsp' po (opds s) -> (match ops s with e :: _ => okL' po (fst (fst e)) = true | [] => True end) ->
  PA (opds (pop_operator s)) (ops (pop_operator s)) /\ top_rsp' po (opds (pop_operator s))
  /\ ops (pop_operator s) = tl (ops s)
  /\ marker (pop_operator s) = marker s /\ outer (pop_operator s) = outer s /\ pos (pop_operator s) = pos s.
Proof.
  destruct s as [od op mk ou ps]. cbn [opds ops marker outer pos]. intros HA Hne Hr Hc.
  destruct op as [|[[q a] o] op']; [congruence|]. clear Hne. cbn [fst] in Hc.
  destruct od as [|t rest]; [contradiction|]. destruct HA as (Ht & Hf & HB). cbn [top_fits] in Hf.
  cbn [PB] in HB. unfold pop_operator. cbn [opds ops marker outer pos].
  destruct (Nat.eqb a 0) eqn:Ea.
  - destruct HB as (Hl & HB). cbn [opds ops marker outer pos tl]. split; [|split; [|repeat split; auto]].
    + cbn [PA pok]. rewrite Hl, Ht, Hf. split; [reflexivity|]. split; [|exact HB].
      destruct op' as [|[[q0 a0] o0] op'']; cbn; auto.
    + destruct po as [p|]; [|exact I]. cbn [top_rsp' top_rsp okL' rsp] in *. rewrite Hl, Hc, Hr. reflexivity.
  - destruct rest as [|l rest']; [contradiction|]. destruct HB as (Hl & Hpl & Hrl & Hfa & HB).
    cbn [opds ops marker outer pos tl]. split; [|split; [|repeat split; auto]].
    + cbn [PA pok]. rewrite Hl, Hpl, Ht, Hrl, Hf. split; [reflexivity|]. split; [|exact HB].
      destruct op' as [|[[q0 a0] o0] op'']; cbn [top_fits]; auto. cbn [fits_above] in Hfa. destruct Hfa as (F1 & F2).
      cbn [lsp]. rewrite Hl, F1, F2. reflexivity.
    + destruct po as [p|]; [|exact I]. cbn [top_rsp' top_rsp okL' rsp] in *. rewrite Hl, Hc, Hr. reflexivity.
Qed.

Lemma pop_while_PA po : forall k cond s,
  PA (opds s) (ops s) -> top_rsp' po (opds s) ->
  (forall e, cond e = true -> okL' po (fst (fst e)) = true) ->
  let s' := pop_while k cond s in
  PA (opds s') (ops s') /\ top_rsp' po (opds s')
  /\ marker s' = marker s /\ outer s' = outer s /\ pos s' = pos s
  /\ (exists n, ops s' = skipn n (ops s))
  /\ (length (ops s) <= k -> match ops s' with e :: _ => cond e = false | [] => True end).
Proof.
  induction k as [|k IH]; intros cond s HA Hr Hc; cbv zeta; cbn [pop_while].
  - split; [exact HA|]. split; [exact Hr|]. do 3 (split; [reflexivity|]). split; [exists 0; reflexivity|].
    intros Hk. destruct (ops s); [auto|cbn in Hk; lia].
  - destruct (ops s) as [|e op'] eqn:Eo.
    + rewrite Eo. split; [exact HA|]. split; [exact Hr|]. do 3 (split; [reflexivity|]). split; [exists 0; reflexivity|].
      auto.
    + rewrite <- Eo in HA. destruct (cond e) eqn:Ec.
      * destruct (pop_PA s po HA) as (P1 & P2 & P3 & P4 & P5 & P6); [congruence|exact Hr|rewrite Eo; auto|].
        destruct (IH cond (pop_operator s) P1 P2 Hc) as (Q1 & Q2 & Q3 & Q4 & Q5 & (n & Q6) & Q7).
        split; [exact Q1|]. split; [exact Q2|]. split; [congruence|]. split; [congruence|]. split; [congruence|].
        split.
        -- exists (S n). rewrite Q6, P3, Eo. reflexivity.
        -- intros Hk. apply Q7. rewrite P3, Eo. cbn in *. lia.
      * split; [exact HA|]. split; [exact Hr|]. do 3 (split; [reflexivity|]). split; [exists 0; cbn [skipn]; exact Eo|].
        rewrite Eo. intros _. exact Ec.
Qed.

Definition closedR (opds : list tree) : Prop :=
  match opds with (Opd _ | Post _ _) :: _ => True | _ => False end.
Lemma closedR_rsp p od : closedR od -> top_rsp p od.
Proof. destruct od as [|[| | |] ?]; cbn; auto; contradiction. Qed.

Section Toks.
Variable toks : list tok.

Lemma prefixes_PB : forall k s, PB (opds s) (ops s) ->
  let s' := prefixes tb toks k s in
  PB (opds s') (ops s') /\ opds s' = opds s /\ marker s' = marker s /\ outer s' = outer s
  /\ exists pre, ops s' = pre ++ ops s.
Proof.
  induction k as [|k IH]; intros s H; cbn [prefixes].
  - repeat split; auto. exists []; reflexivity.
  - destruct (parse_op tb toks is_prefix_row (pos s)) as [[[[q a] nm] p']|] eqn:E.
    + destruct (parse_op_lk _ _ _ _ _ _ _ E) as (Hl & _ & _). pose proof (lk_prefix_id _ _ _ Hl) as ->.
      match goal with |- context [prefixes tb toks k ?S] => destruct (IH S) as (I1 & I2 & I3 & I4 & pre & I5) end.
      { cbn [opds ops PB]. cbn. auto. }
      cbn [opds ops marker outer] in *. repeat split; auto. exists (pre ++ [(q, 0, nm)]). rewrite <- app_assoc. exact I5.
    + repeat split; auto. exists []; reflexivity.
Qed.

Lemma parse_op_oob kind p : length toks <= p -> parse_op tb toks kind p = None.
Proof. intros H. unfold parse_op. apply nth_error_None in H. rewrite H. reflexivity. Qed.

(* the loop over postfix operators keeps the invariant, and with enough fuel (one unit per remaining token) it
   stops only where no postfix operator stands *)
Lemma postfixes_PA : forall k s, PA (opds s) (ops s) -> closedR (opds s) ->
  let s' := postfixes tb toks k s in PA (opds s') (ops s') /\ closedR (opds s')
  /\ (length toks < pos s + k -> parse_op tb toks is_postfix_row (pos s') = None).
Proof.
  induction k as [|k IH]; intros s HA Hc; cbv zeta; cbn [postfixes].
  { split; [exact HA|]. split; [exact Hc|]. intros H. apply parse_op_oob. lia. }
  destruct (parse_op tb toks is_postfix_row (pos s)) as [[[[prec ai] name] p']|] eqn:E; [|split; [exact HA|split; [exact Hc|intros _; exact E]]].
  destruct (parse_op_lk _ _ _ _ _ _ _ E) as (Hl & Hp' & _). pose proof (lk_postfix_id _ _ _ Hl) as ->.
  destruct (pop_while_PA (Some (prec, 4)) (length (ops s)) (fun e => fst (fst e) <? prec) s HA) as (R1 & R2 & _ & _ & _ & _ & R7).
  { apply closedR_rsp; exact Hc. }
  { intros e He. unfold okL', okL. cbn [fst]. rewrite He. reflexivity. }
  specialize (R7 (le_n _)).
  set (s1 := pop_while _ _ s) in *.
  destruct (opds s1) as [|t rest] eqn:Eo; [destruct R1|].
  match goal with |- context [postfixes tb toks k ?S] => destruct (IH S) as (I1 & I2 & I3) end;
    [| exact I | split; [exact I1|split; [exact I2|intros H; apply I3; cbn [pos]; lia]]].
  cbn [opds ops].
  destruct R1 as (Ht & Hf & HB). cbn [top_rsp' top_rsp] in R2.
  cbn [PA pok]. rewrite Hl, Ht, R2. split; [reflexivity|]. split; [|exact HB].
  destruct (ops s1) as [|[[q0 a0] o0] op'] eqn:Eops; cbn [top_fits]; auto.
  cbn [top_fits] in Hf. cbn [lsp]. rewrite Hl, Hf. rewrite andb_true_r.
  cbn [fst] in R7. unfold okR. cbn [fst snd].
  (* the operator left on the stack is not of a tighter row; it cannot be of the postfix operator's row *)
  assert (Hq : q0 <> prec).
  { intros ->. cbn [PB] in HB. destruct (Nat.eqb a0 0) eqn:Ea.
    - destruct HB as (Hl0 & _). pose proof (lk_same_row _ _ _ _ _ _ _ Hl0 Hl). apply Nat.eqb_eq in Ea. lia.
    - destruct rest as [|l r']; [contradiction|]. destruct HB as (Hl0 & _).
      pose proof (lk_same_row _ _ _ _ _ _ _ Hl0 Hl). destruct (lk_infix_id _ _ _ Hl0) as [|[|]]; lia. }
  apply Nat.ltb_ge in R7. apply orb_true_iff. left. apply Nat.ltb_lt. lia.
Qed.

Lemma PB_top_lk od q a o ops' : PB od ((q, a, o) :: ops') -> exists kind, lk kind o = Some (q, a).
Proof.
  cbn [PB]. destruct (Nat.eqb a 0).
  - intros (H & _). eauto.
  - destruct od; [contradiction|]. intros (H & _). eauto.
Qed.

(* the precedence loop for an arriving infix operator nm of row prec, associativity a *)
Lemma prec_loop_PA nm a : forall k prec s,
  lk is_infix_row nm = Some (prec, a) ->
  PA (opds s) (ops s) -> top_rsp (prec, a) (opds s) ->
  let r := prec_loop k prec s in
  PA (opds (fst r)) (ops (fst r)) /\ top_rsp (prec, a) (opds (fst r))
  /\ marker (fst r) = marker s /\ outer (fst r) = outer s
  /\ (exists n, ops (fst r) = skipn n (ops s))
  /\ (snd r = false -> pos (fst r) = pos s)
  /\ (snd r = true -> pos (fst r) = outer s)
  /\ (snd r = false -> length (ops s) < k ->
      match ops (fst r) with (tp, ta, _) :: _ => okR (tp, ta) prec = true | [] => True end)
  /\ (snd r = true -> a = 3).
Proof.
  induction k as [|k IH]; intros prec s Hnew HA Hr; cbv zeta; cbn [prec_loop].
  - cbn [fst snd]. split; [exact HA|]. split; [exact Hr|]. do 2 (split; [reflexivity|]). split; [exists 0; reflexivity|].
    split; [reflexivity|]. split; [discriminate|]. split; [intros _ Hk; lia|discriminate].
  - destruct (ops s) as [|[[tp ta] o] ops'] eqn:Eo.
    + cbn [fst snd]. rewrite Eo. split; [exact HA|]. split; [exact Hr|]. do 2 (split; [reflexivity|]).
      split; [exists 0; reflexivity|]. split; [reflexivity|]. split; [discriminate|]. split; [auto|discriminate].
    + assert (Hsame : tp = prec -> ta = a).
      { intros ->. destruct (opds s) as [|t rest]; [destruct HA|]. destruct HA as (_ & _ & HB).
        destruct (PB_top_lk _ _ _ _ _ HB) as (kind & Hk). eapply lk_same_row; eauto. }
      rewrite <- Eo in HA.
      destruct ((tp <? prec) || (tp =? prec) && (ta =? 1)) eqn:E1.
      * destruct (pop_PA s (Some (prec, a)) HA) as (P1 & P2 & P3 & P4 & P5 & P6); [congruence|exact Hr| |].
        { rewrite Eo. cbn [fst]. unfold okL', okL. cbn [fst snd].
          apply orb_true_iff in E1. destruct E1 as [E1|E1]; [rewrite E1; reflexivity|].
          apply andb_true_iff in E1. destruct E1 as (E1 & E2). apply Nat.eqb_eq in E1, E2.
          rewrite <- (Hsame E1), E2. subst tp. rewrite Nat.eqb_refl. cbn. apply orb_true_r. }
        destruct (IH prec (pop_operator s) Hnew P1 P2) as (Q1 & Q2 & Q3 & Q4 & (n & Q5) & Q6 & Q7 & Q8 & Q9).
        split; [exact Q1|]. split; [exact Q2|]. split; [congruence|]. split; [congruence|].
        split; [exists (S n); rewrite Q5, P3, Eo; reflexivity|].
        split; [intros Hc; rewrite (Q6 Hc); exact P6|].
        split; [intros Hc; rewrite (Q7 Hc); exact P5|].
        split; [|exact Q9].
        intros Hc Hk. apply Q8; auto. rewrite P3, Eo. cbn in *. lia.
      * destruct ((tp =? prec) && (ta =? 3)) eqn:E2; cbn [fst snd opds ops outer marker pos].
        -- rewrite <- Eo. split; [exact HA|]. split; [exact Hr|]. do 2 (split; [reflexivity|]).
           split; [exists 0; reflexivity|]. split; [discriminate|]. split; [reflexivity|]. split; [discriminate|].
           intros _. apply andb_true_iff in E2. destruct E2 as (E2 & E3). apply Nat.eqb_eq in E2, E3.
           rewrite <- (Hsame E2). exact E3.
        -- rewrite <- Eo. split; [exact HA|]. split; [exact Hr|]. do 2 (split; [reflexivity|]).
           split; [exists 0; reflexivity|]. split; [reflexivity|]. split; [discriminate|]. split; [|discriminate].
           intros _ _. rewrite Eo. unfold okR. cbn [fst snd].
           apply orb_false_iff in E1. destruct E1 as (E1 & E1').
           destruct (Nat.ltb_spec prec tp) as [Hlt|Hge]; [reflexivity|].
           apply Nat.ltb_ge in E1. assert (tp = prec) by lia. subst tp. rewrite Nat.eqb_refl in *. cbn in *.
           rewrite (Hsame eq_refl) in *.
           destruct (lk_infix_id _ _ _ Hnew) as [ -> | [ -> | -> ] ]; cbn in *; congruence.
Qed.

(* ---- the whole loop ---- *)
Definition committedP (s : st) : Prop :=
  opds s = [] \/
  (marker s <= length (ops s) /\ PA (opds s) (skipn (length (ops s) - marker s) (ops s))).
Definition JB (s : st) : Prop := PB (opds s) (ops s) /\ committedP s.

Lemma pop_while_pos : forall k c s, pos (pop_while k c s) = pos s.
Proof.
  induction k as [|k IHk]; intros c s0; cbn [pop_while]; auto.
  destruct (ops s0) as [|e0 o'] eqn:E; auto. destruct (c e0); auto. rewrite IHk.
  unfold pop_operator. rewrite E. destruct e0 as [[a b] c0].
  destruct (opds s0) as [|r od]; auto. destruct (b =? 0); auto. destruct od; auto.
Qed.

Lemma finish_pok sf t e :
  PA (opds sf) (skipn (length (ops sf) - marker sf) (ops sf)) ->
  finish sf = Some (t, e) -> pok t = true.
Proof.
  intros HA Hf. unfold finish in Hf.
  destruct (opds sf) as [|o0 os] eqn:Eo; [discriminate|]. rewrite <- Eo in *.
  set (keep := skipn (length (ops sf) - marker sf) (ops sf)) in *.
  set (s0 := MK (opds sf) keep (marker sf) (outer sf) (pos sf)) in *.
  destruct (pop_while_PA None (length keep) (fun _ => true) s0) as (R1 & _ & _ & _ & _ & _ & R7);
    [exact HA | exact I | reflexivity |].
  specialize (R7 (le_n _)).
  set (s1 := pop_while _ _ s0) in *.
  destruct (ops s1) as [|e1 o1] eqn:Eops; [|discriminate].
  destruct (opds s1) as [|t1 rest] eqn:Eod; [destruct R1|]. destruct R1 as (Ht & _ & HB).
  cbn [PB] in HB. subst rest. cbn in Hf. inversion Hf; subst. exact Ht.
Qed.

Lemma prefixes_committed : forall k s, committedP s -> committedP (prefixes tb toks k s).
Proof.
  induction k as [|k IH]; intros s H; cbn [prefixes]; auto.
  destruct (parse_op tb toks is_prefix_row (pos s)) as [[e p']|] eqn:E; auto.
  apply IH. unfold committedP in *. cbn [opds ops marker outer pos].
  destruct H as [H|(Hm & HA)]; [left; exact H|right].
  cbn [length]. replace (S (length (ops s)) - marker s) with (S (length (ops s) - marker s)) by lia.
  cbn [skipn]. split; [lia|exact HA].
Qed.

Theorem main2_pok : forall k s sf t e,
  JB s -> main2 tb toks k s = Some sf -> finish sf = Some (t, e) -> pok t = true.
Proof.
  induction k as [|k IH]; intros s sf t e (HB & HC) Hm Hf; [discriminate|].
  cbn [main2] in Hm.
  destruct (prefixes_PB (length toks + 1) s HB) as (HB1 & _).
  pose proof (prefixes_committed (length toks + 1) s HC) as HC1.
  set (s1 := prefixes tb toks (length toks + 1) s) in *.
  destruct (parse_opd toks (pos s1)) as [[v p']|] eqn:Eopd.
  - (* an operand, then postfix operators *)
    set (s2 := MK (Opd v :: opds s1) (ops s1) (marker s1) (outer s1) p') in *.
    assert (HA2 : PA (opds s2) (ops s2)).
    { cbn [s2 opds ops PA pok]. split; [reflexivity|]. split; [|exact HB1].
      destruct (ops s1) as [|[[q0 a0] o0] ?]; cbn; auto. }
    destruct (postfixes_PA (length toks + 1) s2 HA2) as (HA3 & Hcl & _); [exact I|].
    set (s3 := postfixes tb toks (length toks + 1) s2) in *.
    set (s4 := MK (opds s3) (ops s3) (length (ops s3)) (pos s3) (pos s3)) in *.
    assert (Hfin4 : forall t e, finish s4 = Some (t, e) -> pok t = true).
    { intros t0 e0. apply finish_pok. cbn [s4 opds ops marker]. rewrite Nat.sub_diag. exact HA3. }
    destruct (negb (has_infix tb)); [inversion Hm; subst; eauto|].
    destruct (parse_op tb toks is_infix_row (pos s4)) as [[[[prec a] name] p'']|] eqn:Einf;
      [|inversion Hm; subst; eauto].
    destruct (parse_op_lk _ _ _ _ _ _ _ Einf) as (Hl & _ & _).
    destruct (prec_loop_PA name a (length (ops s4) + 1) prec (set_pos s4 p'') Hl) as (Q1 & Q2 & Q3 & Q4 & (n & Q5) & Q6 & Q7 & Q8 & Q9).
    { exact HA3. } { apply closedR_rsp. exact Hcl. }
    destruct (prec_loop (length (ops s4) + 1) prec (set_pos s4 p'')) as [s5 conflict] eqn:Epl.
    cbn [fst snd] in *. cbn [set_pos opds ops outer marker pos s4] in Q3, Q4, Q5, Q8.
    assert (Hlen : length (ops s5) <= length (ops s3)).
    { rewrite Q5. rewrite skipn_length. lia. }
    destruct conflict.
    + (* non-associative conflict: the run ends *)
      inversion Hm; subst sf. eapply finish_pok; eauto.
      replace (length (ops s5) - marker s5) with 0 by lia. exact Q1.
    + (* push the operator and go round again *)
      eapply IH; [|exact Hm|exact Hf].
      destruct (opds s5) as [|l rest] eqn:Eo5; [destruct Q1|].
      assert (Q1' := Q1). destruct Q1 as (Hpl & Htf & HB5). cbn [top_rsp] in Q2.
      split.
      * cbn [opds ops PB].
        destruct (lk_infix_id _ _ _ Hl) as [Ha|[Ha|Ha]]; rewrite Ha in *; cbn [Nat.eqb];
          (split; [exact Hl|]; split; [exact Hpl|]; split; [exact Q2|]; split; [|exact HB5]);
          (specialize (Q8 eq_refl); destruct (ops s5) as [|[[tp ta] o5] ops5]; cbn [fits_above]; auto;
           split; [apply Q8; cbn [s4 ops]; lia | exact Htf]).
      * right. cbn [opds ops marker outer pos length].
        replace (S (length (ops s5)) - length (ops s5)) with 1 by lia. cbn [skipn].
        split; [lia|]. exact Q1'.
  - (* no operand: the run ends with what was committed *)
    destruct (opds s1) as [|o0 os] eqn:Eo.
    + cbn [nonempty] in Hm. inversion Hm; subst sf. unfold finish in Hf. rewrite Eo in Hf. discriminate.
    + cbn [nonempty] in Hm. inversion Hm; subst sf.
      destruct HC1 as [Hc|(Hc1 & Hc2)]; [congruence|].
      eapply (finish_pok (set_pos s1 (outer s1))); [|exact Hf]. cbn [set_pos opds ops marker]. exact Hc2.
Qed.


(* ---- where the loop stops (the extent clause of C02) ---- *)
Definition is_op (kind : assoc -> bool) (p : nat) : bool :=
  match parse_op tb toks kind p with Some _ => true | None => false end.
Fixpoint skip_pre (k p : nat) : nat :=
  match k with 0 => p | S k => if is_op is_prefix_row p then skip_pre k (S p) else p end.
(* the operator at e is not followed by an operand: after any number of prefix operators comes no operand *)
Definition dangling (e : nat) : Prop := parse_opd toks (skip_pre (length toks + 1) (S e)) = None.
(* the expression ends at e only if no postfix operator stands there, and no infix operator either - unless that operator
   is not followed by an operand (it is left unconsumed) or belongs to a non-associative row *)
Definition stop_ok (e : nat) : Prop :=
  is_op is_postfix_row e = false /\
  (has_infix tb = false \/ is_op is_infix_row e = false \/ dangling e
   \/ exists q nm p', parse_op tb toks is_infix_row e = Some ((q, 3, nm), p')).

Lemma prefixes_pos : forall k s, pos (prefixes tb toks k s) = skip_pre k (pos s).
Proof.
  induction k as [|k IH]; intros s; cbn [prefixes skip_pre]; [reflexivity|]. unfold is_op.
  destruct (parse_op tb toks is_prefix_row (pos s)) as [[e p']|] eqn:E; [|reflexivity].
  rewrite IH. cbn [pos]. destruct e as [[q a] nm]. destruct (parse_op_lk _ _ _ _ _ _ _ E) as (_ & -> & _). reflexivity.
Qed.

(* what is known before an operand is read: nothing has been read yet, or an infix operator at [outer] has just been
   read, no postfix operator stands there, and the position is just behind it *)
Definition JE (s : st) : Prop :=
  opds s = [] \/
  (pos s = S (outer s) /\ is_op is_postfix_row (outer s) = false /\ is_op is_infix_row (outer s) = true /\ has_infix tb = true).

Lemma finish_pos sf t e : finish sf = Some (t, e) -> e = pos sf.
Proof.
  unfold finish. destruct (opds sf); [discriminate|].
  match goal with |- context [pop_while ?k ?c ?s0] => pose proof (pop_while_pos k c s0) as Hp; destruct (rev (opds (pop_while k c s0))) end;
    [discriminate|]. intros H. inversion H; subst. rewrite Hp. reflexivity.
Qed.

Lemma prefixes_keep : forall k s, outer (prefixes tb toks k s) = outer s /\ opds (prefixes tb toks k s) = opds s.
Proof.
  induction k as [|k IH]; intros s; cbn [prefixes]; [auto|].
  destruct (parse_op tb toks is_prefix_row (pos s)) as [[e p']|]; [|auto].
  destruct (IH (MK (opds s) (e :: ops s) (marker s) (outer s) p')) as (A & B). cbn [outer opds] in *. auto.
Qed.

Theorem main2_stop : forall k s sf t e,
  JB s -> JE s -> main2 tb toks k s = Some sf -> finish sf = Some (t, e) -> stop_ok e.
Proof.
  induction k as [|k IH]; intros s sf t e (HB & HC) HE Hm Hf; [discriminate|].
  cbn [main2] in Hm.
  destruct (prefixes_PB (length toks + 1) s HB) as (HB1 & _).
  pose proof (prefixes_pos (length toks + 1) s) as Hpos1.
  destruct (prefixes_keep (length toks + 1) s) as (Hout1 & Hopd1).
  set (s1 := prefixes tb toks (length toks + 1) s) in *.
  destruct (parse_opd toks (pos s1)) as [[v p']|] eqn:Eopd.
  - set (s2 := MK (Opd v :: opds s1) (ops s1) (marker s1) (outer s1) p') in *.
    assert (HA2 : PA (opds s2) (ops s2)).
    { cbn [s2 opds ops PA pok]. split; [reflexivity|]. split; [|exact HB1].
      destruct (ops s1) as [|[[q0 a0] o0] ?]; cbn; auto. }
    assert (Hp' : p' = S (pos s1)).
    { unfold parse_opd in Eopd. destruct (nth_error toks (pos s1)) as [[v0|n0]|]; try discriminate. inversion Eopd; reflexivity. }
    destruct (postfixes_PA (length toks + 1) s2 HA2) as (HA3 & Hcl & Hstop); [exact I|].
    assert (Hnopost : parse_op tb toks is_postfix_row (pos (postfixes tb toks (length toks + 1) s2)) = None).
    { apply Hstop. cbn [s2 pos]. lia. }
    set (s3 := postfixes tb toks (length toks + 1) s2) in *.
    set (s4 := MK (opds s3) (ops s3) (length (ops s3)) (pos s3) (pos s3)) in *.
    assert (Hpost4 : is_op is_postfix_row (pos s3) = false) by (unfold is_op; rewrite Hnopost; reflexivity).
    destruct (negb (has_infix tb)) eqn:Ehi.
    { inversion Hm; subst sf. rewrite (finish_pos _ _ _ Hf). cbn [s4 pos]. split; [exact Hpost4|]. left.
      apply negb_true_iff in Ehi. exact Ehi. }
    apply negb_false_iff in Ehi.
    destruct (parse_op tb toks is_infix_row (pos s4)) as [[[[prec a] name] p'']|] eqn:Einf.
    2:{ inversion Hm; subst sf. rewrite (finish_pos _ _ _ Hf). cbn [s4 pos] in *. split; [exact Hpost4|]. right. left.
        unfold is_op. rewrite Einf. reflexivity. }
    destruct (parse_op_lk _ _ _ _ _ _ _ Einf) as (Hl & Hp'' & _).
    destruct (prec_loop_PA name a (length (ops s4) + 1) prec (set_pos s4 p'') Hl) as (Q1 & Q2 & Q3 & Q4 & (n & Q5) & Q6 & Q7 & Q8 & Q9).
    { exact HA3. } { apply closedR_rsp. exact Hcl. }
    destruct (prec_loop (length (ops s4) + 1) prec (set_pos s4 p'')) as [s5 conflict] eqn:Epl.
    cbn [fst snd] in *. cbn [set_pos opds ops outer marker pos s4] in Q3, Q4, Q5, Q6, Q7, Q8.
    destruct conflict.
    + (* non-associative conflict: the operator belongs to a non-associative row *)
      inversion Hm; subst sf. rewrite (finish_pos _ _ _ Hf), (Q7 eq_refl). split; [exact Hpost4|]. right. right. right.
      cbn [s4 pos] in Einf.
      rewrite (Q9 eq_refl) in Einf. eauto.
    + eapply IH; [| |exact Hm|exact Hf].
      * (* JB of the next state: as in main2_pok *)
        destruct (opds s5) as [|l rest] eqn:Eo5; [destruct Q1|].
        assert (Q1' := Q1). destruct Q1 as (Hpl & Htf & HB5). cbn [top_rsp] in Q2.
        assert (Hlen : length (ops s5) <= length (ops s3)) by (rewrite Q5, skipn_length; lia).
        split.
        -- cbn [opds ops PB].
           destruct (lk_infix_id _ _ _ Hl) as [Ha|[Ha|Ha]]; rewrite Ha in *; cbn [Nat.eqb];
             (split; [exact Hl|]; split; [exact Hpl|]; split; [exact Q2|]; split; [|exact HB5]);
             (specialize (Q8 eq_refl); destruct (ops s5) as [|[[tp ta] o5] ops5]; cbn [fits_above]; auto;
              split; [apply Q8; cbn [s4 ops]; lia | exact Htf]).
        -- right. cbn [opds ops marker outer pos length].
           replace (S (length (ops s5)) - length (ops s5)) with 1 by lia. cbn [skipn].
           split; [lia|]. exact Q1'.
      * (* JE of the next state *)
        right. cbn [opds ops marker outer pos]. rewrite Q4, (Q6 eq_refl). cbn [s4 pos] in Einf.
        split; [exact Hp''|]. split; [exact Hpost4|]. split; [unfold is_op; rewrite Einf; reflexivity|exact Ehi].
  - (* no operand *)
    destruct (opds s1) as [|o0 os] eqn:Eo.
    + cbn [nonempty] in Hm. inversion Hm; subst sf. unfold finish in Hf. rewrite Eo in Hf. discriminate.
    + cbn [nonempty] in Hm. inversion Hm; subst sf. rewrite (finish_pos _ _ _ Hf). cbn [set_pos pos].
      destruct HE as [HE|(E1 & E2 & E3 & E4)]; [rewrite Hopd1 in Eo; congruence|].
      rewrite Hout1. split; [exact E2|]. right. right. left.
      unfold dangling. rewrite <- E1, <- Hpos1. exact Eopd.
Qed.

End Toks.
End Prec.

(* the loop, from the initial state: precedence and associativity are respected by whatever it returns *)
Corollary run2_pok tb toks k sf t e :
  main2 tb toks k (MK [] [] 0 0 0) = Some sf -> finish sf = Some (t, e) -> pok tb t = true.
Proof.
  apply main2_pok. split; [reflexivity|]. left. reflexivity.
Qed.

(* from the initial state: the expression ends only where it has to *)
Corollary run2_stop tb toks k sf t e :
  main2 tb toks k (MK [] [] 0 0 0) = Some sf -> finish sf = Some (t, e) -> stop_ok tb toks e.
Proof.
  apply main2_stop; [split; [reflexivity|left; reflexivity]|left; reflexivity].
Qed.
