import copy, pickle
from sourcer import Grammar
def t(name, f):
    try:
        r = f()
        print(f'[{name}] ->', repr(r)[:200])
    except Exception as e:
        print(f'[{name}] EXC', type(e).__name__, str(e).replace('\n','\\n')[:150])
t('D6', lambda: Grammar('class Start { a: "a"; b: "b" }\nignore /\\s+/').parse(' a b '))
g = Grammar('start = /[a\\n]*/')
def d8():
    bad = 0
    for L in range(90, 140):
        for c in range(0, L):
            text = 'aaa\n' + 'a'*c + 'X' + 'a'*(L-c-1) + '\nbbbbb'
            try: g.parse(text)
            except g.PartialParseError as e:
                lines = str(e).split('\n')
                if len(lines) != 3 or lines[1][lines[2].index('^')] != 'X': bad += 1
    return bad
t('D8 bad excerpts', d8)
t('D9 one capture', lambda: Grammar('T(x) = [x, "-", x]\nEq(w) = /[a-z]/ where `lambda c: c == w`\nstart = let n = /[a-z]/ in T(Eq(n) << ".")').parse('bb.-b.'))
t('D9 named', lambda: Grammar('grammar d9n\nT(x) = [x, "-", x]\nEq(w) = /[a-z]/ where `lambda c: c == w`\nstart = let n = /[a-z]/ in let m = /[a-z]/ in T([Eq(n), Eq(m)])').parse('bcbc-bc'))
t('D10', lambda: Grammar('T(x) = [x, x]\nstart = T(0x41)').parse(b'AA'))
gk = Grammar('grammar d18m\nclass C { a: "a"; xs: "b"* }')
o = gk.C.parse('abb')
t('D18 deepcopy', lambda: (copy.deepcopy(o) == o, copy.deepcopy(o)._metadata.position_info == o._metadata.position_info))
t('D18 pickle', lambda: pickle.loads(pickle.dumps(o)) == o)
t('D19', lambda: [(x.field, x.child, x.is_finished) for x in gk.traverse([1, 1, None, None])])
g2 = Grammar('class W { v: /[a-z]+/ }\nInner = W\nstart = [W, "(" >> /[a-z]+/ |> `lambda s: Inner.parse(s)`, ")"]')
t('D20', lambda: g2.parse('ab(cd)'))
