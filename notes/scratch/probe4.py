from sourcer import Grammar
def t(name, f):
    try:
        r = f()
        print(f'[{name}] ->', repr(r)[:300])
    except Exception as e:
        print(f'[{name}] EXC', type(e).__name__, str(e).replace('\n','\\n')[:200])

# C06
t('C06 byte arg', lambda: Grammar('T(x) = [x, x]\nstart = T(0x41)').parse(b'AA'))
t('C06 str arg', lambda: Grammar('T(x) = [x, x]\nstart = T("a")').parse('aa'))
t('C06 compound arg', lambda: Grammar('T(x) = [x, x]\nstart = T("a" | "b")').parse('ab'))
t('C06 arg mentions bound', lambda: Grammar(r'''
T(x) = [x, x]
start = let n = /\d/ in T(/[a-z]/ where `lambda v: v == "abcdefghij"[int(n)]`)
''').parse('1bb'))
t('C06 arg mentions bound named', lambda: Grammar(r'''
grammar c06n
T(x) = [x, x]
start = let n = /\d/ in T(/[a-z]/ where `lambda v: v == "abcdefghij"[int(n)]`)
''').parse('1bb'))
t('C06 kw arg', lambda: Grammar('T(x, y) = [x, y]\nstart = T(y="a", x="b")').parse('ba'))
t('C06 unhashable value arg', lambda: Grammar(r'''
T(v) = "a" >> `v`
start = let xs = "x"* in T(xs)
''').parse('xxa'))
t('C06 value arg python', lambda: Grammar(r'''
T(v) = "a"{v}
start = T(`2`)
''').parse('aa'))
t('C06 value arg number', lambda: Grammar(r'''
T(v) = "a"{v}
start = T(2)
''').parse('aa'))
t('C06 same pos different args', lambda: Grammar(r'''
T(x) = x
start = T("a") | T("b")
''').parse('b'))
t('C06 1 vs True key conflation', lambda: Grammar(r'''
T(v) = "a" >> `v`
start = [T(`1`), Backtrack(1), T(`True`), Backtrack(1), T(`1.0`)]
''').parse('a'))
t('C06 named two args with capture', lambda: Grammar(r'''
grammar c06m
T(x) = [x, x]
start = let a = /\d/ in let b = /\d/ in T(/[a-z]/ where `lambda v: (a, b) == ("1", "2")`)
''').parse('12bb'))
t('C06 unnamed two captures', lambda: Grammar(r'''
T(x) = [x, x]
start = let a = /\d/ in let b = /\d/ in T(/[a-z]/ where `lambda v: (a, b) == ("1", "2")`)
''').parse('12bb'))
