from sourcer import Grammar
def t(name, f):
    try:
        r = f()
        print(f'[{name}] ->', repr(r)[:500])
    except Exception as e:
        print(f'[{name}] EXC', type(e).__name__, str(e).replace('\n','\\n')[:300])
t('C05 inner let shadow leak', lambda: Grammar(r'''
start = let x = "a" in [(let x = "b" in `x`), `x`]
''').parse('ab'))
t('C05 class field vs let leak', lambda: Grammar(r'''
class C { a: "a"; b: (let a = "b" in `a`); c: `a` }
''').C.parse('ab'))
t('C05 opt let leak', lambda: Grammar(r'''
start = let x = "a" in [Opt(let x = "b" in "c"), `x`]
''').parse('ab'))
# C19
pairs = [('start = "a"?', 'start = Opt("a")'), ('start = "a"*', 'start = List("a")'), ('start = "a"+', 'start = Some("a")'),
 ('start = "a" >> "b"', 'start = Right("a","b")'), ('start = "a" | "b"', 'start = Choice("a","b")'),
 ('start = "a" // ","', 'start = Sep("a", ",")'), ('start = "a" /? ","', 'start = Sep("a", ",", allow_trailer=True)'),
 ('start = "a"{1,2}', 'start = List("a", min_len=1, max_len=2)'), ('start = "a"{1,2}', 'start = List("a", min_len=`1`, max_len=`2`)'),
 ('start = ["a", "b"]', 'start = Seq("a", "b")'),
 ('start = "a" << "b" | "c"', 'start = ("a" << "b") | "c"'),
 ('start: "a"', '"a"'), ('start => "a"; X = "b"', 'start = "a"\nX = "b"'),
 ]
for a, b in pairs:
    for s in ['', 'a', 'ab', 'a,a', 'a,a,', 'aa', 'c', 'b']:
        def run(d):
            try: return ('ok', Grammar(d).parse(s))
            except Exception as e: return (type(e).__name__, getattr(getattr(e,'position',None),'index',None) or getattr(getattr(e,'last_position',None),'index',None))
        ra, rb = run(a), run(b)
        if ra != rb: print('C19 DIFF', a, '|', b, '|', repr(s), ra, rb)
print('C19 done')
# C16 metadata
g = Grammar(r'''
class A { v: /\d/ }
class B { a: A; k: A }
''')
o = g.B.parse('12')
def f(x):
    return g.A('9') if isinstance(x, g.A) and x.v == '1' else x
r = g.transform(o, f)
t('C16 meta', lambda: (r, r._metadata.position_info, r.a._metadata.position_info, o.a.v, r.k is o.k))
