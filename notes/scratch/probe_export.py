import sourcer
from sourcer import translator, expressions as ex, Grammar
captured = {}
orig = translator._assign_ids
def hook(rules):
    orig(rules)
    captured['rules'] = rules
translator._assign_ids = hook

def sx(e):
    if isinstance(e, ex.Rule):
        return ['Rule', e.name, e.params, sx(e.expr), e.is_ignored, e.is_omitted]
    if isinstance(e, ex.Class):
        return ['Class', e.name, e.params, [sx(m) for m in e.members]]
    fl = [e.always_succeeds(), e.can_partially_succeed(), getattr(e,'program_id',None)]
    n = type(e).__name__
    if n == 'Str': return [n, e.value, e.skip_ignored, fl]
    if n == 'Regex': return [n, e.pattern, e.ignore_case, e.skip_ignored, fl]
    if n == 'Ref': return [n, e.name, e.is_local, e._resolved, fl]
    if n in ('Choice','Longest','Skip'): return [n, [sx(x) for x in e.exprs], fl]
    if n == 'Seq': return [n, [sx(x) for x in e.exprs], list(e.names), fl]
    if n in ('Opt','Expect','ExpectNot'): return [n, sx(e.expr), fl]
    if n == 'List': return [n, sx(e.expr), e.min_len, e.max_len, fl]
    if n == 'Discard': return [n, sx(e.expr1), sx(e.expr2), e.discard_left, fl]
    raise Exception('unknown '+n)

g = Grammar(r'''
start = ("a"{2} | X)* >> "c"
X = "b" << Expect("a" | "c")
ignore /\s+/
''')
import json
for r in captured['rules']: print(json.dumps(sx(r)))

# raw triple driver: trampoline without memo
def drive(g, func, text, pos):
    stack = [func(text, pos)]
    result = None
    while stack:
        result = stack[-1].send(result)
        if result[0] != 3:
            stack.pop()
        else:
            stack.append(result[1](text, result[2])); result = None
    return result
for t in ['aac', 'a c', 'ab', 'b c', 'aa  b']:
    st, res, p = drive(g, g._try_start, t, 0)
    print(repr(t), st, res if st else res.__name__, p)
