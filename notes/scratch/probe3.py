from sourcer import Grammar
def t(name, f):
    try:
        r = f()
        print(f'[{name}] ->', repr(r)[:300])
    except Exception as e:
        print(f'[{name}] EXC', type(e).__name__, str(e).replace('\n','\\n')[:200])

# C13
def a1():
    A = Grammar('grammar a1\nstart = Word*\nWord = /[a-z]+/\nignore /\\s+/')
    B = Grammar('grammar b1 extends a1\noverride Word = /[A-Z]+/')
    return A.parse('ab cd'), B.parse('AB CD')
t('C13 anon ignore in base', a1)
def a2():
    A = Grammar('grammar a2\nstart = Word*\nWord = /[a-z]+/\nignore Sp = /\\s+/')
    B = Grammar('grammar b2 extends a2\noverride Word = /[A-Z]+/\nignore Cm = /#[^\\n]*/')
    return A.parse('ab cd'), B.parse('AB #x\n CD')
t('C13 ignore in both', a2)
def a3():
    A = Grammar('grammar a3\nstart = W*\nW = "a"')
    B = Grammar('grammar b3 extends a3\noverride W = "b" | super.W')
    C = Grammar('grammar c3 extends b3\noverride W = "c" | super.W')
    return A.parse('aa'), B.parse('ab'), C.parse('abc')
t('C13 three-level chain super', a3)
def a4():
    A = Grammar('grammar pk.a4\nstart = W*\nW = "a"')
    B = Grammar('grammar pk.b4 extends pk.a4\noverride W = "b" | super.W')
    return A.parse('aa'), B.parse('ab')
t('C13 dotted', a4)
def a5():
    A = Grammar('grammar a5\nstart = W*\nW = "a"\nclass K { x: W }')
    B = Grammar('grammar b5 extends a5\nX = "q"')
    return A.parse('aa'), B.parse('aa'), B.K.parse('a'), B.W.parse('a')
t('C13 inherit no override', a5)
