from sourcer import Grammar
def t(name, f):
    try:
        r = f()
        print(f'[{name}] ->', repr(r)[:300])
    except Exception as e:
        print(f'[{name}] EXC', type(e).__name__, str(e).replace('\n','\\n')[:200])
# C20
t('C20 field value2', lambda: Grammar(r'''
class C { value2: "a"; b: "b"; c: "c" }
''').C.parse('abc'))
t('C20 field item1', lambda: Grammar(r'''
class C { item1: "a"; b: ["b", "c"] }
''').C.parse('abc'))
t('C20 let staging1', lambda: Grammar(r'''
start = let staging1 = "a" in ["b"*, `staging1`]
''').parse('abb'))
t('C20 rule named list', lambda: Grammar(r'''
class K { a: "a" }
list = K*
start = list
''').parse('aa'))
t('C20 rule named len', lambda: Grammar(r'''
len = "a"{2}
start = len
''').parse('aa'))
t('C20 rule named Seq', lambda: Grammar(r'''
Seq(x) = [x, x]
start = Seq("a")
''').parse('aa'))
t('C20 rule named id', lambda: Grammar(r'''
class K { a: "a" }
id = [K, K]
''').id.parse('aa'))
t('C20 let named backtrack1', lambda: Grammar(r'''
start = let backtrack1 = "a" in [Opt("b"), `backtrack1`]
''').parse('ab'))
t('C20 param named arg1', lambda: Grammar(r'''
T(arg1) = [arg1 where `lambda x: True`, `arg1`]
start = T("a")
''').parse('a'))
t('C20 field named text', lambda: Grammar(r'''
class C { text: "a"; pos: "b" }
''').C.parse('ab'))
t('C20 field named self', lambda: Grammar(r'''
class C { self: "a" }
''').C.parse('a'))
t('C20 rule named title', lambda: Grammar(r'''
title = "a"
''').parse('b'))
t('C20 rule named match1', lambda: Grammar(r'''
start = let match1 = /a/ in [/b/, `match1`]
''').parse('ab'))
