from sourcer import Grammar
import copy
def t(name, f):
    try:
        r = f()
        print(f'[{name}] ->', repr(r)[:500])
    except Exception as e:
        print(f'[{name}] EXC', type(e).__name__, str(e).replace('\n','\\n')[:300])
# C10
g = Grammar(r'''
class W { v: /[a-z]+/ }
start = W*
ignore /\s+/
''')
def spans(r): return [(o._metadata.position_info.start, o._metadata.position_info.end) for o in g.visit(r)]
t('C10 spans', lambda: spans(g.parse(' ab  cd\n ef ')))
t('C10 spans pos', lambda: spans(g.parse('xx ab cd', pos=2)))
g2 = Grammar(r'''
class W { v: /[a-z]+/ }
start = [Expect(W), W, W]
ignore /\s+/
''')
def sp2(r): return [(id(o)%1000, o._metadata.position_info) for o in g2.visit(r)]
t('C10 memo shared', lambda: sp2(g2.parse('ab cd')))
g3 = Grammar(r'''
class W { v: /[a-z]+/ }
class E { w: Opt(W) }
start = [W, E]
''')
t('C10 zero width at end', lambda: g3.parse('ab'))
t('C10 zero width at start', lambda: g3.E.parse('1', fullparse=False))
# parse twice: partial error then inspect partial_result spans
def pr():
    try: g.parse('ab cd 1')
    except g.PartialParseError as e: return spans(e.partial_result), e.last_position
t('C10 partial', pr)
# C15
g4 = Grammar(r'''
class P { a: /\d/ |> `int`; b: /\d/ |> `int`; c: `None`; d: `None` }
''')
o = g4.P.parse('11')
t('C15 traverse equal leaves', lambda: [(x.field, x.child, x.is_finished) for x in g4.traverse(o)])
t('C15 traverse list of same', lambda: [(x.field, x.child, x.is_finished) for x in g4.traverse([1,1,None,None,'a','a'])])
# C16
t('C16 identity', lambda: (g4.transform(o, lambda x: x) == o, g4.transform(o, lambda x: x) is o))
t('C16 tuple/dict not descended', lambda: g4.transform((o,), lambda x: 5))
