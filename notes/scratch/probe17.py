from sourcer import Grammar
g = Grammar(r'''
class A { xs: /\d/* }
''')
o = g.A.parse('12')
r = g.transform(o, lambda x: x)
print(r == o, r is o, r.xs is o.xs, r._metadata.position_info == o._metadata.position_info)
