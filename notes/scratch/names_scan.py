"""Scratch: which names does generated code assign (function-local and module-level)?"""
import ast, re, collections, sys, random
sys.path.insert(0, '/verif/notes/scratch')
from sourcer import Grammar
descs = [open('/repo/grammar.txt').read()]
import glob
for fn in glob.glob('/repo/tests/*.py') + glob.glob('/repo/examples/*.py'):
    src = open(fn).read()
    for m in re.finditer(r"Grammar\(\s*r?('''|\"\"\")(.*?)\1", src, re.S):
        descs.append(m.group(2))
local_names = collections.Counter(); module_names = collections.Counter(); called_builtins = collections.Counter()
import builtins
ok = 0
for d in descs:
    try:
        g = Grammar(d, include_source=True)
    except Exception as e:
        continue
    ok += 1
    tree = ast.parse(g._source_code)
    for node in tree.body:
        if isinstance(node, (ast.FunctionDef, ast.ClassDef)): module_names[node.name] += 1
        elif isinstance(node, ast.Assign):
            for t in node.targets:
                for n in ast.walk(t):
                    if isinstance(n, ast.Name): module_names[n.id] += 1
        elif isinstance(node, (ast.Import, ast.ImportFrom)):
            for a in node.names: module_names[a.asname or a.name] += 1
    for fn in ast.walk(tree):
        if isinstance(fn, ast.FunctionDef):
            for n in ast.walk(fn):
                if isinstance(n, ast.Name) and isinstance(n.ctx, ast.Store): local_names[re.sub(r'\d+$', 'N', n.id)] += 1
                if isinstance(n, ast.Name) and isinstance(n.ctx, ast.Load) and hasattr(builtins, n.id): called_builtins[n.id] += 1
            for a in fn.args.args: local_names['<param>' + re.sub(r'\d+$', 'N', a.arg)] += 1
print('grammars', ok)
print('LOCAL (digits -> N):', sorted(local_names))
print('MODULE (sample):', sorted(n for n in module_names if not re.match(r'_try_|_parse_|_raise_error|matcher\d', n))[:120])
print('BUILTINS loaded by bare name:', sorted(called_builtins))
