import traceback, copy
from sourcer import Grammar
def t(name, f):
    try:
        r = f()
        print(f'[{name}] ->', repr(r)[:300])
    except Exception as e:
        print(f'[{name}] EXC', type(e).__name__, str(e).replace('\n','\\n')[:300])

# C01
g = Grammar('start = "a"{2} | "ab"')
t('C01 a{2}|ab on ab', lambda: g.parse('ab'))
g = Grammar('start = ["a", "b"] | "ac"')
t('C01 seq|str', lambda: g.parse('ac'))
g = Grammar('start = ("a" >> "b") | "ac"')
t('C01 discard|str', lambda: g.parse('ac'))
g = Grammar('start = ("a"+ >> "b") | "ac"')
t('C01 a+>>b | ac', lambda: g.parse('ac'))
g = Grammar('start = Opt("a"{2}) >> "ab"')
t('C01 opt(a{2})>>ab', lambda: g.parse('ab'))
g = Grammar('start = ("a"{2})* >> "ab"')
t('C01 (a{2})* >> ab on aaab', lambda: g.parse('aaab'))
g = Grammar('start = Expect("a"{2}) | "ab"')
t('C01 expect', lambda: g.parse('ab'))
g = Grammar('start = Skip("a"{2}) >> "ab"')
t('C01 skip', lambda: g.parse('ab'))
g = Grammar('start = Longest("a"{2}, "ab")')
t('C01 longest', lambda: g.parse('ab'))

# C02
g = Grammar(r'''
 start = Expr
 Int = /\d+/ |> `int`
 Expr = Int between {
    prefix: "-"
    infix: "-"
 }
 ignore /\s+/
''')
t('C02 1 - 2 - 3', lambda: g.parse('1 - 2 - 3'))
g = Grammar(r'''
 start = "1" between {
    left: "+"
 }
''')
t('C02 1+', lambda: g.parse('1+'))
t('C02 1+1+', lambda: g.parse('1+1+'))

# C04
t('C04 class start + ignore', lambda: Grammar(r'''
  class Start { a: "a"; b: "b" }
  ignore /\s+/
''').parse(' a b '))

# C08
g = Grammar(r'''
  class C { a: Opt("a") }
''')
t('C08 class empty', lambda: g.C.parse(''))
t('C08 module empty', lambda: g.parse(''))
g = Grammar('start = "a"*')
t('C08 a* empty', lambda: g.parse(''))
t('C08 pos', lambda: g.parse('baa', pos=1))
t('C08 pos fullparse False', lambda: g.parse('baab', pos=1, fullparse=False))

# C14
g = Grammar(r'''
  class C { a: "a" }
''')
o = g.C.parse('a')
t('C14 deepcopy', lambda: copy.deepcopy(o))
t('C14 hash', lambda: hash(o))
import pickle
t('C14 pickle', lambda: pickle.loads(pickle.dumps(o)))
t('C14 eq other', lambda: (g.C('a') == g.C('a'), g.C('a') == g.C('b')))
