from sourcer import Grammar
def t(name, f):
    try:
        r = f()
        print(f'[{name}] ->', repr(r)[:300])
    except Exception as e:
        print(f'[{name}] EXC', type(e).__name__, str(e).replace('\n','\\n')[:200])
# C05
t('C05 stale binding across alt', lambda: Grammar(r'''
start = (let x = /\d/ in ["a", `x`]) | (let x = /\d\d/ in ["b", `x`])
''').parse('12b'))
t('C05 class let/pass/requires', lambda: Grammar(r'''
class C {
  let n: /\d/ |> `int`
  pass ":"
  xs: /[a-z]/{n}
  requires `len(xs) == n`
  tail: `n + 1`
}
''').C.parse('2:ab'))
t('C05 requires false', lambda: Grammar(r'''
class C {
  a: /\d/
  requires `a == "1"`
}
start = C | /./
''').parse('2'))
t('C05 where', lambda: Grammar(r'start = (/\d/ where `lambda x: x == "1"`) | /./').parse('2'))
t('C05 apply both', lambda: Grammar(r'start = [/\d/ |> `int`, `str` <| /\d/ ]').parse('12'))
t('C05 recursion shadows', lambda: Grammar(r'''
N = let d = /\d/ in [("(" >> N << ")")?, `d`]
''').parse('1(2(3))'))
t('C05 class recursion', lambda: Grammar(r'''
class N { d: /\d/; kid: ("(" >> N << ")")?; again: `d` }
''').N.parse('1(2(3))'))
t('C05 let in repetition', lambda: Grammar(r'''
start = (let n = /\d/ |> `int` in "a"{n})*
''').parse('2aa1a0'))
t('C05 param shadow let', lambda: Grammar(r'''
T(x) = let x = /\d/ in `x`
start = T("q")
''').parse('5'))
# C07
calls = []
g = Grammar(r'''
```
calls = []
def note(x):
    calls.append(x)
    return x
```
A = /a/ |> `note`
start = [A, "b"] | [A, "c"] | [Expect(A), A, "d"]
''')
t('C07', lambda: (g.parse('ad'), g.calls))
g = Grammar(r'''
```
calls = []
def note(x):
    calls.append(x)
    return x
```
A = ("(" >> A << ")") |> `note` | "x" |> `note`
start = [A, "b"] | [A, "c"] | [A, "d"]
''')
t('C07 nested', lambda: (g.parse('((x))d'), g.calls))
