"""Scratch differential test of parse() outcomes: EntryDraft.v vs the public API."""
import itertools, os, re, subprocess, sys, random, signal, collections
import sourcer
from sourcer import translator, expressions as ex, Grammar

captured = {}
_orig = translator._assign_ids
def _hook(rules):
    _orig(rules); captured['rules'] = rules
translator._assign_ids = _hook

NAMES = {}
def nm(x):
    if x not in NAMES: NAMES[x] = len(NAMES) + 1
    return NAMES[x]
CLASSES = {}
def cl(x):
    if x not in CLASSES: CLASSES[x] = len(CLASSES) + 1
    return CLASSES[x]

def codes(s): return '[' + ';'.join(str(ord(c)) for c in s) + ']'
def b(x): return 'true' if x else 'false'

def bound(x):
    if x is None: return 'BNone'
    if isinstance(x, int): return f'(BLit {x})'
    if x.isdigit(): return f'(BLit {int(x)})'
    if x.isidentifier(): return f'(BVar {nm(x)})'
    raise Exception('bound ' + repr(x))

def pyexpr(src):
    src = src.strip()
    if src == 'None': return 'PNone'
    if src == 'True': return 'PTrue'
    if src == 'False': return 'PFalse'
    if src.isdigit(): return f'(PNum {int(src)})'
    fns = {'int': 'FInt', 'len': 'FLen', 'bool': 'FBool', 'tuple': 'FTuple'}
    if src in fns: return f'(PFn {fns[src]})'
    if src.isidentifier(): return f'(PVar {nm(src)})'
    m = re.fullmatch(r'lambda v: v == (\w+)', src)
    if m: return f'(PFn (FEqVar {nm(m.group(1))}))'
    m = re.fullmatch(r'lambda v: len\(v\) > len\((\w+)\)', src)
    if m: return f'(PFn (FLenGtVar {nm(m.group(1))}))'
    if src == 'lambda v: v % 2': return '(PFn FOdd)'
    m = re.fullmatch(r'lambda _: len\((\w+)\) == (\w+)', src)
    if m: return f'(PFn (FKLenEq {nm(m.group(1))} {nm(m.group(2))}))'
    m = re.fullmatch(r'lambda _: (\w+)', src)
    if m: return f'(PFn (FKVar {nm(m.group(1))}))'
    m = re.fullmatch(r'(\w+) \+ 1', src)
    if m: return f'(PSucc {nm(m.group(1))})'
    raise Exception('pyexpr ' + repr(src))

class Ctx:
    def __init__(self, rule_index): self.rule_index = rule_index; self.rx = []

def to_coq(e, cx):
    n = type(e).__name__
    L = lambda xs: '[' + ';'.join(to_coq(x, cx) for x in xs) + ']'
    if n == 'Str': return f'(Str {codes(e.value)} {b(e.skip_ignored)})'
    if n == 'Regex':
        key = (e.pattern, e.ignore_case)
        if key not in cx.rx: cx.rx.append(key)
        return f'(Rx {cx.rx.index(key)} {b(e.skip_ignored)})'
    if n == 'Ref':
        if e.is_local: raise Exception('local ref as parser')
        name = e.name[5:] if e.name.startswith('_try_') else e.name
        return f'(Ref {cx.rule_index[name]})'
    if n in ('Seq',) and e.constructor is None: return f'(Seq {L(e.exprs)})'
    if n in ('Choice', 'Longest', 'Skip'): return f'({n} {L(e.exprs)})'
    if n == 'Discard': return f'(Discard {to_coq(e.expr1, cx)} {to_coq(e.expr2, cx)} {b(e.discard_left)})'
    if n in ('Opt', 'Expect', 'ExpectNot'): return f'({n} {to_coq(e.expr, cx)})'
    if n == 'List': return f'(Rep {to_coq(e.expr, cx)} {bound(e.min_len)} {bound(e.max_len)})'
    if n == 'Backtrack': return f'(Backtrack {e.amount})'
    if n == 'Fail': return 'Fail'
    if n == 'Sep': return (f'(Sep {to_coq(e.expr, cx)} {to_coq(e.separator, cx)} {b(e.discard_separators)} '
                           f'{b(e.allow_trailer)} {b(e.allow_empty)} {b(e.require_separator)})')
    if n == 'PythonExpression': return f'(Py {pyexpr(e.source_code)})'
    if n == 'Apply': return f'(Apply {to_coq(e.expr1, cx)} {to_coq(e.expr2, cx)} {b(e.apply_left)})'
    if n == 'Where': return f'(Where {to_coq(e.expr, cx)} {to_coq(e.predicate, cx)})'
    if n == 'Let': return f'(Let {nm(e.name)} {to_coq(e.expr, cx)} {to_coq(e.body, cx)})'
    raise Exception('unsupported ' + n)

def rule_body(r, cx):
    ps = '[' + ';'.join(str(nm(p)) for p in (r.params or [])) + ']'
    return f'({ps}, {rule_body0(r, cx)})'

def rule_body0(r, cx):
    if isinstance(r, ex.Class):
        ms = []
        for m in r.members:
            name = f'(Some {nm(m.name)})' if m.name else 'None'
            isfield = bool(m.name) and not m.is_omitted
            ms.append(f'({name}, {b(isfield)}, {to_coq(m.expr, cx)})')
        return f'(Class {cl(r.name)} [{";".join(ms)}])'
    return to_coq(r.expr, cx)

def drive(g, func, text, pos):
    stack = [func(text, pos)]
    result = None
    while stack:
        result = stack[-1].send(result)
        if result[0] != 3: stack.pop()
        else:
            stack.append(result[1](text, result[2])); result = None
    return result

def pyval(v):
    if v is None: return 'VNone'
    if isinstance(v, bool): return f'VBool {b(v)}'
    if isinstance(v, str): return 'VStr ' + ('[' + '; '.join(str(ord(c)) for c in v) + ']')
    if isinstance(v, int): return f'VInt {v}'
    if isinstance(v, list): return 'VList [' + '; '.join(pyval(x) for x in v) + ']'
    if isinstance(v, tuple): return 'VTuple [' + '; '.join(pyval(x) for x in v) + ']'
    if hasattr(v, '_fields') and hasattr(v, '_metadata'):
        sp = v._metadata.position_info
        fs = '[' + '; '.join(pyval(getattr(v, f)) for f in v._fields) + ']'
        return f'VObj {cl(type(v).__name__)} {fs} ({sp[0]}, {sp[1]})'
    raise Exception(f'value {v!r}')

def paren(s): return s if ' ' not in s else f'({s})'

class TO(Exception): pass
def _alarm(sig, frm): raise TO()
signal.signal(signal.SIGALRM, _alarm)

def fpos(p): return f'({p.index}, {p.line}, {p.column})'
def fval(v):
    if v is None: return 'FNone'
    if isinstance(v, bool): return f'FBoolV {b(v)}'
    if isinstance(v, str): return 'FStr ' + ('[' + '; '.join(str(ord(c)) for c in v) + ']')
    if isinstance(v, int): return f'FNat {v}'
    if isinstance(v, list): return 'FList [' + '; '.join(fval(x) for x in v) + ']'
    if isinstance(v, tuple): return 'FTup [' + '; '.join(fval(x) for x in v) + ']'
    tn = type(v).__name__
    if tn in ('Infix', 'Prefix', 'Postfix'):
        k = {'Infix': 0, 'Prefix': 1, 'Postfix': 2}[tn]
        return f'FNode {k} [' + '; '.join(fval(getattr(v, f)) for f in v._fields) + ']'
    if hasattr(v, '_fields') and hasattr(v, '_metadata'):
        sp = v._metadata.position_info
        fs = '[' + '; '.join(fval(getattr(v, f)) for f in v._fields) + ']'
        return f'FObj {cl(type(v).__name__)} {fs} ({fpos(sp.start)}, {fpos(sp.end)})'
    return 'FOther'

def observe(g, text, pos, full):
    try:
        signal.setitimer(signal.ITIMER_REAL, 0.05)
        try:
            r = g.parse(text, pos, full)
        finally:
            signal.setitimer(signal.ITIMER_REAL, 0)
        return f'Return ({fval(r)})'
    except (TO, MemoryError, RecursionError):
        return 'Fuel'
    except g.PartialParseError as e:
        return f'Partial ({fval(e.partial_result)}) {fpos(e.last_position)}'
    except g.ParseError as e:
        return f'ParseErr {e.position.index}'
    except Exception as e:
        return 'Crash'

# ---------- generator ----------
PRELUDE = r'''
D = /\d/
N = /\d/ |> `int`
W = /[ab]+/
class K { d: D; w: W }
class C { let n: N; pass ":"; xs: /[ab]/{n}; requires `len(xs) == n`; m: `n + 1` }
class Z { o: Opt("a") }
'''
VARS = ['x', 'y', 'n']
def gen_expr(rnd, depth, scope):
    """scope: names bound (with kinds: 's' string, 'i' int)"""
    leaves = ['"a"', '"b"', 'D', 'N', 'W', 'K', 'C', 'Z', '"ab"']
    for v, k in scope.items(): leaves.append(f'`{v}`')
    if depth == 0: return rnd.choice(leaves)
    k = rnd.randrange(16)
    sub = lambda sc=scope: gen_expr(rnd, depth - 1, sc)
    if k == 0:
        v = rnd.choice(VARS); kind = rnd.choice('si')
        src = 'N' if kind == 'i' else rnd.choice(['D', 'W', '"a"'])
        sc2 = dict(scope); sc2[v] = kind
        return f'(let {v} = {src} in {sub(sc2)})'
    if k == 1:
        ints = [v for v, kk in scope.items() if kk == 'i']
        if ints:
            v = rnd.choice(ints)
            form = rnd.choice(['{%s}', '{%s,}', '{,%s}', '{1,%s}'])
            return f'({sub()}){form % v}'
        return f'({sub()}){{2}}'
    if k == 2:
        strs = [v for v, kk in scope.items() if kk == 's']
        if strs:
            v = rnd.choice(strs)
            return f'({rnd.choice(["D", "W", chr(34) + "a" + chr(34)])} where `lambda v: v == {v}`)'
        return f'(N where `lambda v: v % 2`)'
    if k == 3: return f'({rnd.choice(["D", "/\\\\d+/"])} |> `int`)'
    if k == 4: return f'(`len` <| {rnd.choice(["W", "D*", "W*"])})'
    if k == 5: return f'({sub()} |> `bool`)'
    if k == 6: return f'[{sub()}, {sub()}]'
    if k == 7: return f'({sub()} | {sub()})'
    if k == 8: return f'Opt({sub()})'
    if k == 9: return f'({sub()} >> {sub()})'
    if k == 10: return f'({sub()} << {sub()})'
    if k == 11: return f'({rnd.choice(["D", "K", "N", chr(34) + "a" + chr(34)])})*'
    if k == 12: return f'Expect({sub()})'
    if k == 13: return f'({rnd.choice(["D", "K", "W"])} // ",")'
    if k == 14: return f'((D*) |> `tuple`)'
    return f'ExpectNot({sub()})'

FIXED = [
  r'(let x = D in ["a", `x`]) | (let x = /\d\d/ in ["b", `x`])',
  r'let x = "a" in [(let x = "b" in `x`), `x`]',
  r'(let n = N in "a"{n})*',
  r'let x = W in [":" , W where `lambda v: v == x`]',
  r'let x = W in [":" , W where `lambda v: len(v) > len(x)`]',
  r'[K, K] | [K, "!"]',
  r'C+',
  r'[D, Z]', r'Z',
]
TEXTS = [''.join(p) for L in range(0, 3) for p in itertools.product('12ab', repeat=L)] + ['1a\n1a', '1a\n', '\n1a', '1a1a\n\n1a', 'ab\n:ab'] + \
        ['2:ab', '2:a', '1:ab', '12b', '1a', 'ab:ab', 'ab:abb', 'a:b', '2aa1a0', '1a2b', '1,2', '1a,2b,', '1a1a', '1a1a!', '1ab']

def main():
    seed = int(sys.argv[1]) if len(sys.argv) > 1 else 1
    count = int(sys.argv[2]) if len(sys.argv) > 2 else 200
    rnd = random.Random(seed)
    exprs = list(FIXED)
    while len(exprs) < count: exprs.append(gen_expr(rnd, rnd.choice([1, 2, 2, 3]), {}))
    cases = []
    lines = ['Require Import ExecDraft2 EntryDraft. Require Import List ZArith. Import ListNotations.',
             'Definition tab (tb : list (list (list (option nat)))) (ti id p : nat) : option nat :=',
             '  nth p (nth id (nth ti tb []) []) None.']
    skipped = collections.Counter()
    for gi, body in enumerate(exprs):
        desc = f'start = {body}\n' + PRELUDE
        try:
            g = Grammar(desc)
        except Exception as e:
            skipped['grammar:' + type(e).__name__] += 1; continue
        rules = captured['rules']
        idx = {r.name: i for i, r in enumerate(rules)}
        cx = Ctx(idx)
        try:
            bodies = [rule_body(r, cx) for r in rules]
        except Exception as e:
            skipped['export:' + str(e)[:30]] += 1; continue
        tables = []
        for text in TEXTS:
            per = []
            for (pat, ic) in cx.rx:
                rgx = re.compile(pat, re.I if ic else 0)
                row = []
                for p in range(len(text) + 1):
                    m = rgx.match(text, p)
                    row.append('None' if m is None else f'Some {m.end()}')
                per.append('[' + ';'.join(row) + ']')
            tables.append('[' + ';'.join(per) + ']')
        try:
            CONF = [(0, True), (0, False), (1, True)]
            obs = [observe(g, text, p, f) for text in TEXTS for (p, f) in CONF]
        except Exception as e:
            skipped['observe:' + type(e).__name__] += 1; continue
        cases.append((gi, body, [(t_, p, f) for t_ in TEXTS for (p, f) in CONF], obs))
        lines.append(f'Definition g{gi} : list (list nat * expr) := [{"; ".join(bodies)}].')
        lines.append(f'Definition tb{gi} : list (list (list (option nat))) := [{";".join(tables)}].')
        tl = '[' + ';'.join(codes(x) for x in TEXTS) + ']'
        lines.append(f'Eval vm_compute in (flat_map (fun '"'"f'(ti, t) => [parse_model false g{gi} [] false None t (tab tb{gi} ti) 300 0 0 true; parse_model false g{gi} [] false None t (tab tb{gi} ti) 300 0 0 false; parse_model false g{gi} [] false None t (tab tb{gi} ti) 300 0 1 true]) (combine (seq 0 {len(TEXTS)}) {tl})).')
    CASEFILE = f'cases_{os.getpid()}.v'
    open(CASEFILE, 'w').write('\n'.join(lines) + '\n')
    r = subprocess.run(['coqc', '-R', '/verif/notes/spike', '', CASEFILE], capture_output=True, text=True, cwd='/tmp/s')
    if r.returncode != 0:
        print(r.stderr[-3000:]); sys.exit(2)
    outtxt = re.sub(r'\s+', ' ', r.stdout)
    blocks = [x.strip() for x in outtxt.split(' = ')[1:]]
    nbad = total = 0
    seen = set()
    kinds = collections.Counter()
    for ci, (gi, body, texts, obs) in enumerate(cases):
        blk = blocks[ci]
        blk = blk[:blk.rindex(' : list')]
        blk = blk.replace('%Z', '')
        items = split_top(blk.strip()[1:-1])
        for text, o, m in zip(texts, obs, items):
            total += 1
            kinds[o.split(' ')[0]] += 1
            if norm(o) != norm(m):
                nbad += 1
                if body not in seen and len(seen) < 12:
                    seen.add(body)
                    print('MISMATCH', repr(body), repr(text), '\n   impl :', o, '\n   model:', m)
    print(dict(kinds)); print('skipped', dict(skipped))
    print(f'grammars={len(cases)} cases={total} mismatches={nbad}')

def split_top(s):
    out, depth, cur = [], 0, ''
    for ch in s:
        if ch in '([': depth += 1
        if ch in ')]': depth -= 1
        if ch == ';' and depth == 0:
            out.append(cur.strip()); cur = ''
        else: cur += ch
    if cur.strip(): out.append(cur.strip())
    return out
def norm(s):
    s = re.sub(r'\s+', '', s).replace('%Z', '')
    s = s.replace('(', '').replace(')', '')
    s = re.sub(r'Crash\d+', 'Crash', s)
    return s
main()
