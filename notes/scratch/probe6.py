from sourcer import Grammar
def t(name, f):
    try:
        r = f()
        print(f'[{name}] ->', repr(r)[:300])
    except Exception as e:
        print(f'[{name}] EXC', type(e).__name__, str(e).replace('\n','\\n')[:200])
# C03
for opts in ['', 'allow_trailer=True', 'allow_empty=False', 'discard_separators=False', 'discard_separators=False, allow_trailer=True','allow_trailer=True, require_separator=True']:
    g = Grammar(f'start = [Sep("a", ",", {opts}), /.*/]' if opts else 'start = [Sep("a", ","), /.*/]')
    for s in ['', 'a', 'a,', 'a,a', 'a,a,', ',']:
        t(f'C03 Sep({opts}) {s!r}', lambda: g.parse(s))
g = Grammar('start = [("a" // [",", ";"]), /.*/]')
for s in ['a,;a', 'a,;a,', 'a,;a,;', 'a,']:
    t(f'C03 compound sep {s!r}', lambda: g.parse(s))
g = Grammar('start = [("a" /? [",", ";"]), /.*/]')
for s in ['a,;a', 'a,;a,', 'a,;a,;', 'a,']:
    t(f'C03 compound sep trailer {s!r}', lambda: g.parse(s))
g = Grammar('start = [(["a","b"] // ","), /.*/]')
for s in ['ab,ab', 'ab,a', 'ab,']:
    t(f'C03 compound elem {s!r}', lambda: g.parse(s))
g = Grammar('start = ["a"{2,3}, /.*/] | /.*/')
for s in ['a', 'aa', 'aaaa']:
    t(f'C03 a{{2,3}} {s!r}', lambda: g.parse(s))
g = Grammar('start = [Sep("a", ",", allow_empty=False), "!"] | /.*/')
for s in ['a,a', 'a,a!', '']:
    t(f'C03 sep|alt {s!r}', lambda: g.parse(s))
