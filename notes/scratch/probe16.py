from sourcer import Grammar
def t(name, f):
    try:
        r = f()
        print(f'[{name}] ->', repr(r)[:300])
    except Exception as e:
        print(f'[{name}] EXC', type(e).__name__, str(e).replace('\n','\\n')[:200])
t('Choice()', lambda: Grammar('start = Choice()').parse(''))
t('"a"? >> Choice()', lambda: Grammar('start = ["a"?, Choice()]').parse(''))
t('Longest()', lambda: Grammar('start = ["a"?, Longest()]').parse(''))
t('Skip()', lambda: Grammar('start = Skip()').parse(''))
t('Seq()', lambda: Grammar('start = ["a"?, Seq()]').parse(''))
