from sourcer import Grammar
def t(name, f):
    try:
        r = f()
        print(f'[{name}] ->', repr(r)[:400])
    except Exception as e:
        print(f'[{name}] EXC', type(e).__name__, str(e).replace('\n','\\n')[:300])
# C09 sweep: error at column c on a line of length L, followed by newline and second line
g = Grammar('start = /[a\\n]*/')
bad = []
for L in range(0, 200):
    for c in range(0, L):
        line = 'a'*c + 'X' + 'a'*(L-c-1)
        text = 'aaa\n' + line + '\nbbbbb'
        try:
            g.parse(text)
        except g.PartialParseError as e:
            p = e.last_position
            idx = 4 + c
            ok = p.index == idx and p.line == 2 and p.column == c+1
            msg = str(e)
            lines = msg.split('\n')
            # lines[0] header, lines[1] excerpt, lines[2] caret
            ex, caret = lines[1], lines[2]
            if len(lines) != 3 or "^" not in lines[2]:
                bad.append((L, c, len(lines))); continue
            k = caret.index('^')
            ok2 = len(lines) == 3 and k < len(ex) and ex[k] == 'X'
            if not (ok and ok2):
                bad.append((L, c, len(lines)))
print('C09 bad count', len(bad), bad[:20])
