import sys
from sourcer import Grammar
def t(name, f):
    try:
        r = f()
        print(f'[{name}] ->', repr(r)[:300])
    except Exception as e:
        print(f'[{name}] EXC', type(e).__name__, str(e).replace('\n','\\n')[:200])
A = Grammar('grammar ia\nstart = X*\nX = "a" | Y\nY = "y"\nclass K { v: Y }')
B = Grammar('grammar ib extends ia\noverride Y = "z"')
t('B late binding', lambda: (B.parse('az'), A.parse('ay')))
t('B inherited class', lambda: B.K.parse('z'))
C = Grammar('grammar ic extends ib\nZ = [Y, X, K]')
t('C ref to grandparent rules', lambda: C.Z.parse('zaz'))
t('C start inherited from grandparent', lambda: C.parse('az'))
D = Grammar('grammar id_ extends ia\nstart = Y+')
t('D own start', lambda: D.parse('yy'))
t('A unchanged', lambda: (A.parse('ay'), A.X.parse('y')))
E = Grammar('grammar ie extends ia\noverride X = "b" | super.X')
t('E super', lambda: E.parse('bay'))
F = Grammar('grammar if_ extends ie\noverride Y = "q"')
t('F (extends E which uses super)', lambda: F.parse('baq'))
