"""Scratch differential test: ExecDraft.v (vm_compute) vs real sourcer.
Not framework code."""
import itertools, json, os, re, subprocess, sys, random
import sourcer
from sourcer import translator, expressions as ex, Grammar

captured = {}
_orig = translator._assign_ids
def _hook(rules):
    _orig(rules); captured['rules'] = rules
translator._assign_ids = _hook

def codes(s): return '[' + ';'.join(str(ord(c)) for c in s) + ']'
def b(x): return 'true' if x else 'false'
def optnat(x):
    if x is None: return 'None'
    return f'(Some {int(x)})'

class Ctx:
    def __init__(self, rule_index): self.rule_index = rule_index; self.rx = []

def to_coq(e, cx):
    n = type(e).__name__
    if n == 'Str': return f'(Str {codes(e.value)} {b(e.skip_ignored)})'
    if n == 'Regex':
        key = (e.pattern, e.ignore_case)
        if key not in cx.rx: cx.rx.append(key)
        return f'(Rx {cx.rx.index(key)} {b(e.skip_ignored)})'
    if n == 'Ref':
        name = e.name
        if name.startswith('_try_'): name = name[5:]
        return f'(Ref {cx.rule_index[name]})'
    if n == 'Seq': return '(Seq [' + ';'.join(to_coq(x, cx) for x in e.exprs) + '])'
    if n == 'Choice': return '(Choice [' + ';'.join(to_coq(x, cx) for x in e.exprs) + '])'
    if n == 'Longest': return '(Longest [' + ';'.join(to_coq(x, cx) for x in e.exprs) + '])'
    if n == 'Skip': return '(Skip [' + ';'.join(to_coq(x, cx) for x in e.exprs) + '])'
    if n == 'Discard': return f'(Discard {to_coq(e.expr1, cx)} {to_coq(e.expr2, cx)} {b(e.discard_left)})'
    if n == 'Opt': return f'(Opt {to_coq(e.expr, cx)})'
    if n == 'Expect': return f'(Expect {to_coq(e.expr, cx)})'
    if n == 'ExpectNot': return f'(ExpectNot {to_coq(e.expr, cx)})'
    if n == 'List': return f'(Rep {to_coq(e.expr, cx)} {optnat(e.min_len)} {optnat(e.max_len)})'
    if n == 'Backtrack': return f'(Backtrack {e.amount})'
    if n == 'Fail': return 'Fail'
    if n == 'Sep': return (f'(Sep {to_coq(e.expr, cx)} {to_coq(e.separator, cx)} {b(e.discard_separators)} '
                           f'{b(e.allow_trailer)} {b(e.allow_empty)} {b(e.require_separator)})')
    raise Exception('unsupported ' + n)

def flags(e, out):
    # preorder list of (always, partial) as computed by the implementation
    if isinstance(e, ex.Rule):
        flags(e.expr, out); return
    out.append((type(e).__name__, e.always_succeeds(), e.can_partially_succeed()))
    for k in ('exprs',):
        if hasattr(e, k):
            for x in getattr(e, k): flags(x, out)
    for k in ('expr1', 'expr2', 'expr', 'separator'):
        if hasattr(e, k) and isinstance(getattr(e, k), ex.base.Expression): flags(getattr(e, k), out)

def drive(g, func, text, pos):
    stack = [func(text, pos)]
    result = None
    steps = 0
    while stack:
        steps += 1
        if steps > 20000 or len(stack) > 500: raise RuntimeError('loop')
        result = stack[-1].send(result)
        if result[0] != 3:
            stack.pop()
        else:
            stack.append(result[1](text, result[2])); result = None
    return result

def pyval(v):
    if v is None: return 'VNone'
    if isinstance(v, str): return 'VStr ' + ('[' + '; '.join(str(ord(c)) for c in v) + ']')
    if isinstance(v, int): return f'VInt {v}'
    if isinstance(v, list): return 'VList [' + '; '.join(pyval(x) for x in v) + ']'
    raise Exception(f'value {v!r}')

def paren(s): return s if ' ' not in s else f'({s})'

import signal
class TO(Exception): pass
def _alarm(sig, frm): raise TO()
signal.signal(signal.SIGALRM, _alarm)
def observe(g, text):
    try:
        signal.setitimer(signal.ITIMER_REAL, 0.02)
        try:
            st, res, p = drive(g, g._try_start, text, 0)
        finally:
            signal.setitimer(signal.ITIMER_REAL, 0)
    except (RuntimeError, TO, MemoryError):
        return 'None'
    except NameError as e:
        return 'NameError'
    if st: return f'Some (true, Some {paren(pyval(res))}, {p})'
    return f'Some (false, None, {p})'

# ---------- expression generator (DSL text) ----------
LEAVES = ['"a"', '"b"', '"ab"', '"aa"', '""', 'X', 'Fail()', 'Backtrack(1)', '/a+/', '/[ab]/', '/b?/']
def unary(e):
    return [f'Opt({e})', f'({e})*', f'({e})+', f'({e}){{2}}', f'({e}){{1,2}}', f'({e}){{,2}}', f'({e}){{2,}}',
            f'Expect({e})', f'ExpectNot({e})', f'Skip({e})']
def binary(a, c):
    return [f'[{a}, {c}]', f'({a} >> {c})', f'({a} << {c})', f'({a} | {c})', f'Longest({a}, {c})', f'Skip({a}, {c})',
            f'({a} // {c})', f'({a} /? {c})', f'Sep({a}, {c}, allow_empty=False)',
            f'Sep({a}, {c}, discard_separators=False)', f'Sep({a}, {c}, allow_trailer=True, require_separator=True)']

def gen(seed, count):
    rnd = random.Random(seed)
    d1 = list(LEAVES)
    d2 = []
    for e in LEAVES: d2 += unary(e)
    for a in LEAVES:
        for c in LEAVES: d2 += binary(a, c)
    pool = d1 + d2
    out = []
    for e in d2: out.append(e)
    # depth 3 random
    while len(out) < count:
        k = rnd.random()
        if k < 0.4: out.append(rnd.choice(unary(rnd.choice(d2))))
        else: out.append(rnd.choice(binary(rnd.choice(pool), rnd.choice(pool))))
    return out[:count]

TEXTS = [''.join(p) for L in range(0, 5) for p in itertools.product('ab', repeat=L)] + ['c', 'ac', 'abc', 'aac', 'a,b', 'a,a,', 'a,', ',a']

def nullable_loop_risk(desc):
    return False

def main():
    seed = int(sys.argv[1]) if len(sys.argv) > 1 else 1
    count = int(sys.argv[2]) if len(sys.argv) > 2 else 400
    use_ignore = len(sys.argv) > 3 and sys.argv[3] == 'ign'
    exprs = gen(seed, count)
    if len(sys.argv) > 3 and sys.argv[3] == 'targ':
        L2 = ['"a"', '"ab"', '"b"']
        us = [u for l in ['"a"', '"ab"'] for u in unary(l)]
        exprs = [x for u in us for l in L2 for x in binary(u, l)] + [x for u in us for v in unary(u) for x in [f'({v} >> "ab")', f'({v} >> "b")']]
    cases = []
    lines = ['Require Import ExecDraft SpecDraft. Require Import List. Import ListNotations.',
             'Definition tab (tb : list (list (list (option nat)))) (ti id p : nat) : option nat :=',
             '  nth p (nth id (nth ti tb []) []) None.']
    skipped = 0
    for gi, body in enumerate(exprs):
        desc = f'start = {body}\nX = "b" << Expect("a" | "c")\n' if ',' not in body else f'start = {body}\nX = "b"\n'
        desc = desc.replace('(a ', '("a" ')
        if use_ignore: desc += 'ignore " "\n'
        try:
            g = Grammar(desc)
        except Exception as e:
            skipped += 1; continue
        rules = captured['rules']
        idx = {r.name: i for i, r in enumerate(rules)}
        cx = Ctx(idx)
        try:
            bodies = [to_coq(r.expr, cx) for r in rules]
        except Exception as e:
            skipped += 1; continue
        ign = f'(Some {idx["_ignored"]})' if '_ignored' in idx else 'None'
        texts = TEXTS if not use_ignore else [t.replace('b', ' b').replace('aa', 'a a') for t in TEXTS] + [' a', 'a  ', ' a b ']
        # regex tables
        tables = []
        for text in texts:
            per = []
            for (pat, ic) in cx.rx:
                rgx = re.compile(pat, re.I if ic else 0)
                row = []
                for p in range(len(text) + 1):
                    m = rgx.match(text, p)
                    row.append('None' if m is None else f'Some {m.end()}')
                per.append('[' + ';'.join(row) + ']')
            tables.append('[' + ';'.join(per) + ']')
        fl = []
        for r in rules: flags(r, fl)
        obs = [observe(g, text) for text in texts]
        cases.append((gi, desc, texts, obs, fl))
        lines.append(f'Definition g{gi} : list expr := [{"; ".join(bodies)}].')
        lines.append(f'Definition tb{gi} : list (list (list (option nat))) := [{";".join(tables)}].')
        tl = '[' + ';'.join(codes(x) for x in texts) + ']'
        lines.append(f'Eval vm_compute in (map (fun '"'"f'(ti, t) => spec_rule g{gi} {ign} t (tab tb{gi} ti) 400 0 0) (combine (seq 0 {len(texts)}) {tl})).')
        # flags from the model, preorder over all rules
        lines.append(f'Eval vm_compute in (map (fun e => (always e, partial false e)) g{gi}).')
    CASEFILE = f'cases_{os.getpid()}.v'
    open(CASEFILE, 'w').write('\n'.join(lines) + '\n')
    r = subprocess.run(['coqc', '-R', '/verif/notes/spike', '', CASEFILE], capture_output=True, text=True, cwd='/tmp/s')
    if r.returncode != 0:
        print(r.stderr[-3000:]); sys.exit(2)
    outtxt = re.sub(r'\s+', ' ', r.stdout)
    blocks = [x.strip() for x in outtxt.split(' = ')[1:]]
    # each case yields two blocks
    nbad = 0
    total = 0
    seen = set()
    for ci, (gi, desc, texts, obs, fl) in enumerate(cases):
        blk = blocks[2 * ci]
        blk = blk[:blk.rindex(' : list')]
        items = split_top(blk.strip()[1:-1])
        for text, o, m in zip(texts, obs, items):
            total += 1
            if 'false' in o and 'false' in m: continue
            if o == 'None' or m.strip() == 'None': continue
            if norm(o) != norm(m):
                nbad += 1
                if desc not in seen:
                    seen.add(desc)
                    print('MISMATCH', repr(desc.split("\n")[0]), repr(text), '\n   impl :', o, '\n   model:', m)
        fb = blocks[2 * ci + 1]
        fb = fb[:fb.rindex(' : list')]
        mf = split_top(fb.strip()[1:-1])
        # top-level flags of each rule body only
        rules = None
    import collections
    kinds = collections.Counter()
    for (gi, desc, texts, obs, fl) in cases:
        for o in obs:
            kinds['none' if o == 'None' else 'nameerr' if o == 'NameError' else 'succ' if 'true' in o else 'fail'] += 1
    print(dict(kinds))
    for c in cases[::max(1, len(cases)//6)]:
        print('sample', repr(c[1].split(chr(10))[0]), list(zip(c[2], c[3]))[5:8])
    print(f'grammars={len(cases)} skipped={skipped} cases={total} mismatches={nbad}')

def split_top(s):
    out, depth, cur = [], 0, ''
    for ch in s:
        if ch in '([': depth += 1
        if ch in ')]': depth -= 1
        if ch == ';' and depth == 0:
            out.append(cur.strip()); cur = ''
        else: cur += ch
    if cur.strip(): out.append(cur.strip())
    return out

def norm(s): return re.sub(r'\s+', '', s)

main()
