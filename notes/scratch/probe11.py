from sourcer import Grammar
import sys, types
def t(name, f):
    try:
        r = f()
        print(f'[{name}] ->', repr(r)[:500])
    except Exception as e:
        print(f'[{name}] EXC', type(e).__name__, str(e).replace('\n','\\n')[:300])
# C18 nested parse
g = Grammar(r'''
class W { v: /[a-z]+/ }
Inner = W
start = [W, "(" >> /[a-z]+/ |> `lambda s: Inner.parse(s)`, ")"]
''')
t('C18 nested parse', lambda: g.parse('ab(cd)'))
# C11
desc = r'''
T(x) = [x, x]
class K { a: T("a"); b: Opt(K) }
start = K+ | Fail("no")
ignore /\s+/
'''
g1 = Grammar(desc, include_source=True)
g2 = Grammar('grammar c11n\n' + desc, include_source=True)
t('C11 unnamed', lambda: g1.parse('a a aa'))
t('C11 named', lambda: g2.parse('a a aa'))
def standalone(src, name):
    m = types.ModuleType(name); exec(compile(src, name, 'exec'), m.__dict__); return m
t('C11 standalone unnamed', lambda: standalone(g1._source_code, 'x1').parse('a a aa'))
t('C11 standalone named', lambda: standalone(g2._source_code, 'x2').parse('a a aa'))
import re
s1 = Grammar(desc, include_source=True)._source_code
print('C11 deterministic source:', s1 == g1._source_code)
import difflib
for l in list(difflib.unified_diff(s1.split('\n'), g1._source_code.split('\n'), lineterm='', n=0))[:10]: print('   ', l)
