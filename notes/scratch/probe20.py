from sourcer import Grammar
def t(name, f):
    try:
        r = f()
        print(f'[{name}] ->', repr(r)[:300])
    except Exception as e:
        print(f'[{name}] EXC', type(e).__name__, str(e).replace('\n','\\n')[:200])
g = Grammar(r'''
start = [let n = N in "a"{n}, /.*/]
N = /\d/ |> `int`
''')
for s in ['0aaa', '1aaa', '2aaa', '0']:
    t('{n} ' + s, lambda: g.parse(s))
g = Grammar(r'''
start = [let n = N in "a"{,n}, /.*/]
N = /\d/ |> `int`
''')
for s in ['0aaa', '1aaa']:
    t('{,n} ' + s, lambda: g.parse(s))
