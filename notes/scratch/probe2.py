from sourcer import Grammar
def t(name, f):
    try:
        r = f()
        print(f'[{name}] ->', repr(r)[:300])
    except Exception as e:
        print(f'[{name}] EXC', type(e).__name__, str(e).replace('\n','\\n')[:200])

# C17
def nest(inner, depth, pre=''):
    return pre + 'start = ' + '['*depth + inner + ']'*depth
for d in (5, 8, 9, 10, 12, 20, 40):
    t(f'C17 ref depth {d}', lambda: Grammar(nest('X', d, 'X = "x"\n')).parse('x'))
for d in (8, 9, 10, 12, 20):
    t(f'C17 lit+ignore depth {d}', lambda: Grammar(nest('"x"', d, 'ignore " "\n')).parse('x'))
# deep recursion
g = Grammar(r'start = ["(", start?, ")"]')
t('C17 deep 50000', lambda: len(g.parse('('*50000 + ')'*50000)))
