from sourcer import Grammar
import pickle, copy
def t(name, f):
    try:
        r = f()
        print(f'[{name}] ->', repr(r)[:400])
    except Exception as e:
        print(f'[{name}] EXC', type(e).__name__, str(e).replace('\n','\\n')[:200])
g = Grammar(r'''
grammar c14mod
class K { a: /\d/ |> `int`; xs: /[a-z]/* ; d: `{"k": [1]}` ; t: `(1, [2])` }
class E { }
start = K
''')
o = g.parse('1ab'); o2 = g.parse('1ab')
t('eq/hash', lambda: (o == o2, hash(o) == hash(o2), o is o2))
t('pickle named', lambda: (pickle.loads(pickle.dumps(o)) == o, pickle.loads(pickle.dumps(o))._metadata.position_info))
t('asdict', lambda: o._asdict())
t('replace', lambda: (o._replace(a=5), o.a, o._replace(a=5)._metadata.position_info == o._metadata.position_info))
t('repr eval', lambda: eval(repr(o), vars(g)) == o)
t('infix repr', lambda: eval(repr(g.Infix(o, '+', g.Prefix('-', 1))), vars(g)) == g.Infix(o2, '+', g.Prefix('-', 1)))
t('eq int/bool fields', lambda: (g.K(1,[],{},()) == g.K(True,[],{},()), hash(g.K(1,[],{},())) == hash(g.K(True,[],{},()))))
t('hash after mutation', lambda: (hash(o), o.xs.append('z'), hash(o) == hash(g.K(1, ['a','b','z'], {"k":[1]}, (1,[2]))), o == g.K(1, ['a','b','z'], {"k":[1]}, (1,[2]))))
t('metadata getattr', lambda: (o._metadata.nothing, len(o._metadata)))
t('eq different class same fields', lambda: g.Infix(1,2,3) == g.Infix(1,2,3) and g.Prefix(1,2) != g.Postfix(1,2))
t('replace unknown field', lambda: o._replace(zzz=1))
