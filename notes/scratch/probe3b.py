import sys
from sourcer import Grammar
which = sys.argv[1]
if which == 'a3':
    A = Grammar('grammar a3\nstart = W*\nW = "a"')
    B = Grammar('grammar b3 extends a3\noverride W = "b" | super.W')
    print(A.parse('aa'), B.parse('ab'))
    C = Grammar('grammar c3 extends b3\noverride W = "c" | super.W')
    print(C.parse('abc'))
if which == 'a4':
    A = Grammar('grammar pk.a4\nstart = W*\nW = "a"')
    print(A.parse('aa'))
    B = Grammar('grammar pk.b4 extends pk.a4\noverride W = "b" | super.W')
    print(B.parse('ab'))
if which == 'a5':
    A = Grammar('grammar a5\nstart = W*\nW = "a"\nclass K { x: W }')
    B = Grammar('grammar b5 extends a5\nX = "q"')
    print(A.parse('aa'), B.parse('aa'), B.K.parse('a'), B.W.parse('a'))
