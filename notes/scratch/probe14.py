from sourcer import Grammar
def t(name, f):
    try:
        r = f()
        print(f'[{name}] ->', repr(r)[:500])
    except Exception as e:
        print(f'[{name}] EXC', type(e).__name__, str(e).replace('\n','\\n')[:300])
t('empty seq', lambda: Grammar('start = []').parse(''))
t('empty seq after fail', lambda: Grammar('start = "a" | []').parse(''))
t('empty class', lambda: Grammar('class C {}').C.parse(''))
t('empty class after', lambda: Grammar('class C {}\nstart = ["a"?, C]').parse(''))
t('longest always', lambda: Grammar('start = Longest("a"?, "ab")').parse('ab'))
t('choice fail first', lambda: Grammar('start = Fail("x") | "a"').parse('a'))
t('min>max', lambda: Grammar('start = let n = `3` in let m = `2` in "a"{n,m}').parse('aa'))
