import threading, sys, random
from sourcer import Grammar
sys.setswitchinterval(1e-6)
g = Grammar(r'''
start = Expr
Int = /\d+/ |> `int`
Expr = Int between {
    mixfix: '(' >> Expr << ')'
    prefix: '-'
    left: '*', '/'
    left: '+', '-'
}
class K { a: Int }
ignore /\s+/
''')
texts = ['1 + 2 * (3 - 4)', '(((1)))', '1 +', '- - 5 / 2', '2 * 3 + 4 * 5 - 6', '7', '1 + + 2', '']
def outcome(t):
    try: return ('ok', repr(g.parse(t)))
    except g.PartialParseError as e: return ('partial', repr(e.partial_result), e.last_position.index)
    except g.ParseError as e: return ('err', e.position.index)
    except Exception as e: return ('crash', type(e).__name__)
expected = {t: outcome(t) for t in texts}
bad = []
def worker(seed):
    rnd = random.Random(seed)
    for _ in range(3000):
        t = rnd.choice(texts)
        o = outcome(t)
        if o != expected[t]: bad.append((t, o))
ths = [threading.Thread(target=worker, args=(i,)) for i in range(8)]
[t.start() for t in ths]; [t.join() for t in ths]
print('thread mismatches', len(bad), bad[:3])
# history: failing call with raising inline python, then normal
h = Grammar(r'''
```
def boom(x):
    raise ValueError('boom')
```
A = /a/ |> `boom`
B = /b+/
start = A | B
''')
try: h.parse('a')
except ValueError as e: print('raised', e)
print('after raise', h.parse('bbb'), h.B.parse('b'))
