from sourcer import Grammar
def t(name, f):
    try:
        r = f()
        print(f'[{name}] ->', repr(r)[:300])
    except Exception as e:
        print(f'[{name}] EXC', type(e).__name__, str(e).replace('\n','\\n')[:200])
t('C06 capture via ref count', lambda: Grammar(r'''
T(x) = [x, "-", x]
start = let n = /\d/ |> `int` in T("a"{n})
''').parse('2aa-aa'))
t('C06 capture via ref count named', lambda: Grammar(r'''
grammar c06q
T(x) = [x, "-", x]
start = let n = /\d/ |> `int` in T("a"{n})
''').parse('2aa-aa'))
t('C06 capture via where ref', lambda: Grammar(r'''
T(x) = [x, "-", x]
Eq(v) = /[a-z]/ where `lambda c: c == v`
start = let n = /[a-z]/ in T(Eq(n) << ".")
''').parse('bb.-b.'))
t('C06 capture via where ref named', lambda: Grammar(r'''
grammar c06r
T(x) = [x, "-", x]
Eq(v) = /[a-z]/ where `lambda c: c == v`
start = let n = /[a-z]/ in T(Eq(n) << ".")
''').parse('bb.-b.'))
t('C06 two captures named', lambda: Grammar(r'''
grammar c06s
T(x) = [x, "-", x]
Eq(v) = /[a-z]/ where `lambda c: c == v`
start = let n = /[a-z]/ in let m = /[a-z]/ in T([Eq(n), Eq(m)])
''').parse('bcbc-bc'))
t('C06 two captures unnamed', lambda: Grammar(r'''
T(x) = [x, "-", x]
Eq(v) = /[a-z]/ where `lambda c: c == v`
start = let n = /[a-z]/ in let m = /[a-z]/ in T([Eq(n), Eq(m)])
''').parse('bcbc-bc'))
t('C06 recursion template', lambda: Grammar(r'''
P(x) = ["(", P(x)?, ")"] | x
start = P("a")
''').parse('((a))'))
t('C06 class template', lambda: Grammar(r'''
class P(x) { l: "("; v: x; r: ")" }
start = [P("a"), P("b")]
''').parse('(a)(b)'))
