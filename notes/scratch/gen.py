import sys
from sourcer import Grammar
g = Grammar(sys.argv[1], include_source=True)
src = g._source_code
i = src.index('def _map_index_to_line_and_column')
print(src[i:])
