From Coq Require Import List Arith Bool Lia.
Import ListNotations.

Inductive value :=
| VNone | VStr (s : list nat) | VList (l : list value) | VErr (id : nat).

Inductive expr :=
| Str (s : list nat)
| Ref (r : nat)
| Seq (es : list expr)
| Choice (es : list expr)
| Opt (e : expr)
| Rep (e : expr) (mn : nat) (mx : option nat)
| Expect (e : expr)
| ExpectNot (e : expr).

Definition grammar := list expr.

Fixpoint always (e : expr) : bool :=
  match e with
  | Str s => match s with [] => true | _ => false end
  | Ref _ => false
  | Seq _ => false
  | Choice es => existsb always es
  | Opt _ => true
  | Rep _ mn _ => Nat.eqb mn 0
  | Expect e => always e
  | ExpectNot _ => false
  end.

Fixpoint partial (e : expr) : bool :=
  match e with
  | Str _ => false
  | Ref _ => true
  | Seq _ => true
  | Choice es => negb (existsb always es) && existsb partial es
  | Opt _ => false
  | Rep e mn _ => negb (Nat.eqb mn 0)     (* repaired flag *)
  | Expect e => partial e
  | ExpectNot _ => true
  end.

Fixpoint prefix_at (s t : list nat) (p : nat) : bool :=
  match s with
  | [] => true
  | c :: s' => match nth_error t p with
               | Some d => Nat.eqb c d && prefix_at s' t (S p)
               | None => false
               end
  end.

Definition res := option (value * nat).
Definition at_max (mx : option nat) (k : nat) :=
  match mx with Some m => Nat.eqb k m | None => false end.

(* ---------------- SPEC ---------------- *)
Section Spec.
Variable pg : expr -> nat -> option res.

Fixpoint seq_spec (es : list expr) (p : nat) (acc : list value) : option res :=
  match es with
  | [] => Some (Some (VList (rev acc), p))
  | e :: es' => match pg e p with
                | None => None
                | Some None => Some None
                | Some (Some (v, p')) => seq_spec es' p' (v :: acc)
                end
  end.

Fixpoint choice_spec (es : list expr) (p : nat) : option res :=
  match es with
  | [] => Some None
  | e :: es' => match pg e p with
                | None => None
                | Some None => choice_spec es' p
                | Some (Some r) => Some (Some r)
                end
  end.

Fixpoint rep_spec (k : nat) (e : expr) (mn : nat) (mx : option nat) (p : nat) (acc : list value) : option res :=
  if at_max mx (length acc) then Some (Some (VList (rev acc), p)) else
  match k with
  | 0 => None
  | S k => match pg e p with
           | None => None
           | Some None => Some (if Nat.leb mn (length acc) then Some (VList (rev acc), p) else None)
           | Some (Some (v, p')) => rep_spec k e mn mx p' (v :: acc)
           end
  end.
End Spec.

Section Sem.
Variable g : grammar.
Variable t : list nat.

Fixpoint peg (n : nat) (e : expr) (p : nat) : option res :=
  match n with
  | 0 => None
  | S n =>
    match e with
    | Str s => Some (if prefix_at s t p then Some (VStr s, p + length s) else None)
    | Ref r => match nth_error g r with Some b => peg n b p | None => Some None end
    | Seq es => seq_spec (peg n) es p []
    | Choice es => choice_spec (peg n) es p
    | Opt e => match peg n e p with
               | None => None
               | Some None => Some (Some (VNone, p))
               | Some (Some r) => Some (Some r)
               end
    | Rep e mn mx => rep_spec (peg n) n e mn mx p []
    | Expect e => match peg n e p with
                  | None => None
                  | Some None => Some None
                  | Some (Some (v, _)) => Some (Some (v, p))
                  end
    | ExpectNot e => match peg n e p with
                     | None => None
                     | Some None => Some (Some (VNone, p))
                     | Some (Some _) => Some None
                     end
    end
  end.

(* ---------------- MODEL ---------------- *)
Record st := mk { status : bool; result : value; pos : nat }.

Section Loops.
Variable ex : expr -> st -> option st.

Fixpoint seq_loop (es : list expr) (s : st) (items : list value) : option st :=
  match es with
  | [] => Some (mk true (VList (rev items)) (pos s))        (* repaired: status set *)
  | e :: es' =>
    match ex e s with
    | None => None
    | Some s1 =>
      if always e || status s1 then seq_loop es' s1 (result s1 :: items) else Some s1
    end
  end.

Fixpoint choice_loop (needs_err : bool) (start : nat) (es : list expr) (s : st)
         (far_pos : nat) (far_err : value) : option st :=
  match es with
  | [] => if needs_err then Some (mk (status s) far_err far_pos) else Some s
  | e :: es' =>
    match ex e s with
    | None => None
    | Some s1 =>
      if always e || status s1 then Some s1
      else
        let upd := needs_err && partial e && Nat.ltb far_pos (pos s1) in
        let fp := if upd then pos s1 else far_pos in
        let fe := if upd then result s1 else far_err in
        let s2 := match es' with
                  | [] => s1
                  | _ => if partial e then mk (status s1) (result s1) start else s1
                  end in
        choice_loop needs_err start es' s2 fp fe
    end
  end.

Definition rep_fin (mn : nat) (s : st) (acc : list value) : st :=
  if Nat.eqb mn 0 then mk true (VList (rev acc)) (pos s)
  else if Nat.leb mn (length acc) then mk true (VList (rev acc)) (pos s)
  else s.

Fixpoint rep_loop (k : nat) (e : expr) (mn : nat) (mx : option nat) (s : st) (acc : list value) : option st :=
  match k with
  | 0 => None
  | S k =>
    let cp := pos s in
    match ex e s with
    | None => None
    | Some s1 =>
      if negb (always e) && negb (status s1) then
        Some (rep_fin mn (if partial e then mk (status s1) (result s1) cp else s1) acc)
      else
        let acc' := result s1 :: acc in
        if at_max mx (length acc') then Some (rep_fin mn s1 acc')
        else rep_loop k e mn mx s1 acc'
    end
  end.
End Loops.

Fixpoint exec (n : nat) (e : expr) (s : st) : option st :=
  match n with
  | 0 => None
  | S n =>
    match e with
    | Str v =>
        match v with
        | [] => Some (mk true (VStr []) (pos s))
        | _ => if prefix_at v t (pos s)
               then Some (mk true (VStr v) (pos s + length v))
               else Some (mk false (VErr 0) (pos s))
        end
    | Ref r => match nth_error g r with
               | Some b => exec n b s
               | None => Some (mk false (VErr 1) (pos s)) end
    | Seq es => seq_loop (exec n) es s []
    | Choice es =>
        choice_loop (exec n) (negb (existsb always es)) (pos s) es s (pos s) (VErr 2)
    | Opt e =>
        let bt := pos s in
        match exec n e s with
        | None => None
        | Some s1 => if always e || status s1 then Some s1 else Some (mk true VNone bt)
        end
    | Rep e mn mx =>
        match mx with
        | Some 0 => Some (mk true (VList []) (pos s))
        | _ => rep_loop (exec n) n e mn mx s []
        end
    | Expect e =>
        let bt := pos s in
        match exec n e s with
        | None => None
        | Some s1 => if always e || status s1 then Some (mk (status s1) (result s1) bt) else Some s1
        end
    | ExpectNot e =>
        let bt := pos s in
        match exec n e s with
        | None => None
        | Some s1 => if status s1 then Some (mk false (VErr 3) bt) else Some (mk true VNone bt)
        end
    end
  end.

(* ---------------- REFINEMENT ---------------- *)
Definition agree (e : expr) (p : nat) (r : option res) (o : option st) : Prop :=
  match r, o with
  | None, None => True
  | Some (Some (v, p')), Some s' => status s' = true /\ result s' = v /\ pos s' = p'
  | Some None, Some s' => status s' = false /\ always e = false /\ (partial e = false -> pos s' = p)
  | _, _ => False
  end.

Section Gen.
Variable pg : expr -> nat -> option res.
Variable ex : expr -> st -> option st.
Hypothesis IH : forall e s, agree e (pos s) (pg e (pos s)) (ex e s).

Lemma seq_ok : forall es s acc,
  match seq_spec pg es (pos s) acc, seq_loop ex es s acc with
  | None, None => True
  | Some (Some (v,p')), Some s' => status s' = true /\ result s' = v /\ pos s' = p'
  | Some None, Some s' => status s' = false
  | _, _ => False end.
Proof.
  induction es as [|e es IHes]; intros s acc; cbn; auto.
  specialize (IH e s). unfold agree in IH.
  destruct (pg e (pos s)) as [[[v p']|]|], (ex e s) as [s1|]; try tauto.
  - destruct IH as (H1&H2&H3). subst. rewrite H1, orb_true_r. apply IHes.
  - destruct IH as (H1&H2&H3). rewrite H2, H1. cbn. auto.
Qed.

Lemma choice_ok : forall es ne start (P : bool) s fp fe,
  pos s = start ->
  (ne = false -> existsb always es = true) ->
  (existsb partial es = true -> P = true) ->
  (P = false -> fp = start) ->
  match choice_spec pg es start, choice_loop ex ne start es s fp fe with
  | None, None => True
  | Some (Some (v,p')), Some s' => status s' = true /\ result s' = v /\ pos s' = p'
  | Some None, Some s' => (es <> [] \/ status s = false) -> status s' = false /\ existsb always es = false
                          /\ (P = false -> pos s' = start)
  | _, _ => False end.
Proof.
  induction es as [|e es IHes]; intros ne start P s fp fe Hp Hne HP Hfp; cbn [choice_spec choice_loop].
  - destruct ne; cbn.
    + intros [H|H]; [congruence|]. repeat split; auto.
    + specialize (Hne eq_refl). discriminate.
  - pose proof (IH e s) as He. rewrite Hp in He. unfold agree in He.
    destruct (pg e start) as [[[v p']|]|], (ex e s) as [s1|]; try tauto.
    + destruct He as (H1&H2&H3). rewrite H1, orb_true_r. auto.
    + destruct He as (H1&H2&H3). replace (always e || status s1) with false by (rewrite H1, H2; auto).
      cbn in Hne, HP. rewrite H2 in Hne. cbn in Hne.
      assert (HPe : partial e = true -> P = true).
      { intros E. apply HP. rewrite E. auto. }
      assert (HPes : existsb partial es = true -> P = true).
      { intros E. apply HP. rewrite E. apply orb_true_r. }
      set (upd := ne && partial e && (fp <? pos s1)).
      assert (Hfp' : P = false -> (if upd then pos s1 else fp) = start).
      { intros HPf. destruct (partial e) eqn:Ep.
        - specialize (HPe eq_refl). congruence.
        - subst upd. rewrite andb_false_r. cbn. auto. }
      destruct es as [|e' es'].
      * cbn [choice_loop]. destruct ne; cbn.
        -- intros _. repeat split; auto; rewrite ?H2; auto.
        -- specialize (Hne eq_refl). discriminate.
      * cbv iota. set (s2 := if partial e then mk (status s1) (result s1) start else s1).
        assert (Hs2p : pos s2 = start).
        { subst s2. destruct (partial e) eqn:Ep; cbn; auto. }
        assert (Hs2s : status s2 = false).
        { subst s2. destruct (partial e); cbn; auto. }
        specialize (IHes ne start P s2 (if upd then pos s1 else fp)
                         (if upd then result s1 else fe) Hs2p Hne HPes Hfp').
        destruct (choice_spec pg (e' :: es') start) as [[[v p']|]|],
                 (choice_loop ex ne start (e' :: es') s2 _ _); auto.
        intros _. destruct IHes as (A&B&C); [left; discriminate|].
        repeat split; auto. change (always e || existsb always (e' :: es') = false). rewrite H2, B. auto.
Qed.

Lemma rep_spec_at_max k e mn mx p acc :
  at_max mx (length acc) = true -> rep_spec pg k e mn mx p acc = Some (Some (VList (rev acc), p)).
Proof. intros H. destruct k; cbn; rewrite H; auto. Qed.

Lemma rep_ok : forall k e mn mx s acc,
  (forall m, mx = Some m -> mn <= m) -> at_max mx (length acc) = false ->
  match rep_spec pg k e mn mx (pos s) acc, rep_loop ex k e mn mx s acc with
  | None, None => True
  | Some (Some (v,p')), Some s' => status s' = true /\ result s' = v /\ pos s' = p'
  | Some None, Some s' => status s' = false /\ mn <> 0
  | _, _ => False end.
Proof.
  induction k as [|k IHk]; intros e mn mx s acc Hmm Hmax.
  - cbn. rewrite Hmax. auto.
  - cbn [rep_spec rep_loop]. rewrite Hmax.
    pose proof (IH e s) as He. unfold agree in He.
    destruct (pg e (pos s)) as [[[v p']|]|], (ex e s) as [s1|]; try tauto.
    + destruct He as (H1&H2&H3). subst v p'.
      replace (negb (always e) && negb (status s1)) with false by (rewrite H1, andb_false_r; auto).
      destruct (at_max mx (length (result s1 :: acc))) eqn:Em.
      * rewrite rep_spec_at_max by exact Em. unfold rep_fin.
        destruct (Nat.eqb mn 0); cbn; auto.
        destruct mx as [m|]; [|discriminate]. unfold at_max in Em. apply Nat.eqb_eq in Em. cbn [length] in Em.
        specialize (Hmm m eq_refl).
        destruct (Nat.leb_spec mn (S (length acc))); cbn in *; auto; lia.
      * apply IHk; auto.
    + destruct He as (H1&H2&H3).
      replace (negb (always e) && negb (status s1)) with true by (rewrite H1, H2; auto).
      unfold rep_fin.
      destruct (Nat.eqb_spec mn 0) as [E0|E0].
      * subst. cbn. repeat split; auto. destruct (partial e) eqn:Ep; cbn; auto.
      * destruct (Nat.leb mn (length acc)) eqn:El.
        -- cbn. repeat split; auto. destruct (partial e) eqn:Ep; cbn; auto.
        -- destruct (partial e); cbn; auto.
Qed.
End Gen.

Definition wf_bounds := fix wf (e : expr) : Prop :=
  match e with
  | Rep e mn (Some m) => mn <= m /\ wf e
  | Rep e _ None => wf e
  | Choice [] => False
  | Seq es | Choice es => (fix all (l : list expr) : Prop := match l with [] => True | x :: l' => wf x /\ all l' end) es
  | Opt e | Expect e | ExpectNot e => wf e
  | _ => True
  end.

Theorem exec_refines_peg :
  (forall e, wf_bounds e) ->      (* simplification for the spike: bounds are consistent everywhere *)
  forall n e s, agree e (pos s) (peg n e (pos s)) (exec n e s).
Proof.
  intros WF. induction n as [|n IHn]; intros e s; [exact I|].
  destruct e as [v|r|es|es|e|e mn mx|e|e]; cbn [peg exec].
  - destruct v as [|c v]; cbn [agree always partial].
    + cbn. rewrite Nat.add_0_r. auto.
    + destruct (prefix_at (c :: v) t (pos s)); cbn; auto.
  - destruct (nth_error g r) as [b|]; cbn.
    + specialize (IHn b s). unfold agree in *.
      destruct (peg n b (pos s)) as [[[v p']|]|], (exec n b s); auto.
      destruct IHn as (?&?&?). repeat split; auto. intros; discriminate.
    + repeat split; auto.
  - pose proof (seq_ok (peg n) (exec n) IHn es s []) as H. unfold agree.
    destruct (seq_spec (peg n) es (pos s) []) as [[[v p']|]|], (seq_loop (exec n) es s []); auto.
    repeat split; auto. cbn. discriminate.
  - pose proof (choice_ok (peg n) (exec n) IHn es (negb (existsb always es)) (pos s)
                          (existsb partial es) s (pos s) (VErr 2) eq_refl) as H.
    unfold agree.
    match type of H with (?A -> ?B -> ?C -> _) => assert (HA : A); [|assert (HB : B); [|assert (HC : C)]] end.
    { destruct (existsb always es); cbn; auto; try discriminate. }
    { auto. } { auto. }
    specialize (H HA HB HC).
    destruct (choice_spec (peg n) es (pos s)) as [[[v p']|]|], (choice_loop (exec n) _ _ es s _ _) eqn:EL; auto.
    destruct es as [|e0 es0].
    + exfalso. apply (WF (Choice [])).
    + destruct H as (A&B&C); [left; discriminate|].
      cbn [always partial]. rewrite B. cbn [negb andb]. repeat split; auto.
  - specialize (IHn e s). unfold agree in *.
    destruct (peg n e (pos s)) as [[[v p']|]|], (exec n e s) as [s1|]; try tauto.
    + destruct IHn as (H1&H2&H3). rewrite H1, orb_true_r. auto.
    + destruct IHn as (H1&H2&H3). rewrite H1, H2. cbn. auto.
  - assert (Hmm : forall m, mx = Some m -> mn <= m).
    { intros m ->. specialize (WF (Rep e mn (Some m))). cbn in WF. tauto. }
    destruct mx as [[|m]|].
    + destruct n; cbn; auto.
    + pose proof (rep_ok (peg n) (exec n) IHn n e mn (Some (S m)) s [] Hmm eq_refl) as H.
      unfold agree.
      destruct (rep_spec (peg n) n e mn (Some (S m)) (pos s) []) as [[[v p']|]|], (rep_loop (exec n) n e mn _ s []); auto.
      destruct H as (A&B). cbn. repeat split; auto. apply Nat.eqb_neq; auto.
      destruct (Nat.eqb_spec mn 0); auto; try contradiction. discriminate.
    + pose proof (rep_ok (peg n) (exec n) IHn n e mn None s [] Hmm eq_refl) as H.
      unfold agree.
      destruct (rep_spec (peg n) n e mn None (pos s) []) as [[[v p']|]|], (rep_loop (exec n) n e mn _ s []); auto.
      destruct H as (A&B). cbn. repeat split; auto. apply Nat.eqb_neq; auto.
      destruct (Nat.eqb_spec mn 0); auto; try contradiction. discriminate.
  - specialize (IHn e s). unfold agree in *. cbn [always partial].
    destruct (peg n e (pos s)) as [[[v p']|]|], (exec n e s) as [s1|]; try tauto.
    + destruct IHn as (H1&H2&H3). rewrite H1, orb_true_r. cbn. auto.
    + destruct IHn as (H1&H2&H3). rewrite H1, H2. cbn. auto.
  - specialize (IHn e s). unfold agree in *. cbn [always partial].
    destruct (peg n e (pos s)) as [[[v p']|]|], (exec n e s) as [s1|]; try tauto.
    + destruct IHn as (H1&H2&H3). rewrite H1. cbn. repeat split; auto; try discriminate.
    + destruct IHn as (H1&H2&H3). rewrite H1. cbn. auto.
Qed.
End Sem.
Print Assumptions exec_refines_peg.
