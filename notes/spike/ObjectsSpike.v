(* Design spike (not framework code): ParsedObject.__eq__ / __hash__ / _hash
   (translator.py:471-527) over a nested value domain; equal objects have equal
   hashes, with builtin hash abstract. *)
From Coq Require Import List ZArith Bool Lia.
Import ListNotations.
Open Scope Z_scope.

(* payload kinds with Python's == already quotiented: numbers (int/bool share
   a value), strings, None *)
Inductive prim := PNum (z : Z) | PStr (s : list nat) | PNone.
Definition prim_eqb (a b : prim) : bool :=
  match a, b with
  | PNum x, PNum y => Z.eqb x y
  | PStr x, PStr y => if list_eq_dec Nat.eq_dec x y then true else false
  | PNone, PNone => true
  | _, _ => false
  end.

Inductive value :=
| P (p : prim)
| L (l : list value)            (* list: unhashable *)
| T (l : list value)            (* tuple: hashable iff all members are *)
| O (cls : nat) (fields : list value).   (* ParsedObject; metadata and identity are not part of == *)

Section Hash.
Variable hprim : prim -> Z.                 (* builtin hash on scalars *)
Variable htuple : list Z -> Z.              (* builtin tuple hash as a function of member hashes *)
Hypothesis hprim_eq : forall a b, prim_eqb a b = true -> hprim a = hprim b.

Fixpoint py_eq (a b : value) {struct a} : bool :=
  match a, b with
  | P x, P y => prim_eqb x y
  | L xs, L ys | T xs, T ys =>
      (fix go (xs ys : list value) : bool :=
         match xs, ys with
         | [], [] => true
         | x :: xs', y :: ys' => py_eq x y && go xs' ys'
         | _, _ => false
         end) xs ys
  | O c xs, O d ys =>
      Nat.eqb c d &&
      (fix go (xs ys : list value) : bool :=
         match xs, ys with
         | [], [] => true
         | x :: xs', y :: ys' => py_eq x y && go xs' ys'
         | _, _ => false
         end) xs ys
  | _, _ => false
  end.
Fixpoint eq_list (xs ys : list value) : bool :=
  match xs, ys with
  | [], [] => true
  | x :: xs', y :: ys' => py_eq x y && eq_list xs' ys'
  | _, _ => false
  end.

(* hashable v = hash(v) does not raise TypeError *)
Fixpoint hashable (v : value) : bool :=
  match v with
  | P _ => true
  | L _ => false
  | T l => (fix all (l : list value) := match l with [] => true | x :: l' => hashable x && all l' end) l
  | O _ _ => true           (* ParsedObject defines __hash__ *)
  end.
Fixpoint hashable_list (l : list value) := match l with [] => true | x :: l' => hashable x && hashable_list l' end.

(* _hash(value): try hash(value) / except TypeError: xor of members *)
Fixpoint py_hash (v : value) : Z :=
  match v with
  | P p => hprim p
  | L l => (fix xo (l : list value) : Z := match l with [] => 0 | x :: l' => Z.lxor (py_hash x) (xo l') end) l
  | T l =>
      if hashable_list l
      then htuple ((fix hs (l : list value) : list Z := match l with [] => [] | x :: l' => py_hash x :: hs l' end) l)
      else (fix xo (l : list value) : Z := match l with [] => 0 | x :: l' => Z.lxor (py_hash x) (xo l') end) l
  | O _ fs => (fix xo (l : list value) : Z := match l with [] => 0 | x :: l' => Z.lxor (py_hash x) (xo l') end) fs
  end.
Fixpoint xor_list (l : list value) : Z := match l with [] => 0 | x :: l' => Z.lxor (py_hash x) (xor_list l') end.
Fixpoint hash_list (l : list value) : list Z := match l with [] => [] | x :: l' => py_hash x :: hash_list l' end.

(* a size-based induction principle for the nested type *)
Fixpoint vsize (v : value) : nat :=
  match v with
  | P _ => 1%nat
  | L l | T l | O _ l => S ((fix sz (l : list value) : nat := match l with [] => 0%nat | x :: l' => (vsize x + sz l')%nat end) l)
  end.
Fixpoint lsize (l : list value) : nat := match l with [] => 0%nat | x :: l' => (vsize x + lsize l')%nat end.

Lemma eq_hash_aux : forall n a b, (vsize a <= n)%nat -> py_eq a b = true ->
  py_hash a = py_hash b /\ hashable a = hashable b.
Proof.
  induction n as [|n IHv]; intros a b Ha He.
  - destruct a; cbn in Ha; lia.
  - assert (Hl : forall xs ys, (lsize xs <= n)%nat -> eq_list xs ys = true ->
      xor_list xs = xor_list ys /\ hash_list xs = hash_list ys /\ hashable_list xs = hashable_list ys).
    { induction xs as [|x xs IHxs]; intros [|y ys] Hs Hq; cbn [eq_list] in Hq; try discriminate; auto.
      apply andb_true_iff in Hq. destruct Hq as [Hx Hxs]. cbn [lsize] in Hs.
      destruct (IHv x y ltac:(lia) Hx) as (A1 & A2).
      destruct (IHxs ys ltac:(lia) Hxs) as (B1 & B2 & B3).
      cbn [xor_list hash_list hashable_list]. rewrite A1, A2, B1, B2, B3. auto. }
    destruct a as [p|xs|xs|c xs], b as [q|ys|ys|d ys]; try discriminate.
    + cbn in *. split; auto.
    + change (eq_list xs ys = true) in He. change (S (lsize xs) <= S n)%nat in Ha.
      destruct (Hl xs ys ltac:(lia) He) as (H1 & H2 & H3).
      split; [exact H1 | reflexivity].
    + change (eq_list xs ys = true) in He. change (S (lsize xs) <= S n)%nat in Ha.
      destruct (Hl xs ys ltac:(lia) He) as (H1 & H2 & H3).
      change (py_hash (T xs)) with (if hashable_list xs then htuple (hash_list xs) else xor_list xs).
      change (py_hash (T ys)) with (if hashable_list ys then htuple (hash_list ys) else xor_list ys).
      change (hashable (T xs)) with (hashable_list xs). change (hashable (T ys)) with (hashable_list ys).
      rewrite H1, H2, H3. auto.
    + change (Nat.eqb c d && eq_list xs ys = true) in He. apply andb_true_iff in He. destruct He as [_ He].
      change (S (lsize xs) <= S n)%nat in Ha.
      destruct (Hl xs ys ltac:(lia) He) as (H1 & H2 & H3).
      split; [exact H1 | reflexivity].
Qed.

Theorem eq_implies_hash a b : py_eq a b = true -> py_hash a = py_hash b.
Proof. intros H. apply (eq_hash_aux (vsize a) a b (le_n _) H). Qed.
End Hash.
Print Assumptions eq_implies_hash.
