(* Design spike (not framework code): ParsedObject.__eq__ / __hash__ / _hash
   (translator.py:471-527) over a nested value domain; equal objects have equal
   hashes, with builtin hash abstract. *)
From Coq Require Import List ZArith Bool Lia.
Import ListNotations.
Open Scope Z_scope.

(* payload kinds with Python's == already quotiented: numbers (int/bool share
   a value), strings, None *)
Inductive prim := PNum (z : Z) | PStr (s : list nat) | PNone.
Definition prim_eqb (a b : prim) : bool :=
  match a, b with
  | PNum x, PNum y => Z.eqb x y
  | PStr x, PStr y => if list_eq_dec Nat.eq_dec x y then true else false
  | PNone, PNone => true
  | _, _ => false
  end.

Inductive value :=
| P (p : prim)
| L (l : list value)            (* list: unhashable *)
| T (l : list value)            (* tuple: hashable iff all members are *)
| O (cls : nat) (fields : list value).   (* ParsedObject; metadata and identity are not part of == *)

Section Hash.
Variable hprim : prim -> Z.                 (* builtin hash on scalars *)
Variable htuple : list Z -> Z.              (* builtin tuple hash as a function of member hashes *)
Hypothesis hprim_eq : forall a b, prim_eqb a b = true -> hprim a = hprim b.

Fixpoint py_eq (a b : value) {struct a} : bool :=
  match a, b with
  | P x, P y => prim_eqb x y
  | L xs, L ys | T xs, T ys =>
      (fix go (xs ys : list value) : bool :=
         match xs, ys with
         | [], [] => true
         | x :: xs', y :: ys' => py_eq x y && go xs' ys'
         | _, _ => false
         end) xs ys
  | O c xs, O d ys =>
      Nat.eqb c d &&
      (fix go (xs ys : list value) : bool :=
         match xs, ys with
         | [], [] => true
         | x :: xs', y :: ys' => py_eq x y && go xs' ys'
         | _, _ => false
         end) xs ys
  | _, _ => false
  end.
Fixpoint eq_list (xs ys : list value) : bool :=
  match xs, ys with
  | [], [] => true
  | x :: xs', y :: ys' => py_eq x y && eq_list xs' ys'
  | _, _ => false
  end.

(* hashable v = hash(v) does not raise TypeError *)
Fixpoint hashable (v : value) : bool :=
  match v with
  | P _ => true
  | L _ => false
  | T l => (fix all (l : list value) := match l with [] => true | x :: l' => hashable x && all l' end) l
  | O _ _ => true           (* ParsedObject defines __hash__ *)
  end.
Fixpoint hashable_list (l : list value) := match l with [] => true | x :: l' => hashable x && hashable_list l' end.

(* _hash(value): try hash(value) / except TypeError: xor of members *)
Fixpoint py_hash (v : value) : Z :=
  match v with
  | P p => hprim p
  | L l => (fix xo (l : list value) : Z := match l with [] => 0 | x :: l' => Z.lxor (py_hash x) (xo l') end) l
  | T l =>
      if hashable_list l
      then htuple ((fix hs (l : list value) : list Z := match l with [] => [] | x :: l' => py_hash x :: hs l' end) l)
      else (fix xo (l : list value) : Z := match l with [] => 0 | x :: l' => Z.lxor (py_hash x) (xo l') end) l
  | O _ fs => (fix xo (l : list value) : Z := match l with [] => 0 | x :: l' => Z.lxor (py_hash x) (xo l') end) fs
  end.
Fixpoint xor_list (l : list value) : Z := match l with [] => 0 | x :: l' => Z.lxor (py_hash x) (xor_list l') end.
Fixpoint hash_list (l : list value) : list Z := match l with [] => [] | x :: l' => py_hash x :: hash_list l' end.

(* a size-based induction principle for the nested type *)
Fixpoint vsize (v : value) : nat :=
  match v with
  | P _ => 1%nat
  | L l | T l | O _ l => S ((fix sz (l : list value) : nat := match l with [] => 0%nat | x :: l' => (vsize x + sz l')%nat end) l)
  end.
Fixpoint lsize (l : list value) : nat := match l with [] => 0%nat | x :: l' => (vsize x + lsize l')%nat end.

Lemma eq_hash_aux : forall n a b, (vsize a <= n)%nat -> py_eq a b = true ->
  py_hash a = py_hash b /\ hashable a = hashable b.
Proof.
  induction n as [|n IHv]; intros a b Ha He.
  - destruct a; cbn in Ha; lia.
  - assert (Hl : forall xs ys, (lsize xs <= n)%nat -> eq_list xs ys = true ->
      xor_list xs = xor_list ys /\ hash_list xs = hash_list ys /\ hashable_list xs = hashable_list ys).
    { induction xs as [|x xs IHxs]; intros [|y ys] Hs Hq; cbn [eq_list] in Hq; try discriminate; auto.
      apply andb_true_iff in Hq. destruct Hq as [Hx Hxs]. cbn [lsize] in Hs.
      destruct (IHv x y ltac:(lia) Hx) as (A1 & A2).
      destruct (IHxs ys ltac:(lia) Hxs) as (B1 & B2 & B3).
      cbn [xor_list hash_list hashable_list]. rewrite A1, A2, B1, B2, B3. auto. }
    destruct a as [p|xs|xs|c xs], b as [q|ys|ys|d ys]; try discriminate.
    + cbn in *. split; auto.
    + change (eq_list xs ys = true) in He. change (S (lsize xs) <= S n)%nat in Ha.
      destruct (Hl xs ys ltac:(lia) He) as (H1 & H2 & H3).
      split; [exact H1 | reflexivity].
    + change (eq_list xs ys = true) in He. change (S (lsize xs) <= S n)%nat in Ha.
      destruct (Hl xs ys ltac:(lia) He) as (H1 & H2 & H3).
      change (py_hash (T xs)) with (if hashable_list xs then htuple (hash_list xs) else xor_list xs).
      change (py_hash (T ys)) with (if hashable_list ys then htuple (hash_list ys) else xor_list ys).
      change (hashable (T xs)) with (hashable_list xs). change (hashable (T ys)) with (hashable_list ys).
      rewrite H1, H2, H3. auto.
    + change (Nat.eqb c d && eq_list xs ys = true) in He. apply andb_true_iff in He. destruct He as [_ He].
      change (S (lsize xs) <= S n)%nat in Ha.
      destruct (Hl xs ys ltac:(lia) He) as (H1 & H2 & H3).
      split; [exact H1 | reflexivity].
Qed.

Theorem eq_implies_hash a b : py_eq a b = true -> py_hash a = py_hash b.
Proof. intros H. apply (eq_hash_aux (vsize a) a b (le_n _) H). Qed.
End Hash.
Print Assumptions eq_implies_hash.

(* ---- C14_eq_equiv: == on parsed values is an equivalence relation ---- *)
Section Equiv.
Lemma prim_eqb_refl a : prim_eqb a a = true.
Proof. destruct a; cbn; auto. apply Z.eqb_refl. destruct (list_eq_dec Nat.eq_dec s s); auto. Qed.
Lemma prim_eqb_sym a b : prim_eqb a b = prim_eqb b a.
Proof.
  destruct a, b; cbn; auto. apply Z.eqb_sym.
  destruct (list_eq_dec Nat.eq_dec s s0), (list_eq_dec Nat.eq_dec s0 s); auto; congruence.
Qed.
Lemma prim_eqb_trans a b c : prim_eqb a b = true -> prim_eqb b c = true -> prim_eqb a c = true.
Proof.
  destruct a, b, c; cbn; try discriminate; auto.
  - rewrite !Z.eqb_eq. congruence.
  - destruct (list_eq_dec Nat.eq_dec s s0), (list_eq_dec Nat.eq_dec s0 s1), (list_eq_dec Nat.eq_dec s s1);
      auto; try discriminate; congruence.
Qed.

Lemma py_eq_unfold_L xs ys : py_eq (L xs) (L ys) = eq_list xs ys. Proof. reflexivity. Qed.
Lemma py_eq_unfold_T xs ys : py_eq (T xs) (T ys) = eq_list xs ys. Proof. reflexivity. Qed.
Lemma py_eq_unfold_O c d xs ys : py_eq (O c xs) (O d ys) = Nat.eqb c d && eq_list xs ys. Proof. reflexivity. Qed.

Lemma py_eq_refl_aux : forall n a, (vsize a <= n)%nat -> py_eq a a = true.
Proof.
  induction n as [|n IH]; intros a Ha; [destruct a; cbn in Ha; lia|].
  assert (HL : forall l, (lsize l <= n)%nat -> eq_list l l = true).
  { induction l as [|x l IHl]; intros Hl; cbn [eq_list lsize] in *; auto.
    assert (vsize x >= 1)%nat by (destruct x; cbn; lia).
    rewrite IH by lia. rewrite IHl by lia. reflexivity. }
  destruct a as [p|l|l|c l].
  - apply prim_eqb_refl.
  - rewrite py_eq_unfold_L. apply HL. change (S (lsize l) <= S n)%nat in Ha. lia.
  - rewrite py_eq_unfold_T. apply HL. change (S (lsize l) <= S n)%nat in Ha. lia.
  - rewrite py_eq_unfold_O, Nat.eqb_refl. apply HL. change (S (lsize l) <= S n)%nat in Ha. lia.
Qed.
Theorem py_eq_refl a : py_eq a a = true.
Proof. apply (py_eq_refl_aux (vsize a)). lia. Qed.

Lemma py_eq_sym_aux : forall n a b, (vsize a <= n)%nat -> py_eq a b = py_eq b a.
Proof.
  induction n as [|n IH]; intros a b Ha; [destruct a; cbn in Ha; lia|].
  assert (HL : forall l m, (lsize l <= n)%nat -> eq_list l m = eq_list m l).
  { induction l as [|x l IHl]; intros [|y m] Hl; cbn [eq_list lsize] in *; auto.
    assert (vsize x >= 1)%nat by (destruct x; cbn; lia).
    rewrite (IH x y) by lia. rewrite (IHl m) by lia. reflexivity. }
  destruct a as [p|l|l|c l], b as [q|m|m|d m]; try reflexivity.
  - apply prim_eqb_sym.
  - rewrite !py_eq_unfold_L. apply HL. change (S (lsize l) <= S n)%nat in Ha. lia.
  - rewrite !py_eq_unfold_T. apply HL. change (S (lsize l) <= S n)%nat in Ha. lia.
  - rewrite !py_eq_unfold_O. rewrite (Nat.eqb_sym c d). f_equal. apply HL. change (S (lsize l) <= S n)%nat in Ha. lia.
Qed.
Theorem py_eq_sym a b : py_eq a b = py_eq b a.
Proof. apply (py_eq_sym_aux (vsize a)). lia. Qed.

Lemma py_eq_trans_aux : forall n a b c, (vsize a <= n)%nat -> py_eq a b = true -> py_eq b c = true -> py_eq a c = true.
Proof.
  induction n as [|n IH]; intros a b c Ha H1 H2; [destruct a; cbn in Ha; lia|].
  assert (HL : forall l m k, (lsize l <= n)%nat -> eq_list l m = true -> eq_list m k = true -> eq_list l k = true).
  { induction l as [|x l IHl]; intros [|y m] [|z k] Hl E1 E2; cbn [eq_list lsize] in *; auto; try discriminate.
    apply andb_true_iff in E1. apply andb_true_iff in E2. destruct E1 as (A1 & A2), E2 as (B1 & B2).
    assert (vsize x >= 1)%nat by (destruct x; cbn; lia).
    rewrite (IH x y z) by (auto; lia). rewrite (IHl m k) by (auto; lia). reflexivity. }
  destruct a as [p|l|l|ca l], b as [q|m|m|cb m]; try discriminate; destruct c as [r|k|k|cc k]; try discriminate.
  - eapply prim_eqb_trans; eauto.
  - rewrite py_eq_unfold_L in *. eapply HL; eauto. change (S (lsize l) <= S n)%nat in Ha. lia.
  - rewrite py_eq_unfold_T in *. eapply HL; eauto. change (S (lsize l) <= S n)%nat in Ha. lia.
  - rewrite py_eq_unfold_O in *. apply andb_true_iff in H1. apply andb_true_iff in H2.
    destruct H1 as (A1 & A2), H2 as (B1 & B2). apply Nat.eqb_eq in A1. apply Nat.eqb_eq in B1. subst.
    rewrite Nat.eqb_refl. eapply HL; eauto. change (S (lsize l) <= S n)%nat in Ha. lia.
Qed.
Theorem py_eq_trans a b c : py_eq a b = true -> py_eq b c = true -> py_eq a c = true.
Proof. apply (py_eq_trans_aux (vsize a)). lia. Qed.
End Equiv.
Print Assumptions py_eq_trans.
