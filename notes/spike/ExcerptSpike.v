(* Design spike (not framework code): the text-mode branch of _extract_excerpt
   (translator.py:822-847) with the four regimes, the constants as parameters,
   the C09 caret/one-line theorems for the repaired constant and a refutation
   witness for the shipped one. *)
From Coq Require Import List Arith Bool Lia.
Import ListNotations.

Definition NL := 10.
Definition text := list nat.

(* text[a:b] with Python clamping, for 0 <= a *)
Definition slice (t : text) (a b : nat) : text := firstn (b - a) (skipn a t).

(* index of first newline at or after p, or length t *)
Fixpoint find_nl_from (t : text) (p : nat) : nat :=
  match t with
  | [] => p                       (* = length of the original text when reached *)
  | c :: t' => match p with
               | 0 => if Nat.eqb c NL then 0 else S (find_nl_from t' 0)
               | S p' => S (find_nl_from t' p')
               end
  end.

(* result: (excerpt line, caret offset) ; the real code appends "\n" + " "*k + "^" *)
Section Ex.
Variable K : nat.   (* threshold of the third regime: shipped 40, repaired 42 *)

Definition dots_l := [46;46;46;32].   (* "... " *)
Definition dots_r := [32;46;46;46].   (* " ..." *)

Definition extract (t : text) (pos col : nat) : text * nat :=
  let start := pos - (col - 1) in
  let e := find_nl_from t (pos + 1) in       (* search('\n', pos+1) or len *)
  if Nat.ltb (e - start) 96 then (slice t start e, col - 1)
  else if Nat.ltb col 60 then (slice t start (start + 90) ++ dots_r, col - 1)
  else if Nat.ltb (e - pos) K then (dots_l ++ slice t (e - 90) e, pos - (e - 90) + 4)
  else (dots_l ++ slice t (pos - 42) (pos + 42) ++ dots_r, 42 + 4).
End Ex.

(* start of the line containing index i: one past the last NL before i *)
Fixpoint line_start_aux (t : text) (i : nat) (cur : nat) (idx : nat) : nat :=
  match t, i with
  | _, 0 => cur
  | [], _ => cur
  | c :: t', S i' => line_start_aux t' i' (if Nat.eqb c NL then S idx else cur) (S idx)
  end.
Definition line_start (t : text) (i : nat) := line_start_aux t i 0 0.
Definition col_of (t : text) (i : nat) := i - line_start t i + 1.

(* the property, as a boolean, for one (text, index) *)
Definition ok (K : nat) (t : text) (i : nat) : bool :=
  let '(ex, k) := extract K t i (col_of t i) in
  negb (existsb (Nat.eqb NL) ex) &&
  match nth_error ex k, nth_error t i with
  | Some a, Some b => Nat.eqb a b
  | _, _ => false
  end.

(* a line of length L with an X (=88) at column c, between two other lines *)
Definition mk (L c : nat) : text :=
  [97;97;97;NL] ++ repeat 97 c ++ [88] ++ repeat 97 (L - c - 1) ++ [NL;98;98;98].

(* shipped constant refuted; repaired constant passes the same case *)
Example shipped_refuted : ok 40 (mk 100 59) (4 + 59) = false.
Proof. vm_compute. reflexivity. Qed.
Example repaired_ok_there : ok 42 (mk 100 59) (4 + 59) = true.
Proof. vm_compute. reflexivity. Qed.

(* a finite sweep, as a sanity test of the statement (a test, not the theorem) *)
Definition sweep (K : nat) (maxL : nat) : bool :=
  forallb (fun L => forallb (fun c => ok K (mk L c) (4 + c)) (seq 0 L)) (seq 1 maxL).
Example sweep_repaired : sweep 42 130 = true.
Proof. vm_compute. reflexivity. Qed.
Example sweep_shipped : sweep 40 130 = false.
Proof. vm_compute. reflexivity. Qed.

(* ---- general lemmas the unbounded theorem needs ---- *)
Lemma slice_length t a b : a <= b -> b <= length t -> length (slice t a b) = b - a.
Proof. intros. unfold slice. rewrite firstn_length, skipn_length. lia. Qed.

Lemma nth_firstn {A} (l : list A) : forall n k, k < n -> nth_error (firstn n l) k = nth_error l k.
Proof. induction l as [|x l IH]; intros [|n] [|k] H; cbn; auto; try lia. apply IH. lia. Qed.

Lemma nth_skipn {A} (l : list A) : forall a k, nth_error (skipn a l) k = nth_error l (a + k).
Proof. induction l as [|x l IH]; intros [|a] k; cbn; auto. destruct k; auto. Qed.

Lemma nth_slice t a b k : k < b - a -> nth_error (slice t a b) k = nth_error t (a + k).
Proof.
  intros H. unfold slice. rewrite nth_firstn by exact H. apply nth_skipn.
Qed.

(* "no newline in t[a:b]" when a..b lies within one line *)
Definition no_nl_between (t : text) (a b : nat) :=
  forall j, a <= j -> j < b -> nth_error t j <> Some NL.

Lemma slice_no_nl t a b : no_nl_between t a b ->
  existsb (Nat.eqb NL) (slice t a b) = false.
Proof.
  intros H. destruct (existsb (Nat.eqb NL) (slice t a b)) eqn:E; auto.
  apply existsb_exists in E. destruct E as (x & Hin & Hx). apply Nat.eqb_eq in Hx. subst x.
  apply In_nth_error in Hin. destruct Hin as (k & Hk).
  assert (k < b - a).
  { assert (k < length (slice t a b)) by (apply nth_error_Some; congruence).
    unfold slice in H0. rewrite firstn_length in H0. lia. }
  rewrite nth_slice in Hk by assumption. exfalso. apply (H (a + k)); try lia. congruence.
Qed.

(* The unbounded theorem (to be proved in the framework):
   forall t i, i < length t -> nth_error t i <> Some NL ->
     let start := line_start t i in let e := find_nl_from t (i+1) in
     (no_nl_between t start e)  (* lemma about line_start / find_nl_from *) ->
     ok 42 t i = true.
   Each regime reduces, via slice_length / nth_slice / slice_no_nl and app
   lemmas, to linear arithmetic over start <= i < e <= length t, closed by lia. *)
Theorem regime4_caret t i start e :
  start <= i -> i < e -> e <= length t -> 60 <= i - start + 1 -> 42 <= e - i ->
  nth_error (dots_l ++ slice t (i - 42) (i + 42) ++ dots_r) (42 + 4) = nth_error t i.
Proof.
  intros. rewrite nth_error_app2 by (cbn; lia). cbn [length dots_l].
  rewrite nth_error_app1 by (rewrite slice_length; lia).
  rewrite nth_slice by lia. f_equal. lia.
Qed.

Theorem regime4_one_line t i start e :
  start <= i -> i < e -> e <= length t -> 60 <= i - start + 1 -> 42 <= e - i ->
  no_nl_between t start e ->
  existsb (Nat.eqb NL) (dots_l ++ slice t (i - 42) (i + 42) ++ dots_r) = false.
Proof.
  intros. rewrite !existsb_app. rewrite slice_no_nl.
  - reflexivity.
  - intros j Hj1 Hj2. apply H4; lia.
Qed.
