(* Design spike (not framework code): draft PEG specification for the
   constructs of ExecDraft2.v (environment constructs included), written from
   the documented meaning only: no flags, no registers, and LEXICALLY scoped
   bindings (a `let` binds in its body only; class members see earlier named
   members; a rule starts with an empty environment). *)
From Coq Require Import List Arith Bool Lia.
Import ListNotations.
Require Import ExecDraft2.

Definition res := option (value * nat).           (* None = no match *)

Section Spec.
Variable g : list (list nat * expr).
Variable ignored : option nat.
Variable t : list nat.
Variable rx : nat -> nat -> option nat.

Definition obind (o : option res) (k : res -> option res) : option res :=
  match o with None => None | Some r => k r end.

Section L.
Variable pg : expr -> nat -> option res.

Fixpoint seq_spec (es : list expr) (p : nat) (acc : list value) : option res :=
  match es with
  | [] => Some (Some (VList (rev acc), p))
  | e :: es' => obind (pg e p) (fun r => match r with
                  | None => Some None
                  | Some (v, p') => seq_spec es' p' (v :: acc) end)
  end.
Fixpoint choice_spec (es : list expr) (p : nat) : option res :=
  match es with
  | [] => Some None
  | e :: es' => obind (pg e p) (fun r => match r with None => choice_spec es' p | Some _ => Some r end)
  end.
Fixpoint rep_spec (k : nat) (e : expr) (mn mx : option nat) (p : nat) (acc : list value) : option res :=
  if at_max mx (length acc) then Some (Some (VList (rev acc), p)) else
  match k with
  | 0 => None
  | S k => obind (pg e p) (fun r => match r with
             | None => Some (if Nat.leb (match mn with Some m => m | None => 0 end) (length acc)
                             then Some (VList (rev acc), p) else None)
             | Some (v, p') => rep_spec k e mn mx p' (v :: acc) end)
  end.
(* first item that matches with progress *)
Fixpoint skip_first (es : list expr) (p : nat) : option (option nat) :=
  match es with
  | [] => Some None
  | e :: es' => match pg e p with
                | None => None
                | Some (Some (_, q)) => if Nat.eqb q p then skip_first es' p else Some (Some q)
                | Some None => skip_first es' p
                end
  end.
Fixpoint skip_spec (k : nat) (es : list expr) (p : nat) : option res :=
  match k with
  | 0 => None
  | S k => match skip_first es p with
           | None => None
           | Some None => Some (Some (VNone, p))
           | Some (Some q) => skip_spec k es q
           end
  end.
Fixpoint longest_spec (es : list expr) (p : nat) (best : res) : option res :=
  match es with
  | [] => Some best
  | e :: es' => obind (pg e p) (fun r => match r, best with
                  | None, _ => longest_spec es' p best
                  | Some (v, q), None => longest_spec es' p (Some (v, q))
                  | Some (v, q), Some (_, bq) => if Nat.ltb bq q then longest_spec es' p (Some (v, q))
                                                 else longest_spec es' p best end)
  end.
(* one iteration = an element, then a separator; acc = values so far (reversed),
   cp = where the list ends if it stops now, saw = a separator has been matched *)
Fixpoint sep_spec (k : nat) (e sp : expr) (keep trailer : bool) (p : nat)
         (acc : list value) (cp : nat) (saw : bool) : option (list value * nat * bool) :=
  match k with
  | 0 => None
  | S k =>
    match pg e p with
    | None => None
    | Some None => Some (if keep && negb trailer then tl acc else acc, cp, saw)   (* drop a dangling kept separator *)
    | Some (Some (v, p1)) =>
      match pg sp p1 with
      | None => None
      | Some None => Some (v :: acc, p1, saw)
      | Some (Some (sv, p2)) =>
          sep_spec k e sp keep trailer p2 (if keep then sv :: v :: acc else v :: acc)
                   (if trailer then p2 else p1) true
      end
    end
  end.
Definition sep_final (allow_empty reqsep : bool) (r : list value * nat * bool) : res :=
  let '(acc, cp, saw) := r in
  let nonempty := match acc with [] => false | _ => true end in
  let ok := if allow_empty && reqsep then negb nonempty || saw
            else if reqsep then saw
            else if allow_empty then true
            else nonempty in
  if ok then Some (VList (rev acc), cp) else None.
End L.

Definition bound_val (E : env) (b : bound) : option (option nat) :=
  match b with
  | BNone => Some None
  | BLit n => Some (Some n)
  | BVar x => match lookup x E with Some (VInt n) => Some (Some n) | _ => None end
  end.

(* a sub-computation that raises (unbound name, non-function applied) is outside the
   property's quantifier ("inline Python does not raise"); the spec marks it Raise *)
Inductive sres := Ok (r : option res) | Raise.
Definition sbind (o : sres) (k : res -> sres) : sres :=
  match o with Ok (Some r) => k r | Ok None => Ok None | Raise => Raise end.

Fixpoint peg (n : nat) (E : env) (e : expr) (p : nat) : sres :=
  match n with
  | 0 => Ok None
  | S n =>
    let down (e : expr) (q : nat) : option res :=     (* for the environment-free loops *)
        match peg n E e q with Ok r => r | Raise => None end in
    let skipw (sk : bool) (q : nat) (v : value) : sres :=
        if sk then match ignored with
                   | Some r => match nth_error g r with
                               | Some (_, b) => sbind (peg n [] b q) (fun r => match r with
                                             | Some (_, q') => Ok (Some (Some (v, q'))) | None => Ok (Some (Some (v, q))) end)
                               | None => Ok (Some (Some (v, q))) end
                   | None => Ok (Some (Some (v, q))) end
        else Ok (Some (Some (v, q))) in
    match e with
    | Str s sk => match s with
                  | [] => Ok (Some (Some (VStr [], p)))
                  | _ => if prefix_at s t p then skipw sk (p + length s) (VStr s) else Ok (Some None) end
    | Rx id sk => match rx id p with Some q => skipw sk q (VStr (slice t p q)) | None => Ok (Some None) end
    | Byte b sk => match nth_error t p with
                   | Some c => if Nat.eqb c b then skipw sk (S p) (VInt b) else Ok (Some None)
                   | None => Ok (Some None) end
    | Ref r => match nth_error g r with Some ([], b) => peg n [] b p | _ => Raise end
    | Seq es => Ok (seq_spec down es p [])
    | Discard a b dl => sbind (peg n E a p) (fun r => match r with
                          | None => Ok (Some None)
                          | Some (va, p1) => sbind (peg n E b p1) (fun r2 => match r2 with
                              | None => Ok (Some None)
                              | Some (vb, p2) => Ok (Some (Some (if dl then vb else va, p2))) end) end)
    | Choice es => Ok (choice_spec down es p)
    | Opt e => sbind (peg n E e p) (fun r => match r with None => Ok (Some (Some (VNone, p))) | Some _ => Ok (Some r) end)
    | Rep e mn mx =>
        match bound_val E mn, bound_val E mx with
        | Some mnv, Some mxv => Ok (rep_spec down n e mnv mxv p [])
        | _, _ => Raise
        end
    | Expect e => sbind (peg n E e p) (fun r => match r with None => Ok (Some None) | Some (v, _) => Ok (Some (Some (v, p))) end)
    | ExpectNot e => sbind (peg n E e p) (fun r => match r with None => Ok (Some (Some (VNone, p))) | Some _ => Ok (Some None) end)
    | Skip es => Ok (skip_spec down n es p)
    | Longest es => Ok (longest_spec down es p None)
    | Backtrack k => Ok (Some (if Nat.leb k p then Some (VNone, p - k) else None))
    | Fail => Ok (Some None)
    | Sep e sp discard trailer allow_empty reqsep =>
        match sep_spec down n e sp (negb discard) trailer p [] p false with
        | None => Ok None
        | Some r => Ok (Some (sep_final allow_empty reqsep r))
        end
    | Py py => match eval_py E py with Some v => Ok (Some (Some (v, p))) | None => Raise end
    | Apply a b apply_left =>
        sbind (peg n E a p) (fun r => match r with
          | None => Ok (Some None)
          | Some (va, p1) => sbind (peg n E b p1) (fun r2 => match r2 with
              | None => Ok (Some None)
              | Some (vb, p2) =>
                  let '(f, x) := if apply_left then (va, vb) else (vb, va) in
                  match f with
                  | VFun fn => match apply_fun E fn x with Some v => Ok (Some (Some (v, p2))) | None => Raise end
                  | _ => Raise
                  end end) end)
    | Where e pred =>
        sbind (peg n E e p) (fun r => match r with
          | None => Ok (Some None)
          | Some (v, p1) => sbind (peg n E pred p1) (fun r2 => match r2 with
              | None => Ok (Some None)
              | Some (VFun fn, p2) => match apply_fun E fn v with
                                      | Some w => Ok (Some (if truthy w then Some (v, p2) else None))
                                      | None => Raise end
              | Some _ => Raise end) end)
    | Let x a body =>
        sbind (peg n E a p) (fun r => match r with
          | None => Ok (Some None)
          | Some (v, p1) => peg n ((x, v) :: E) body p1 end)
    | Class cls ms =>
        (fix go (ms : list (option nat * bool * expr)) (E : env) (q : nat) (acc : list value) : sres :=
           match ms with
           | [] => Ok (Some (Some (VObj cls (rev acc) (p, q), q)))
           | (name, isfield, e) :: ms' =>
               sbind (peg n E e q) (fun r => match r with
                 | None => Ok (Some None)
                 | Some (v, q') => go ms' (match name with Some x => (x, v) :: E | None => E end) q'
                                      (if isfield then v :: acc else acc) end)
           end) ms E p []
    | OpTable _ _ _ _ | RefL _ | Call _ _ => Raise        (* specified separately *)
    end
  end.

Definition spec_rule (fuel : nat) (r : nat) (p : nat) : option (bool * option value * nat) :=
  match nth_error g r with
  | None => None
  | Some (_, b) => match peg fuel [] b p with
                   | Ok None => None
                   | Ok (Some (Some (v, q))) => Some (true, Some v, q)
                   | Ok (Some None) => Some (false, None, 0)
                   | Raise => Some (false, Some (VErr 1000), 0)
                   end
  end.
End Spec.
