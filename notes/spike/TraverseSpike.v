(* Design spike (not framework code): traverse() (translator.py:711-755) with
   the leaf de-duplication repaired, against the recursive event specification
   C15 states: every occurrence gets one enter and one finish event, a shared
   object or container is expanded only the first time. *)
From Coq Require Import List Arith Bool Lia.
Import ListNotations.

Inductive node :=
| Leaf (id : nat)
| Cont (id : nat) (l : list node)        (* list / tuple / dict / parsed object: anything with children *)
.
Definition nid (n : node) := match n with Leaf i | Cont i _ => i end.
Definition kids (n : node) := match n with Leaf _ => [] | Cont _ l => l end.
Definition is_leaf (n : node) := match n with Leaf _ => true | _ => false end.

Fixpoint size (n : node) : nat :=
  match n with
  | Leaf _ => 1
  | Cont _ l => S ((fix sz (l : list node) := match l with [] => 0 | x :: l' => size x + sz l' end) l)
  end.
Fixpoint sizes (l : list node) := match l with [] => 0 | x :: l' => size x + sizes l' end.
Lemma size_cont i l : size (Cont i l) = S (sizes l).
Proof. reflexivity. Qed.

Definition mem (i : nat) (v : list nat) := existsb (Nat.eqb i) v.
Definition event : Type := (nat * nat * nat * bool).    (* parent id, field, child id, is_finished *)

(* ---------------- SPEC ---------------- *)
Fixpoint ev (p f : nat) (c : node) (vis : list nat) {struct c} : list event * list nat :=
  match c with
  | Leaf i => ([(p, f, i, false); (p, f, i, true)], vis)
  | Cont i l =>
      if mem i vis then ([(p, f, i, false); (p, f, i, true)], vis)
      else
        let '(es, v') :=
          (fix go (parent k : nat) (l : list node) (vis : list nat) {struct l} : list event * list nat :=
             match l with
             | [] => ([], vis)
             | x :: l' => let '(e1, v1) := ev parent k x vis in
                          let '(e2, v2) := go parent (S k) l' v1 in (e1 ++ e2, v2)
             end) i 0 l (i :: vis) in
        ((p, f, i, false) :: es ++ [(p, f, i, true)], v')
  end.
Fixpoint ev_list (parent k : nat) (l : list node) (vis : list nat) : list event * list nat :=
  match l with
  | [] => ([], vis)
  | x :: l' => let '(e1, v1) := ev parent k x vis in
               let '(e2, v2) := ev_list parent (S k) l' v1 in (e1 ++ e2, v2)
  end.
Lemma ev_cont p f i l vis : ev p f (Cont i l) vis =
  if mem i vis then ([(p, f, i, false); (p, f, i, true)], vis)
  else let '(es, v') := ev_list i 0 l (i :: vis) in ((p, f, i, false) :: es ++ [(p, f, i, true)], v').
Proof. reflexivity. Qed.

(* ---------------- MODEL (repaired: leaves are never recorded as visited) ---------------- *)
Inductive frame := Enter (p f : nat) (c : node) | Finish (p f : nat) (c : node).

Fixpoint index_from {A} (k : nat) (l : list A) : list (nat * A) :=
  match l with [] => [] | x :: l' => (k, x) :: index_from (S k) l' end.
Definition child_frames (c : node) : list frame :=
  map (fun '(k, x) => Enter (nid c) k x) (index_from 0 (kids c)).
Definition frames_of (parent k : nat) (l : list node) : list frame :=
  map (fun '(j, x) => Enter parent j x) (index_from k l).

Fixpoint traverse_loop (fuel : nat) (stack : list frame) (vis : list nat) (out : list event) : option (list event) :=
  match fuel with
  | 0 => match stack with [] => Some out | _ => None end
  | S fuel =>
    match stack with
    | [] => Some out
    | Finish p f c :: st => traverse_loop fuel st vis (out ++ [(p, f, nid c, true)])
    | Enter p f c :: st =>
        let seen := mem (nid c) vis in
        let children := if seen then [] else child_frames c in
        traverse_loop fuel (children ++ Finish p f c :: st)
                      (if is_leaf c || seen then vis else nid c :: vis)     (* visited is a set: add is idempotent *)
                      (out ++ [(p, f, nid c, false)])
    end
  end.

(* events a stack of frames stands for *)
Fixpoint frames_events (st : list frame) (vis : list nat) : list event * list nat :=
  match st with
  | [] => ([], vis)
  | Finish p f c :: st' => let '(e, v) := frames_events st' vis in ((p, f, nid c, true) :: e, v)
  | Enter p f c :: st' => let '(e1, v1) := ev p f c vis in
                          let '(e2, v2) := frames_events st' v1 in (e1 ++ e2, v2)
  end.
Definition fmeasure (fr : frame) := match fr with Enter _ _ c => 2 * size c | Finish _ _ _ => 1 end.
Fixpoint smeasure (st : list frame) := match st with [] => 0 | fr :: st' => fmeasure fr + smeasure st' end.

Lemma frames_events_app a b vis :
  frames_events (a ++ b) vis =
  let '(e1, v1) := frames_events a vis in let '(e2, v2) := frames_events b v1 in (e1 ++ e2, v2).
Proof.
  revert vis. induction a as [|fr a IH]; intros vis; cbn [app frames_events].
  - destruct (frames_events b vis). reflexivity.
  - destruct fr as [p f c|p f c].
    + destruct (ev p f c vis) as [e1 v1]. rewrite IH. destruct (frames_events a v1) as [e2 v2].
      destruct (frames_events b v2) as [e3 v3]. rewrite app_assoc. reflexivity.
    + rewrite IH. destruct (frames_events a vis) as [e2 v2]. destruct (frames_events b v2) as [e3 v3]. reflexivity.
Qed.

Lemma frames_of_events parent : forall l k vis,
  frames_events (frames_of parent k l) vis = ev_list parent k l vis.
Proof.
  induction l as [|x l IH]; intros k vis; cbn; auto.
  destruct (ev parent k x vis) as [e1 v1]. unfold frames_of in IH. rewrite IH. reflexivity.
Qed.
Lemma smeasure_app a b : smeasure (a ++ b) = smeasure a + smeasure b.
Proof. induction a as [|x a IH]; cbn; auto. rewrite IH. lia. Qed.
Lemma smeasure_frames_of parent : forall l k, smeasure (frames_of parent k l) = 2 * sizes l.
Proof. induction l as [|x l IH]; intros k; cbn; auto. unfold frames_of in IH. rewrite IH. lia. Qed.
Lemma size_pos c : 1 <= size c.
Proof. destruct c; cbn; lia. Qed.

Theorem traverse_spec : forall fuel stack vis out,
  smeasure stack <= fuel ->
  traverse_loop fuel stack vis out = Some (out ++ fst (frames_events stack vis)).
Proof.
  induction fuel as [|fuel IH]; intros stack vis out Hm.
  - destruct stack as [|fr st]; [cbn; rewrite app_nil_r; reflexivity|].
    cbn in Hm. destruct fr as [p f c|p f c]; cbn in Hm; pose proof (size_pos c); lia.
  - destruct stack as [|fr st]; [cbn; rewrite app_nil_r; reflexivity|].
    cbn [smeasure] in Hm. destruct fr as [p f c|p f c]; cbn [traverse_loop].
    + (* Enter *)
      destruct c as [i|i l].
      * (* leaf: no children, not recorded *)
        cbn [nid is_leaf kids]. assert (Hc : (if mem i vis then [] else child_frames (Leaf i)) = []) by (destruct (mem i vis); reflexivity).
        rewrite Hc. cbn [app orb]. cbn [fmeasure size] in Hm.
        rewrite IH by (cbn; lia). cbn [frames_events ev].
        destruct (frames_events st vis) as [e v]. cbn [fst]. rewrite <- !app_assoc. reflexivity.
      * cbn [nid is_leaf]. cbn [fmeasure] in Hm. rewrite size_cont in Hm.
        cbn [frames_events]. rewrite ev_cont. destruct (mem i vis) eqn:Em.
        -- (* already expanded: enter and finish only *)
           cbn [app orb]. rewrite IH by (cbn; lia). cbn [frames_events nid].
           destruct (frames_events st vis) as [e v]. cbn [fst]. rewrite <- !app_assoc. reflexivity.
        -- cbn [orb]. change (child_frames (Cont i l)) with (frames_of i 0 l).
           rewrite IH by (rewrite smeasure_app, smeasure_frames_of; cbn; lia).
           rewrite frames_events_app, frames_of_events.
           destruct (ev_list i 0 l (i :: vis)) as [es v']. cbn [frames_events nid].
           destruct (frames_events st v') as [e2 v2]. cbn [fst].
           rewrite <- !app_assoc. cbn. rewrite <- app_assoc. cbn. reflexivity.
    + (* Finish *)
      cbn [fmeasure] in Hm. rewrite IH by lia. cbn [frames_events].
      destruct (frames_events st vis) as [e v]. cbn [fst]. rewrite <- app_assoc. reflexivity.
Qed.
Print Assumptions traverse_spec.
