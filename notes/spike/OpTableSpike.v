(* Design spike (not framework code): the shunting-yard loop of
   OperatorTable._compile (operator_table.py:83-166) over a token list,
   reproducing the two observed defects by vm_compute, and the statement of
   the yield invariant. *)
From Coq Require Import List Arith Bool Lia.
Import ListNotations.

Inductive assoc := APrefix | ALeft | ARight | AInfix | APostfix.
Definition assoc_id (a : assoc) : nat :=
  match a with APrefix => 0 | ALeft => 1 | ARight => 2 | AInfix => 3 | APostfix => 4 end.

Definition row : Type := (assoc * list nat).      (* operator spellings are numbers *)
Definition table := list row.

Inductive tok := TOpd (v : nat) | TOp (name : nat).
Inductive tree := Opd (v : nat) | Pre (o : nat) (t : tree) | Post (t : tree) (o : nat) | Inf (l : tree) (o : nat) (r : tree).

Definition opentry : Type := (nat * nat * nat).     (* precedence, assoc id, name *)

Definition is_prefix_row (a : assoc) := match a with APrefix => true | _ => false end.
Definition is_postfix_row (a : assoc) := match a with APostfix => true | _ => false end.
Definition is_infix_row (a : assoc) := match a with ALeft | ARight | AInfix => true | _ => false end.

(* Longest over rows of one kind: tokens have equal length, so first row wins *)
Fixpoint find_row (kind : assoc -> bool) (tb : table) (prec : nat) (name : nat) : option opentry :=
  match tb with
  | [] => None
  | (a, names) :: tb' =>
      if kind a && existsb (Nat.eqb name) names then Some (prec, assoc_id a, name)
      else find_row kind tb' (S prec) name
  end.

Section Loop.
Variable tb : table.
Variable toks : list tok.
Variable opd_partial : bool.     (* operands.can_partially_succeed() *)
Variable inf_partial : bool.     (* infixes.can_partially_succeed()  *)
Variable fix_nonassoc : bool.    (* false = as shipped *)

Definition parse_op (kind : assoc -> bool) (p : nat) : option (opentry * nat) :=
  match nth_error toks p with
  | Some (TOp n) => match find_row kind tb 0 n with Some e => Some (e, S p) | None => None end
  | _ => None
  end.
Definition parse_opd (p : nat) : option (nat * nat) :=
  match nth_error toks p with Some (TOpd v) => Some (v, S p) | _ => None end.

Record st := MK { opds : list tree; ops : list opentry; marker : nat; outer : nat; pos : nat }.

Definition pop_operator (s : st) : st :=
  match ops s, opds s with
  | (_, is_infix, o) :: ops', r :: opds' =>
      if Nat.eqb is_infix 0 then MK (Pre o r :: opds') ops' (marker s) (outer s) (pos s)
      else match opds' with
           | l :: opds'' => MK (Inf l o r :: opds'') ops' (marker s) (outer s) (pos s)
           | [] => s      (* IndexError in Python; unreachable under the invariant *)
           end
  | _, _ => s
  end.

Fixpoint prefixes (k : nat) (s : st) : st :=
  match k with 0 => s | S k =>
    match parse_op is_prefix_row (pos s) with
    | Some (e, p') => prefixes k (MK (opds s) (e :: ops s) (marker s) (outer s) p')
    | None => s
    end end.

Fixpoint pop_while (k : nat) (cond : opentry -> bool) (s : st) : st :=
  match k with 0 => s | S k =>
    match ops s with
    | e :: _ => if cond e then pop_while k cond (pop_operator s) else s
    | [] => s
    end end.

Fixpoint postfixes (k : nat) (s : st) : st :=
  match k with 0 => s | S k =>
    match parse_op is_postfix_row (pos s) with
    | Some ((prec, _, name), p') =>
        let s1 := pop_while (length (ops s)) (fun e => Nat.ltb (fst (fst e)) prec) s in
        match opds s1 with
        | t :: rest => postfixes k (MK (Post t name :: rest) (ops s1) (marker s1) (outer s1) p')
        | [] => s1
        end
    | None => s
    end end.

(* the precedence loop after an infix operator; returns (state, conflict?) *)
Fixpoint prec_loop (k : nat) (prec : nat) (s : st) : st * bool :=
  match k with 0 => (s, false) | S k =>
    match ops s with
    | (tp, ta, _) :: _ =>
        if Nat.ltb tp prec || (Nat.eqb tp prec && Nat.eqb ta 1) then prec_loop k prec (pop_operator s)
        else if Nat.eqb tp prec && Nat.eqb ta 3 then (MK (opds s) (ops s) (marker s) (outer s) (outer s), true)
        else (s, false)
    | [] => (s, false)
    end end.

Definition has_infix := existsb (fun r => is_infix_row (fst r)) tb.

Fixpoint main (k : nat) (s : st) : st :=
  match k with 0 => s | S k =>
    let s := prefixes (length toks + 1) s in
    match parse_opd (pos s) with
    | None =>
        if opd_partial && negb (match opds s with [] => true | _ => false end)
        then MK (opds s) (ops s) (marker s) (outer s) (outer s) else s
    | Some (v, p') =>
        let s := MK (Opd v :: opds s) (ops s) (marker s) (outer s) p' in
        let s := postfixes (length toks + 1) s in
        let s := MK (opds s) (ops s) (length (ops s)) (pos s) (pos s) in
        if negb has_infix then s else
        match parse_op is_infix_row (pos s) with
        | None =>
            if inf_partial && negb (match opds s with [] => true | _ => false end)
            then MK (opds s) (ops s) (marker s) (outer s) (outer s) else s
        | Some ((prec, a, name), p') =>
            let s := MK (opds s) (ops s) (marker s) (outer s) p' in
            let '(s, conflict) := prec_loop (length (ops s) + 1) prec s in
            if conflict && fix_nonassoc then s            (* repaired: leave the outer loop *)
            else
              let s := MK (opds s) ((prec, a, name) :: ops s) (length (ops s)) (outer s) (pos s) in
              main k s
        end
    end end.

Definition finish (s : st) : option (tree * nat) :=
  match opds s with
  | [] => None
  | _ =>
    (* operator_stack[:marker] keeps the marker oldest entries = the last `marker` of our list *)
    let keep := skipn (length (ops s) - marker s) (ops s) in
    let s := MK (opds s) keep (marker s) (outer s) (pos s) in
    let s := pop_while (length keep) (fun _ => true) s in
    match rev (opds s) with t :: _ => Some (t, pos s) | [] => None end
  end.

Definition run : option (tree * nat) :=
  finish (main (length toks + 1) (MK [] [] 0 0 0)).
End Loop.

(* in-order reading *)
Fixpoint yield (t : tree) : list tok :=
  match t with
  | Opd v => [TOpd v]
  | Pre o t => TOp o :: yield t
  | Post t o => yield t ++ [TOp o]
  | Inf l o r => yield l ++ TOp o :: yield r
  end.

Definition tok_eqb (a b : tok) : bool :=
  match a, b with
  | TOpd x, TOpd y => Nat.eqb x y
  | TOp x, TOp y => Nat.eqb x y
  | _, _ => false
  end.
Fixpoint toks_eqb (a b : list tok) : bool :=
  match a, b with
  | [], [] => true
  | x :: a', y :: b' => tok_eqb x y && toks_eqb a' b'
  | _, _ => false
  end.

(* C02_yield as a boolean: the tree reads back exactly the consumed tokens *)
Definition yield_ok (tb : table) (toks : list tok) (op ip fx : bool) : bool :=
  match run tb toks op ip fx with
  | Some (t, e) => toks_eqb (yield t) (firstn e toks)
  | None => true
  end.

Definition MINUS := 1. Definition PLUS := 2. Definition PCT := 3. Definition STAR := 4. Definition HAT := 5.

(* D4: prefix "-" and non-associative infix "-":  1 - 2 - 3 *)
Definition tb4 : table := [(APrefix, [MINUS]); (AInfix, [MINUS])].
Definition in4 := [TOpd 1; TOp MINUS; TOpd 2; TOp MINUS; TOpd 3].
Eval vm_compute in run tb4 in4 true true false.   (* as shipped *)
Eval vm_compute in run tb4 in4 true true true.    (* repaired *)
Example D4_refuted : yield_ok tb4 in4 true true false = false.
Proof. vm_compute. reflexivity. Qed.
Example D4_repaired : run tb4 in4 true true true = Some (Inf (Opd 1) MINUS (Opd 2), 3).
Proof. vm_compute. reflexivity. Qed.

(* D5: literal operand (cannot partially succeed), dangling operator: 1 + *)
Definition tb5 : table := [(ALeft, [PLUS])].
Definition in5 := [TOpd 1; TOp PLUS].
Eval vm_compute in run tb5 in5 false false false.   (* as shipped: end = 2 *)
Eval vm_compute in run tb5 in5 true false false.    (* with restore: end = 1 *)
Example D5_refuted : yield_ok tb5 in5 false false false = false.
Proof. vm_compute. reflexivity. Qed.

(* the arithmetic table of the test-suite: prefix +,- ; right ^ ; postfix % ; left *,/ ; left +,- *)
Definition tbA : table :=
  [(APrefix, [PLUS; MINUS]); (ARight, [HAT]); (APostfix, [PCT]); (ALeft, [STAR]); (ALeft, [PLUS; MINUS])].
(* 12 * 34 ^ 56 ^ 78 - 90 *)
Eval vm_compute in run tbA [TOpd 12; TOp STAR; TOpd 34; TOp HAT; TOpd 56; TOp HAT; TOpd 78; TOp MINUS; TOpd 90] true true false.
(* -+-456%%% *)
Eval vm_compute in run tbA [TOp MINUS; TOp PLUS; TOp MINUS; TOpd 456; TOp PCT; TOp PCT; TOp PCT] true true false.

(* exhaustive sanity sweep of the yield statement over all token strings of length <= 6
   (a test of the statement, not the theorem) *)
Fixpoint all_toks (alphabet : list tok) (n : nat) : list (list tok) :=
  match n with
  | 0 => [[]]
  | S n => [] :: flat_map (fun w => map (fun a => a :: w) alphabet) (all_toks alphabet n)
  end.
Definition alphaA := [TOpd 1; TOp PLUS; TOp MINUS; TOp PCT; TOp STAR; TOp HAT].
Example yield_sweep_repaired :
  forallb (fun w => yield_ok tbA w true true true) (all_toks alphaA 6) = true.
Proof. vm_compute. reflexivity. Qed.
Example yield_sweep_tb4_repaired :
  forallb (fun w => yield_ok tb4 w true true true) (all_toks [TOpd 1; TOp MINUS] 8) = true.
Proof. vm_compute. reflexivity. Qed.

(* ------------------------------------------------------------------ *)
(* The yield invariant (C02_yield) for the repaired loop.              *)
(* Stacks are read back top-down, so that pushes are computation steps. *)
(* ------------------------------------------------------------------ *)

Fixpoint rbB (opds : list tree) (ops : list opentry) : list tok :=
  match ops with
  | [] => []
  | (_, a, o) :: ops' =>
      if Nat.eqb a 0 then rbB opds ops' ++ [TOp o]
      else match opds with
           | l :: opds' => rbB opds' ops' ++ yield l ++ [TOp o]
           | [] => []
           end
  end.
Definition rbA (opds : list tree) (ops : list opentry) : list tok :=
  match opds with t :: opds' => rbB opds' ops ++ yield t | [] => [] end.

Definition is_inf (e : opentry) := negb (Nat.eqb (snd (fst e)) 0).
Definition n_infix (ops : list opentry) := length (filter is_inf ops).
Definition balA (opds : list tree) (ops : list opentry) := length opds = S (n_infix ops).

Lemma pop_rbA s :
  balA (opds s) (ops s) -> ops s <> [] ->
  rbA (opds (pop_operator s)) (ops (pop_operator s)) = rbA (opds s) (ops s)
  /\ balA (opds (pop_operator s)) (ops (pop_operator s))
  /\ length (ops (pop_operator s)) < length (ops s)
  /\ marker (pop_operator s) = marker s /\ outer (pop_operator s) = outer s /\ pos (pop_operator s) = pos s.
Proof.
  destruct s as [od op mk ou p]. cbn [opds ops marker outer pos]. intros Hb Hne.
  destruct op as [|[[pr a] o] op']; [congruence|]. clear Hne.
  unfold balA, n_infix in Hb. cbn [filter] in Hb. unfold is_inf at 1 in Hb. cbn [fst snd] in Hb.
  unfold pop_operator. cbn [opds ops marker outer pos].
  destruct od as [|r od']; [cbn in Hb; destruct (negb (a =? 0)); discriminate|].
  destruct (Nat.eqb a 0) eqn:Ea.
  - cbn [negb] in Hb. cbn [opds ops marker outer pos]. repeat split; auto.
    cbn [rbA rbB yield]. rewrite Ea. rewrite <- app_assoc. reflexivity.
  - cbn [negb length] in Hb. destruct od' as [|l od'']; [cbn in Hb; lia|].
    cbn [opds ops marker outer pos]. repeat split; auto.
    + cbn [rbA rbB yield]. rewrite Ea. rewrite <- !app_assoc. reflexivity.
    + unfold balA, n_infix. cbn [length] in *. lia.
Qed.

Lemma pop_while_rbA : forall k cond s,
  balA (opds s) (ops s) ->
  rbA (opds (pop_while k cond s)) (ops (pop_while k cond s)) = rbA (opds s) (ops s)
  /\ balA (opds (pop_while k cond s)) (ops (pop_while k cond s))
  /\ marker (pop_while k cond s) = marker s /\ outer (pop_while k cond s) = outer s
  /\ pos (pop_while k cond s) = pos s.
Proof.
  induction k as [|k IH]; intros cond s Hb; cbn [pop_while]; [auto|].
  destruct (ops s) as [|e op'] eqn:Eo; [rewrite Eo; auto|].
  rewrite <- Eo in *. destruct (cond e); [|auto].
  destruct (pop_rbA s Hb) as (H1 & H2 & _ & H4 & H5 & H6); [congruence|].
  destruct (IH cond (pop_operator s) H2) as (J1 & J2 & J4 & J5 & J6).
  repeat split; congruence.
Qed.

Lemma pop_all_single : forall k s,
  balA (opds s) (ops s) -> length (ops s) <= k ->
  exists t, opds (pop_while k (fun _ => true) s) = [t] /\ ops (pop_while k (fun _ => true) s) = []
            /\ yield t = rbA (opds s) (ops s).
Proof.
  assert (Hnil : forall s, balA (opds s) (ops s) -> ops s = [] ->
                 exists t, opds s = [t] /\ ops s = [] /\ yield t = rbA (opds s) (ops s)).
  { intros s Hb Eo. unfold balA, n_infix in Hb. rewrite Eo in *. cbn in Hb.
    destruct (opds s) as [|t [|]] eqn:Ed; cbn in Hb; try lia. exists t. cbn. auto. }
  induction k as [|k IH]; intros s Hb Hk.
  - cbn [pop_while]. apply Hnil; auto. destruct (ops s); auto. cbn in Hk. lia.
  - cbn [pop_while]. destruct (ops s) as [|e op'] eqn:Eo.
    + rewrite <- Eo in *. apply Hnil; auto.
    + rewrite <- Eo in *.
      destruct (pop_rbA s Hb) as (H1 & H2 & H3 & _); [congruence|].
      destruct (IH (pop_operator s) H2) as (t & T1 & T2 & T3); [rewrite Eo in *; cbn in *; lia|].
      exists t. repeat split; auto. congruence.
Qed.
