(* Design spike (not framework code): exec_refines_peg for the EXTENDED draft
   model (ExecDraft2.v: environments, inline Python, Apply, Where, Let, classes
   with spans, data-dependent bounds) against the lexically scoped four-way
   spec (SpecDraft3.v).  Repaired List flag; flat locals vs lexical
   environments under no-shadowing. *)
From Coq Require Import List Arith Bool Lia.
Import ListNotations.
Require Import ExecDraft2 SpecDraft3.

Notation part := (partial true).

Definition sub (E L : env) := forall x v, lookup x E = Some v -> lookup x L = Some v.

Definition agree (E : env) (e : expr) (p : nat) (r : sres) (o : out) : Prop :=
  match r, o with
  | Fuel, OutOfFuel => True
  | Raise, _ => True
  | Match v p', Done s' => status s' = true /\ result s' = v /\ pos s' = p' /\ sub E (locals s')
  | Fails, Done s' => status s' = false /\ always e = false /\ (part e = false -> pos s' = p) /\ sub E (locals s')
  | _, _ => False
  end.

Section Gen.
Variable pg : expr -> nat -> sres.
Variable ex : expr -> st -> out.
Variable E : env.
Variable W : expr -> Prop.
Hypothesis IH : forall e s, W e -> sub E (locals s) -> agree E e (pos s) (pg e (pos s)) (ex e s).

Lemma IH_cases e s : W e -> sub E (locals s) ->
  (pg e (pos s) = Fuel /\ ex e s = OutOfFuel) \/
  (pg e (pos s) = Raise) \/
  (exists v p' s1, pg e (pos s) = Match v p' /\ ex e s = Done s1 /\
                   status s1 = true /\ result s1 = v /\ pos s1 = p' /\ sub E (locals s1)) \/
  (exists s1, pg e (pos s) = Fails /\ ex e s = Done s1 /\
              status s1 = false /\ always e = false /\ (part e = false -> pos s1 = pos s) /\ sub E (locals s1)).
Proof.
  intros HW HS. pose proof (IH e s HW HS) as H. unfold agree in H.
  destruct (pg e (pos s)) as [| | |v p'], (ex e s) as [s1| |]; try contradiction; auto.
  - right; right; right. exists s1. tauto.
  - right; right; left. exists v, p', s1. tauto.
Qed.

Ltac cases e s HW HS :=
  let v := fresh "v" in let p' := fresh "p'" in let s1 := fresh "s1" in
  let Hp := fresh "Hp" in let He := fresh "He" in
  let H1 := fresh "H1" in let H2 := fresh "H2" in let H3 := fresh "H3" in let H4 := fresh "H4" in
  destruct (IH_cases e s HW HS) as
    [(Hp & He)|[Hp|[(v & p' & s1 & Hp & He & H1 & H2 & H3 & H4)|(s1 & Hp & He & H1 & H2 & H3 & H4)]]];
  rewrite ?Hp, ?He; cbn [bind]; try exact I.

(* ---------- Seq ---------- *)
Lemma seq_ok : forall es s acc, Forall W es -> sub E (locals s) ->
  match seq_spec pg es (pos s) acc, seq_loop ex es s acc with
  | Fuel, OutOfFuel => True
  | Raise, _ => True
  | Match v p', Done s' => (status s = true \/ es <> [] -> status s' = true) /\ result s' = v /\ pos s' = p'
                           /\ sub E (locals s')
  | Fails, Done s' => status s' = false /\ sub E (locals s')
  | _, _ => False end.
Proof.
  induction es as [|e es IHes]; intros s acc HF HS; cbn [seq_spec seq_loop].
  - cbn. repeat split; auto. intros [H|H]; [exact H|congruence].
  - inversion HF as [|? ? HWe HWes]; subst. cases e s HWe HS.
    + replace (always e || status s1) with true by (rewrite H1, orb_true_r; auto).
      subst v p'. specialize (IHes s1 (result s1 :: acc) HWes H4).
      destruct (seq_spec pg es (pos s1) (result s1 :: acc)) as [| | |v p'],
               (seq_loop ex es s1 (result s1 :: acc)); auto.
      destruct IHes as (A & B & C & D). repeat split; auto.
    + replace (always e || status s1) with false by (rewrite H1, H2; auto). auto.
Qed.

(* ---------- Choice ---------- *)
Lemma choice_ok : forall es ne start (P : bool) s fp fe, Forall W es -> sub E (locals s) ->
  pos s = start ->
  (ne = false -> existsb always es = true) ->
  (existsb part es = true -> P = true) ->
  (P = false -> fp = start) ->
  match choice_spec pg es start, choice_loop true ex ne start es s fp fe with
  | Fuel, OutOfFuel => True
  | Raise, _ => True
  | Match v p', Done s' => status s' = true /\ result s' = v /\ pos s' = p' /\ sub E (locals s')
  | Fails, Done s' => (es <> [] \/ status s = false) -> status s' = false /\ existsb always es = false
                      /\ (P = false -> pos s' = start) /\ sub E (locals s')
  | _, _ => False end.
Proof.
  induction es as [|e es IHes]; intros ne start P s fp fe HF HS Hp0 Hne HP Hfp; cbn [choice_spec choice_loop].
  - destruct ne; cbn.
    + intros [H|H]; [congruence|]. repeat split; auto.
    + specialize (Hne eq_refl). discriminate.
  - inversion HF as [|? ? HWe HWes]; subst. cases e s HWe HS.
    + replace (always e || status s1) with true by (rewrite H1, orb_true_r; auto). subst; auto.
    + replace (always e || status s1) with false by (rewrite H1, H2; auto).
      cbn [existsb] in Hne, HP. rewrite H2 in Hne. cbn [orb] in Hne.
      assert (HPe : part e = true -> P = true) by (intros Ex; apply HP; rewrite Ex; auto).
      assert (HPes : existsb part es = true -> P = true) by (intros Ex; apply HP; rewrite Ex; apply orb_true_r).
      set (cmp := if is_fail e then fp <=? pos s1 else fp <? pos s1).
      set (moved := ne && part e && cmp).
      assert (Hfp' : P = false -> (if moved then pos s1 else fp) = pos s).
      { intros HPf. destruct (part e) eqn:Ep.
        - specialize (HPe eq_refl). congruence.
        - subst moved. rewrite andb_false_r. cbn. auto. }
      destruct es as [|e' es'].
      * cbn [choice_spec choice_loop]. destruct ne; cbn.
        -- intros _. repeat split; auto; rewrite ?H2; auto.
        -- specialize (Hne eq_refl). discriminate.
      * cbv iota. set (s2 := if part e then upd s1 (status s1) (result s1) (pos s) else s1).
        assert (Hs2p : pos s2 = pos s) by (subst s2; destruct (part e) eqn:Ep; cbn; auto).
        assert (Hs2s : status s2 = false) by (subst s2; destruct (part e); cbn; auto).
        assert (Hs2l : sub E (locals s2)) by (subst s2; destruct (part e); cbn; auto).
        Show.
Abort.
End Gen.
