(* Design spike (not framework code): visit() and traverse()
   (translator.py:684-755) as explicit-stack loops over trees with object
   identities, against recursive DFS specifications. *)
From Coq Require Import List Arith Bool Lia.
Import ListNotations.

(* every node carries the identity CPython would give it; kinds: leaf,
   container (list/tuple/dict values), parsed object *)
Inductive node :=
| Leaf (id : nat)
| Cont (id : nat) (l : list node)
| Obj (id : nat) (fs : list node).

Definition nid (n : node) := match n with Leaf i | Cont i _ | Obj i _ => i end.

Fixpoint size (n : node) : nat :=
  match n with
  | Leaf _ => 1
  | Cont _ l | Obj _ l => S ((fix sz (l : list node) := match l with [] => 0 | x :: l' => size x + sz l' end) l)
  end.
Definition sizes (l : list node) := fold_right (fun x a => size x + a) 0 l.
Lemma size_cont i l : size (Cont i l) = S (sizes l).
Proof. reflexivity. Qed.
Lemma size_obj i l : size (Obj i l) = S (sizes l).
Proof. reflexivity. Qed.
Lemma sizes_app a b : sizes (a ++ b) = sizes a + sizes b.
Proof. unfold sizes. induction a as [|x a IH]; cbn; auto. rewrite IH. lia. Qed.

Definition mem (i : nat) (v : list nat) := existsb (Nat.eqb i) v.

(* ---------------- visit ---------------- *)
(* SPEC: recursive preorder over a forest, objects de-duplicated by identity *)
Fixpoint dfs (n : node) (vis : list nat) {struct n} : list nat * list nat :=
  match n with
  | Leaf _ => ([], vis)
  | Cont _ l =>
      (fix go (l : list node) (vis : list nat) : list nat * list nat :=
         match l with
         | [] => ([], vis)
         | x :: l' => let '(o1, v1) := dfs x vis in let '(o2, v2) := go l' v1 in (o1 ++ o2, v2)
         end) l vis
  | Obj i fs =>
      if mem i vis then ([], vis)
      else let '(o, v) :=
         (fix go (l : list node) (vis : list nat) : list nat * list nat :=
            match l with
            | [] => ([], vis)
            | x :: l' => let '(o1, v1) := dfs x vis in let '(o2, v2) := go l' v1 in (o1 ++ o2, v2)
            end) fs (i :: vis) in (i :: o, v)
  end.
Fixpoint dfs_list (l : list node) (vis : list nat) : list nat * list nat :=
  match l with
  | [] => ([], vis)
  | x :: l' => let '(o1, v1) := dfs x vis in let '(o2, v2) := dfs_list l' v1 in (o1 ++ o2, v2)
  end.

Lemma dfs_cont i l vis : dfs (Cont i l) vis = dfs_list l vis.
Proof. reflexivity. Qed.
Lemma dfs_obj i fs vis : dfs (Obj i fs) vis =
  if mem i vis then ([], vis) else let '(o, v) := dfs_list fs (i :: vis) in (i :: o, v).
Proof. reflexivity. Qed.
Lemma dfs_list_app a b vis :
  dfs_list (a ++ b) vis = let '(o1, v1) := dfs_list a vis in let '(o2, v2) := dfs_list b v1 in (o1 ++ o2, v2).
Proof.
  revert vis. induction a as [|x a IH]; intros vis; cbn.
  - destruct (dfs_list b vis). auto.
  - destruct (dfs x vis) as [o1 v1]. rewrite IH. destruct (dfs_list a v1) as [o2 v2].
    destruct (dfs_list b v2) as [o3 v3]. rewrite app_assoc. auto.
Qed.

(* MODEL: the loop; the Python stack is a list whose end is the top, and
   stack.extend(reversed(children)) makes the first child the next to pop *)
Fixpoint visit_loop (fuel : nat) (stack : list node) (vis : list nat) (out : list nat) : option (list nat * list nat) :=
  match fuel with
  | 0 => match stack with [] => Some (out, vis) | _ => None end
  | S fuel =>
    match stack with
    | [] => Some (out, vis)
    | n :: st =>
      match n with
      | Leaf _ => visit_loop fuel st vis out
      | Cont _ l => visit_loop fuel (l ++ st) vis out
      | Obj i fs => if mem i vis then visit_loop fuel st vis out
                    else visit_loop fuel (fs ++ st) (i :: vis) (out ++ [i])
      end
    end
  end.

Theorem visit_is_dfs : forall fuel stack vis out,
  sizes stack <= fuel ->
  visit_loop fuel stack vis out = Some (let '(o, v) := dfs_list stack vis in (out ++ o, v)).
Proof.
  induction fuel as [|fuel IH]; intros stack vis out Hf.
  - destruct stack as [|n st]; cbn; [rewrite app_nil_r; auto|].
    cbn in Hf. destruct n; cbn in Hf; lia.
  - destruct stack as [|n st]; cbn [visit_loop]; [cbn; rewrite app_nil_r; auto|].
    cbn [sizes fold_right] in Hf. fold (sizes st) in Hf.
    destruct n as [i|i l|i fs].
    + rewrite IH by (cbn in Hf; lia). cbn. destruct (dfs_list st vis). auto.
    + rewrite size_cont in Hf. rewrite IH by (rewrite sizes_app; lia).
      rewrite dfs_list_app. cbn [dfs_list]. rewrite dfs_cont.
      destruct (dfs_list l vis) as [o1 v1]. destruct (dfs_list st v1) as [o2 v2]. auto.
    + rewrite size_obj in Hf. cbn [dfs_list]. rewrite dfs_obj. destruct (mem i vis).
      * rewrite IH by lia. destruct (dfs_list st vis). auto.
      * rewrite IH by (rewrite sizes_app; lia). rewrite dfs_list_app.
        destruct (dfs_list fs (i :: vis)) as [o1 v1]. destruct (dfs_list st v1) as [o2 v2].
        rewrite <- !app_assoc. auto.
Qed.
Print Assumptions visit_is_dfs.

(* ---------------- traverse ---------------- *)
(* events: (parent id, field index, child id, finished?) ; parent 0 = None *)
Definition event : Type := (nat * nat * nat * bool).

(* SPEC (what C15 demands): every occurrence gets enter and finish; children
   are expanded only at the first occurrence of a container/object *)
Definition is_leaf (n : node) := match n with Leaf _ => true | _ => false end.
Definition kids (n : node) := match n with Leaf _ => [] | Cont _ l | Obj _ l => l end.

(* MODEL of the shipped code: a single visited set applied to every child *)
Inductive frame := Enter (p f : nat) (c : node) | Finish (p f : nat) (c : node).

Fixpoint index_from {A} (k : nat) (l : list A) : list (nat * A) :=
  match l with [] => [] | x :: l' => (k, x) :: index_from (S k) l' end.

Fixpoint traverse_loop (dedupe_leaves : bool) (fuel : nat) (stack : list frame) (vis : list nat) (out : list event)
  : option (list event) :=
  match fuel with
  | 0 => match stack with [] => Some out | _ => None end
  | S fuel =>
    match stack with
    | [] => Some out
    | Finish p f c :: st => traverse_loop dedupe_leaves fuel st vis (out ++ [(p, f, nid c, true)])
    | Enter p f c :: st =>
        let seen := mem (nid c) vis in
        if seen && (dedupe_leaves || negb (is_leaf c)) && dedupe_leaves
        then traverse_loop dedupe_leaves fuel st vis out                       (* shipped: skip silently *)
        else
          let expand := negb seen in
          let children := if expand then map (fun '(k, x) => Enter (nid c) k x) (index_from 0 (kids c)) else [] in
          traverse_loop dedupe_leaves fuel (children ++ Finish p f c :: st)
                        (if is_leaf c && negb dedupe_leaves then vis else nid c :: vis)
                        (out ++ [(p, f, nid c, false)])
    end
  end.

(* the shipped behaviour on [1, 1] where both elements are the same object (id 7) *)
Definition t11 := Cont 1 [Leaf 7; Leaf 7].
Eval vm_compute in traverse_loop true 50 [Enter 0 0 t11] [] [].
Eval vm_compute in traverse_loop false 50 [Enter 0 0 t11] [] [].
Example shipped_drops_second_leaf :
  traverse_loop true 50 [Enter 0 0 t11] [] [] =
  Some [(0,0,1,false); (1,0,7,false); (1,0,7,true); (0,0,1,true)].
Proof. vm_compute. reflexivity. Qed.
Example repaired_keeps_it :
  traverse_loop false 50 [Enter 0 0 t11] [] [] =
  Some [(0,0,1,false); (1,0,7,false); (1,0,7,true); (1,1,7,false); (1,1,7,true); (0,0,1,true)].
Proof. vm_compute. reflexivity. Qed.
