(* Design spike (not framework code): draft of the register-machine model for
   all C01/C03 constructs, mirroring sourcer/expressions/*.py clause by clause,
   including the skip_ignored rule call after literals.  Evaluated against the
   real generated parsers by a scratch differential script. *)
From Coq Require Import List Arith Bool Lia.
Import ListNotations.

Inductive value :=
| VNone | VStr (s : list nat) | VInt (n : nat) | VList (l : list value) | VErr (id : nat).

(* repetition bound: absent, literal, (names come later) *)
Inductive expr :=
| Str (s : list nat) (skip : bool)
| Rx (id : nat) (skip : bool)
| Byte (b : nat) (skip : bool)
| Ref (r : nat)
| Seq (es : list expr)
| Discard (a b : expr) (dl : bool)          (* dl = discard_left, i.e. >> *)
| Choice (es : list expr)
| Opt (e : expr)
| Rep (e : expr) (mn : option nat) (mx : option nat)
| Expect (e : expr)
| ExpectNot (e : expr)
| Skip (es : list expr)
| Longest (es : list expr)
| Backtrack (k : nat)
| Fail
| Sep (e s : expr) (discard trailer allow_empty reqsep : bool).

Definition is_fail (e : expr) := match e with Fail => true | _ => false end.

Definition mn_zero (mn : option nat) := match mn with None | Some 0 => true | _ => false end.

Section Flags.
Variable list_fixed : bool.
Fixpoint always (e : expr) : bool :=
  match e with
  | Str s _ => match s with [] => true | _ => false end
  | Rx _ _ | Byte _ _ | Ref _ | Seq _ | ExpectNot _ | Backtrack _ | Fail => false
  | Discard a b _ => always a && always b
  | Choice es | Longest es => existsb always es
  | Opt _ | Skip _ => true
  | Rep _ mn _ => mn_zero mn
  | Expect e => always e
  | Sep _ _ _ _ allow_empty reqsep => allow_empty && negb reqsep
  end.
Fixpoint partial (e : expr) : bool :=
  match e with
  | Str _ _ | Rx _ _ | Byte _ _ | Backtrack _ | Opt _ | Skip _ => false
  | Ref _ | Seq _ | ExpectNot _ | Fail => true
  | Discard a b _ => negb (always a && always b)
  | Choice es | Longest es => negb (existsb always es) && existsb partial es
  | Rep e mn _ => negb (mn_zero mn) && (if list_fixed then true else partial e)
  | Expect e => partial e
  | Sep _ _ _ _ allow_empty reqsep => negb (allow_empty && negb reqsep)
  end.
End Flags.

Fixpoint prefix_at (s t : list nat) (p : nat) : bool :=
  match s with
  | [] => true
  | c :: s' => match nth_error t p with
               | Some d => Nat.eqb c d && prefix_at s' t (S p)
               | None => false
               end
  end.
Definition slice (t : list nat) (a b : nat) := firstn (b - a) (skipn a t).

Record st := mk { status : bool; result : value; pos : nat }.
Inductive out := Done (s : st) | OutOfFuel.

Definition bind (o : out) (k : st -> out) : out := match o with Done s => k s | OutOfFuel => OutOfFuel end.

Section Model.
Variable list_fixed : bool.
Variable g : list expr.               (* rule bodies *)
Variable ignored : option nat.        (* index of the synthetic _ignored rule *)
Variable t : list nat.
Variable rx : nat -> nat -> option nat.   (* oracle: Pattern.match(text, pos).end() *)

Notation always := (always).
Notation partial := (partial list_fixed).

Section Loops.
Variable ex : expr -> st -> out.

Fixpoint seq_loop (es : list expr) (s : st) (items : list value) : out :=
  match es with
  | [] => Done (mk (status s) (VList (rev items)) (pos s))
  | e :: es' => bind (ex e s) (fun s1 =>
      if always e || status s1 then seq_loop es' s1 (result s1 :: items) else Done s1)
  end.

Fixpoint choice_loop (needs_err : bool) (start : nat) (es : list expr) (s : st)
         (fp : nat) (fe : value) : out :=
  match es with
  | [] => if needs_err then Done (mk (status s) fe fp) else Done s
  | e :: es' => bind (ex e s) (fun s1 =>
      if always e || status s1 then Done s1
      else
        let cmp := if is_fail e then Nat.leb fp (pos s1) else Nat.ltb fp (pos s1) in
        let upd := needs_err && partial e && cmp in
        let fp' := if upd then pos s1 else fp in
        let fe' := if upd then result s1 else fe in
        let s2 := match es' with
                  | [] => s1
                  | _ => if partial e then mk (status s1) (result s1) start else s1
                  end in
        choice_loop needs_err start es' s2 fp' fe')
  end.

Definition rep_fin (mn : option nat) (s : st) (acc : list value) : st :=
  match mn with
  | None | Some 0 => mk true (VList (rev acc)) (pos s)
  | Some m => if Nat.leb m (length acc) then mk true (VList (rev acc)) (pos s) else s
  end.
Definition at_max (mx : option nat) (k : nat) := match mx with Some m => Nat.eqb k m | None => false end.

Fixpoint rep_loop (k : nat) (e : expr) (mn mx : option nat) (s : st) (acc : list value) : out :=
  match k with
  | 0 => OutOfFuel
  | S k =>
    let cp := pos s in
    bind (ex e s) (fun s1 =>
      if negb (always e) && negb (status s1) then
        Done (rep_fin mn (if partial e then mk (status s1) (result s1) cp else s1) acc)
      else
        let acc' := result s1 :: acc in
        if at_max mx (length acc') then Done (rep_fin mn s1 acc')
        else rep_loop k e mn mx s1 acc')
  end.

(* Skip: one pass over the items; Some s = restart the while loop from s, None s = fell through *)
Fixpoint skip_pass (cp : nat) (es : list expr) (s : st) : option (bool * st) :=
  match es with
  | [] => Some (false, s)
  | e :: es' =>
    match ex e s with
    | OutOfFuel => None
    | Done s1 =>
      if always e then
        if negb (Nat.eqb (pos s1) cp) then Some (true, s1) else skip_pass cp es' s1
      else if status s1 then Some (true, s1)
      else skip_pass cp es' (if partial e then mk (status s1) (result s1) cp else s1)
    end
  end.
Fixpoint skip_loop (k : nat) (es : list expr) (s : st) : out :=
  match k with
  | 0 => OutOfFuel
  | S k => match skip_pass (pos s) es s with
           | None => OutOfFuel
           | Some (true, s1) => skip_loop k es s1
           | Some (false, s1) => Done (mk true VNone (pos s1))
           end
  end.

(* Longest with >= 2 options *)
Fixpoint longest_loop (needs_err : bool) (bt : nat) (first : bool) (es : list expr) (s : st)
         (has : bool) (fr : value) (fpos : nat) (er : value) (epos : nat) : out :=
  match es with
  | [] => if has then Done (mk true fr fpos)
          else if needs_err then Done (mk (status s) er epos) else Done s
  | e :: es' =>
    let s0 := if first then s else mk (status s) (result s) bt in
    bind (ex e s0) (fun s1 =>
      if always e || status s1 then
        if negb has || Nat.ltb fpos (pos s1)
        then longest_loop needs_err bt false es' s1 true (result s1) (pos s1) er epos
        else longest_loop needs_err bt false es' s1 has fr fpos er epos
      else
        (* longest.py:86 passes the condition to ELIF as a Python *string*, which
           outsourcer quotes: the generated test is `elif '<text>':`, always true.
           So every failing option overwrites the error registers. *)
        if needs_err
        then longest_loop needs_err bt false es' s1 has fr fpos (result s1) (pos s1)
        else longest_loop needs_err bt false es' s1 has fr fpos er epos)
  end.

Definition sep_finish (allow_empty reqsep : bool) (staging : list value) (cp : nat) (saw : bool) (s : st) : st :=
  let success := mk true (VList (rev staging)) cp in
  let nonempty := match staging with [] => false | _ => true end in
  if allow_empty && reqsep then (if negb nonempty || saw then success else s)
  else if reqsep then (if saw then success else s)
  else if allow_empty then success
  else (if nonempty then success else s).

Fixpoint sep_loop (k : nat) (e sp : expr) (discard trailer allow_empty reqsep : bool)
         (s : st) (staging : list value) (cp : nat) (saw : bool) : out :=
  match k with
  | 0 => OutOfFuel
  | S k =>
    bind (ex e s) (fun s1 =>
      if negb (always e) && negb (status s1) then
        let staging' := if negb discard && negb trailer then tl staging else staging in
        Done (sep_finish allow_empty reqsep staging' cp saw s1)
      else
        let staging1 := result s1 :: staging in
        let cp1 := pos s1 in
        bind (ex sp s1) (fun s2 =>
          if negb (always sp) && negb (status s2) then
            Done (sep_finish allow_empty reqsep staging1 cp1 saw s2)
          else
            let staging2 := if discard then staging1 else result s2 :: staging1 in
            let cp2 := if trailer then pos s2 else cp1 in
            sep_loop k e sp discard trailer allow_empty reqsep s2 staging2 cp2 (if reqsep then true else saw)))
  end.
End Loops.

Definition fresh (p : nat) := mk false VNone p.

Fixpoint exec (n : nat) (e : expr) (s : st) : out :=
  match n with
  | 0 => OutOfFuel
  | S n =>
    let call (r : nat) (p : nat) : out :=
        match nth_error g r with
        | Some b => exec n b (fresh p)
        | None => Done (mk false (VErr 999) p)
        end in
    let after (skip : bool) (e_ : nat) (v : value) : out :=
        if skip then
          match ignored with
          | Some r => bind (call r e_) (fun s1 => Done (mk true v (pos s1)))
          | None => Done (mk true v e_)
          end
        else Done (mk true v e_) in
    match e with
    | Str v skip =>
        match v with
        | [] => Done (mk true (VStr []) (pos s))
        | _ => if prefix_at v t (pos s) then after skip (pos s + length v) (VStr v)
               else Done (mk false (VErr 1) (pos s))
        end
    | Rx id skip =>
        match rx id (pos s) with
        | Some e_ => after skip e_ (VStr (slice t (pos s) e_))
        | None => Done (mk false (VErr 2) (pos s))
        end
    | Byte b skip =>
        match nth_error t (pos s) with
        | Some c => if Nat.eqb c b then after skip (S (pos s)) (VInt b) else Done (mk false (VErr 3) (pos s))
        | None => Done (mk false (VErr 3) (pos s))
        end
    | Ref r => call r (pos s)
    | Seq es => seq_loop (exec n) es s []
    | Discard a b dl =>
        bind (exec n a s) (fun s1 =>
          if always a || status s1 then
            if dl then exec n b s1
            else let staging := result s1 in
                 bind (exec n b s1) (fun s2 =>
                   if always b || status s2 then Done (mk (status s2) staging (pos s2)) else Done s2)
          else Done s1)
    | Choice es =>
        choice_loop (exec n) (negb (existsb always es)) (pos s) es s (pos s) (VErr 4)
    | Opt e =>
        let bt := pos s in
        bind (exec n e s) (fun s1 => if always e || status s1 then Done s1 else Done (mk true VNone bt))
    | Rep e mn mx =>
        match mx with
        | Some 0 => Done (mk true (VList []) (pos s))
        | _ => rep_loop (exec n) n e mn mx s []
        end
    | Expect e =>
        let bt := pos s in
        bind (exec n e s) (fun s1 =>
          if always e || status s1 then Done (mk (status s1) (result s1) bt) else Done s1)
    | ExpectNot e =>
        let bt := pos s in
        bind (exec n e s) (fun s1 =>
          if status s1 then Done (mk false (VErr 5) bt) else Done (mk true VNone bt))
    | Skip es => skip_loop (exec n) n es s
    | Longest es =>
        match es with
        | [] => Done s
        | [e] => exec n e s
        | _ => longest_loop (exec n) (negb (existsb always es)) (pos s) true es s false VNone (pos s) (VErr 6) (pos s)
        end
    | Backtrack k =>
        if Nat.leb k (pos s) then Done (mk true VNone (pos s - k)) else Done (mk false (VErr 7) (pos s))
    | Fail => Done (mk false (VErr 8) (pos s))
    | Sep e sp discard trailer allow_empty reqsep =>
        sep_loop (exec n) n e sp discard trailer allow_empty reqsep s [] (pos s) false
    end
  end.

(* observable of one rule: (status, value-if-success, pos) *)
Definition run_rule (fuel : nat) (r : nat) (p : nat) : option (bool * option value * nat) :=
  match nth_error g r with
  | None => None
  | Some b => match exec fuel b (fresh p) with
              | Done s => Some (status s, if status s then Some (result s) else None, pos s)
              | OutOfFuel => None
              end
  end.
End Model.
