(* Design spike (not framework code): C09 in full for text input —
   _map_index_to_line_and_column, _extract_excerpt, _caret_at
   (translator.py:822-871), unbounded theorems for the repaired threshold. *)
From Coq Require Import List Arith Bool Lia.
Import ListNotations.

Definition NL := 10.
Definition text := list nat.

(* ---------- model ---------- *)
(* the for-loop of _map_index_to_line_and_column: the entry for a newline
   character already carries the next line number and column 0 *)
Fixpoint lc_map (t : text) (line col : nat) : list (nat * nat) :=
  match t with
  | [] => []
  | c :: t' => if Nat.eqb c NL then (S line, 0) :: lc_map t' (S line) 0
               else (line, S col) :: lc_map t' line (S col)
  end.
Definition line_col (t : text) (i : nat) : option (nat * nat) := nth_error (lc_map t 1 0) i.

Definition slice (t : text) (a b : nat) : text := firstn (b - a) (skipn a t).

(* re.compile('\n').search(text, p).start(), or len(text) *)
Fixpoint find_nl_from (t : text) (p : nat) : nat :=
  match t with
  | [] => p
  | c :: t' => match p with
               | 0 => if Nat.eqb c NL then 0 else S (find_nl_from t' 0)
               | S p' => S (find_nl_from t' p')
               end
  end.

Definition dots_l := [46;46;46;32].
Definition dots_r := [32;46;46;46].

(* (excerpt line, caret offset); K = threshold of the third regime (shipped 40) *)
Definition extract (K : nat) (t : text) (pos col : nat) : text * nat :=
  let start := pos - (col - 1) in
  let e := find_nl_from t (pos + 1) in
  if Nat.ltb (e - start) 96 then (slice t start e, col - 1)
  else if Nat.ltb col 60 then (slice t start (start + 90) ++ dots_r, col - 1)
  else if Nat.ltb (e - pos) K then (dots_l ++ slice t (e - 90) e, pos - (e - 90) + 4)
  else (dots_l ++ slice t (pos - 42) (pos + 42) ++ dots_r, 42 + 4).

(* ---------- specification vocabulary ---------- *)
Definition count_nl (t : text) := length (filter (Nat.eqb NL) t).
Definition no_nl (t : text) (a b : nat) := forall j, a <= j -> j < b -> nth_error t j <> Some NL.
(* s is the start of the line containing i *)
Definition is_line_start (t : text) (i s : nat) :=
  s <= i /\ no_nl t s i /\ (s = 0 \/ nth_error t (s - 1) = Some NL).

(* ---------- list lemmas ---------- *)
Lemma nth_firstn {A} (l : list A) : forall n k, k < n -> nth_error (firstn n l) k = nth_error l k.
Proof. induction l as [|x l IH]; intros [|n] [|k] H; cbn; auto; try lia. apply IH. lia. Qed.
Lemma nth_skipn {A} (l : list A) : forall a k, nth_error (skipn a l) k = nth_error l (a + k).
Proof. induction l as [|x l IH]; intros [|a] k; cbn; auto. destruct k; auto. Qed.
Lemma slice_length t a b : a <= b -> b <= length t -> length (slice t a b) = b - a.
Proof. intros. unfold slice. rewrite firstn_length, skipn_length. lia. Qed.
Lemma nth_slice t a b k : k < b - a -> nth_error (slice t a b) k = nth_error t (a + k).
Proof. intros H. unfold slice. rewrite nth_firstn by exact H. apply nth_skipn. Qed.
Lemma slice_no_nl t a b : no_nl t a b -> existsb (Nat.eqb NL) (slice t a b) = false.
Proof.
  intros H. destruct (existsb (Nat.eqb NL) (slice t a b)) eqn:E; auto.
  apply existsb_exists in E. destruct E as (x & Hin & Hx). apply Nat.eqb_eq in Hx. subst x.
  apply In_nth_error in Hin. destruct Hin as (k & Hk).
  assert (k < b - a).
  { assert (k < length (slice t a b)) by (apply nth_error_Some; congruence).
    unfold slice in H0. rewrite firstn_length in H0. lia. }
  rewrite nth_slice in Hk by assumption. exfalso. apply (H (a + k)); try lia. congruence.
Qed.

(* ---------- find_nl_from ---------- *)
Lemma find_nl_spec : forall t p, p <= length t ->
  p <= find_nl_from t p /\ find_nl_from t p <= length t /\ no_nl t p (find_nl_from t p)
  /\ (find_nl_from t p < length t -> nth_error t (find_nl_from t p) = Some NL).
Proof.
  unfold no_nl.
  induction t as [|c t IH]; intros p Hp.
  - cbn in Hp. assert (p = 0) by lia. subst. cbn. split; [lia|]. split; [lia|]. split; intros; lia.
  - destruct p as [|p]; cbn [find_nl_from].
    + destruct (Nat.eqb_spec c NL) as [E|E].
      * subst. split; [lia|]. split; [cbn; lia|]. split; [intros; lia|]. intros _. reflexivity.
      * destruct (IH 0 ltac:(lia)) as (A & B & C & D). cbn [length].
        split; [lia|]. split; [lia|]. split.
        -- intros [|j] Hj1 Hj2; cbn; [congruence|]. apply C; lia.
        -- intros He. cbn. apply D. lia.
    + cbn [length] in Hp. destruct (IH p ltac:(lia)) as (A & B & C & D). cbn [length].
      split; [lia|]. split; [lia|]. split.
      * intros [|j] Hj1 Hj2; [lia|]. cbn. apply C; lia.
      * intros He. cbn. apply D. lia.
Qed.

(* ---------- line/column map ---------- *)
(* generalised invariant: s0 = start of the current line (absolute index), off = absolute index of t's head *)
Lemma lc_map_spec : forall t line col i,
  i < length t -> nth_error t i <> Some NL ->
  exists s,
    nth_error (lc_map t line col) i =
      Some (line + count_nl (firstn i t), if Nat.eqb s 0 then col + i + 1 else i - s + 1)
    /\ s <= i /\ no_nl t s i /\ (s = 0 \/ nth_error t (s - 1) = Some NL).
Proof.
  unfold no_nl.
  induction t as [|c t IH]; intros line col i Hi Hnl; [cbn in Hi; lia|].
  destruct i as [|i].
  - exists 0. cbn. cbn in Hnl. destruct (Nat.eqb_spec c NL) as [E|E]; [subst; congruence|].
    cbn. split; [f_equal; f_equal; unfold count_nl; cbn; lia|]. split; [lia|]. split; [intros j; lia|auto].
  - cbn [length] in Hi. cbn [nth_error] in Hnl. cbn [lc_map].
    destruct (Nat.eqb_spec c NL) as [E|E].
    + subst c. destruct (IH (S line) 0 i ltac:(lia) Hnl) as (s & Hs & Hle & Hno & Hst).
      cbn [nth_error firstn]. unfold count_nl in *. cbn [filter]. change (NL =? NL) with true. cbn [length].
      destruct (Nat.eqb_spec s 0) as [Es|Es].
      * (* the line starts right after this newline: absolute start 1 *)
        exists 1. subst s. rewrite Hs. cbn [Nat.eqb]. split; [f_equal; f_equal; lia|].
        split; [lia|]. split.
        -- intros [|j] Hj1 Hj2; [lia|]. cbn. apply Hno; lia.
        -- right. reflexivity.
      * exists (S s). rewrite Hs. cbn [Nat.eqb]. split; [f_equal; f_equal; lia|].
        split; [lia|]. split.
        -- intros [|j] Hj1 Hj2; [lia|]. cbn. apply Hno; lia.
        -- right. destruct Hst as [Hst|Hst]; [contradiction|]. destruct s; [contradiction|]. cbn in *.
           rewrite Nat.sub_0_r in *. exact Hst.
    + destruct (IH line (S col) i ltac:(lia) Hnl) as (s & Hs & Hle & Hno & Hst).
      cbn [nth_error firstn]. unfold count_nl in *. cbn [filter].
      replace (NL =? c) with false by (symmetry; apply Nat.eqb_neq; auto).
      destruct (Nat.eqb_spec s 0) as [Es|Es].
      * exists 0. subst s. rewrite Hs. cbn [Nat.eqb]. split; [f_equal; f_equal; lia|].
        split; [lia|]. split; [|left; reflexivity].
        intros [|j] Hj1 Hj2; cbn; [congruence|]. apply Hno; lia.
      * exists (S s). rewrite Hs. cbn [Nat.eqb]. split; [f_equal; f_equal; lia|].
        split; [lia|]. split.
        -- intros [|j] Hj1 Hj2; [lia|]. cbn. apply Hno; lia.
        -- right. destruct Hst as [Hst|Hst]; [contradiction|]. destruct s; [contradiction|]. cbn in *.
           rewrite Nat.sub_0_r in *. exact Hst.
Qed.

(* C09_linecol *)
Theorem linecol_correct t i :
  i < length t -> nth_error t i <> Some NL ->
  exists s, is_line_start t i s /\
            line_col t i = Some (1 + count_nl (firstn i t), 1 + (i - s)).
Proof.
  intros Hi Hnl. destruct (lc_map_spec t 1 0 i Hi Hnl) as (s & Hs & Hle & Hno & Hst).
  exists s. split; [repeat split; auto|]. unfold line_col. rewrite Hs. f_equal. f_equal.
  destruct (Nat.eqb_spec s 0); subst; lia.
Qed.

(* ---------- the excerpt (K = 42) ---------- *)
Definition caret_ok (t : text) (i : nat) (r : text * nat) : Prop :=
  existsb (Nat.eqb NL) (fst r) = false /\ nth_error (fst r) (snd r) = nth_error t i.

(* C09_excerpt_one_line and C09_caret, all four regimes, any line length and column *)
Theorem excerpt_correct t i s :
  i < length t -> nth_error t i <> Some NL -> is_line_start t i s ->
  caret_ok t i (extract 42 t i (1 + (i - s))).
Proof.
  intros Hi Hnl (Hle & Hno & _).
  destruct (find_nl_spec t (i + 1) ltac:(lia)) as (A & B & C & _).
  set (e := find_nl_from t (i + 1)) in *.
  assert (Hline : no_nl t s e).
  { intros j Hj1 Hj2. destruct (Nat.lt_ge_cases j i); [apply Hno; lia|].
    destruct (Nat.eq_dec j i); [subst; exact Hnl|]. apply C; lia. }
  unfold extract. fold e.
  replace (i - (1 + (i - s) - 1)) with s by lia.
  replace (1 + (i - s) - 1) with (i - s) by lia.
  unfold caret_ok.
  destruct (Nat.ltb_spec (e - s) 96).
  - cbn [fst snd]. split; [apply slice_no_nl; auto|]. rewrite nth_slice by lia. f_equal. lia.
  - destruct (Nat.ltb_spec (1 + (i - s)) 60).
    + cbn [fst snd]. split.
      * rewrite existsb_app, slice_no_nl; [reflexivity|]. intros j Hj1 Hj2. apply Hline; lia.
      * rewrite nth_error_app1 by (rewrite slice_length; lia). rewrite nth_slice by lia. f_equal. lia.
    + destruct (Nat.ltb_spec (e - i) 42).
      * cbn [fst snd]. split.
        -- rewrite existsb_app, slice_no_nl; [reflexivity|]. intros j Hj1 Hj2. apply Hline; lia.
        -- rewrite nth_error_app2 by (cbn; lia). cbn [length dots_l].
           rewrite nth_slice by lia. f_equal. lia.
      * cbn [fst snd]. split.
        -- rewrite !existsb_app, slice_no_nl; [reflexivity|]. intros j Hj1 Hj2. apply Hline; lia.
        -- rewrite nth_error_app2 by (cbn; lia). cbn [length dots_l].
           rewrite nth_error_app1 by (rewrite slice_length; lia). rewrite nth_slice by lia. f_equal. lia.
Qed.

(* the shipped threshold is refuted *)
Definition mk (L c : nat) : text :=
  [97;97;97;NL] ++ repeat 97 c ++ [88] ++ repeat 97 (L - c - 1) ++ [NL;98;98;98].
Example shipped_refuted :
  existsb (Nat.eqb NL) (fst (extract 40 (mk 100 59) 63 60)) = true.
Proof. vm_compute. reflexivity. Qed.

Print Assumptions linecol_correct.
Print Assumptions excerpt_correct.
