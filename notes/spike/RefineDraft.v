(* Design spike (not framework code): exec_refines_peg for the draft model
   (ExecDraft.v, repaired List flag) against the draft spec (SpecDraft.v),
   for all C01/C03 constructs. *)
From Coq Require Import List Arith Bool Lia.
Import ListNotations.
Require Import ExecDraft SpecDraft.

Notation part := (partial true).

Definition agree (e : expr) (p : nat) (r : option res) (o : out) : Prop :=
  match r, o with
  | None, OutOfFuel => True
  | Some (Some (v, p')), Done s' => status s' = true /\ result s' = v /\ pos s' = p'
  | Some None, Done s' => status s' = false /\ always e = false /\ (part e = false -> pos s' = p)
  | _, _ => False
  end.

Section Gen.
Variable pg : expr -> nat -> option res.
Variable ex : expr -> st -> out.
Variable W : expr -> Prop.      (* well-formedness, threaded to sub-expressions *)
Hypothesis IH : forall e s, W e -> agree e (pos s) (pg e (pos s)) (ex e s).

(* the three-way case analysis of one sub-expression, packaged *)
Lemma IH_cases e s : W e ->
  (pg e (pos s) = None /\ ex e s = OutOfFuel) \/
  (exists v p' s1, pg e (pos s) = Some (Some (v, p')) /\ ex e s = Done s1 /\
                   status s1 = true /\ result s1 = v /\ pos s1 = p') \/
  (exists s1, pg e (pos s) = Some None /\ ex e s = Done s1 /\
              status s1 = false /\ always e = false /\ (part e = false -> pos s1 = pos s)).
Proof.
  intros HW. pose proof (IH e s HW) as H. unfold agree in H.
  destruct (pg e (pos s)) as [[[v p']|]|], (ex e s) as [s1|]; try contradiction.
  - right; left. destruct H as (A & B & C). exists v, p', s1. auto.
  - right; right. exists s1. tauto.
  - left. auto.
Qed.

Ltac cases e s HW :=
  let v := fresh "v" in let p' := fresh "p'" in let s1 := fresh "s1" in
  let Hp := fresh "Hp" in let He := fresh "He" in
  let H1 := fresh "H1" in let H2 := fresh "H2" in let H3 := fresh "H3" in
  destruct (IH_cases e s HW) as [(Hp & He)|[(v & p' & s1 & Hp & He & H1 & H2 & H3)|(s1 & Hp & He & H1 & H2 & H3)]];
  rewrite ?Hp, ?He; cbn [bind obind].

(* ---------- Seq ---------- *)
Lemma seq_ok : forall es s acc, Forall W es ->
  match seq_spec pg es (pos s) acc, seq_loop ex es s acc with
  | None, OutOfFuel => True
  | Some (Some (v,p')), Done s' => (status s = true \/ es <> [] -> status s' = true) /\ result s' = v /\ pos s' = p'
  | Some None, Done s' => status s' = false
  | _, _ => False end.
Proof.
  induction es as [|e es IHes]; intros s acc HF; cbn [seq_spec seq_loop].
  - repeat split; auto. intros [H|H]; [exact H|congruence].
  - inversion HF as [|? ? HWe HWes]; subst. cases e s HWe; auto.
    + replace (always e || status s1) with true by (rewrite H1, orb_true_r; auto).
      subst v p'. specialize (IHes s1 (result s1 :: acc) HWes).
      destruct (seq_spec pg es (pos s1) (result s1 :: acc)) as [[[v p']|]|],
               (seq_loop ex es s1 (result s1 :: acc)); auto.
      destruct IHes as (A & B & C). repeat split; auto.
    + replace (always e || status s1) with false by (rewrite H1, H2; auto). auto.
Qed.

(* ---------- Choice ---------- *)
Lemma choice_ok : forall es ne start (P : bool) s fp fe, Forall W es ->
  pos s = start ->
  (ne = false -> existsb always es = true) ->
  (existsb part es = true -> P = true) ->
  (P = false -> fp = start) ->
  match choice_spec pg es start, choice_loop true ex ne start es s fp fe with
  | None, OutOfFuel => True
  | Some (Some (v,p')), Done s' => status s' = true /\ result s' = v /\ pos s' = p'
  | Some None, Done s' => (es <> [] \/ status s = false) -> status s' = false /\ existsb always es = false
                          /\ (P = false -> pos s' = start)
  | _, _ => False end.
Proof.
  induction es as [|e es IHes]; intros ne start P s fp fe HF Hp0 Hne HP Hfp; cbn [choice_spec choice_loop].
  - destruct ne; cbn.
    + intros [H|H]; [congruence|]. repeat split; auto.
    + specialize (Hne eq_refl). discriminate.
  - inversion HF as [|? ? HWe HWes]; subst. cases e s HWe; auto.
    + replace (always e || status s1) with true by (rewrite H1, orb_true_r; auto). subst; auto.
    + replace (always e || status s1) with false by (rewrite H1, H2; auto).
      cbn [existsb] in Hne, HP. rewrite H2 in Hne. cbn [orb] in Hne.
      assert (HPe : part e = true -> P = true) by (intros E; apply HP; rewrite E; auto).
      assert (HPes : existsb part es = true -> P = true) by (intros E; apply HP; rewrite E; apply orb_true_r).
      set (cmp := if is_fail e then fp <=? pos s1 else fp <? pos s1).
      set (upd := ne && part e && cmp).
      assert (Hfp' : P = false -> (if upd then pos s1 else fp) = pos s).
      { intros HPf. destruct (part e) eqn:Ep.
        - specialize (HPe eq_refl). congruence.
        - subst upd. rewrite andb_false_r. cbn. auto. }
      destruct es as [|e' es'].
      * cbn [choice_spec choice_loop]. destruct ne; cbn.
        -- intros _. repeat split; auto; rewrite ?H2; auto.
        -- specialize (Hne eq_refl). discriminate.
      * cbv iota. set (s2 := if part e then mk (status s1) (result s1) (pos s) else s1).
        assert (Hs2p : pos s2 = pos s) by (subst s2; destruct (part e) eqn:Ep; cbn; auto).
        assert (Hs2s : status s2 = false) by (subst s2; destruct (part e); cbn; auto).
        specialize (IHes ne (pos s) P s2 (if upd then pos s1 else fp)
                         (if upd then result s1 else fe) HWes Hs2p Hne HPes Hfp').
        destruct (choice_spec pg (e' :: es') (pos s)) as [[[v p']|]|],
                 (choice_loop true ex ne (pos s) (e' :: es') s2 _ _); auto.
        intros _. destruct IHes as (A & B & C); [left; discriminate|].
        repeat split; auto. change (always e || existsb always (e' :: es') = false). rewrite H2, B. auto.
Qed.

(* ---------- List (bounded repetition) ---------- *)
Definition mnv (mn : option nat) := match mn with Some m => m | None => 0 end.

Lemma rep_spec_at_max k e mn mx p acc :
  at_max mx (length acc) = true -> rep_spec pg k e mn mx p acc = Some (Some (VList (rev acc), p)).
Proof. intros H. destruct k; cbn; rewrite H; auto. Qed.

Lemma rep_fin_ok mn s acc : mnv mn <= length acc -> rep_fin mn s acc = mk true (VList (rev acc)) (pos s).
Proof.
  intros H. unfold rep_fin. destruct mn as [[|m]|]; auto. cbn in H.
  destruct (Nat.leb_spec (S m) (length acc)); auto. lia.
Qed.
Lemma rep_fin_fail mn s acc : ~ mnv mn <= length acc -> rep_fin mn s acc = s /\ mn_zero mn = false.
Proof.
  intros H. unfold rep_fin. destruct mn as [[|m]|]; cbn in H; try lia.
  destruct (Nat.leb_spec (S m) (length acc)); auto. lia.
Qed.

Lemma rep_ok : forall k e mn mx s acc, W e ->
  (forall m, mx = Some m -> mnv mn <= m) -> at_max mx (length acc) = false ->
  match rep_spec pg k e mn mx (pos s) acc, rep_loop true ex k e mn mx s acc with
  | None, OutOfFuel => True
  | Some (Some (v,p')), Done s' => status s' = true /\ result s' = v /\ pos s' = p'
  | Some None, Done s' => status s' = false /\ mn_zero mn = false
  | _, _ => False end.
Proof.
  induction k as [|k IHk]; intros e mn mx s acc HWe Hmm Hmax.
  - cbn. rewrite Hmax. auto.
  - cbn [rep_spec rep_loop]. rewrite Hmax. cases e s HWe; auto.
    + subst v p'.
      replace (negb (always e) && negb (status s1)) with false by (rewrite H1, andb_false_r; auto).
      destruct (at_max mx (length (result s1 :: acc))) eqn:Em.
      * rewrite rep_spec_at_max by exact Em. rewrite rep_fin_ok; [cbn; auto|].
        destruct mx as [m|]; [|discriminate]. unfold at_max in Em. apply Nat.eqb_eq in Em.
        specialize (Hmm m eq_refl). lia.
      * apply IHk; auto.
    + replace (negb (always e) && negb (status s1)) with true by (rewrite H1, H2; auto).
      destruct (Nat.leb_spec (mnv mn) (length acc)) as [Hle|Hgt].
      * rewrite rep_fin_ok by exact Hle.
        assert (E : (mnv mn <=? length acc) = true) by (apply Nat.leb_le; auto). unfold mnv in E. rewrite E.
        cbn. repeat split; auto. destruct (part e) eqn:Ep; cbn; auto.
      * assert (E : (mnv mn <=? length acc) = false) by (apply Nat.leb_gt; auto). unfold mnv in E. rewrite E.
        destruct (rep_fin_fail mn (if part e then mk (status s1) (result s1) (pos s) else s1) acc) as (A & B); [lia|].
        rewrite A. split; auto. destruct (part e); cbn; auto.
Qed.

(* ---------- Skip ---------- *)
(* the property's well-formedness: an item that is not an always-succeeding
   form never matches without consuming *)
Definition skip_items_ok (es : list expr) :=
  forall e, In e es -> always e = false -> forall p v q, pg e p = Some (Some (v, q)) -> q <> p.

Lemma skip_pass_ok : forall es cp s, Forall W es -> pos s = cp -> skip_items_ok es ->
  match skip_first pg es cp, skip_pass true ex cp es s with
  | None, None => True
  | Some None, Some (false, s') => pos s' = cp
  | Some (Some q), Some (true, s') => pos s' = q
  | _, _ => False end.
Proof.
  induction es as [|e es IHes]; intros cp s HF Hp Hok; cbn [skip_first skip_pass]; auto.
  assert (Hok' : skip_items_ok es) by (intros e0 Hin; apply Hok; right; exact Hin).
  inversion HF as [|? ? HWe HWes]; subst. cases e s HWe; auto.
  - subst v p'. destruct (always e) eqn:Ea.
    + destruct (Nat.eqb_spec (pos s1) (pos s)) as [E|E]; cbn [negb].
      * apply IHes; auto.
      * reflexivity.
    + rewrite H1. destruct (Nat.eqb_spec (pos s1) (pos s)) as [E|E]; [|reflexivity].
      exfalso. eapply (Hok e (or_introl eq_refl) Ea); eauto.
  - rewrite H2, H1. apply IHes; auto. destruct (part e) eqn:Ep; cbn; auto.
Qed.

Lemma skip_ok : forall k es s, Forall W es -> skip_items_ok es ->
  match skip_spec pg k es (pos s), skip_loop true ex k es s with
  | None, OutOfFuel => True
  | Some (Some (v, p')), Done s' => status s' = true /\ result s' = v /\ pos s' = p'
  | _, _ => False end.
Proof.
  induction k as [|k IHk]; intros es s HF Hok; cbn [skip_spec skip_loop]; auto.
  pose proof (skip_pass_ok es (pos s) s HF eq_refl Hok) as H.
  destruct (skip_first pg es (pos s)) as [[q|]|], (skip_pass true ex (pos s) es s) as [[[|] s1]|]; try contradiction; auto.
  all: try (subst q; apply IHk; auto).
  all: try (cbn; rewrite H; auto).
Qed.

(* ---------- Longest ---------- *)
Lemma longest_ok : forall es ne bt (P : bool) first s has fr fpos er epos best, Forall W es ->
  (first = true -> pos s = bt) ->
  ((has = false /\ best = None) \/ (has = true /\ best = Some (fr, fpos))) ->
  (ne = false -> existsb always es = true \/ has = true) ->
  (existsb part es = true -> P = true) ->
  (P = false -> has = false -> epos = bt) ->
  (has = false -> first = false -> status s = false) ->
  (first = true -> es <> []) ->
  match longest_spec pg es bt best, longest_loop ex ne bt first es s has fr fpos er epos with
  | None, OutOfFuel => True
  | Some (Some (v, q)), Done s' => status s' = true /\ result s' = v /\ pos s' = q
  | Some None, Done s' => status s' = false /\ (P = false -> pos s' = bt)
  | _, _ => False end.
Proof.
  induction es as [|e es IHes]; intros ne bt P first s has fr fpos er epos best HF Hfirst Hbest Hne HP Hepos Hst Hnonempty;
    cbn [longest_spec longest_loop].
  - destruct Hbest as [[Hh Hb]|[Hh Hb]]; subst has best.
    + destruct ne.
      * cbn. destruct first; [exfalso; apply Hnonempty; auto|]. split; auto.
      * destruct (Hne eq_refl) as [H|H]; discriminate.
    + cbn. auto.
  - inversion HF as [|? ? HWe HWes]; subst.
    set (s0 := if first then s else mk (status s) (result s) bt).
    assert (Hs0 : pos s0 = bt) by (subst s0; destruct first; cbn; auto).
    assert (HPe : part e = true -> P = true) by (intros E; apply HP; cbn; rewrite E; auto).
    assert (HPes : existsb part es = true -> P = true) by (intros E; apply HP; cbn; rewrite E; apply orb_true_r).
    pose proof (IH_cases e s0 HWe) as Hc. rewrite Hs0 in Hc.
    destruct Hc as [(Hp & He)|[(v & p' & s1 & Hp & He & H1 & H2 & H3)|(s1 & Hp & He & H1 & H2 & H3)]];
      rewrite Hp, He; cbn [bind obind]; auto.
    + subst v p'. replace (always e || status s1) with true by (rewrite H1, orb_true_r; auto).
      destruct Hbest as [[Hh Hb]|[Hh Hb]]; subst has best; cbn [negb orb].
      * apply IHes; auto; try discriminate; try (intros _; right; reflexivity).
      * destruct (fpos <? pos s1) eqn:Elt.
        -- apply IHes; auto; try discriminate.
        -- apply IHes; auto; try discriminate.
    + replace (always e || status s1) with false by (rewrite H1, H2; auto).
      cbn [existsb] in Hne. rewrite H2 in Hne. cbn [orb] in Hne.
      destruct ne.
      * apply IHes; auto; try discriminate.
        all: try (intros HPf Hh; apply H3; destruct (part e) eqn:Ep; auto; specialize (HPe eq_refl); congruence).
      * apply IHes; auto; try discriminate.
Qed.

(* ---------- Sep ---------- *)
Lemma sep_finish_final ae rs acc cp saw_m saw_s s :
  (rs = true -> saw_m = saw_s) -> status s = false ->
  match sep_final ae rs (acc, cp, saw_s) with
  | Some (v, q) => status (sep_finish ae rs acc cp saw_m s) = true /\ result (sep_finish ae rs acc cp saw_m s) = v
                   /\ pos (sep_finish ae rs acc cp saw_m s) = q
  | None => status (sep_finish ae rs acc cp saw_m s) = false
  end.
Proof.
  intros Hsaw Hs. unfold sep_final, sep_finish.
  destruct ae, rs; cbn [andb]; try (rewrite (Hsaw eq_refl)).
  - destruct (negb match acc with [] => false | _ :: _ => true end || saw_s); cbn; auto.
  - cbn; auto.
  - destruct saw_s; cbn; auto.
  - destruct acc; cbn; auto.
Qed.

Lemma sep_ok : forall k e sp discard trailer ae rs s acc cp saw_m saw_s, W e -> W sp ->
  (rs = true -> saw_m = saw_s) ->
  match sep_spec pg k e sp (negb discard) trailer (pos s) acc cp saw_s,
        sep_loop ex k e sp discard trailer ae rs s acc cp saw_m with
  | None, OutOfFuel => True
  | Some r, Done s' => match sep_final ae rs r with
                       | Some (v, q) => status s' = true /\ result s' = v /\ pos s' = q
                       | None => status s' = false
                       end
  | _, _ => False end.
Proof.
  induction k as [|k IHk]; intros e sp discard trailer ae rs s acc cp saw_m saw_s HWe HWsp Hsaw;
    cbn [sep_spec sep_loop]; auto.
  cases e s HWe; auto.
  - subst v p'.
    replace (negb (always e) && negb (status s1)) with false by (rewrite H1, andb_false_r; auto).
    cases sp s1 HWsp; auto.
    + subst v p'.
      replace (negb (always sp) && negb (status s0)) with false by (rewrite H0, andb_false_r; auto).
      replace (if discard then result s1 :: acc else result s0 :: result s1 :: acc)
        with (if negb discard then result s0 :: result s1 :: acc else result s1 :: acc) by (destruct discard; auto).
      apply IHk; auto. intros Hr. rewrite Hr. auto.
    + replace (negb (always sp) && negb (status s0)) with true by (rewrite H0, H2; auto).
      apply sep_finish_final; auto.
  - replace (negb (always e) && negb (status s1)) with true by (rewrite H1, H2; auto).
    replace (if negb discard && negb trailer then tl acc else acc)
      with (if negb discard && negb trailer then tl acc else acc) by auto.
    apply sep_finish_final; auto.
Qed.

Lemma longest_spec_some : forall es p b, longest_spec pg es p (Some b) <> Some None.
Proof.
  induction es as [|e es IHes]; intros p [bv bq]; cbn [longest_spec]; [discriminate|].
  destruct (pg e p) as [[[v q]|]|]; cbn [obind]; [|apply IHes|discriminate].
  destruct (bq <? q); apply IHes.
Qed.

Lemma longest_fail_all : forall es p,
  longest_spec pg es p None = Some None -> Forall (fun e => pg e p = Some None) es.
Proof.
  induction es as [|e es IHes]; intros p H; [constructor|].
  cbn [longest_spec] in H. destruct (pg e p) as [[[v q]|]|] eqn:E; cbn [obind] in H.
  - exfalso. eapply longest_spec_some; eauto.
  - constructor; auto.
  - discriminate.
Qed.

Lemma fail_not_always e s : W e -> pg e (pos s) = Some None -> always e = false.
Proof.
  intros HW Hp. pose proof (IH e s HW) as H. unfold agree in H. rewrite Hp in H.
  destruct (ex e s); [tauto|contradiction].
Qed.
End Gen.

(* ------------------------------------------------------------------ *)
Section Main.
Variables (g : list expr) (ignored : option nat) (t : list nat) (rx : nat -> nat -> option nat).

Notation PEG := (peg g ignored t rx).
Notation EXEC := (exec true g ignored t rx).

Fixpoint wf (e : expr) : Prop :=
  match e with
  | Str _ _ | Rx _ _ | Byte _ _ | Ref _ | Backtrack _ | Fail => True
  | Seq es | Choice es | Longest es =>
      es <> [] /\ (fix all (l : list expr) : Prop := match l with [] => True | x :: l' => wf x /\ all l' end) es
  | Skip es =>
      (fix all (l : list expr) : Prop := match l with [] => True | x :: l' => wf x /\ all l' end) es
      /\ forall n, skip_items_ok (PEG n) es
  | Discard a b _ => wf a /\ wf b
  | Opt e | Expect e | ExpectNot e => wf e
  | Rep e mn mx => wf e /\ (forall m, mx = Some m -> mnv mn <= m)
  | Sep e s _ _ _ _ => wf e /\ wf s
  end.

Lemma all_Forall es :
  (fix all (l : list expr) : Prop := match l with [] => True | x :: l' => wf x /\ all l' end) es -> Forall wf es.
Proof. induction es as [|x es IH]; intros H; constructor; destruct H; auto. Qed.

Hypothesis Hg : forall r b, nth_error g r = Some b -> wf b.
Hypothesis Hign : forall r, ignored = Some r -> exists es, nth_error g r = Some (Skip es).

(* the rule call to _ignored after a literal (utils.skip_ignored) *)
Lemma after_ok_gen n (IHn : forall e s, wf e -> agree e (pos s) (PEG n e (pos s)) (EXEC n e s)) :
  forall (ig : option nat), ig = ignored ->
  forall (sk : bool) (q : nat) (v : value) e0 p0,
  agree e0 p0
    (if sk then
       match ig with
       | Some r => match nth_error g r with
                   | Some b => obind (PEG n b q) (fun r0 : res => match r0 with
                                 | Some (_, q') => Some (Some (v, q'))
                                 | None => Some (Some (v, q)) end)
                   | None => Some (Some (v, q)) end
       | None => Some (Some (v, q)) end
     else Some (Some (v, q)))
    (if sk then
       match ig with
       | Some r => bind match nth_error g r with
                        | Some b => EXEC n b (fresh q)
                        | None => Done (mk false (VErr 999) q) end
                        (fun s1 : st => Done (mk true v (pos s1)))
       | None => Done (mk true v q) end
     else Done (mk true v q)).
Proof.
  intros ig Hig sk q v e0 p0. destruct sk; [|cbn; auto].
  destruct ig as [r|]; [|cbn; auto].
  destruct (Hign r (eq_sym Hig)) as (es & Hes). rewrite Hes.
  pose proof (IHn (Skip es) (fresh q) (Hg r _ Hes)) as H. unfold agree in H. cbn [pos fresh] in H.
  destruct (PEG n (Skip es) q) as [[[v' q']|]|], (EXEC n (Skip es) (fresh q)) as [s1|]; try contradiction; cbn.
  - destruct H as (A & B & C). auto.
  - destruct H as (_ & A & _). discriminate.
  - exact I.
Qed.
Definition after_ok n IHn := after_ok_gen n IHn ignored eq_refl.

Theorem exec_refines_peg : forall n e s, wf e -> agree e (pos s) (PEG n e (pos s)) (EXEC n e s).
Proof.
  induction n as [|n IHn]; intros e s Hwf; [exact I|].
  destruct e as [v sk|id sk|b sk|r|es|a b dl|es|e|e mn mx|e|e|es|es|k| |e sp discard trailer ae rs]; cbn [peg exec].
  - (* Str *) destruct v as [|c v]; [cbn; auto|].
    destruct (prefix_at (c :: v) t (pos s)); [apply after_ok; exact IHn | cbn; auto].
  - (* Rx *) destruct (rx id (pos s)); [apply after_ok; exact IHn | cbn; auto].
  - (* Byte *) destruct (nth_error t (pos s)) as [c|]; [|cbn; auto].
    destruct (Nat.eqb c b); [apply after_ok; exact IHn | cbn; auto].
  - (* Ref *) destruct (nth_error g r) as [bd|] eqn:Er; [|cbn; auto].
    pose proof (IHn bd (fresh (pos s)) (Hg r bd Er)) as H. unfold agree in *. cbn [pos fresh] in H.
    destruct (PEG n bd (pos s)) as [[[v p']|]|], (EXEC n bd (fresh (pos s))); auto.
    destruct H as (A & _ & _). repeat split; auto. intros; discriminate.
  - (* Seq *) cbn [wf] in Hwf. destruct Hwf as (Hne & Hall). apply all_Forall in Hall.
    pose proof (seq_ok (PEG n) (EXEC n) wf IHn es s [] Hall) as H. unfold agree.
    destruct (seq_spec (PEG n) es (pos s) []) as [[[v p']|]|], (seq_loop (EXEC n) es s []); auto.
    + destruct H as (A & B & C). repeat split; auto.
    + repeat split; auto. cbn. discriminate.
  - (* Discard *) cbn [wf] in Hwf. destruct Hwf as (Hwa & Hwb). unfold agree. cbn [always partial].
    destruct (IH_cases (PEG n) (EXEC n) wf IHn a s Hwa) as [(Hp & He)|[(v & p' & s1 & Hp & He & H1 & H2 & H3)|(s1 & Hp & He & H1 & H2 & H3)]];
      rewrite Hp, He; cbn [bind obind]; auto.
    + replace (always a || status s1) with true by (rewrite H1, orb_true_r; auto). subst v p'.
      destruct (IH_cases (PEG n) (EXEC n) wf IHn b s1 Hwb) as [(Hq & Hf)|[(v2 & p2 & s2 & Hq & Hf & J1 & J2 & J3)|(s2 & Hq & Hf & J1 & J2 & J3)]];
        rewrite Hq; cbn [bind obind].
      * destruct dl; rewrite Hf; cbn; auto.
      * destruct dl; rewrite Hf; cbn [bind].
        -- subst. auto.
        -- replace (always b || status s2) with true by (rewrite J1, orb_true_r; auto). cbn. subst. auto.
      * destruct dl; rewrite Hf; cbn [bind].
        -- repeat split; auto. rewrite J2, andb_false_r. auto. rewrite J2, andb_false_r. cbn. discriminate.
        -- replace (always b || status s2) with false by (rewrite J1, J2; auto).
           repeat split; auto. rewrite J2, andb_false_r. auto. rewrite J2, andb_false_r. cbn. discriminate.
    + replace (always a || status s1) with false by (rewrite H1, H2; auto).
      repeat split; auto. rewrite H2. auto. rewrite H2. cbn. discriminate.
  - (* Choice *) cbn [wf] in Hwf. destruct Hwf as (Hne & Hall). apply all_Forall in Hall.
    pose proof (choice_ok (PEG n) (EXEC n) wf IHn es (negb (existsb always es)) (pos s)
                          (existsb part es) s (pos s) (VErr 4) Hall eq_refl) as H.
    unfold agree.
    match type of H with (?A -> ?B -> ?C -> _) => assert (HA : A); [|assert (HB : B); [|assert (HC : C)]] end.
    { destruct (existsb always es); cbn; auto; try discriminate. }
    { auto. } { auto. }
    specialize (H HA HB HC).
    destruct (choice_spec (PEG n) es (pos s)) as [[[v p']|]|], (choice_loop true (EXEC n) _ _ es s _ _); auto.
    destruct H as (A & B & C); [left; exact Hne|].
    cbn [always partial]. rewrite B. cbn [negb andb]. repeat split; auto.
  - (* Opt *) cbn [wf] in Hwf. unfold agree.
    destruct (IH_cases (PEG n) (EXEC n) wf IHn e s Hwf) as [(Hp & He)|[(v & p' & s1 & Hp & He & H1 & H2 & H3)|(s1 & Hp & He & H1 & H2 & H3)]];
      rewrite Hp, He; cbn [bind obind]; auto.
    + rewrite H1, orb_true_r. auto.
    + rewrite H1, H2. cbn. auto.
  - (* Rep *) cbn [wf] in Hwf. destruct Hwf as (Hwe & Hmm).
    destruct mx as [[|m]|].
    + destruct n; cbn; auto.
    + pose proof (rep_ok (PEG n) (EXEC n) wf IHn n e mn (Some (S m)) s [] Hwe Hmm eq_refl) as H. unfold agree.
      destruct (rep_spec (PEG n) n e mn (Some (S m)) (pos s) []) as [[[v p']|]|], (rep_loop true (EXEC n) n e mn _ s []); auto.
      destruct H as (A & B). cbn [always partial]. rewrite B. repeat split; auto. cbn. discriminate.
    + pose proof (rep_ok (PEG n) (EXEC n) wf IHn n e mn None s [] Hwe Hmm eq_refl) as H. unfold agree.
      destruct (rep_spec (PEG n) n e mn None (pos s) []) as [[[v p']|]|], (rep_loop true (EXEC n) n e mn _ s []); auto.
      destruct H as (A & B). cbn [always partial]. rewrite B. repeat split; auto. cbn. discriminate.
  - (* Expect *) cbn [wf] in Hwf. unfold agree. cbn [always partial].
    destruct (IH_cases (PEG n) (EXEC n) wf IHn e s Hwf) as [(Hp & He)|[(v & p' & s1 & Hp & He & H1 & H2 & H3)|(s1 & Hp & He & H1 & H2 & H3)]];
      rewrite Hp, He; cbn [bind obind]; auto.
    + rewrite H1, orb_true_r. cbn. auto.
    + rewrite H1, H2. cbn. auto.
  - (* ExpectNot *) cbn [wf] in Hwf. unfold agree. cbn [always partial].
    destruct (IH_cases (PEG n) (EXEC n) wf IHn e s Hwf) as [(Hp & He)|[(v & p' & s1 & Hp & He & H1 & H2 & H3)|(s1 & Hp & He & H1 & H2 & H3)]];
      rewrite Hp, He; cbn [bind obind]; auto.
    + rewrite H1. cbn. repeat split; auto; discriminate.
    + rewrite H1. cbn. auto.
  - (* Skip *) cbn [wf] in Hwf. destruct Hwf as (Hall & Hnn). apply all_Forall in Hall.
    pose proof (skip_ok (PEG n) (EXEC n) wf IHn n es s Hall (Hnn n)) as H. unfold agree.
    destruct (skip_spec (PEG n) n es (pos s)) as [[[v p']|]|], (skip_loop true (EXEC n) n es s); auto; try contradiction.
  - (* Longest *) cbn [wf] in Hwf. destruct Hwf as (Hne & Hall). apply all_Forall in Hall.
    destruct es as [|e1 [|e2 es]]; [congruence| |].
    + (* single option: compiled as the option itself *)
      inversion Hall as [|? ? Hw1 _]; subst. cbn [longest_spec].
      unfold agree. cbn [always partial existsb]. rewrite !orb_false_r.
      destruct (IH_cases (PEG n) (EXEC n) wf IHn e1 s Hw1) as [(Hp & He)|[(v & p' & s1 & Hp & He & H1 & H2 & H3)|(s1 & Hp & He & H1 & H2 & H3)]];
        rewrite Hp, He; cbn [bind obind]; auto.
      repeat split; auto. intros Hpar. apply H3.
      rewrite H2 in Hpar. cbn in Hpar. exact Hpar.
    + pose proof (longest_ok (PEG n) (EXEC n) wf IHn (e1 :: e2 :: es) (negb (existsb always (e1 :: e2 :: es))) (pos s)
                             (existsb part (e1 :: e2 :: es)) true s false VNone (pos s) (VErr 6) (pos s) None Hall) as H.
      unfold agree.
      match type of H with (?A -> ?B -> ?C -> ?D -> ?E -> ?F -> ?G -> _) =>
        assert (HA : A) by auto; assert (HB : B) by auto; assert (HC : C);
        [|assert (HD : D) by auto; assert (HE : E) by auto; assert (HF : F) by (intros; discriminate);
          assert (HG : G) by (intros; discriminate)] end.
      { intros Hx. left. destruct (existsb always (e1 :: e2 :: es)); auto; discriminate. }
      specialize (H HA HB HC HD HE HF HG).
      destruct (longest_spec (PEG n) (e1 :: e2 :: es) (pos s) None) as [[[v p']|]|] eqn:EL, (longest_loop (EXEC n) _ _ _ _ s _ _ _ _ _); auto.
      destruct H as (A & B).
      assert (Hal : existsb always (e1 :: e2 :: es) = false).
      { pose proof (longest_fail_all (PEG n) (e1 :: e2 :: es) (pos s) EL) as Hf.
        clear - Hf Hall IHn. induction Hf as [|x l Hx Hl IHl]; [reflexivity|].
        inversion Hall as [|? ? Hwx Hwl]; subst. cbn [existsb].
        rewrite (fail_not_always (PEG n) (EXEC n) wf IHn x s Hwx Hx). cbn. apply IHl; auto. }
      cbn [always partial]. rewrite Hal. cbn [negb andb]. repeat split; auto.
  - (* Backtrack *) unfold agree. destruct (k <=? pos s); cbn; auto.
  - (* Fail *) cbn. auto.
  - (* Sep *) cbn [wf] in Hwf. destruct Hwf as (Hwe & Hws).
    pose proof (sep_ok (PEG n) (EXEC n) wf IHn n e sp discard trailer ae rs s [] (pos s) false false Hwe Hws (fun _ => eq_refl)) as H.
    unfold agree.
    destruct (sep_spec (PEG n) n e sp (negb discard) trailer (pos s) [] (pos s) false) as [r|],
             (sep_loop (EXEC n) n e sp discard trailer ae rs s [] (pos s) false) as [s'|]; auto; try contradiction.
    destruct (sep_final ae rs r) as [[v q]|] eqn:Ef; auto.
    cbn [always partial].
    assert (Hal : ae && negb rs = false).
    { destruct r as [[acc cp] saw]. unfold sep_final in Ef. destruct ae, rs; cbn in *; auto; discriminate. }
    rewrite Hal. repeat split; auto. cbn. discriminate.
Qed.
End Main.
Check exec_refines_peg.
Print Assumptions exec_refines_peg.

(* ---- the shipped flag is refuted by a witness; the repaired one passes it ---- *)
Definition g_d1 : list expr := [Choice [Rep (Str [97] false) (Some 2) (Some 2); Str [97; 98] false]].
Definition rx0 (_ _ : nat) : option nat := None.
Example D1_spec    : spec_rule g_d1 None [97; 98] rx0 20 0 0 = Some (true, Some (VStr [97; 98]), 2).
Proof. vm_compute. reflexivity. Qed.
Example D1_shipped_refuted : run_rule false g_d1 None [97; 98] rx0 20 0 0 = Some (false, None, 0).
Proof. vm_compute. reflexivity. Qed.
Example D1_repaired : run_rule true g_d1 None [97; 98] rx0 20 0 0 = Some (true, Some (VStr [97; 98]), 2).
Proof. vm_compute. reflexivity. Qed.

(* non-vacuity: the hypotheses of exec_refines_peg hold for this grammar *)
Example D1_wf : forall r b, nth_error g_d1 r = Some b -> wf g_d1 None [97; 98] rx0 b.
Proof.
  intros [|[|r]] b H; cbn in H; try discriminate. inversion H; subst. cbn.
  repeat split; auto; try discriminate. intros m Hm. inversion Hm; subst. cbn. lia.
Qed.
