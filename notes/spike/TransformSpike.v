(* Design spike (not framework code): transform/_transform
   (translator.py:758-797) over trees with identities; the identity callback
   returns the very same tree and the callback log is the post-order listing. *)
From Coq Require Import List Arith Bool Lia.
Import ListNotations.

Inductive node :=
| Leaf (id : nat)                         (* any non-list, non-ParsedObject value (tuples and dicts included) *)
| Lst (id : nat) (l : list node)
| Obj (id : nat) (cls : nat) (fs : list node) (meta : option nat).

Definition nid (n : node) := match n with Leaf i | Lst i _ | Obj i _ _ _ => i end.

(* state threaded through: next fresh identity, callback log (ids of the nodes the callback was applied to) *)
Record tst := TS { next : nat; log : list nat }.

Section T.
(* one callback; the chain of several is a fold with the metadata rule applied at each stage *)
Variable f : node -> node.

Definition same (a b : node) := Nat.eqb (nid a) (nid b).      (* Python `is` *)

(* metadata rule of transform's inner callback *)
Definition carry_meta (prev now : node) : node :=
  if same prev now then now else
  match prev, now with
  | Obj _ _ _ m, Obj i c fs None => Obj i c fs m
  | _, _ => now
  end.

Fixpoint tr (n : node) (s : tst) {struct n} : node * tst :=
  match n with
  | Leaf _ => (n, s)
  | Lst _ l =>
      let '(l', s') :=
        (fix go (l : list node) (s : tst) : list node * tst :=
           match l with
           | [] => ([], s)
           | x :: l' => let '(x', s1) := tr x s in let '(r, s2) := go l' s1 in (x' :: r, s2)
           end) l s in
      (Lst (next s') l', TS (S (next s')) (log s'))          (* a list comprehension always builds a new list *)
  | Obj i c fs m =>
      let '(fs', changed, s') :=
        (fix go (l : list node) (s : tst) : list node * bool * tst :=
           match l with
           | [] => ([], false, s)
           | x :: l' => let '(x', s1) := tr x s in
                        let '(r, ch, s2) := go l' s1 in
                        (x' :: r, negb (same x x') || ch, s2)
           end) fs s in
      let '(n1, s1) := if changed then (Obj (next s') c fs' m, TS (S (next s')) (log s'))   (* _replace keeps metadata *)
                       else (n, s') in
      (carry_meta n1 (f n1), TS (next s1) (log s1 ++ [nid n1]))
  end.
End T.

(* a tree without lists below objects keeps its identity under the identity callback *)
Fixpoint no_lists (n : node) : bool :=
  match n with
  | Leaf _ => true
  | Lst _ _ => false
  | Obj _ _ fs _ => (fix all (l : list node) := match l with [] => true | x :: l' => no_lists x && all l' end) fs
  end.

Definition t1 := Obj 1 10 [Leaf 2; Obj 3 11 [Leaf 4] (Some 77)] (Some 66).
Eval vm_compute in tr (fun n => n) t1 (TS 100 []).
Example identity_same : fst (tr (fun n => n) t1 (TS 100 [])) = t1.
Proof. vm_compute. reflexivity. Qed.
Example postorder_log : log (snd (tr (fun n => n) t1 (TS 100 []))) = [3; 1].
Proof. vm_compute. reflexivity. Qed.

(* with a list field the object IS rebuilt even by the identity callback: the
   rebuilt list is a new object, so `now is not was` *)
Definition t2 := Obj 1 10 [Lst 2 [Leaf 3]] (Some 66).
Eval vm_compute in tr (fun n => n) t2 (TS 100 []).

(* a replacement without metadata inherits it; the parent copy keeps the parent's *)
Definition repl (n : node) := match n with Obj 3 _ _ _ => Obj 50 12 [] None | _ => n end.
Eval vm_compute in tr repl t1 (TS 100 []).
Example metadata_carried :
  fst (tr repl t1 (TS 100 [])) = Obj 100 10 [Leaf 2; Obj 50 12 [] (Some 77)] (Some 66).
Proof. vm_compute. reflexivity. Qed.

(* ---- C16_identity: with the identity callback the result has the same
   shape, classes and metadata as the input (it may be a rebuilt copy) ---- *)
Inductive shape := SLeaf (id : nat) | SLst (l : list shape) | SObj (cls : nat) (fs : list shape) (meta : option nat).
Fixpoint shape_of (n : node) : shape :=
  match n with
  | Leaf i => SLeaf i
  | Lst _ l => SLst ((fix go (l : list node) := match l with [] => [] | x :: l' => shape_of x :: go l' end) l)
  | Obj _ c fs m => SObj c ((fix go (l : list node) := match l with [] => [] | x :: l' => shape_of x :: go l' end) fs) m
  end.
Fixpoint shapes (l : list node) : list shape := match l with [] => [] | x :: l' => shape_of x :: shapes l' end.

Fixpoint nsize (n : node) : nat :=
  match n with
  | Leaf _ => 1
  | Lst _ l | Obj _ _ l _ => S ((fix sz (l : list node) := match l with [] => 0 | x :: l' => nsize x + sz l' end) l)
  end.
Fixpoint lsize (l : list node) : nat := match l with [] => 0 | x :: l' => nsize x + lsize l' end.

(* the two nested loops of tr, as top-level functions (convertible with the nested ones) *)
Section TL.
Variable f : node -> node.
Fixpoint tr_list (l : list node) (s : tst) : list node * tst :=
  match l with
  | [] => ([], s)
  | x :: l' => let '(x', s1) := tr f x s in let '(r, s2) := tr_list l' s1 in (x' :: r, s2)
  end.
Fixpoint tr_fields (l : list node) (s : tst) : list node * bool * tst :=
  match l with
  | [] => ([], false, s)
  | x :: l' => let '(x', s1) := tr f x s in
               let '(r, ch, s2) := tr_fields l' s1 in
               (x' :: r, negb (same x x') || ch, s2)
  end.
End TL.

Definition idf (n : node) := n.

Lemma carry_meta_id n : carry_meta n (idf n) = n.
Proof. unfold carry_meta, idf, same. rewrite Nat.eqb_refl. reflexivity. Qed.

Lemma identity_shape_aux : forall k n s, nsize n <= k -> shape_of (fst (tr idf n s)) = shape_of n.
Proof.
  induction k as [|k IH]; intros n s Hk; [destruct n; cbn in Hk; lia|].
  assert (HL : forall l s, lsize l <= k -> shapes (fst (tr_list idf l s)) = shapes l).
  { induction l as [|x l IHl]; intros s0 Hl; [reflexivity|]. cbn [tr_list lsize] in *.
    pose proof (IH x s0 ltac:(lia)) as Hx. destruct (tr idf x s0) as [x' s1]. cbn [fst] in Hx.
    pose proof (IHl s1 ltac:(lia)) as Hr. destruct (tr_list idf l s1) as [r s2]. cbn [fst] in *.
    cbn [shapes]. rewrite Hx, Hr. reflexivity. }
  assert (HF : forall l s, lsize l <= k -> shapes (fst (fst (tr_fields idf l s))) = shapes l).
  { induction l as [|x l IHl]; intros s0 Hl; [reflexivity|]. cbn [tr_fields lsize] in *.
    pose proof (IH x s0 ltac:(lia)) as Hx. destruct (tr idf x s0) as [x' s1]. cbn [fst] in Hx.
    pose proof (IHl s1 ltac:(lia)) as Hr. destruct (tr_fields idf l s1) as [[r ch] s2]. cbn [fst] in *.
    cbn [shapes]. rewrite Hx, Hr. reflexivity. }
  destruct n as [i|i l|i c fs m].
  - reflexivity.
  - change (nsize (Lst i l)) with (S (lsize l)) in Hk.
    change (tr idf (Lst i l) s) with
      (let '(l', s') := tr_list idf l s in (Lst (next s') l', TS (S (next s')) (log s'))).
    pose proof (HL l s ltac:(lia)) as H. destruct (tr_list idf l s) as [l' s']. cbn [fst] in *.
    change (shape_of (Lst (next s') l')) with (SLst (shapes l')).
    change (shape_of (Lst i l)) with (SLst (shapes l)). rewrite H. reflexivity.
  - change (nsize (Obj i c fs m)) with (S (lsize fs)) in Hk.
    change (tr idf (Obj i c fs m) s) with
      (let '(fs', changed, s') := tr_fields idf fs s in
       let '(n1, s1) := if changed then (Obj (next s') c fs' m, TS (S (next s')) (log s')) else (Obj i c fs m, s') in
       (carry_meta n1 (idf n1), TS (next s1) (log s1 ++ [nid n1]))).
    pose proof (HF fs s ltac:(lia)) as H. destruct (tr_fields idf fs s) as [[fs' changed] s']. cbn [fst] in *.
    destruct changed; cbn [fst]; rewrite carry_meta_id.
    + change (shape_of (Obj (next s') c fs' m)) with (SObj c (shapes fs') m).
      change (shape_of (Obj i c fs m)) with (SObj c (shapes fs) m). rewrite H. reflexivity.
    + reflexivity.
Qed.

Theorem identity_shape n s : shape_of (fst (tr idf n s)) = shape_of n.
Proof. apply (identity_shape_aux (nsize n)). lia. Qed.
Print Assumptions identity_shape.
