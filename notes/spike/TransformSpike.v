(* Design spike (not framework code): transform/_transform
   (translator.py:758-797) over trees with identities; the identity callback
   returns the very same tree and the callback log is the post-order listing. *)
From Coq Require Import List Arith Bool Lia.
Import ListNotations.

Inductive node :=
| Leaf (id : nat)                         (* any non-list, non-ParsedObject value (tuples and dicts included) *)
| Lst (id : nat) (l : list node)
| Obj (id : nat) (cls : nat) (fs : list node) (meta : option nat).

Definition nid (n : node) := match n with Leaf i | Lst i _ | Obj i _ _ _ => i end.

(* state threaded through: next fresh identity, callback log (ids of the nodes the callback was applied to) *)
Record tst := TS { next : nat; log : list nat }.

Section T.
(* one callback; the chain of several is a fold with the metadata rule applied at each stage *)
Variable f : node -> node.

Definition same (a b : node) := Nat.eqb (nid a) (nid b).      (* Python `is` *)

(* metadata rule of transform's inner callback *)
Definition carry_meta (prev now : node) : node :=
  if same prev now then now else
  match prev, now with
  | Obj _ _ _ m, Obj i c fs None => Obj i c fs m
  | _, _ => now
  end.

Fixpoint tr (n : node) (s : tst) {struct n} : node * tst :=
  match n with
  | Leaf _ => (n, s)
  | Lst _ l =>
      let '(l', s') :=
        (fix go (l : list node) (s : tst) : list node * tst :=
           match l with
           | [] => ([], s)
           | x :: l' => let '(x', s1) := tr x s in let '(r, s2) := go l' s1 in (x' :: r, s2)
           end) l s in
      (Lst (next s') l', TS (S (next s')) (log s'))          (* a list comprehension always builds a new list *)
  | Obj i c fs m =>
      let '(fs', changed, s') :=
        (fix go (l : list node) (s : tst) : list node * bool * tst :=
           match l with
           | [] => ([], false, s)
           | x :: l' => let '(x', s1) := tr x s in
                        let '(r, ch, s2) := go l' s1 in
                        (x' :: r, negb (same x x') || ch, s2)
           end) fs s in
      let '(n1, s1) := if changed then (Obj (next s') c fs' m, TS (S (next s')) (log s'))   (* _replace keeps metadata *)
                       else (n, s') in
      (carry_meta n1 (f n1), TS (next s1) (log s1 ++ [nid n1]))
  end.
End T.

(* a tree without lists below objects keeps its identity under the identity callback *)
Fixpoint no_lists (n : node) : bool :=
  match n with
  | Leaf _ => true
  | Lst _ _ => false
  | Obj _ _ fs _ => (fix all (l : list node) := match l with [] => true | x :: l' => no_lists x && all l' end) fs
  end.

Definition t1 := Obj 1 10 [Leaf 2; Obj 3 11 [Leaf 4] (Some 77)] (Some 66).
Eval vm_compute in tr (fun n => n) t1 (TS 100 []).
Example identity_same : fst (tr (fun n => n) t1 (TS 100 [])) = t1.
Proof. vm_compute. reflexivity. Qed.
Example postorder_log : log (snd (tr (fun n => n) t1 (TS 100 []))) = [3; 1].
Proof. vm_compute. reflexivity. Qed.

(* with a list field the object IS rebuilt even by the identity callback: the
   rebuilt list is a new object, so `now is not was` *)
Definition t2 := Obj 1 10 [Lst 2 [Leaf 3]] (Some 66).
Eval vm_compute in tr (fun n => n) t2 (TS 100 []).

(* a replacement without metadata inherits it; the parent copy keeps the parent's *)
Definition repl (n : node) := match n with Obj 3 _ _ _ => Obj 50 12 [] None | _ => n end.
Eval vm_compute in tr repl t1 (TS 100 []).
Example metadata_carried :
  fst (tr repl t1 (TS 100 [])) = Obj 100 10 [Leaf 2; Obj 50 12 [] (Some 77)] (Some 66).
Proof. vm_compute. reflexivity. Qed.
