(* Design spike (not framework code): draft PEG specification for the
   constructs of ExecDraft.v, written from the documented meaning only (no
   flags, no registers).  Used by a scratch script as the oracle for the
   "search for a failing input" step. *)
From Coq Require Import List Arith Bool Lia.
Import ListNotations.
Require Import ExecDraft.

Definition res := option (value * nat).           (* None = no match *)

Section Spec.
Variable g : list expr.
Variable ignored : option nat.
Variable t : list nat.
Variable rx : nat -> nat -> option nat.

Definition obind (o : option res) (k : res -> option res) : option res :=
  match o with None => None | Some r => k r end.

Section L.
Variable pg : expr -> nat -> option res.

Fixpoint seq_spec (es : list expr) (p : nat) (acc : list value) : option res :=
  match es with
  | [] => Some (Some (VList (rev acc), p))
  | e :: es' => obind (pg e p) (fun r => match r with
                  | None => Some None
                  | Some (v, p') => seq_spec es' p' (v :: acc) end)
  end.
Fixpoint choice_spec (es : list expr) (p : nat) : option res :=
  match es with
  | [] => Some None
  | e :: es' => obind (pg e p) (fun r => match r with None => choice_spec es' p | Some _ => Some r end)
  end.
Fixpoint rep_spec (k : nat) (e : expr) (mn mx : option nat) (p : nat) (acc : list value) : option res :=
  if at_max mx (length acc) then Some (Some (VList (rev acc), p)) else
  match k with
  | 0 => None
  | S k => obind (pg e p) (fun r => match r with
             | None => Some (if Nat.leb (match mn with Some m => m | None => 0 end) (length acc)
                             then Some (VList (rev acc), p) else None)
             | Some (v, p') => rep_spec k e mn mx p' (v :: acc) end)
  end.
(* first item that matches with progress *)
Fixpoint skip_first (es : list expr) (p : nat) : option (option nat) :=
  match es with
  | [] => Some None
  | e :: es' => match pg e p with
                | None => None
                | Some (Some (_, q)) => if Nat.eqb q p then skip_first es' p else Some (Some q)
                | Some None => skip_first es' p
                end
  end.
Fixpoint skip_spec (k : nat) (es : list expr) (p : nat) : option res :=
  match k with
  | 0 => None
  | S k => match skip_first es p with
           | None => None
           | Some None => Some (Some (VNone, p))
           | Some (Some q) => skip_spec k es q
           end
  end.
Fixpoint longest_spec (es : list expr) (p : nat) (best : res) : option res :=
  match es with
  | [] => Some best
  | e :: es' => obind (pg e p) (fun r => match r, best with
                  | None, _ => longest_spec es' p best
                  | Some (v, q), None => longest_spec es' p (Some (v, q))
                  | Some (v, q), Some (_, bq) => if Nat.ltb bq q then longest_spec es' p (Some (v, q))
                                                 else longest_spec es' p best end)
  end.
(* one iteration = an element, then a separator; acc = values so far (reversed),
   cp = where the list ends if it stops now, saw = a separator has been matched *)
Fixpoint sep_spec (k : nat) (e sp : expr) (keep trailer : bool) (p : nat)
         (acc : list value) (cp : nat) (saw : bool) : option (list value * nat * bool) :=
  match k with
  | 0 => None
  | S k =>
    match pg e p with
    | None => None
    | Some None => Some (if keep && negb trailer then tl acc else acc, cp, saw)   (* drop a dangling kept separator *)
    | Some (Some (v, p1)) =>
      match pg sp p1 with
      | None => None
      | Some None => Some (v :: acc, p1, saw)
      | Some (Some (sv, p2)) =>
          sep_spec k e sp keep trailer p2 (if keep then sv :: v :: acc else v :: acc)
                   (if trailer then p2 else p1) true
      end
    end
  end.
Definition sep_final (allow_empty reqsep : bool) (r : list value * nat * bool) : res :=
  let '(acc, cp, saw) := r in
  let nonempty := match acc with [] => false | _ => true end in
  let ok := if allow_empty && reqsep then negb nonempty || saw
            else if reqsep then saw
            else if allow_empty then true
            else nonempty in
  if ok then Some (VList (rev acc), cp) else None.
End L.

Fixpoint peg (n : nat) (e : expr) (p : nat) : option res :=
  match n with
  | 0 => None
  | S n =>
    let skipw (sk : bool) (q : nat) (v : value) : option res :=
        if sk then match ignored with
                   | Some r => match nth_error g r with
                               | Some b => obind (peg n b q) (fun r => match r with
                                             | Some (_, q') => Some (Some (v, q')) | None => Some (Some (v, q)) end)
                               | None => Some (Some (v, q)) end
                   | None => Some (Some (v, q)) end
        else Some (Some (v, q)) in
    match e with
    | Str s sk => match s with
                  | [] => Some (Some (VStr [], p))
                  | _ => if prefix_at s t p then skipw sk (p + length s) (VStr s) else Some None end
    | Rx id sk => match rx id p with Some q => skipw sk q (VStr (slice t p q)) | None => Some None end
    | Byte b sk => match nth_error t p with
                   | Some c => if Nat.eqb c b then skipw sk (S p) (VInt b) else Some None
                   | None => Some None end
    | Ref r => match nth_error g r with Some b => peg n b p | None => Some None end
    | Seq es => seq_spec (peg n) es p []
    | Discard a b dl => obind (peg n a p) (fun r => match r with
                          | None => Some None
                          | Some (va, p1) => obind (peg n b p1) (fun r2 => match r2 with
                              | None => Some None
                              | Some (vb, p2) => Some (Some (if dl then vb else va, p2)) end) end)
    | Choice es => choice_spec (peg n) es p
    | Opt e => obind (peg n e p) (fun r => match r with None => Some (Some (VNone, p)) | Some _ => Some r end)
    | Rep e mn mx => rep_spec (peg n) n e mn mx p []
    | Expect e => obind (peg n e p) (fun r => match r with None => Some None | Some (v, _) => Some (Some (v, p)) end)
    | ExpectNot e => obind (peg n e p) (fun r => match r with None => Some (Some (VNone, p)) | Some _ => Some None end)
    | Skip es => skip_spec (peg n) n es p
    | Longest es => longest_spec (peg n) es p None
    | Backtrack k => Some (if Nat.leb k p then Some (VNone, p - k) else None)
    | Fail => Some None
    | Sep e sp discard trailer allow_empty reqsep =>
        match sep_spec (peg n) n e sp (negb discard) trailer p [] p false with
        | None => None
        | Some r => Some (sep_final allow_empty reqsep r)
        end
    end
  end.

Definition spec_rule (fuel : nat) (r : nat) (p : nat) : option (bool * option value * nat) :=
  match nth_error g r with
  | None => None
  | Some b => match peg fuel b p with
              | None => None
              | Some (Some (v, q)) => Some (true, Some v, q)
              | Some None => Some (false, None, 0)
              end
  end.
End Spec.
