(* Driver for the extracted model: reads one s-expression per line on stdin,
   prints one s-expression per line on stdout.  Hand-written glue (trusted):
   s-expression reader/printer and int<->nat conversion only; every judgement
   is made by extracted code. *)
open Model

type sx = A of string | L of sx list

let parse_line (s : string) : sx =
  let n = String.length s in
  let pos = ref 0 in
  let rec skip () = while !pos < n && (s.[!pos] = ' ' || s.[!pos] = '\t') do incr pos done
  and item () =
    skip ();
    if !pos >= n then failwith "eof"
    else if s.[!pos] = '(' then begin
      incr pos;
      let acc = ref [] in
      let fin = ref false in
      while not !fin do
        skip ();
        if !pos >= n then failwith "unclosed"
        else if s.[!pos] = ')' then (incr pos; fin := true)
        else acc := item () :: !acc
      done;
      L (List.rev !acc)
    end else begin
      let st = !pos in
      while !pos < n && s.[!pos] <> ' ' && s.[!pos] <> '(' && s.[!pos] <> ')' do incr pos done;
      A (String.sub s st (!pos - st))
    end in
  item ()

let rec nat_of_int (i : int) : nat = if i <= 0 then O else S (nat_of_int (i - 1))
let rec int_of_nat (n : nat) : int = match n with O -> 0 | S m -> 1 + int_of_nat m

let to_int = function A a -> int_of_string a | L _ -> failwith "int expected"
let to_nat x = nat_of_int (to_int x)
let to_list f = function L l -> List.map f l | A _ -> failwith "list expected"
let to_bool = function A "true" -> true | A "false" -> false | _ -> failwith "bool expected"

let pn n = string_of_int (int_of_nat n)
let plist f l = "(" ^ String.concat " " (List.map f l) ^ ")"
let pb b = if b then "true" else "false"

(* ---- C09 ---- *)
let c09 args = match args with
  | [pos; text] ->
    let t = to_list to_nat text and p = to_nat pos in
    let lc = match line_col t p with
      | Some ((l, c)) -> "(" ^ pn l ^ " " ^ pn c ^ ")" | None -> "indexerror" in
    let elc = match error_line_col t p with
      | Some None -> "eoi"
      | Some (Some ((l, c))) -> "(" ^ pn l ^ " " ^ pn c ^ ")"
      | None -> "indexerror" in
    let col = match line_col t p with Some ((_, c)) -> c | None -> O in
    let ex = plist pn (extract_text t p col) in
    let bw = plist pn (bytes_window t p) in
    Printf.sprintf "((lc %s) (elc %s) (ex %s) (bw %s) (sl %s) (sc %s))"
      lc elc ex bw (pn (spec_line t p)) (pn (spec_col t p))
  | _ -> failwith "c09 args"

let c09judge args = match args with
  | [pos; text; L [l; c]; msg] ->
    let t = to_list to_nat text and p = to_nat pos in
    Printf.sprintf "((linecol_ok %s) (excerpt_ok %s))"
      (pb (linecol_ok t p ((to_nat l, to_nat c))))
      (pb (excerpt_ok t p (to_list to_nat msg)))
  | _ -> failwith "c09judge args"

let dispatch = function
  | L (A "c09" :: args) -> c09 args
  | L (A "c09judge" :: args) -> c09judge args
  | _ -> failwith "unknown command"

let () =
  try
    while true do
      let line = input_line stdin in
      if String.length line > 0 then begin
        (try print_string (dispatch (parse_line line))
         with Failure m -> print_string ("(error " ^ m ^ ")")
            | Stack_overflow -> print_string "(error stack_overflow)"
            | Not_found -> print_string "(error not_found)");
        print_newline ()
      end
    done
  with End_of_file -> ()
