(* Driver for the extracted model: reads one s-expression per line on stdin,
   prints one s-expression per line on stdout.  Hand-written glue (trusted):
   s-expression reader/printer and int<->nat conversion only; every judgement
   is made by extracted code. *)
open Model

type sx = A of string | L of sx list

let parse_line (s : string) : sx =
  let n = String.length s in
  let pos = ref 0 in
  let rec skip () = while !pos < n && (s.[!pos] = ' ' || s.[!pos] = '\t') do incr pos done
  and item () =
    skip ();
    if !pos >= n then failwith "eof"
    else if s.[!pos] = '(' then begin
      incr pos;
      let acc = ref [] in
      let fin = ref false in
      while not !fin do
        skip ();
        if !pos >= n then failwith "unclosed"
        else if s.[!pos] = ')' then (incr pos; fin := true)
        else acc := item () :: !acc
      done;
      L (List.rev !acc)
    end else begin
      let st = !pos in
      while !pos < n && s.[!pos] <> ' ' && s.[!pos] <> '(' && s.[!pos] <> ')' do incr pos done;
      A (String.sub s st (!pos - st))
    end in
  item ()

let rec nat_of_int (i : int) : nat = if i <= 0 then O else S (nat_of_int (i - 1))
let rec int_of_nat (n : nat) : int = match n with O -> 0 | S m -> 1 + int_of_nat m

let to_int = function A a -> int_of_string a | L _ -> failwith "int expected"
let to_nat x = nat_of_int (to_int x)
let to_list f = function L l -> List.map f l | A _ -> failwith "list expected"
let to_bool = function A "true" -> true | A "false" -> false | _ -> failwith "bool expected"

let pn n = string_of_int (int_of_nat n)
let plist f l = "(" ^ String.concat " " (List.map f l) ^ ")"
let pb b = if b then "true" else "false"

(* ---- C09 ---- *)
let c09 args = match args with
  | [pos; text] ->
    let t = to_list to_nat text and p = to_nat pos in
    let lc = match line_col t p with
      | Some ((l, c)) -> "(" ^ pn l ^ " " ^ pn c ^ ")" | None -> "indexerror" in
    let elc = match error_line_col t p with
      | Some None -> "eoi"
      | Some (Some ((l, c))) -> "(" ^ pn l ^ " " ^ pn c ^ ")"
      | None -> "indexerror" in
    let col = match line_col t p with Some ((_, c)) -> c | None -> O in
    let ex = plist pn (extract_text t p col) in
    let bw = plist pn (bytes_window t p) in
    Printf.sprintf "((lc %s) (elc %s) (ex %s) (bw %s) (sl %s) (sc %s))"
      lc elc ex bw (pn (spec_line t p)) (pn (spec_col t p))
  | _ -> failwith "c09 args"

let c09judge args = match args with
  | [pos; text; L [l; c]; msg] ->
    let t = to_list to_nat text and p = to_nat pos in
    Printf.sprintf "((linecol_ok %s) (excerpt_ok %s))"
      (pb (linecol_ok t p ((to_nat l, to_nat c))))
      (pb (excerpt_ok t p (to_list to_nat msg)))
  | _ -> failwith "c09judge args"


(* ---- expression model: readers ---- *)
let sym = function A a -> a | L _ -> failwith "symbol expected"
let to_opt f = function A "none" -> None | x -> Some (f x)

let to_pyfun = function
  | A "int" -> FInt | A "len" -> FLen | A "bool" -> FBool | A "tuple" -> FTuple | A "odd" -> FOdd
  | L [A "eqvar"; x] -> FEqVar (to_nat x)
  | L [A "lengtvar"; x] -> FLenGtVar (to_nat x)
  | L [A "tag3"; p; a] -> FTag3 (to_nat p, to_nat a)
  | L [A "tag2"; p] -> FTag2 (to_nat p)
  | L [A "kleneq"; x; y] -> FKLenEq (to_nat x, to_nat y)
  | L [A "kvar"; x] -> FKVar (to_nat x)
  | _ -> failwith "pyfun"
let to_pyexpr = function
  | A "pnone" -> PNone | A "ptrue" -> PTrue | A "pfalse" -> PFalse
  | L [A "num"; n] -> PNum (to_nat n)
  | L [A "var"; x] -> PVar (to_nat x)
  | L [A "fn"; f] -> PFn (to_pyfun f)
  | L [A "leneq"; x; y] -> PLenEq (to_nat x, to_nat y)
  | L [A "succ"; x] -> PSucc (to_nat x)
  | _ -> failwith "pyexpr"
let to_bound = function
  | A "none" -> BNone
  | L [A "lit"; n] -> BLit (to_nat n)
  | L [A "var"; x] -> BVar (to_nat x)
  | _ -> failwith "bound"
let to_arg = function
  | L [A "rule"; r] -> ARule (to_nat r)
  | L [A "local"; x] -> ALocal (to_nat x)
  | L [A "py"; p] -> APy (to_pyexpr p)
  | L [A "strlit"; s; sk] -> AStrLit (to_list to_nat s, to_bool sk)
  | L [A "fun"; fid; fv] -> AFun (to_nat fid, to_list to_nat fv)
  | _ -> failwith "arg"
let rec to_expr = function
  | A "Fail" -> Fail
  | L [A "Str"; s; sk] -> Str (to_list to_nat s, to_bool sk)
  | L [A "Rx"; id; sk] -> Rx (to_nat id, to_bool sk)
  | L [A "Byte"; b; sk] -> Byte (to_nat b, to_bool sk)
  | L [A "Ref"; r] -> Ref (to_nat r)
  | L [A "Seq"; es] -> Seq (to_list to_expr es)
  | L [A "Discard"; a; b; dl] -> Discard (to_expr a, to_expr b, to_bool dl)
  | L [A "Choice"; es] -> Choice (to_list to_expr es)
  | L [A "Opt"; e] -> Opt (to_expr e)
  | L [A "Rep"; e; mn; mx] -> Rep (to_expr e, to_bound mn, to_bound mx)
  | L [A "Expect"; e] -> Expect (to_expr e)
  | L [A "ExpectNot"; e] -> ExpectNot (to_expr e)
  | L [A "Skip"; es] -> Skip (to_list to_expr es)
  | L [A "Longest"; es] -> Longest (to_list to_expr es)
  | L [A "Backtrack"; k] -> Backtrack (to_nat k)
  | L [A "Sep"; e; s; d; t; ae; rs] -> Sep (to_expr e, to_expr s, to_bool d, to_bool t, to_bool ae, to_bool rs)
  | L [A "Py"; p] -> Py (to_pyexpr p)
  | L [A "Apply"; a; b; al] -> Apply (to_expr a, to_expr b, to_bool al)
  | L [A "Where"; e; p] -> Where (to_expr e, to_expr p)
  | L [A "Let"; x; sh; e; b] -> Let (to_nat x, to_bool sh, to_expr e, to_expr b)
  | L [A "Class"; c; ms] ->
      Class (to_nat c, to_list (function
        | L [nm; isf; e] -> ((to_opt to_nat nm, to_bool isf), to_expr e)
        | _ -> failwith "member") ms)
  | L [A "OpTable"; pre; opd; post; inf] ->
      OpTable (to_opt to_expr pre, to_expr opd, to_opt to_expr post, to_opt to_expr inf)
  | L [A "RefL"; x] -> RefL (to_nat x)
  | L [A "Call"; callee; args] ->
      let c = (match callee with
        | L [A "rule"; r] -> Inl (to_nat r)
        | L [A "local"; x] -> Inr (to_nat x)
        | _ -> failwith "callee") in
      Call (c, to_list (function L [k; a] -> (to_opt to_nat k, to_arg a) | _ -> failwith "callarg") args)
  | _ -> failwith "expr"
let to_rule = function L [ps; b] -> (to_list to_nat ps, to_expr b) | _ -> failwith "rule"

(* ---- printers ---- *)
let rec pv = function
  | VNone -> "none"
  | VBool b -> "(bool " ^ pb b ^ ")"
  | VStr s -> "(str " ^ plist pn s ^ ")"
  | VInt n -> "(int " ^ pn n ^ ")"
  | VList l -> "(list " ^ plist pv l ^ ")"
  | VTuple l -> "(tuple " ^ plist pv l ^ ")"
  | VObj (c, fs, (s, e)) -> "(obj " ^ pn c ^ " " ^ plist pv fs ^ " " ^ pn s ^ " " ^ pn e ^ ")"
  | VNode (k, l) -> "(node " ^ pn k ^ " " ^ plist pv l ^ ")"
  | VFun _ -> "fun"
  | VLit (s, _) -> "(str " ^ plist pn s ^ ")"
  | VRule r -> "(rule " ^ pn r ^ ")"
  | VClos (f, _) -> "(clos " ^ pn f ^ ")"
  | VErr n -> "(err " ^ pn n ^ ")"

let rec int_of_pos = function XH -> 1 | XO p -> 2 * int_of_pos p | XI p -> 2 * int_of_pos p + 1
let int_of_z = function Z0 -> 0 | Zpos p -> int_of_pos p | Zneg p -> - (int_of_pos p)
let rec pos_of_int i = if i = 1 then XH else if i mod 2 = 0 then XO (pos_of_int (i / 2)) else XI (pos_of_int (i / 2))
let z_of_int i = if i = 0 then Z0 else if i > 0 then Zpos (pos_of_int i) else Zneg (pos_of_int (- i))
let pfpos (i, lc) = match lc with
  | Some (l, c) -> "(" ^ string_of_int (int_of_z i) ^ " " ^ pn l ^ " " ^ pn c ^ ")"
  | None -> "(" ^ string_of_int (int_of_z i) ^ " None None)"
let rec pfv = function
  | FNone -> "none"
  | FBoolV b -> "(bool " ^ pb b ^ ")"
  | FStr s -> "(str " ^ plist pn s ^ ")"
  | FNat n -> "(int " ^ pn n ^ ")"
  | FList l -> "(list " ^ plist pfv l ^ ")"
  | FTup l -> "(tuple " ^ plist pfv l ^ ")"
  | FObj (c, fs, (a, b)) -> "(obj " ^ pn c ^ " " ^ plist pfv fs ^ " " ^ pfpos a ^ " " ^ pfpos b ^ ")"
  | FNode (k, l) -> "(node " ^ pn k ^ " " ^ plist pfv l ^ ")"
  | FOther -> "other"

(* regex oracle: table.(id).(pos) = end or -1 *)
let mk_rx (tab : int array array) : nat -> nat -> nat option =
  fun id p ->
    let i = int_of_nat id and q = int_of_nat p in
    if i < Array.length tab && q < Array.length tab.(i) && tab.(i).(q) >= 0
    then Some (nat_of_int tab.(i).(q)) else None
let to_rxtab x : int array array =
  Array.of_list (to_list (fun row -> Array.of_list (to_list to_int row)) x)

(* (runs lf named ign rules funs fuel ((text rxtab entry pos full) ...)) *)
let runs args = match args with
  | [lf; named; ign; rules; funs; fuel; cases] ->
    let lf = to_bool lf and named = to_bool named and ign = to_opt to_nat ign in
    let g = to_list to_rule rules and fs = to_list to_rule funs in
    let fuel = to_nat fuel in
    let one = function
      | L [text; rxtab; entry; pos; full] ->
        let t = to_list to_nat text and rx = mk_rx (to_rxtab rxtab) in
        let entry = to_nat entry and p = to_nat pos and full = to_bool full in
        let body = (match nth_error g entry with Some (_, b) -> b | None -> failwith "entry") in
        let x = (match exec lf g fs ign t rx fuel body (fresh p) with
          | Done s -> if s.status then "(done true " ^ pv s.result ^ " " ^ pn s.pos ^ ")"
                      else "(done false " ^ pn s.pos ^ ")"
          | OutOfFuel -> "fuel"
          | Stuck n -> "(stuck " ^ pn n ^ ")") in
        let spec = peg g fs ign t rx fuel [] body p in
        let sp = (match spec with
          | Fuel -> "fuel" | Raise -> "raise" | Fails -> "fails"
          | Match (v, q) -> "(match " ^ pv v ^ " " ^ pn q ^ ")") in
        let pm = (match parse_model lf g fs ign t rx fuel entry p full with
          | Return v -> "(return " ^ pfv v ^ ")"
          | Partial (v, fp) -> "(partial " ^ pfv v ^ " " ^ pfpos fp ^ ")"
          | ParseErr i -> "(perr " ^ pn i ^ ")"
          | Crash n -> "(crash " ^ pn n ^ ")"
          | Fuel0 -> "fuel") in
        (* the outcome the SPEC dictates: peg's result, spans finalised *)
        let sq = (match spec with
          | Fuel -> "fuel" | Raise -> "raise" | Fails -> "perr"
          | Match (v, q) ->
            let fv = finalize t v in
            if full && int_of_nat q < List.length t
            then "(partial " ^ pfv fv ^ " " ^ pfpos (fin_pos t (z_of_int (int_of_nat q))) ^ ")"
            else "(return " ^ pfv fv ^ ")") in
        x ^ "\t" ^ sp ^ "\t" ^ pm ^ "\t" ^ sq
      | _ -> failwith "case" in
    String.concat "|" (List.map one (match cases with L l -> l | _ -> failwith "cases"))
  | _ -> failwith "runs args"

(* value reader (for judging the implementation's own results) *)
let rec to_value = function
  | A "none" -> VNone
  | A "fun" -> VFun FLen
  | L [A "bool"; b] -> VBool (to_bool b)
  | L [A "str"; s] -> VStr (to_list to_nat s)
  | L [A "int"; n] -> VInt (to_nat n)
  | L [A "list"; l] -> VList (to_list to_value l)
  | L [A "tuple"; l] -> VTuple (to_list to_value l)
  | L [A "obj"; c; fs; s; e] -> VObj (to_nat c, to_list to_value fs, (to_nat s, to_nat e))
  | L [A "node"; k; l] -> VNode (to_nat k, to_list to_value l)
  | _ -> failwith "value"
(* (spans lo hi value) -> true|false *)
let spans_cmd = function
  | [lo; hi; v] -> pb (spans_ordered (to_nat lo) (to_nat hi) (to_value v))
  | _ -> failwith "spans args"

(* (runscript fuel (r p) (((r p) ((k r p) | (u r p) ...)) ...)) -> (fin (st v p) ((r p) ...) ustarts)   log oldest first;
   (k r p) = memoised call, (u r p) = the body of (r p) called through an unhashable key *)
let to_key = function L [r; p] -> (to_nat r, to_nat p) | _ -> failwith "key"
let to_call = function
  | L [A "k"; r; p] -> CK (to_nat r, to_nat p)
  | L [A "u"; r; p] -> CU (to_nat r, to_nat p)
  | _ -> failwith "call"
let pkey (r, p) = "(" ^ pn r ^ " " ^ pn p ^ ")"
let runscript = function
  | [fuel; start; scr] ->
    let scr = to_list (function L [k; cs] -> (to_key k, to_list to_call cs) | _ -> failwith "scr") scr in
    let depth = nat_of_int (List.length scr + 1) in
    let (s, fin) = run_script scr depth (to_nat fuel) (to_key start) in
    let ((st, v), p) = s.cur in
    "(" ^ pb fin ^ " (" ^ pb st ^ " " ^ pn v ^ " " ^ pn p ^ ") " ^ plist pkey (List.rev s.log) ^ " " ^ pn s.ustarts ^ ")"
  | _ -> failwith "runscript args"

(* ---- C15: trees with identities ---- *)
let rec to_node = function
  | L [A "l"; i] -> Leaf (to_nat i)
  | L [A "c"; i; ch] -> Cont (to_nat i, to_list to_node ch)
  | L [A "o"; i; ch] -> Obj (to_nat i, to_list to_node ch)
  | _ -> failwith "node"
let rec to_tnode = function
  | L [A "l"; i] -> TLeaf (to_nat i)
  | L [A "c"; i; ch] | L [A "o"; i; ch] -> TCont (to_nat i, to_list to_tnode ch)
  | _ -> failwith "tnode"
let rec node_size = function Leaf _ -> 1 | Cont (_, l) | Obj (_, l) -> 1 + List.fold_left (fun a x -> a + node_size x) 0 l
let visit_cmd = function
  | [t] ->
    let n = to_node t in
    let fuel = nat_of_int (node_size n + 2) in
    let m = (match visit_loop2 fuel [n] [] [] with Some (o, _) -> plist pn o | None -> "fuel") in
    let sp = plist pn (fst (dfs2_list [n] [])) in
    "(" ^ m ^ " " ^ sp ^ ")"
  | _ -> failwith "visit args"
let pev (((p, f), c), fin) = "(" ^ pn p ^ " " ^ pn f ^ " " ^ pn c ^ " " ^ pb fin ^ ")"
let traverse_cmd = function
  | [t] ->
    let n = to_tnode t in
    let fuel = nat_of_int (2 * node_size (to_node t) + 4) in
    let m = (match traverse_loop fuel [TEnter (O, O, n)] [] [] with Some o -> plist pev o | None -> "fuel") in
    let sp = plist pev (fst (ev O O n [])) in
    "(" ^ m ^ " " ^ sp ^ ")"
  | _ -> failwith "traverse args"

(* ---- C16: transform ---- *)
let rec to_xnode = function
  | L [A "l"; i] -> XLeaf (to_nat i)
  | L [A "L"; i; ch] -> XLst (to_nat i, to_list to_xnode ch)
  | L [A "o"; i; c; fs; m] -> XObj (to_nat i, to_nat c, to_list to_xnode fs, to_opt to_nat m)
  | _ -> failwith "xnode"
let to_cb = function
  | A "id" -> CId
  | L [A "repl"; c; c'] -> CRepl (to_nat c, to_nat c')
  | L [A "replmeta"; c; c'; m] -> CReplMeta (to_nat c, to_nat c', to_nat m)
  | L [A "leaf"; c] -> CLeaf (to_nat c)
  | L [A "list"; c] -> CList (to_nat c)
  | L [A "field"; c] -> CField (to_nat c)
  | L [A "child"; c] -> CChild (to_nat c)
  | L [A "wrap"; c] -> CWrap (to_nat c)
  | _ -> failwith "cb"
(* identities >= base are new: printed as n *)
let pid base i = let k = int_of_nat i in if k >= base then "n" else string_of_int k
let rec pxnode base = function
  | XLeaf i -> "(l " ^ pid base i ^ ")"
  | XLst (i, l) -> "(L " ^ pid base i ^ " " ^ plist (pxnode base) l ^ ")"
  | XObj (i, c, fs, m) -> "(o " ^ pid base i ^ " " ^ pn c ^ " " ^ plist (pxnode base) fs ^ " "
                          ^ (match m with Some x -> pn x | None -> "none") ^ ")"
let transform_cmd = function
  | [base; cbs; t] ->
    let b = to_int base in
    let ks = to_list to_cb cbs in
    let (r, st) = (match ks with
      | [] -> (to_xnode t, { xnext = nat_of_int b; xlog = [] })
      | _ -> tr (chainf ks) (to_xnode t) { xnext = nat_of_int b; xlog = [] }) in
    "(" ^ pxnode b r ^ " " ^ plist (pid b) st.xlog ^ ")"
  | _ -> failwith "transform args"

(* ---- C14: == on parsed values ---- *)
let rec to_pvalue = function
  | A "none" -> Pm QNone
  | L [A "num"; z] -> Pm (QNum (z_of_int (to_int z)))
  | L [A "str"; s] -> Pm (QStr (to_list to_nat s))
  | L [A "bytes"; s] -> Pm (QBytes (to_list to_nat s))
  | L [A "L"; l] -> Ls (to_list to_pvalue l)
  | L [A "T"; l] -> Tp (to_list to_pvalue l)
  | L [A "O"; c; fs] -> Ob (to_nat c, to_list to_pvalue fs)
  | _ -> failwith "pvalue"
let pyeq_cmd = function
  | [a; b] -> pb (py_eq (to_pvalue a) (to_pvalue b))
  | _ -> failwith "pyeq args"

(* ---- C02: token-level operator tables ---- *)
let to_assoc = function
  | A "prefix" -> APrefix | A "left" -> ALeft | A "right" -> ARight | A "infix" -> AInfix | A "postfix" -> APostfix
  | _ -> failwith "assoc"
let to_tok = function L [A "d"; v] -> TOpd (to_nat v) | L [A "o"; n] -> TOp (to_nat n) | _ -> failwith "tok"
let rec ptree = function
  | Opd v -> "(d " ^ pn v ^ ")"
  | Pre (o, t) -> "(pre " ^ pn o ^ " " ^ ptree t ^ ")"
  | Post (t, o) -> "(post " ^ ptree t ^ " " ^ pn o ^ ")"
  | Inf (l, o, r) -> "(inf " ^ ptree l ^ " " ^ pn o ^ " " ^ ptree r ^ ")"
let pres = function Some (t, e) -> "(" ^ ptree t ^ " " ^ pn e ^ ")" | None -> "none"
let optable_cmd = function
  | [tb; inputs] ->
    let tb = to_list (function L [a; names] -> (to_assoc a, to_list to_nat names) | _ -> failwith "row") tb in
    String.concat "|" (List.map (fun w -> let toks = to_list to_tok w in
                                         pres (loop tb toks) ^ "\t" ^ pres (pratt tb toks))
                         (match inputs with L l -> l | _ -> failwith "inputs"))
  | _ -> failwith "optable args"

(* the declarative judgement of PrecOk.v applied to trees (of the implementation) *)
let rec to_tree = function
  | L [A "d"; v] -> Opd (to_nat v)
  | L [A "pre"; o; t] -> Pre (to_nat o, to_tree t)
  | L [A "post"; t; o] -> Post (to_tree t, to_nat o)
  | L [A "inf"; l; o; r] -> Inf (to_tree l, to_nat o, to_tree r)
  | _ -> failwith "tree"
let pok_cmd = function
  | [tb; trees] ->
    let tb = to_list (function L [a; names] -> (to_assoc a, to_list to_nat names) | _ -> failwith "row") tb in
    String.concat "|" (List.map (fun t -> pb (pok tb (to_tree t))) (match trees with L l -> l | _ -> failwith "trees"))
  | _ -> failwith "pok args"

(* flags of every node, preorder *)
let rec children = function
  | Seq es | Choice es | Skip es | Longest es -> es
  | Discard (a, b, _) | Apply (a, b, _) | Where (a, b) | Sep (a, b, _, _, _, _) | Let (_, _, a, b) -> [a; b]
  | Opt e | Expect e | ExpectNot e | Rep (e, _, _) -> [e]
  | Class (_, ms) -> List.map snd ms
  | OpTable (pre, opd, post, inf) ->
      let o = function Some e -> [e] | None -> [] in o pre @ [opd] @ o post @ o inf
  | _ -> []
let rec flags lf e =
  (pb (always e) ^ " " ^ pb (partial lf e)) :: List.concat (List.map (flags lf) (children e))
let flags_cmd = function
  | [lf; e] -> "(" ^ String.concat " " (flags (to_bool lf) (to_expr e)) ^ ")"
  | _ -> failwith "flags args"

let dispatch = function
  | L (A "c09" :: args) -> c09 args
  | L (A "c09judge" :: args) -> c09judge args
  | L (A "runs" :: args) -> runs args
  | L (A "flags" :: args) -> flags_cmd args
  | L (A "spans" :: args) -> spans_cmd args
  | L (A "runscript" :: args) -> runscript args
  | L (A "visit" :: args) -> visit_cmd args
  | L (A "traverse" :: args) -> traverse_cmd args
  | L (A "transform" :: args) -> transform_cmd args
  | L (A "pyeq" :: args) -> pyeq_cmd args
  | L (A "optable" :: args) -> optable_cmd args
  | L (A "pok" :: args) -> pok_cmd args
  | _ -> failwith "unknown command"

let () =
  try
    while true do
      let line = input_line stdin in
      if String.length line > 0 then begin
        (try print_string (dispatch (parse_line line))
         with Failure m -> print_string ("(error " ^ m ^ ")")
            | Stack_overflow -> print_string "(error stack_overflow)"
            | Not_found -> print_string "(error not_found)");
        print_newline ()
      end
    done
  with End_of_file -> ()
