# setup: full .vo build of the Coq development, extraction, OCaml driver
setup:
	cd /verif && PYTHONPATH=/verif /venv/bin/python -c "import sys; from harness import core; ok, log = core.build(); print(log[-3000:]); sys.exit(0 if ok else 1)"
clean:
	cd coq && (make -f Makefile.coq clean >/dev/null 2>&1; rm -f Makefile.coq Makefile.coq.conf .*.aux */.*.aux Gen/*.v Gen/*.vo Gen/*.glob Gen/*.vok Gen/*.vos)
	rm -f ocaml/driver ocaml/*.cm* ocaml/*.o ocaml/model.ml ocaml/model.mli
