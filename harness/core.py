"""Shared machinery of the checks: build, proof obligations, model driver,
violation / known-finding protocol, evidence."""
import fcntl
import hashlib
import json
import os
import re
import subprocess
import sys
import time

VERIF = os.path.dirname(os.path.dirname(os.path.abspath(__file__)))
REPO = os.environ.get('SOURCER_REPO', '/repo')
COQ = os.path.join(VERIF, 'coq')
OCAML = os.path.join(VERIF, 'ocaml')
EVID = os.path.join(VERIF, 'evidence')
REPLAYS = os.path.join(EVID, 'replays')
DRIVER = os.path.join(OCAML, 'driver')
LOCK = os.path.join(VERIF, '.build.lock')
NCPU = min(16, os.cpu_count() or 1)

FORBIDDEN = re.compile(
    r'\b(Admitted|admit|Axiom|Axioms|Parameter|Parameters|Conjecture|Hypothesis|Variable|Variables|Hypotheses)\b'
    r'|Unset\s+Guard|Unset\s+Positivity|Unset\s+Universe|bypass_check|type-in-type|impredicative-set|Admit\s+Obligations')

# axioms of the standard library that a theorem may depend on (none needed so far)
AXIOM_ALLOW = set()

TRUSTED_BASE = [
    'Coq 8.16.1 kernel (coqc; vm_compute used for witnesses/finite sweeps; no native_compute)',
    'axioms: none declared; every property theorem must print "Closed under the global context"',
    'extraction: Require Extraction + ExtrOcamlBasic only (bool/option/unit/list/prod/sumbool/sumor mapped to OCaml; nat/N/Z/positive kept as extracted datatypes; no Extract Constant), OCaml 4.13.1 ocamlfind ocamlopt',
    'ocaml/driver.ml: s-expression reader/printer, int<->nat conversion (hand-written glue)',
    'harness (Python, unverified): grammar exporter, generators, implementation runner, canonicaliser, translate.py (fail-closed ast->Coq translator)',
    'modelled not verified: Python re, str/bytes slicing and comparison, inline Python (closed vocabulary), CPython generator semantics, outsourcer.CodeBuilder',
]


def sh(cmd, timeout=None, cwd=None, env=None):
    try:
        p = subprocess.run(cmd, shell=isinstance(cmd, str), cwd=cwd, env=env, timeout=timeout,
                           stdout=subprocess.PIPE, stderr=subprocess.STDOUT, text=True)
        return p.returncode, p.stdout
    except subprocess.TimeoutExpired as e:
        out = e.stdout.decode() if isinstance(e.stdout, bytes) else (e.stdout or '')
        return 124, out + '\n[timeout]'


class BuildLock:
    def __enter__(self):
        self.f = open(LOCK, 'w')
        fcntl.flock(self.f, fcntl.LOCK_EX)
        return self

    def __exit__(self, *a):
        fcntl.flock(self.f, fcntl.LOCK_UN)
        self.f.close()


def build():
    """Full .vo build of the development + extracted driver. -> (ok, log)"""
    with BuildLock():
        log = []
        mk = os.path.join(COQ, 'Makefile.coq')
        cp = os.path.join(COQ, '_CoqProject')
        if not os.path.exists(mk) or os.path.getmtime(mk) < os.path.getmtime(cp):
            rc, out = sh('coq_makefile -f _CoqProject -o Makefile.coq', cwd=COQ, timeout=120)
            log.append(out)
            if rc != 0:
                return False, '\n'.join(log)
        rc, out = sh(f'timeout 3000 make -f Makefile.coq -j{NCPU}', cwd=COQ, timeout=3100)
        log.append(out)
        if rc != 0:
            return False, '\n'.join(log)
        srcs = [os.path.join(OCAML, x) for x in ('model.ml', 'model.mli', 'driver.ml')]
        if not all(os.path.exists(s) for s in srcs):
            return False, '\n'.join(log) + '\nextraction output missing'
        if (not os.path.exists(DRIVER)
                or os.path.getmtime(DRIVER) < max(os.path.getmtime(s) for s in srcs)):
            rc, out = sh('ocamlfind ocamlopt -O3 -w -a model.mli model.ml driver.ml -o driver',
                         cwd=OCAML, timeout=600)
            log.append(out)
            if rc != 0:
                return False, '\n'.join(log)
        return True, '\n'.join(log)


def coqc(relpath, timeout=900):
    """compile one file of the development, capturing its output"""
    with BuildLock():
        return sh(f'timeout {timeout} coqc -q -R . SV {relpath}', cwd=COQ, timeout=timeout + 10)


def scan_forbidden():
    """-> list of (file, line, text) in the Coq sources (comments stripped)"""
    hits = []
    for root, _, files in os.walk(COQ):
        for fn in files:
            if not fn.endswith('.v') and not fn.endswith('.in'):
                continue
            path = os.path.join(root, fn)
            src = open(path).read()
            src = strip_comments(src)
            for i, line in enumerate(src.split('\n'), 1):
                m = FORBIDDEN.search(line)
                if m:
                    # Section-local Variable/Hypothesis are allowed; top-level ones are not.
                    if m.group(0) in ('Variable', 'Variables', 'Hypothesis', 'Hypotheses') and in_section(src, i):
                        continue
                    hits.append((os.path.relpath(path, COQ), i, line.strip()))
    return hits


def strip_comments(src):
    out, depth, i = [], 0, 0
    while i < len(src):
        if src.startswith('(*', i):
            depth += 1
            i += 2
        elif src.startswith('*)', i) and depth:
            depth -= 1
            i += 2
        else:
            if depth == 0:
                out.append(src[i])
            elif src[i] == '\n':
                out.append('\n')
            i += 1
    return ''.join(out)


def in_section(src, lineno):
    depth = 0
    for i, line in enumerate(src.split('\n'), 1):
        if i >= lineno:
            break
        if re.match(r'\s*Section\s+\w+', line):
            depth += 1
        elif re.match(r'\s*End\s+\w+', line) and depth:
            depth -= 1
    return depth > 0


THM = re.compile(r'^\s*(Theorem|Lemma|Corollary|Example|Fact|Proposition)\s+(\w+)', re.M)
PA = re.compile(r'^\s*Print Assumptions\s+(\w+)\s*\.', re.M)


def prove_file(relpath):
    """Compile a Props file; -> list of obligation dicts."""
    src = strip_comments(open(os.path.join(COQ, relpath)).read())
    thms = [(m.group(2), src[:m.start()].count('\n') + 1) for m in THM.finditer(src)]
    pas = [m.group(1) for m in PA.finditer(src)]
    rc, out = coqc(relpath)
    obs = []
    if rc == 0:
        blocks = re.split(r'(?m)^(?=Closed under the global context|Axioms:)', out)
        blocks = [b for b in blocks if b.startswith('Closed under') or b.startswith('Axioms:')]
        assum = {}
        for name, blk in zip(pas, blocks):
            if blk.startswith('Closed'):
                assum[name] = 'closed'
            else:
                assum[name] = [l.split(':')[0].strip() for l in blk.split('\n')[1:] if l and not l.startswith(' ') and ':' in l]
        for name, _ in thms:
            a = assum.get(name, 'not printed')
            ok = True
            if isinstance(a, list):
                ok = all(x in AXIOM_ALLOW for x in a)
            obs.append({'name': name, 'file': relpath, 'status': 'proved' if ok else 'axioms-not-allowed',
                        'assumptions': a})
        if len(blocks) != len(pas):
            obs.append({'name': 'Print Assumptions output', 'file': relpath, 'status': 'failed',
                        'detail': f'{len(blocks)} blocks for {len(pas)} commands'})
    else:
        m = re.search(r'line (\d+), characters', out)
        errline = int(m.group(1)) if m else 0
        for idx, (name, line) in enumerate(thms):
            nxt = thms[idx + 1][1] if idx + 1 < len(thms) else 10 ** 9
            if errline and nxt <= errline:
                st = 'proved'
            elif errline and line <= errline < nxt:
                st = 'failed'
            else:
                st = 'not-checked'
            obs.append({'name': name, 'file': relpath, 'status': st, 'detail': out[-600:] if st == 'failed' else ''})
        if not thms or not errline:
            obs.append({'name': relpath, 'file': relpath, 'status': 'failed', 'detail': out[-800:]})
    return obs


# --------------------------------------------------------------------------
# s-expressions and the model driver
# --------------------------------------------------------------------------
def sx(x):
    if isinstance(x, bool):
        return 'true' if x else 'false'
    if isinstance(x, int):
        return str(x)
    if isinstance(x, str):
        return x
    if isinstance(x, (list, tuple)):
        return '(' + ' '.join(sx(y) for y in x) + ')'
    raise TypeError(repr(x))


def parse_sx(s):
    toks = re.findall(r'\(|\)|[^\s()]+', s)
    pos = 0

    def item():
        nonlocal pos
        t = toks[pos]
        pos += 1
        if t == '(':
            out = []
            while toks[pos] != ')':
                out.append(item())
            pos += 1
            return out
        if re.fullmatch(r'-?\d+', t):
            return int(t)
        return t
    return item()


def codes(s):
    if isinstance(s, bytes):
        return list(s)
    return [ord(c) for c in s]


def run_driver(lines, timeout=1800, shards=None, raw=False):
    """feed request lines to the extracted model; -> list of parsed responses"""
    if not lines:
        return []
    shards = shards or (1 if len(lines) < 200 else NCPU)
    chunks = [lines[i::shards] for i in range(shards)]
    procs = []
    for ch in chunks:
        p = subprocess.Popen(['bash', '-c', f'ulimit -s unlimited 2>/dev/null; exec {DRIVER}'],
                             stdin=subprocess.PIPE, stdout=subprocess.PIPE, text=True)
        procs.append((p, ch))
    import threading
    outs = [None] * shards

    def feed(i, p, ch):
        o, _ = p.communicate('\n'.join(ch) + '\n', timeout=timeout)
        outs[i] = o.split('\n')
    ths = [threading.Thread(target=feed, args=(i, p, ch)) for i, (p, ch) in enumerate(procs)]
    for t in ths:
        t.start()
    for t in ths:
        t.join()
    res = [None] * len(lines)
    for i in range(shards):
        got = [x for x in outs[i] if x != '']
        if len(got) != len(chunks[i]):
            raise RuntimeError(f'driver returned {len(got)} lines for {len(chunks[i])} requests')
        for j, x in enumerate(got):
            res[i + j * shards] = x if raw else parse_sx(x)
    return res


def asdict(resp):
    return {k: (v[0] if len(v) == 1 else v) for k, *v in resp}


# --------------------------------------------------------------------------
# the run: obligations, correspondence, spec check, findings, evidence
# --------------------------------------------------------------------------
def repo_state():
    rc, head = sh(['git', '-C', REPO, 'rev-parse', 'HEAD'])
    rc2, st = sh(['git', '-C', REPO, 'status', '--porcelain'])
    rc3, diff = sh(['git', '-C', REPO, 'diff'])
    return {'head': head.strip(), 'dirty': bool(st.strip()),
            'worktree_hash': hashlib.sha1((st + diff).encode()).hexdigest()[:12]}


def load_findings():
    p = os.path.join(VERIF, 'known_findings.json')
    if not os.path.exists(p):
        return []
    return json.load(open(p))


def _gramrun_dropped():
    try:
        from . import gramrun
        return {k: v for k, v in gramrun.DROPPED.items() if v}
    except Exception:       # noqa
        return {}


class Run:
    def __init__(self, pid, tier, seed):
        self.pid, self.tier, self.seed = pid, tier, seed
        self.t0 = time.time()
        self.obligations = []
        self.broken = []            # broken proof obligations / correspondence streams
        self.cex = []               # impl-vs-spec failures: dicts with 'mechanism', 'case', 'expected', 'observed'
        self.streams = {}           # name -> counters
        self.samples = []
        self.notes = []
        self.fragments = {}
        self.assumptions = []
        self.distinct = set()
        self.evaluations = 0
        self.traces = 0
        self.level = 'proof'
        self.extra = {}
        self.verbose = bool(os.environ.get('VERIF_VERBOSE'))
        self.known = {f['mechanism'] for f in load_findings() if f.get('property') == pid and f.get('status') == 'known'}
        if os.path.isdir(REPLAYS):
            for fn in os.listdir(REPLAYS):
                if fn.startswith(pid + '-'):
                    os.remove(os.path.join(REPLAYS, fn))

    # ---- proofs ----
    def build(self):
        ok, log = build()
        if not ok:
            self.broken.append({'kind': 'build', 'name': 'coq/ocaml build', 'detail': log[-1500:]})
        hits = scan_forbidden()
        if hits:
            self.broken.append({'kind': 'forbidden-token', 'name': 'forbidden tokens in Coq sources', 'detail': hits[:10]})
        return ok

    def prove(self, relpath):
        obs = prove_file(relpath)
        self.obligations += obs
        for o in obs:
            if o['status'] != 'proved':
                self.broken.append({'kind': 'proof', 'name': f"{o['file']}:{o['name']}", 'detail': o.get('detail', o['status'])})
        return obs

    def tie(self, name, relpath, fragment):
        rc, out = coqc(relpath)
        if rc == 0 and 'Axioms:' in out:
            rc, out = 1, 'the tie lemma depends on axioms: ' + out[out.index('Axioms:'):][:300]
        st = 'proved' if rc == 0 else 'failed'
        self.obligations.append({'name': name, 'file': relpath, 'status': st, 'kind': 'tie', 'fragment': fragment})
        if rc != 0:
            self.broken.append({'kind': 'tie', 'name': f'{relpath}:{name}',
                                'detail': f'generated definition for {fragment} no longer equals the model: ' + out[-500:]})
        return rc == 0

    # ---- correspondence / spec ----
    def stream(self, name):
        return self.streams.setdefault(name, {'cases': 0, 'model_vs_impl_disagreements': 0, 'spec_failures': 0})

    def count(self, stream, key=None, nontrivial=True):
        s = self.stream(stream)
        s['cases'] += 1
        self.evaluations += 1
        if key is not None and nontrivial:
            self.distinct.add((stream, key))

    def disagree(self, stream, case, impl, model, explained_by=None):
        s = self.stream(stream)
        if explained_by is not None and explained_by in self.known:
            # the model does not reproduce a listed, unrepaired defect on this case: not a broken correspondence
            s['explained_by_known_finding'] = s.get('explained_by_known_finding', 0) + 1
            return
        s['model_vs_impl_disagreements'] += 1
        if s['model_vs_impl_disagreements'] <= 5 or (s['model_vs_impl_disagreements'] <= 400 and self.verbose):
            self.broken.append({'kind': 'correspondence', 'name': f'model-vs-implementation:{stream}',
                                'detail': {'case': case, 'implementation': impl, 'model': model}})

    def counterexample(self, stream, mechanism, case, expected, observed):
        s = self.stream(stream)
        s['spec_failures'] += 1
        self.cex.append({'stream': stream, 'mechanism': mechanism, 'case': case,
                         'expected': expected, 'observed': observed})

    # ---- finish ----
    def finish(self, rule, checker_cmd):
        os.makedirs(REPLAYS, exist_ok=True)
        findings = [f for f in load_findings() if f.get('property') == self.pid]
        known = {f['mechanism']: f for f in findings if f.get('status') == 'known'}
        out_lines = []
        new_cex = []
        seen_known = {}
        for c in self.cex:
            f = known.get(c['mechanism'])
            if f is not None:
                seen_known.setdefault(c['mechanism'], []).append(c)
            else:
                new_cex.append(c)
        for mech, cs in seen_known.items():
            f = known[mech]
            out_lines.append(f"KNOWN-FINDING: property={self.pid} {f['what']} [{mech}; {len(cs)} case(s) this run, e.g. {json.dumps(cs[0]['case'])[:160]}]")
        violations = 0
        if new_cex:
            # one replay per mechanism (smallest case first)
            by_mech = {}
            for c in new_cex:
                by_mech.setdefault(c['mechanism'], []).append(c)
            for mech, cs in by_mech.items():
                cs.sort(key=lambda c: len(json.dumps(c['case'])))
                path = os.path.join(REPLAYS, f'{self.pid}-{re.sub(r"[^A-Za-z0-9_.-]", "_", mech)[:60]}.json')
                json.dump({'property': self.pid, 'mechanism': mech, 'count': len(cs), 'failing': cs[0],
                           'more': cs[1:4], 'broken': self.broken[:5], 'repo': repo_state()},
                          open(path, 'w'), indent=1, default=str)
                out_lines.append(f'VIOLATION property={self.pid} replay={path}')
                violations += 1
        elif self.broken:
            path = os.path.join(REPLAYS, f'{self.pid}-broken.json')
            json.dump({'property': self.pid, 'broken': self.broken, 'repo': repo_state(),
                       'note': 'a proof obligation or the model/implementation correspondence no longer checks; '
                               'the search (implementation vs executable specification on every explored case) found no failing input'},
                      open(path, 'w'), indent=1, default=str)
            out_lines.append(f'VIOLATION property={self.pid} replay={path} no-failing-input-found')
            violations += 1
        discharged = sum(1 for o in self.obligations if o['status'] == 'proved')
        ev = {
            'property_id': self.pid,
            'tier': self.tier,
            'seed': self.seed,
            'level': self.level,
            'coverage': {
                'obligations': len(self.obligations),
                'discharged': discharged,
                'checker_cmd': checker_cmd,
                'trusted_base': TRUSTED_BASE,
                'obligation_list': [{k: o[k] for k in ('name', 'file', 'status') if k in o} | (
                    {'assumptions': o['assumptions']} if 'assumptions' in o else {}) for o in self.obligations],
                'evaluations': self.evaluations,
                'distinct_nontrivial': len(self.distinct),
                'rule': rule,
                'samples': self.samples[:12],
                'traces_validated_against_impl': self.traces,
                'streams': self.streams,
                'translated_fragments': self.fragments,
                'broken': self.broken[:400 if self.verbose else 10],
                'known_findings_seen': sorted(seen_known),
                'repo': repo_state(),
                **self.extra,
                **_gramrun_dropped(),
            },
            'assumptions': self.assumptions,
            'wall_s': round(time.time() - self.t0, 2),
            'violations': violations,
        }
        os.makedirs(EVID, exist_ok=True)
        json.dump(ev, open(os.path.join(EVID, f'{self.pid}.json'), 'w'), indent=1, default=str)
        for l in out_lines:
            print(l)
        print(f'{self.pid} tier={self.tier} obligations={discharged}/{len(self.obligations)} '
              f'evaluations={self.evaluations} distinct={len(self.distinct)} broken={len(self.broken)} '
              f'violations={violations} wall={ev["wall_s"]}s')
        return 1 if violations else 0
