"""Fail-closed Python-`ast` -> Coq translation of the two static flag methods of every expression class
(`always_succeeds`, `can_partially_succeed` in /repo/sourcer/expressions/*.py).

The generated file Gen/FlagsGen.v defines `gen_always` and `gen_partial` over Model.expr, one clause per class, each
clause being the method body read off the CURRENT source (methods a class does not define are taken from its base class
in the package, as Python does).  Gen/TieFlags.v then proves, by induction over expressions,
    forall e, gen_always e = always e /\\ gen_partial e = partial true e
against the hand-written flag functions of Model.v - the functions the refinement theorem is about.  A change of
meaning of a flag method breaks that proof; a rewrite that keeps the meaning (reordering a conjunction, an if instead
of an and) does not, because every clause is closed by case analysis over its boolean atoms.

What the translator knows (anything else raises Untranslatable and the tie is reported as broken):
  return <bexp> | if <bexp>: return <bexp> (then the rest) | docstrings/comments
  <bexp> ::= True | False | not b | b and b | b or b | self.<flag>() | self.<child>.<flag>() |
             any/all(x.<flag>() for x in self.<children>) | all(x.expr.<flag>() for x in self.members) |
             self.<bool attribute> | not self.value (empty string) | self.<bound> falsy / == n / == 'n' |
             self.<optional child> is [not] None
How attributes are represented in Model.expr (the CLASSES table) is shared with harness/export.py, which builds the
same constructors from the same attributes of sourcer's objects.
"""
import ast
import os


class Untranslatable(Exception):
    pass


# class name, file, Coq pattern, term, attribute kinds
CLASSES = [
    ('Str', 'str.py', 'Str s sk', {'value': ('str', 's')}),
    ('Regex', 'regex.py', 'Rx id sk', {}),
    ('Byte', 'byte.py', 'Byte b sk', {}),
    ('Ref', 'ref.py', 'Ref r', {}),
    ('Seq', 'seq.py', 'Seq es', {'exprs': ('exprs', 'es')}),
    ('Discard', 'discard.py', 'Discard a b dl', {'expr1': ('expr', 'a'), 'expr2': ('expr', 'b'), 'discard_left': ('bool', 'dl')}),
    ('Choice', 'choice.py', 'Choice es', {'exprs': ('exprs', 'es')}),
    ('Opt', 'opt.py', 'Opt e0', {'expr': ('expr', 'e0')}),
    ('List', 'list.py', 'Rep e0 mn mx', {'expr': ('expr', 'e0'), 'min_len': ('bound', 'mn'), 'max_len': ('bound', 'mx')}),
    ('Expect', 'expect.py', 'Expect e0', {'expr': ('expr', 'e0')}),
    ('ExpectNot', 'expect.py', 'ExpectNot e0', {'expr': ('expr', 'e0')}),
    ('Skip', 'skip.py', 'Skip es', {'exprs': ('exprs', 'es')}),
    ('Longest', 'longest.py', 'Longest es', {'exprs': ('exprs', 'es')}),
    ('Backtrack', 'backtrack.py', 'Backtrack k', {}),
    ('Fail', 'fail.py', 'Fail', {}),
    ('Sep', 'sep.py', 'Sep e0 s0 dc tr ae rs', {'expr': ('expr', 'e0'), 'separator': ('expr', 's0'), 'discard_separators': ('bool', 'dc'),
                                                'allow_trailer': ('bool', 'tr'), 'allow_empty': ('bool', 'ae'), 'require_separator': ('bool', 'rs')}),
    ('PythonExpression', 'inline_python.py', 'Py p', {}),
    ('Apply', 'apply.py', 'Apply a b al', {'expr1': ('expr', 'a'), 'expr2': ('expr', 'b'), 'apply_left': ('bool', 'al')}),
    ('Where', 'where.py', 'Where e0 pr', {'expr': ('expr', 'e0'), 'predicate': ('expr', 'pr')}),
    ('Let', 'let.py', 'Let x sh e0 bd', {'expr': ('expr', 'e0'), 'body': ('expr', 'bd'), 'shadows': ('bool', 'sh')}),
    ('Class', 'class_.py', 'Class c ms', {'members': ('members', 'ms')}),
    ('OperatorTable', 'operator_table.py', 'OpTable pre o post inf', {'operands': ('expr', 'o'), 'prefixes': ('optexpr', 'pre'),
                                                                      'postfixes': ('optexpr', 'post'), 'infixes': ('optexpr', 'inf')}),
    ('Ref', 'ref.py', 'RefL x', {}),
    ('Call', 'call.py', 'Call cl args', {}),
]
METHODS = {'always_succeeds': 'gen_always', 'can_partially_succeed': 'gen_partial'}
ALL_MEMBERS = '((fix all_ (l : list (option nat * bool * expr)) : bool := match l with [] => true | (_, _, e_) :: l_ => {f} e_ && all_ l_ end) {v})'
ANY_MEMBERS = '((fix any_ (l : list (option nat * bool * expr)) : bool := match l with [] => false | (_, _, e_) :: l_ => {f} e_ || any_ l_ end) {v})'


def find_method(trees, cls, meth, seen=()):
    """the FunctionDef of cls.meth, following base classes inside the package"""
    node = trees.get(cls)
    if node is None or cls in seen:
        raise Untranslatable(f'class {cls} not found')
    for item in node.body:
        if isinstance(item, ast.FunctionDef) and item.name == meth:
            if item.decorator_list:
                raise Untranslatable(f'{cls}.{meth} is decorated')
            return item
        if isinstance(item, ast.Assign) and any(isinstance(t, ast.Name) and t.id == meth for t in item.targets):
            raise Untranslatable(f'{cls}.{meth} is assigned, not defined')
    if len(node.bases) != 1 or not isinstance(node.bases[0], ast.Name):
        raise Untranslatable(f'bases of {cls}')
    return find_method(trees, node.bases[0].id, meth, seen + (cls,))


class Tr:
    def __init__(self, self_term, attrs, meth):
        self.self_term, self.attrs, self.meth = self_term, attrs, meth

    def call_flag(self, fname):
        if fname not in METHODS:
            raise Untranslatable(f'method {fname}')
        if METHODS[fname] == 'gen_partial' and self.meth == 'always_succeeds':
            raise Untranslatable('always_succeeds calls can_partially_succeed')
        return METHODS[fname]

    def attr(self, e):
        """self.<attr> -> (kind, coq variable)"""
        if isinstance(e, ast.Attribute) and isinstance(e.value, ast.Name) and e.value.id == 'self' and e.attr in self.attrs:
            return self.attrs[e.attr]
        raise Untranslatable('attribute ' + ast.dump(e)[:80])

    def const_nat(self, e):
        if isinstance(e, ast.Constant) and isinstance(e.value, int) and not isinstance(e.value, bool) and 0 <= e.value < 1000:
            return e.value
        if isinstance(e, ast.Constant) and isinstance(e.value, str) and e.value.isdigit() and int(e.value) < 1000 and str(int(e.value)) == e.value:
            return int(e.value)
        raise Untranslatable('bound literal ' + ast.dump(e)[:60])

    def bexp(self, e):
        if isinstance(e, ast.Constant) and isinstance(e.value, bool):
            return 'true' if e.value else 'false'
        if isinstance(e, ast.UnaryOp) and isinstance(e.op, ast.Not):
            # truthiness of a non-boolean attribute
            try:
                kind, v = self.attr(e.operand)
            except Untranslatable:
                kind = None
            if kind == 'str':
                return f'(str_empty {v})'
            if kind == 'bound':
                return f'(bound_falsy {v})'
            if kind == 'optexpr':
                return f'(opt_none {v})'
            return f'(negb {self.bexp(e.operand)})'
        if isinstance(e, ast.BoolOp):
            op = '&&' if isinstance(e.op, ast.And) else '||'
            return '(' + f' {op} '.join(self.bexp(x) for x in e.values) + ')'
        if isinstance(e, ast.Compare) and len(e.ops) == 1:
            op, left, right = e.ops[0], e.left, e.comparators[0]
            if isinstance(op, (ast.Is, ast.IsNot)) and isinstance(right, ast.Constant) and right.value is None:
                kind, v = self.attr(left)
                if kind not in ('optexpr', 'bound'):
                    raise Untranslatable('is None on ' + kind)
                t = f'(opt_none {v})' if kind == 'optexpr' else f'(bound_none {v})'
                return t if isinstance(op, ast.Is) else f'(negb {t})'
            if isinstance(op, (ast.Eq, ast.NotEq)):
                kind, v = self.attr(left)
                if kind != 'bound':
                    raise Untranslatable('== on ' + kind)
                t = f'(bound_is {v} {self.const_nat(right)})'
                return t if isinstance(op, ast.Eq) else f'(negb {t})'
        if isinstance(e, ast.Call) and not e.keywords:
            f = e.func
            # self.flag() / self.child.flag()
            if isinstance(f, ast.Attribute) and not e.args:
                fn = self.call_flag(f.attr)
                if isinstance(f.value, ast.Name) and f.value.id == 'self':
                    if fn == METHODS[self.meth]:
                        raise Untranslatable('a flag method that calls itself')
                    return f'({fn} ({self.self_term}))'
                kind, v = self.attr(f.value)
                if kind != 'expr':
                    raise Untranslatable('flag of a ' + kind)
                return f'({fn} {v})'
            # any(...) / all(...)
            if isinstance(f, ast.Name) and f.id in ('any', 'all') and len(e.args) == 1 and isinstance(e.args[0], ast.GeneratorExp):
                g = e.args[0]
                if len(g.generators) != 1 or g.generators[0].ifs or not isinstance(g.generators[0].target, ast.Name):
                    raise Untranslatable('generator shape')
                x = g.generators[0].target.id
                kind, v = self.attr(g.generators[0].iter)
                elt = g.elt
                if not (isinstance(elt, ast.Call) and not elt.args and not elt.keywords and isinstance(elt.func, ast.Attribute)):
                    raise Untranslatable('generator element')
                fn = self.call_flag(elt.func.attr)
                tgt = elt.func.value
                if kind == 'exprs' and isinstance(tgt, ast.Name) and tgt.id == x:
                    return f'({"existsb" if f.id == "any" else "forallb"} {fn} {v})'
                if kind == 'members' and isinstance(tgt, ast.Attribute) and tgt.attr == 'expr' and isinstance(tgt.value, ast.Name) and tgt.value.id == x:
                    return (ANY_MEMBERS if f.id == 'any' else ALL_MEMBERS).format(f=fn, v=v)
                raise Untranslatable('generator over ' + kind)
        # a boolean attribute
        if isinstance(e, ast.Attribute):
            kind, v = self.attr(e)
            if kind == 'bool':
                return v
            if kind == 'str':
                return f'(negb (str_empty {v}))'
            if kind == 'bound':
                return f'(negb (bound_falsy {v}))'
            if kind == 'optexpr':
                return f'(negb (opt_none {v}))'
        raise Untranslatable('expression ' + ast.dump(e)[:100])

    def stmts(self, body):
        body = [s for s in body if not (isinstance(s, ast.Expr) and isinstance(s.value, ast.Constant) and isinstance(s.value.value, str))]
        if not body:
            raise Untranslatable('falls off the end (returns None)')
        s = body[0]
        if isinstance(s, ast.Return) and s.value is not None:
            return self.bexp(s.value)
        if isinstance(s, ast.If):
            then = self.stmts(s.body)
            if s.orelse:
                if len(body) > 1:
                    raise Untranslatable('statements after if/else')
                return f'(if {self.bexp(s.test)} then {then} else {self.stmts(s.orelse)})'
            return f'(if {self.bexp(s.test)} then {then} else {self.stmts(body[1:])})'
        raise Untranslatable('statement ' + type(s).__name__)


PRELUDE = '''(* GENERATED by harness/translate_flags.py from {repo}/sourcer/expressions/*.py - do not edit *)
From Coq Require Import List Bool Arith.
Import ListNotations.
Require Import Model.

Definition str_empty (s : list nat) : bool := match s with [] => true | _ => false end.
(* a bound is None, a number (written as an int or as its decimal text) or a name *)
Definition bound_none (b : bound) : bool := match b with BNone => true | _ => false end.
Definition bound_falsy (b : bound) : bool := match b with BNone | BLit 0 => true | _ => false end.
Definition bound_is (b : bound) (n : nat) : bool := match b with BLit m => Nat.eqb m n | _ => false end.
Definition opt_none (o : option expr) : bool := match o with None => true | Some _ => false end.

'''


def gen_flags(repo):
    """-> (coq text or None, status dict {fragment: 'translated' | reason})"""
    d = os.path.join(repo, 'sourcer', 'expressions')
    trees, status = {}, {}
    for fn in sorted(os.listdir(d)):
        if fn.endswith('.py'):
            try:
                mod = ast.parse(open(os.path.join(d, fn)).read())
            except SyntaxError as e:
                return None, {'flags': f'syntax error in {fn}: {e}'}
            for node in mod.body:
                if isinstance(node, ast.ClassDef):
                    trees[node.name] = node
    clauses = {m: [] for m in METHODS}
    for cls, fn, pat, attrs in CLASSES:
        for meth, coqname in METHODS.items():
            frag = f'{cls}.{meth}' + ('' if pat != 'RefL x' else '[local]')
            try:
                fd = find_method(trees, cls, meth)
                if [a.arg for a in fd.args.args] != ['self'] or fd.args.vararg or fd.args.kwarg or fd.args.kwonlyargs:
                    raise Untranslatable('signature')
                body = Tr(pat, attrs, meth).stmts(fd.body)
                clauses[meth].append(f'  | {pat} => {body}')
                status[frag] = 'translated'
            except Untranslatable as e:
                status[frag] = 'not translated: ' + str(e)
    if any(v != 'translated' for v in status.values()):
        return None, status
    text = PRELUDE.format(repo=repo)
    text += 'Fixpoint gen_always (e : expr) : bool :=\n  match e with\n' + '\n'.join(clauses['always_succeeds']) + '\n  end.\n\n'
    text += 'Fixpoint gen_partial (e : expr) : bool :=\n  match e with\n' + '\n'.join(clauses['can_partially_succeed']) + '\n  end.\n'
    return text, status


TIE = '''(* GENERATED: the flag methods as they stand in the source (Gen/FlagsGen.v) are the flag functions of Model.v *)
From Coq Require Import List Bool Arith.
Import ListNotations.
Require Import Model.
Require Import SV.Gen.FlagsGen.

Ltac atoms := unfold str_empty, bound_none, bound_falsy, bound_is, opt_none, mn_zero, mn_one, andb, orb, negb in *;
  repeat match goal with
         | |- context [match ?b with true => _ | false => _ end] =>
             lazymatch b with
             | match _ with true => _ | false => _ end => fail
             | _ => destruct b eqn:?
             end
         end; try reflexivity; try congruence.

Lemma tie_lists (F G : expr -> bool) (l : list expr) :
  (forall x, In x l -> F x = G x) -> existsb F l = existsb G l /\\ forallb F l = forallb G l.
Proof.
  induction l as [|x l IH]; intros H; [split; reflexivity|].
  cbn [existsb forallb]. rewrite (H x (or_introl eq_refl)).
  destruct IH as (I1 & I2); [intros y Hy; apply H; right; exact Hy|]. rewrite I1, I2. split; reflexivity.
Qed.

Lemma tie_flags : forall e, gen_always e = always e /\\ gen_partial e = partial true e.
Proof.
  fix IH 1. intros e.
  assert (Hl : forall l : list expr, (forall x, In x l -> gen_always x = always x /\\ gen_partial x = partial true x) ->
               existsb gen_always l = existsb always l /\\ forallb gen_always l = forallb always l /\\
               existsb gen_partial l = existsb (partial true) l /\\ forallb gen_partial l = forallb (partial true) l).
  { intros l H. destruct (tie_lists gen_always always l) as (A1 & A2); [intros x Hx; apply H; exact Hx|].
    destruct (tie_lists gen_partial (partial true) l) as (B1 & B2); [intros x Hx; apply H; exact Hx|]. auto. }
  destruct e as [s sk|id sk|b sk|r|es|a b dl|es|e0|e0 mn mx|e0|e0|es|es|k| |e0 s0 dc tr ae rs|p|a b al|e0 pr|x sh e0 bd|c ms|pre o post inf|x|cl args];
    cbn [gen_always gen_partial always partial].
  all: repeat match goal with o : option expr |- _ => destruct o end.
  (* the immediate sub-expressions *)
  all: repeat match goal with
              | y : expr |- _ =>
                  lazymatch goal with
                  | _ : gen_always y = always y |- _ => fail
                  | _ => let A := fresh "A" in let P := fresh "P" in destruct (IH y) as (A & P); rewrite ?A, ?P
                  end
              end.
  (* lists of sub-expressions *)
  all: try (assert (He : forall x, In x es -> gen_always x = always x /\\ gen_partial x = partial true x) by
              (clear Hl; induction es as [|y es IHes]; intros x Hx; [destruct Hx|destruct Hx as [<-|Hx]; [apply IH|apply IHes; exact Hx]]);
            destruct (Hl es He) as (L1 & L2 & L3 & L4); rewrite ?L1, ?L2, ?L3, ?L4).
  (* members of a class *)
  all: try (assert (Hm : (fix all_ (l : list (option nat * bool * expr)) : bool := match l with [] => true | (_, _, e_) :: l_ => gen_always e_ && all_ l_ end) ms
                 = (fix all (l : list (option nat * bool * expr)) : bool := match l with [] => true | (_, _, e) :: l' => always e && all l' end) ms) by
              (induction ms as [|[[n f] y] ms IHms]; [reflexivity|]; destruct (IH y) as (Ay & _); rewrite Ay, IHms; reflexivity);
            rewrite ?Hm).
  all: try (destruct mn as [|[|[|n]]|v]).
  all: cbn [bound_is bound_falsy bound_none mn_zero mn_one Nat.eqb str_empty opt_none].
  all: split; atoms.
Qed.
'''
