"""Stratified generators of grammar descriptions for the core constructs
(C01/C03/C08/C10/C04).  Expressions are small Python tuples rendered to the
grammar DSL (text mode or bytes mode)."""
import itertools

# ---- expression terms ----
# ('lit', 'a') ('ilit','a') ('rx','a+') ('byte',0x61) ('ref','X') ('fail',) ('bt',1)
# ('opt',e) ('rep',e,lo,hi) ('expect',e) ('expectnot',e) ('skip',e...) ('grp',e)
# ('seq',e...) ('right',a,b) ('left',a,b) ('alt',e...) ('longest',e...) ('sep',e,s,opts)


def render(e, mode='text'):
    b = 'b' if mode == 'bytes' else ''
    k = e[0]
    R = lambda x: render(x, mode)
    if k == 'lit':
        return f'{b}"' + e[1].replace('\\', '\\\\').replace('\n', '\\n') + '"'
    if k == 'ilit':
        return f'{b}"{e[1]}"i'
    if k == 'rx':
        return f'{b}/{e[1]}/'
    if k == 'irx':
        return f'{b}/{e[1]}/i'
    if k == 'byte':
        return f'0x{e[1]:02x}'
    if k == 'ref':
        return e[1]
    if k == 'fail':
        return 'Fail()'
    if k == 'bt':
        return f'Backtrack({e[1]})'
    if k == 'py':
        return f'`{e[1]}`'
    if k == 'opt':
        return f'Opt({R(e[1])})'
    if k == 'optq':
        return f'({R(e[1])})?'
    if k == 'rep':
        lo, hi = e[2], e[3]
        if lo is None and hi is None:
            op = '*'
        elif lo == 1 and hi is None:
            op = '+'
        elif lo == hi:
            op = '{%s}' % lo
        else:
            op = '{%s,%s}' % ('' if lo is None else lo, '' if hi is None else hi)
        return f'({R(e[1])}){op}'
    if k == 'expect':
        return f'Expect({R(e[1])})'
    if k == 'expectnot':
        return f'ExpectNot({R(e[1])})'
    if k == 'skip':
        return 'Skip(' + ', '.join(R(x) for x in e[1:]) + ')'
    if k == 'grp':
        return f'({R(e[1])})'
    if k == 'seq':
        return '[' + ', '.join(R(x) for x in e[1:]) + ']'
    if k == 'right':
        return f'(({R(e[1])}) >> ({R(e[2])}))'
    if k == 'left':
        return f'(({R(e[1])}) << ({R(e[2])}))'
    if k == 'alt':
        return '(' + ' | '.join('(' + R(x) + ')' for x in e[1:]) + ')'
    if k == 'longest':
        return 'Longest(' + ', '.join(R(x) for x in e[1:]) + ')'
    if k == 'sep':
        d, t, ae, rs = e[3]
        if d and ae and not rs:
            return f'(({R(e[1])}) {"/?" if t else "//"} ({R(e[2])}))'
        kw = []
        if not d:
            kw.append('discard_separators=`False`')
        kw.append(f'allow_trailer=`{t}`')
        if not ae:
            kw.append('allow_empty=`False`')
        if rs:
            kw.append('require_separator=`True`')
        return f'Sep({R(e[1])}, {R(e[2])}, {", ".join(kw)})'
    if k == 'apply':
        return f'(({R(e[1])}) |> ({R(e[2])}))'
    if k == 'applyl':
        return f'(({R(e[1])}) <| ({R(e[2])}))'
    if k == 'where':
        return f'(({R(e[1])}) where ({R(e[2])}))'
    if k == 'let':
        return f'(let {e[1]} = {R(e[2])} in {R(e[3])})'
    raise ValueError(e)


def nullable(e, rules=None):
    """may succeed without consuming (conservative: True when unsure)"""
    k = e[0]
    if k == 'lit':
        return e[1] == ''
    if k == 'ilit':
        return e[1] == ''
    if k in ('rx', 'irx'):
        return e[1] in ('b?', 'a*', '', '$') or e[1].endswith('*') or e[1].endswith('?') or e[1].endswith('$') or e[1].startswith('(?')
    if k in ('byte', 'fail'):
        return False
    if k == 'ref':
        return (rules or {}).get(e[1], False)
    if k in ('bt', 'opt', 'optq', 'expect', 'expectnot', 'skip', 'py'):
        return True
    if k == 'rep':
        return e[2] in (None, 0) or nullable(e[1], rules)
    if k == 'grp':
        return nullable(e[1], rules)
    if k in ('seq', 'right', 'left', 'apply', 'applyl'):
        return all(nullable(x, rules) for x in e[1:] if isinstance(x, tuple)) or has_bt(e)
    if k in ('alt', 'longest'):
        return any(nullable(x, rules) for x in e[1:])
    if k == 'sep':
        return e[3][2] or nullable(e[1], rules)
    if k == 'where':
        return nullable(e[1], rules)
    if k == 'let':
        return (nullable(e[2], rules) and nullable(e[3], rules)) or has_bt(e)
    return True


def has_bt(e):
    if not isinstance(e, tuple):
        return False
    if e[0] == 'bt':
        return True
    return any(has_bt(x) for x in e[1:])


def well_formed(e, rules=None):
    """no repetition of something that can succeed without consuming"""
    k = e[0]
    subs = [x for x in e[1:] if isinstance(x, tuple) and x and isinstance(x[0], str)]
    if not all(well_formed(x, rules) for x in subs):
        return False
    # Backtrack moves the position backwards: under any loop it can undo the progress of the iteration
    if k == 'rep':
        # an element that can match the empty string is fine under an UPPER bound (the repetition runs to the bound);
        # without one both the specification and the generated code diverge
        return (not nullable(e[1], rules) or e[3] is not None) and not has_bt(e)
    if k == 'skip':
        # an item that matches without consuming has skipped nothing (Skip goes on with the next item): allowed
        return not has_bt(e)
    if k == 'sep':
        return not nullable(e[1], rules) and not has_bt(e)
    return True


LEAVES = [('lit', 'a'), ('lit', 'b'), ('lit', 'ab'), ('lit', 'aa'), ('lit', ''), ('ilit', 'a'),
          ('rx', 'a+'), ('rx', '[ab]'), ('rx', 'b?'), ('byte', 0x61), ('ref', 'X'), ('fail',), ('bt', 1)]
SMALL = [('lit', 'a'), ('lit', 'ab'), ('rx', '[ab]'), ('ref', 'X'), ('rx', 'b?'), ('fail',)]
BOUNDS = [(None, None), (1, None), (2, 2), (1, 2), (None, 2), (2, None), (0, 1), (3, 3)]
SEPOPTS = [(d, t, ae, rs) for d in (True, False) for t in (True, False) for ae in (True, False)
           for rs in (True, False) if not (rs and not t)]


def unaries(e, bounds=BOUNDS):
    yield ('opt', e)
    for lo, hi in bounds:
        yield ('rep', e, lo, hi)
    yield ('expect', e)
    yield ('expectnot', e)
    yield ('skip', e)


def binaries(a, b, sepopts=((True, False, True, False), (True, True, True, False), (False, False, False, False))):
    yield ('seq', a, b)
    yield ('right', a, b)
    yield ('left', a, b)
    yield ('alt', a, b)
    yield ('longest', a, b)
    yield ('skip', a, b)
    for o in sepopts:
        yield ('sep', a, b, o)


def contexts(E, K):
    """contexts that decide on a flag whether to restore the position, with a
    continuation K that tells 'restored' from 'not restored'"""
    yield ('alt', E, K)
    yield ('seq', ('opt', E), K)
    yield ('seq', ('rep', E, None, None), K)
    yield ('seq', ('expect', E), K)
    yield ('seq', ('expectnot', E), K)
    yield ('seq', ('skip', E), K)
    yield ('longest', E, K)
    yield ('seq', ('sep', E, ('lit', 'c'), (True, False, True, False)), K)
    yield ('seq', ('sep', ('lit', 'c'), E, (True, False, True, False)), K)
    yield ('alt', ('seq', E, ('lit', 'c')), K)
    yield ('seq', ('rep', ('seq', E, ('lit', 'c')), None, None), K)
    yield ('alt', ('rep', E, 2, 2), K)
    yield ('alt', ('seq', ('lit', 'a'), E), K)


CONTS = [('lit', 'ab'), ('rx', '[abc]+'), ('lit', 'a')]

AUX = {'text': 'X = "a" | "ba"', 'bytes': 'X = b"a" | b"ba"'}
RULES_NULLABLE = {'X': False}


def depth2():
    out = list(LEAVES)
    for l in LEAVES:
        out += list(unaries(l))
    for a in SMALL:
        for b in SMALL:
            out += list(binaries(a, b))
    return out


def describe(e, mode='text', ignore=None):
    d = f'start = {render(e, mode)}\n{AUX[mode]}\n'
    if ignore:
        d += ignore + '\n'
    return d


def texts(alphabet='abc', maxlen=4, extra=('A', 'aA', 'Ab')):
    out = ['']
    for n in range(1, maxlen + 1):
        out += [''.join(p) for p in itertools.product(alphabet, repeat=n)]
    return out + list(extra)
