"""Export of what sourcer thinks a grammar is (the expression objects after all
grammar-level rewriting) into the model's s-expression syntax, together with
the values Python returns for always_succeeds()/can_partially_succeed() at
every node.  Fail-closed: an unknown class, attribute or inline-Python text
raises ExportError (a correspondence break, never a guess)."""
import re


class ExportError(Exception):
    pass


class Names:
    def __init__(self):
        self.names, self.classes = {}, {}

    def nm(self, x):
        return self.names.setdefault(x, len(self.names) + 1)

    def cl(self, x):
        return self.classes.setdefault(x, len(self.classes) + 1)


def codes(s):
    return list(s) if isinstance(s, bytes) else [ord(c) for c in s]


def bound(x, N):
    if x is None:
        return 'none'
    if isinstance(x, int) and not isinstance(x, bool):
        return ['lit', x]
    if isinstance(x, str):
        x = x.strip()            # a bound written as inline Python: blanks around the expression mean nothing
    if isinstance(x, str) and x.isdigit():
        return ['lit', int(x)]
    if isinstance(x, str) and x.isidentifier():
        return ['var', N.nm(x)]
    raise ExportError(f'bound {x!r}')


def pyexpr(src, N, user_names=()):
    src = src.strip()
    if src in user_names and src.isidentifier():
        return ['var', N.nm(src)]        # a user binder that happens to be spelled like a builtin
    if src == 'None':
        return 'pnone'
    if src == 'True':
        return 'ptrue'
    if src == 'False':
        return 'pfalse'
    if src.isdigit():
        return ['num', int(src)]
    fns = {'int': 'int', 'len': 'len', 'bool': 'bool', 'tuple': 'tuple'}
    if src in fns:
        return ['fn', fns[src]]
    if src.isidentifier():
        return ['var', N.nm(src)]
    m = re.fullmatch(r'lambda (\w+): (\w+) == (\w+)', src)
    if m and m.group(1) == m.group(2) and m.group(3) != m.group(1):
        return ['fn', ['eqvar', N.nm(m.group(3))]]
    m = re.fullmatch(r'lambda (\w+): len\((\w+)\) > len\((\w+)\)', src)
    if m and m.group(1) == m.group(2) and m.group(3) != m.group(1):
        return ['fn', ['lengtvar', N.nm(m.group(3))]]
    if re.fullmatch(r'lambda (\w+): \1 % 2', src):
        return ['fn', 'odd']
    m = re.fullmatch(r'lambda _: len\((\w+)\) == (\w+)', src)
    if m:
        return ['fn', ['kleneq', N.nm(m.group(1)), N.nm(m.group(2))]]
    m = re.fullmatch(r'lambda _: (\w+)', src)
    if m:
        return ['fn', ['kvar', N.nm(m.group(1))]]
    m = re.fullmatch(r'lambda x: \((\d+), (\d+), x\)', src)
    if m:
        return ['fn', ['tag3', int(m.group(1)), int(m.group(2))]]
    m = re.fullmatch(r'lambda x: \((\d+), x\)', src)
    if m:
        return ['fn', ['tag2', int(m.group(1))]]
    m = re.fullmatch(r'(\w+) \+ 1', src)
    if m:
        return ['succ', N.nm(m.group(1))]
    # requires-forms: `len(xs) == n` appears as lambda _: len(xs) == n (handled above)
    raise ExportError(f'inline python outside the closed vocabulary: {src!r}')


KNOWN_ATTRS = {
    'Str': {'value', 'skip_ignored', 'num_blocks', 'program_id'},
    'Regex': {'pattern', 'skip_ignored', 'ignore_case', 'program_id'},
    'Byte': {'value', 'skip_ignored', 'num_blocks', 'program_id'},
    'Ref': {'name', 'is_local', '_resolved', 'program_id'},
    'Seq': {'exprs', 'names', 'needs_parse_info', 'constructor', 'constructor_args', 'program_id'},
    'Discard': {'expr1', 'expr2', 'discard_left', 'program_id'},
    'Choice': {'exprs', 'program_id'},
    'Opt': {'expr', 'program_id'},
    'List': {'expr', 'min_len', 'max_len', 'program_id', 'local_names', '_underflow'},
    'Expect': {'expr', 'program_id'},
    'ExpectNot': {'expr', 'program_id'},
    'Skip': {'exprs', 'program_id'},
    'Longest': {'exprs', 'program_id'},
    'Backtrack': {'amount', 'program_id'},
    'Fail': {'message', 'program_id'},
    'Sep': {'expr', 'separator', 'discard_separators', 'allow_trailer', 'allow_empty', 'require_separator', 'program_id'},
    'PythonExpression': {'source_code', 'program_id', 'local_names'},
    'Apply': {'expr1', 'expr2', 'apply_left', 'program_id'},
    'Where': {'expr', 'predicate', 'program_id'},
    'Let': {'name', 'expr', 'body', 'shadows', 'program_id'},
    'Call': {'func', 'args', 'program_id'},
    'OperatorTable': {'operand_str', 'row_strs', 'prefixes', 'operands', 'postfixes', 'infixes', 'num_blocks', 'program_id'},
    'Rule': {'name', 'params', 'expr', 'is_ignored', 'is_omitted', 'program_id', 'is_field'},
    'Class': {'name', 'params', 'members', 'is_ignored', 'extra_id', 'program_id'},
}


class Exporter:
    def __init__(self, rules, lenient=False):
        # lenient: unknown attributes are tolerated.  Used ONLY to search for a failing input after the strict export
        # has failed (the tie is reported as broken in any case).
        self.lenient = lenient
        self.N = Names()
        self.rules = rules
        self.rule_index = {r.name: i for i, r in enumerate(rules)}
        self.rx = []          # (pattern, ignore_case)
        self.funs = []        # lifted argument functions: [params, body]
        self.flags = []       # (always, partial) in preorder of the exported nodes, per rule
        self.user_names = set()

    def _collect_user_names(self, x):
        """names bound by lets, class members and parameters anywhere in the grammar"""
        if isinstance(x, (list, tuple)):
            for y in x:
                self._collect_user_names(y)
            return
        if not hasattr(x, '__dict__') or type(x).__module__.split('.')[0] != 'sourcer':
            return
        n = type(x).__name__
        if n == 'Let':
            self.user_names.add(x.name)
        if n in ('Rule', 'Class') and getattr(x, 'params', None):
            self.user_names.update(x.params)
        if n == 'Class':
            self.user_names.update(m.name for m in x.members if m.name)
        for v in vars(x).values():
            if isinstance(v, (list, tuple)) or hasattr(v, '__dict__'):
                self._collect_user_names(v)

    def chk(self, e):
        n = type(e).__name__
        known = KNOWN_ATTRS.get(n)
        if known is None:
            raise ExportError(f'unknown expression class {n}')
        # _helper_calls_rules: bookkeeping of the code generator about a helper function it has emitted (not semantics)
        extra = set(vars(e)) - known - {'_helper_calls_rules'}
        if extra and not self.lenient:
            raise ExportError(f'{n} has unknown attributes {sorted(extra)}')
        return n

    def flag(self, e, acc):
        acc.append((bool(e.always_succeeds()), bool(e.can_partially_succeed())))

    def rule_ref(self, name):
        name = name[5:] if name.startswith('_try_') else name
        if name not in self.rule_index:
            raise ExportError(f'reference to unknown rule {name}')
        return self.rule_index[name]

    def ex(self, e, acc):
        n = self.chk(e)
        N = self.N
        self.flag(e, acc)
        L = lambda xs: [self.ex(x, acc) for x in xs]
        if n == 'Str':
            return ['Str', codes(e.value), bool(e.skip_ignored)]
        if n == 'Regex':
            key = (e.pattern, bool(e.ignore_case))
            if key not in self.rx:
                self.rx.append(key)
            return ['Rx', self.rx.index(key), bool(e.skip_ignored)]
        if n == 'Byte':
            return ['Byte', e.value, bool(e.skip_ignored)]
        if n == 'Ref':
            if e.is_local:
                return ['RefL', N.nm(e.name)]
            if e.name.startswith('super.') or '.' in e.resolved:
                raise ExportError(f'qualified reference {e.name}')
            return ['Ref', self.rule_ref(e.name)]
        if n == 'Seq':
            if e.constructor is not None:
                raise ExportError('Seq with constructor outside a class')
            if any(x is not None for x in e.names):
                raise ExportError('Seq with names outside a class')
            return ['Seq', L(e.exprs)]
        if n in ('Choice', 'Longest', 'Skip'):
            return [n, L(e.exprs)]
        if n == 'Discard':
            return ['Discard', self.ex(e.expr1, acc), self.ex(e.expr2, acc), bool(e.discard_left)]
        if n in ('Opt', 'Expect', 'ExpectNot'):
            return [n, self.ex(e.expr, acc)]
        if n == 'List':
            return ['Rep', self.ex(e.expr, acc), bound(e.min_len, N), bound(e.max_len, N)]
        if n == 'Backtrack':
            return ['Backtrack', e.amount]
        if n == 'Fail':
            return 'Fail'
        if n == 'Sep':
            return ['Sep', self.ex(e.expr, acc), self.ex(e.separator, acc), bool(e.discard_separators),
                    bool(e.allow_trailer), bool(e.allow_empty), bool(e.require_separator)]
        if n == 'PythonExpression':
            return ['Py', pyexpr(e.source_code, N, self.user_names)]
        if n == 'Apply':
            return ['Apply', self.ex(e.expr1, acc), self.ex(e.expr2, acc), bool(e.apply_left)]
        if n == 'Where':
            return ['Where', self.ex(e.expr, acc), self.ex(e.predicate, acc)]
        if n == 'Let':
            return ['Let', N.nm(e.name), bool(e.shadows), self.ex(e.expr, acc), self.ex(e.body, acc)]
        if n == 'OperatorTable':
            o = lambda x: 'none' if x is None else self.ex(x, acc)
            pre = o(e.prefixes)
            opd = self.ex(e.operands, acc)
            return ['OpTable', pre, opd, o(e.postfixes), o(e.infixes)]
        if n == 'Call':
            f = e.func
            if type(f).__name__ != 'Ref':
                raise ExportError('call of a non-reference')
            callee = ['local', N.nm(f.name)] if f.is_local else ['rule', self.rule_ref(f.name)]
            args = []
            for a in e.args:
                kw = type(a).__name__ == 'KeywordArg'
                x = a.expr if kw else a
                k = N.nm(a.name) if kw else 'none'
                t = type(x).__name__
                if t == 'Ref' and not x.is_local:
                    av = ['rule', self.rule_ref(x.name)]
                elif t == 'Ref':
                    av = ['local', N.nm(x.name)]
                elif t == 'PythonExpression':
                    av = ['py', pyexpr(x.source_code, N, self.user_names)]
                elif t == 'Str':
                    av = ['strlit', codes(x.value), bool(x.skip_ignored)]
                else:
                    fv = sorted(x.freevars())
                    sub = []
                    body = self.ex(x, sub)      # flags of lifted bodies are not compared positionally
                    self.funs.append([[N.nm(v) for v in fv], body])
                    av = ['fun', len(self.funs) - 1, [N.nm(v) for v in fv]]
                args.append([k, av])
            return ['Call', callee, args]
        raise ExportError(f'unsupported {n}')

    def rule(self, r):
        n = self.chk(r)
        acc = []
        self.user_names = set()             # binders are scoped per generated rule function
        self._collect_user_names(r)
        params = [self.N.nm(p) for p in (r.params or [])]
        if n == 'Class':
            ms = []
            for m in r.members:
                if type(m).__name__ != 'Rule':
                    raise ExportError('class member is not a Rule')
                name = self.N.nm(m.name) if m.name else 'none'
                isfield = bool(m.name) and not m.is_omitted
                ms.append([name, isfield, self.ex(m.expr, acc)])
            body = ['Class', self.N.cl(r.name), ms]
            flags = [(bool(r.always_succeeds()), bool(r.can_partially_succeed()))] + acc
        elif n == 'Rule':
            body = self.ex(r.expr, acc)
            flags = acc
        else:
            raise ExportError(f'top-level {n}')
        self.flags.append(flags)
        return [params, body]

    def export(self):
        rules = [self.rule(r) for r in self.rules]
        ignored = self.rule_index.get('_ignored', None)
        return {'rules': rules, 'funs': self.funs, 'rx': self.rx, 'flags': self.flags,
                'ignored': 'none' if ignored is None else ignored,
                'rule_names': [r.name for r in self.rules],
                'classes': dict(self.N.classes), 'names': dict(self.N.names)}
