"""C05 — bound names and data-dependent predicates see the values parsed earlier."""
import itertools
import random

from .. import core, gramrun, gen_core as G

PRELUDE = r'''
D = /\d/
N = /\d/ |> `int`
W = /[ab]+/
class K { d: D; w: W }
class C { let n: N; pass ":"; xs: /[ab]/{n}; requires `len(xs) == n`; m: `n + 1` }
class Z { o: Opt("a") }
class R { head: D; rest: Opt(R) }
Rpt(item, k) = item{k}
Id(e) = e
Sh(x) = Id([(let x = D in `x`), `x`])
Tw(D) = [D, D]
class Cp(N) { xs: "a"{N}; rest: W? }
class F { n: N; ws: Rpt(/[ab]/, n); let m: N; more: Opt(Rpt(item="!", k=m)) }
'''
VARS = ['x', 'y', 'n']


def gen_expr(rnd, depth, scope, allow_shadow):
    leaves = ['"a"', '"b"', 'D', 'N', 'W', 'K', 'C', 'Z', '"ab"', 'R']
    for v in scope:
        leaves.append(f'`{v}`')
    if depth == 0:
        return rnd.choice(leaves)
    k = rnd.randrange(17)
    sub = lambda sc=scope: gen_expr(rnd, depth - 1, sc, allow_shadow)
    if k == 0 or k == 16:
        cands = VARS if allow_shadow else [v for v in VARS if v not in scope]
        if not cands:
            return sub()
        v = rnd.choice(cands)
        kind = rnd.choice('si')
        src = 'N' if kind == 'i' else rnd.choice(['D', 'W', '"a"'])
        sc2 = dict(scope)
        sc2[v] = kind
        return f'(let {v} = {src} in {sub(sc2)})'
    if k == 1:
        ints = [v for v, kk in scope.items() if kk == 'i']
        if ints:
            v = rnd.choice(ints)
            form = rnd.choice(['{%s}', '{%s,}', '{,%s}', '{1,%s}'])
            return f'({rnd.choice(["D", "W", chr(34) + "a" + chr(34), "K"])}){form % v}'
        return f'({rnd.choice(["D", "K", chr(34) + "a" + chr(34)])}){{2}}'
    if k == 2:
        strs = [v for v, kk in scope.items() if kk == 's']
        if strs:
            v = rnd.choice(strs)
            return f'({rnd.choice(["D", "W", chr(34) + "a" + chr(34)])} where `lambda v: v == {v}`)'
        return '(N where `lambda v: v % 2`)'
    if k == 3:
        return f'({rnd.choice(["D", "/\\\\d+/"])} |> `int`)'
    if k == 4:
        return f'(`len` <| {rnd.choice(["W", "D*", "W*"])})'
    if k == 5:
        return f'({sub()} |> `bool`)'
    if k == 6:
        return f'[{sub()}, {sub()}]'
    if k == 7:
        return f'({sub()} | {sub()})'
    # (a bare inline-Python operand of a constructor form is read as an option value — the documented exception of the
    #  grammar language — so such operands are put into a sequence)
    wrap_py = lambda x: f'[{x}]' if x.startswith('`') else x
    if k == 8:
        return f'Opt({wrap_py(sub())})'
    if k == 9:
        return f'({sub()} >> {sub()})'
    if k == 10:
        return f'({sub()} << {sub()})'
    if k == 11:
        return f'({rnd.choice(["D", "K", "N", chr(34) + "a" + chr(34), "C"])})*'
    if k == 12:
        return f'Expect({wrap_py(sub())})'
    if k == 13:
        return f'({rnd.choice(["D", "K", "W"])} // ",")'
    if k == 14:
        return '((D*) |> `tuple`)'
    return f'ExpectNot({wrap_py(sub())})'


FIXED = [
    # predicates whose value is truthy but not True (any number, e.g. 3): only truth matters, also when the `where` is
    # the last thing its rule / alternative / class evaluates
    r'/[ab]*/ where `len`',
    r'(/[ab]*/ where `len`) | /\d+/',
    r'let x = W in Opt(/[ab]*/ where `len`)',
    r'[N where `lambda v: v % 2`, Opt(W where `len`)]',
    r'(let x = D in ["a", `x`]) | (let x = /\d\d/ in ["b", `x`])',
    r'(let n = N in "a"{n})*',
    r'let x = W in [":" , W where `lambda v: v == x`]',
    r'let x = W in [":" , W where `lambda v: len(v) > len(x)`]',
    r'[K, K] | [K, "!"]',
    r'C+',
    r'[D, Z]', r'Z', r'R',
    r'(let x = D in [`x`, "a"]) | (let y = D in [`y`, "b"])',
    r'[(let x = D in `x`), (let y = W in `y`)]*',
    r'let n = N in [("a"{n} | "b"{n}), `n`]',
    r'(let x = "a" in [`x`, "b"]) | (let x = "a" in [`x`, "a"])',
    # a class field used as a bare argument of a template (its value is passed)
    r'F', r'F+', r'[F, Opt(K)]',
    # a predicate that is false after its operand - written directly as a literal or a regular expression - has
    # consumed input: the next alternative, the end of a repetition, the continuation start where the operand started
    r'let x = W in [":", ("ab" where `lambda v: v == x`) | /[ab]+/]',
    r'let x = W in [":", (/[ab]/ where `lambda v: v == x`)*, /[ab]*/]',
    r'let x = W in [":", (/[ab]+/ where `lambda v: len(v) > len(x)`) | /[ab]/, /[ab]*/]',
    r'let x = W in [":", (/[ab]/ where `lambda v: v == x`){1,2}, /[ab]*/]',
    r'let x = W in [":", Opt(/[ab]+/ where `lambda v: v == x`), /[ab]*/]',
    r'let x = W in [":", Skip(/[ab]/ where `lambda v: v == x`), /[ab]*/]',
    r'let x = W in [":", ((/[ab]/ where `lambda v: v == x`) // ","), /[ab,]*/]',
    r'let x = W in [":", Expect(/[ab]+/ where `lambda v: v == x`) | /[ab]/, /[ab]*/]',
    r'let x = W in [":", ((/[ab]+/ |> `len`) where `lambda v: v % 2`) | /[ab]/, /[ab]*/]',
    r'let x = W in [":", ((/[ab]+/ << Opt(",")) where `lambda v: v == x`) | /[ab]/, /[ab,]*/]',
]
def shadow_recovery_stratum():
    """a let that shadows an outer binding whose BODY fails, the failure being recovered by a later alternative, an
    option or the end of a repetition, after which the outer name is used again (inline read, predicate, count)"""
    out = []
    outers = [('let x = D in {b}', 'x', 's'), ('let n = N in {b}', 'n', 'i')]
    for outer, v, kind in outers:
        inner_src = 'N' if kind == 'i' else 'W'
        inners = [f'(let {v} = {inner_src} in "!")', f'(let {v} = {inner_src} in ["-", "!"])',
                  f'(let {v} = {inner_src} in (let {v} = {inner_src} in "!"))']
        uses = [f'`{v}`'] + ([f'"a"{{{v}}}', f'(N where `lambda q: q == {v}`)'] if kind == 'i' else [f'(D where `lambda q: q == {v}`)', f'(W where `lambda q: len(q) > len({v})`)'])
        for inner in inners:
            recoveries = [f'({inner} | /[0-9ab]*/)', f'Opt({inner})', f'({inner})*', f'[Opt({inner}), /[0-9ab]*/]',
                          f'(Expect({inner}) | "")', f'ExpectNot({inner})']
            for rec in recoveries:
                for use in uses:
                    out.append(outer.format(b=f'[{rec}, {use}]'))
                    out.append(outer.format(b=f'[{rec}, "-"?, {use}, {use}]'))
    return out


SHADOW_FIXED = [
    r'let x = "a" in [(let x = "b" in `x`), `x`]',
    r'let x = D in [(let x = W in `x`)*, `x`]',
    # the name is re-bound inside the expression that gives it its value: there it is not bound yet (unless further out)
    r'let x = (let x = N in `x + 1`) in [`x`, W?]',
    r'let x = W in [(let x = (let x = N in `x + 1`) in `x`), `x`]',
    r'let x = (let x = D in (let x = `x` in `x`)) in [`x`, (let x = W in `x`)?, `x`]',
    r'[(let x = (let x = N in "a"{x}) in `x`)*, W?]',
    # a re-binding let inside a COMPOUND ARGUMENT of a call (such an argument is compiled on its own): the outer binding
    # - a let, a parameter - is back in force after it
    r'let x = W in Id([(let x = D in `x`), `x`])',
    r'let x = W in [Id([(let x = D in `x`)*, `x`]), `x`]',
    r'Sh(`7`)',
    r'let n = N in Id([(let n = N in "a"{n}), "b"{n}])',
    r'let x = W in Rpt([(let x = D in `x`), `x`], `1`)',
    # a parameter or a let variable NAMED LIKE A RULE of the grammar: inside the body the name is the bound value
    r'Tw(W)', r'Tw("a")', r'[Tw(W), D]', r'Cp(`2`)', r'[Cp(`1`), Cp(`2`)]',
    r'let N = `2` in ["a"{N}, `N`]', r'let D = "a" in [D, D, `D`]', r'let W = N in Rpt("a", W)',
]
CLASS_FIXED = [
    ('class T { a: "a"; b: (let a = "b" in `a`); c: `a` }', 'T', True),
    ('class T { a: D; let b: W; pass ":"; c: `a`; requires `len(b) == len(b)` }' if False else 'class T { a: D; let b: W; pass ":"; c: `b` }', 'T', False),
    ('class T { n: N; xs: "a"{n}; requires `len(xs) == n` }', 'T', False),
    ('class T { let n: N; xs: (let n = N in "a"{n}); m: `n` }', 'T', True),
]
TEXTS = [''.join(p) for L in range(0, 4) for p in itertools.product('12ab', repeat=L)] + ['aaa', 'aab1', 'abab', '3aaa', '1aaa', 'aaaaa'] + \
        ['2:ab', '2:a', '1:ab', '12b', '1a', 'ab:ab', 'ab:abb', 'a:b', '2aa1a0', '1a2b', '1,2', '1a,2b,', '1a1a', '1a1a!',
         '1ab', '12a', '21b', '1a2', '2ab2', '2bb2', '2ab1', '123', 'aab', 'aaa', '1:a2:ab', '3:aba', '1a:a', '1a:b', '11',
         '23ab', '23aa', '12a', '13a', '2ab-1', '1ab1', '1a!1', '12!2', '12-!1', '21a', '22aa', '212aa', '1abab', '1aab', '2ab!ab', \
        'a:ab', 'a:aab', 'a:ba', 'ab:abab', 'b:aab', 'a:a,a,b', 'ab:a', 'ab:aba', 'a:b,a', 'b:bba', 'a:abb', 'ab:ab,ab']


def shadows(ex):
    """Is the scoping hypothesis of the theorem (Refine.wf) falsified?  It demands that a
    let carries the translator's `shadows` flag exactly when its name is in the static
    scope (outer lets, parameters, EARLIER CLASS FIELDS), and that no class member re-binds
    a name in scope.
    -> None | 'let-flag-missing' (outer let / parameter) | 'let-flag-missing-class-field'
       | 'let-flag-spurious' | 'member-rebinds'"""
    def go(x, sc, fields):
        if not (isinstance(x, list) and x and isinstance(x[0], str)):
            if isinstance(x, list):
                for y in x:
                    r = go(y, sc, fields)
                    if r:
                        return r
            return None
        k = x[0]
        if k == 'Let':
            if (x[1] in sc) and not x[2]:
                return 'let-flag-missing'
            if (x[1] in fields) and not x[2]:
                return 'let-flag-missing-class-field'
            if (x[1] not in sc) and (x[1] not in fields) and x[2]:
                return 'let-flag-spurious'
            return go(x[3], sc, fields) or go(x[4], sc | {x[1]}, fields - {x[1]})
        if k == 'Class':
            cur = set(fields)
            for name, isf, e in x[2]:
                r = go(e, sc, cur)
                if r:
                    return r
                if name != 'none':
                    if name in cur or name in sc:
                        return 'member-rebinds'
                    cur = cur | {name}
            return None
        for y in x[1:]:
            r = go(y, sc, fields)
            if r:
                return r
        return None
    for params, body in ex['rules']:
        r = go(body, set(params), set())
        if r:
            return r
    return None


def jobs_for(tier, rnd):
    jobs, gid = [], 0
    n = 1000 if tier == 'quick' else 12000
    descs = [('start = ' + e + '\n' + PRELUDE, 'fixed') for e in FIXED]
    descs += [('start = ' + e + '\n' + PRELUDE, 'shadow-fixed') for e in SHADOW_FIXED]
    descs += [('start = ' + e + '\n' + PRELUDE, 'shadow-recovery') for e in shadow_recovery_stratum()]
    for cd, name, sh in CLASS_FIXED:
        descs.append((cd + '\nstart = ' + name + '+\n' + PRELUDE, 'class-fixed'))
    # `requires` given a bare name, a name of an omitted field, and in the middle of a class
    for cd in ('class Q { let f: Opt("a"); requires f; y: D }', 'class Q { f: /[ab]/; requires `f`; y: Opt(D) }',
               'class Q { n: N; requires n; xs: "a"{n} }'):
        descs.append((cd + '\nstart = Q+\n' + PRELUDE, 'class-fixed'))
    while len(descs) < n:
        allow = rnd.random() < 0.25
        descs.append(('start = ' + gen_expr(rnd, rnd.choice([1, 2, 2, 3, 3]), {}, allow) + '\n' + PRELUDE,
                      'random-shadowing-allowed' if allow else 'random-no-shadow'))
    for d, stratum in descs:
        jobs.append((gid, d, TEXTS, {'stratum': stratum}))
        gid += 1
    return jobs


def mechanism_of(r, case, ix, ms):
    why = shadows(r['ex'])
    if case.get('model_agrees') and why == 'let-flag-missing-class-field':
        return 'class-field-rebound-by-nested-let'
    return 'scoping'


RENAMED_LOCALS = [
    # (grammar with a local named like one of its rules, the same grammar with the local under a name of its own, inputs):
    # which binder a name refers to is decided by the translator's scope analysis - judged here on the implementation
    # alone, by renaming the local
    ('Tv(D) = [D, D]\nstart = Tv(W) | Tv(D)\n', 'Tv(zq) = [zq, zq]\nstart = Tv(W) | Tv(D)\n', ['ab', 'aba', '12', 'a1', '']),
    ('Bo(it) = [it, it]\nTv(D) = Bo(D)\nstart = Tv(W) | Tv(D)\n', 'Bo(it) = [it, it]\nTv(zq) = Bo(zq)\nstart = Tv(W) | Tv(D)\n', ['ab', '12', 'a1', '']),
    ('class Cq(N) { xs: "a"{N}; rest: W? }\nstart = [Cq(`1`), Cq(`2`)]\n', 'class Cq(zq) { xs: "a"{zq}; rest: W? }\nstart = [Cq(`1`), Cq(`2`)]\n', ['aaa', 'aaab', 'aa', '']),
    ('start = let N = `2` in ["a"{N}, `N`]\n', 'start = let zq = `2` in ["a"{zq}, `zq`]\n', ['aa', 'a', 'aaa', '']),
    ('Ap(W, D) = [W, D("x")]\nOne(q) = q\nstart = Ap("a", One) | Ap(D, One)\n', 'Ap(zq, zr) = [zq, zr("x")]\nOne(q) = q\nstart = Ap("a", One) | Ap(D, One)\n', ['ax', '1x', 'abx', '']),
    ('class K2 { W: D; tail: Rpt("a", W)? }\nstart = K2\n', 'class K2 { zq: D; tail: Rpt("a", zq)? }\nstart = K2\n', ['2aa', '1a', '1', '']),
]


def renamed_locals(R):
    import sys
    sys.path.insert(0, core.REPO)
    from sourcer import Grammar
    from .c11 import outcome
    for a, b, texts in RENAMED_LOCALS:
        R.count('locals-named-like-rules', a, nontrivial=True)
        try:
            ga, gb = Grammar(a + PRELUDE), Grammar(b + PRELUDE)
        except Exception as e:                  # noqa
            R.counterexample('locals-named-like-rules', 'grammar-rejected:' + type(e).__name__, {'grammar': a, 'renamed': b}, 'two grammar modules', str(e)[:150])
            continue
        for t in texts:
            oa, ob = outcome(ga, t), outcome(gb, t)
            oa = oa.replace('W=', 'zq=').replace('N=', 'zq=')
            if oa != ob:
                R.counterexample('locals-named-like-rules', 'local-named-like-a-rule-means-the-rule', {'grammar': a, 'renamed': b, 'text': t}, ob, oa)
                break
        else:
            R.traces += 1


def run(R):
    R.build()
    R.prove('Props/C05.v')
    from ..flagtie import regen_and_tie_flags
    regen_and_tie_flags(R)       # the flag methods of the current source, translated, equal Model.always / Model.partial
    renamed_locals(R)
    rnd = random.Random(R.seed)
    jobs = jobs_for(R.tier, rnd)
    R.extra['grammars'] = len(jobs)
    nshadow = nabandoned = 0
    for i in range(0, len(jobs), 1500):
        recs = gramrun.run_grammars(jobs[i:i + 1500])
        gramrun.compare(R, recs, 'env', mechanism_of, reject_is_violation=True)
        for r in recs:
            if 'ex' not in r:
                continue
            why = shadows(r['ex'])
            R.count('shadow-flag-placement', r['desc'])
            if why:
                nshadow += 1
            if why in ('let-flag-missing', 'let-flag-spurious'):
                R.counterexample('shadow-flag-placement', 'translator-shadow-flag:' + why, {'grammar': r['desc']},
                                 'a let is marked as shadowing exactly when its name is bound by an enclosing let or parameter', why)
    R.extra['grammars_with_shadowing'] = nshadow
    R.assumptions += ['inline Python from a closed vocabulary (int, len, bool, tuple, comparisons with bound names, n + 1)',
                      'names used are bound on every path (unbound names: the specification makes no claim)']
    return R.finish(
        rule='fixed scoping scenarios (a name bound to different values in two alternatives, bindings under repetition and '
             'recursion, class fields incl. let/pass/requires, data-dependent counts and predicates) + random expressions of depth '
             '<= 3 over let/where/|>/<|/counts/classes; inputs: all strings over {1,2,a,b} up to length 3 plus targeted ones; '
             'non-trivial = agreement with the model and not failing at offset 0',
        checker_cmd='cd /verif/coq && make -f Makefile.coq && coqc -R . SV Props/C05.v')
