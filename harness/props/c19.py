"""C19 — alternative spellings of the grammar language are interchangeable."""
import itertools
import random

from .. import core, gramrun, gen_core as G


def render(e, style, rnd=None):
    """style 'sugar' or 'ctor' (the documented constructor spellings)"""
    k = e[0]
    R = lambda x: render(x, style, rnd)
    if style == 'sugar' or k in ('lit', 'ilit', 'rx', 'byte', 'ref', 'fail', 'bt', 'py'):
        if k in ('lit', 'ilit', 'rx', 'byte', 'ref', 'fail', 'bt', 'py'):
            return G.render(e)
        if k == 'opt':
            return f'({R(e[1])})?'
        if k == 'rep':
            lo, hi = e[2], e[3]
            op = '*' if (lo, hi) == (None, None) else '+' if (lo, hi) == (1, None) else ('{%s}' % lo if lo == hi else '{%s,%s}' % ('' if lo is None else lo, '' if hi is None else hi))
            return f'({R(e[1])}){op}'
        if k == 'seq':
            return '[' + ', '.join(R(x) for x in e[1:]) + ']'
        if k == 'right':
            return f'(({R(e[1])}) >> ({R(e[2])}))'
        if k == 'left':
            return f'(({R(e[1])}) << ({R(e[2])}))'
        if k == 'alt':
            return '(' + ' | '.join('(' + R(x) + ')' for x in e[1:]) + ')'
        if k == 'sep':
            return f'(({R(e[1])}) {"/?" if e[3][1] else "//"} ({R(e[2])}))'
    else:
        if k == 'opt':
            return f'Opt({R(e[1])})'
        if k == 'rep':
            lo, hi = e[2], e[3]
            if (lo, hi) == (None, None):
                return f'List({R(e[1])})'
            if (lo, hi) == (1, None):
                return f'Some({R(e[1])})'
            kw = []
            if lo is not None:
                kw.append(f'min_len={lo}')
            if hi is not None:
                kw.append(f'max_len={hi}')
            return f'List({R(e[1])}, {", ".join(kw)})'
        if k == 'seq':
            return 'Seq(' + ', '.join(R(x) for x in e[1:]) + ')'
        if k == 'right':
            return f'Right({R(e[1])}, {R(e[2])})'
        if k == 'left':
            return f'Left({R(e[1])}, {R(e[2])})'
        if k == 'alt':
            return 'Choice(' + ', '.join(R(x) for x in e[1:]) + ')'
        if k == 'sep':
            return f'Sep({R(e[1])}, {R(e[2])}' + (', allow_trailer=True' if e[3][1] else '') + ')'
    if k == 'expect':
        return f'Expect({R(e[1])})'
    if k == 'expectnot':
        return f'ExpectNot({R(e[1])})'
    if k == 'skip':
        return 'Skip(' + ', '.join(R(x) for x in e[1:]) + ')'
    if k == 'longest':
        return 'Longest(' + ', '.join(R(x) for x in e[1:]) + ')'
    raise ValueError(e)


def terms(rnd, n):
    leaves = [('lit', 'a'), ('lit', 'b'), ('rx', '[ab]'), ('ref', 'X'), ('lit', 'ab')]

    def gen(d):
        if d == 0 or rnd.random() < 0.2:
            return rnd.choice(leaves)
        k = rnd.choice(['opt', 'star', 'plus', 'rep', 'seq', 'right', 'left', 'alt', 'sep', 'sept', 'expect'])
        if k == 'opt':
            return ('opt', gen(d - 1))
        if k in ('star', 'plus', 'rep'):
            x = gen(d - 1)
            while G.nullable(x, G.RULES_NULLABLE):
                x = rnd.choice([l for l in leaves])
            return ('rep', x, *{'star': (None, None), 'plus': (1, None), 'rep': rnd.choice([(1, 2), (2, 2), (None, 2), (2, None)])}[k])
        if k == 'seq':
            return ('seq', gen(d - 1), gen(d - 1))
        if k in ('right', 'left'):
            return (k, gen(d - 1), gen(d - 1))
        if k == 'alt':
            # operands that are themselves choices flatten with `|` but nest with Choice(): same meaning, different object;
            # they are compared by behaviour only
            return ('alt', gen(d - 1), gen(d - 1))
        if k in ('sep', 'sept'):
            x = gen(d - 1)
            while G.nullable(x, G.RULES_NULLABLE):
                x = rnd.choice(leaves)
            return ('sep', x, rnd.choice([('lit', ','), ('rx', '[,;]')]), (True, k == 'sept', True, False))
        return ('expect', gen(d - 1))
    return [gen(rnd.choice([1, 2, 2, 3])) for _ in range(n)]


def layouts(body_expr, rnd):
    """the same grammar in different character-level spellings"""
    aux = 'X = "a" | "ba"'
    eq = rnd.choice(['=', ':', '=>'])
    eq2 = rnd.choice(['=', ':', '=>'])
    ign = rnd.choice(['ignore', 'ignored'])
    variants = []
    variants.append(f'start = {body_expr}\n{aux}\n')                                    # reference
    variants.append(f'start {eq} {body_expr}; X {eq2} "a" | "ba"\n')                    # ; as separator
    variants.append(f'# a comment\n\nstart {eq} {body_expr}   # trailing comment\n\n\nX {eq2} "a" | "ba"\n\n')
    variants.append(f'start {eq} ({body_expr})\nX {eq2} ("a") | (("ba"))\n')            # redundant parentheses
    variants.append(f'start {eq}\n    {body_expr}\nX {eq2} "a"\n    | "ba"\n')          # line breaks around operators
    variants.append(f'{body_expr}\n' if 'X' not in body_expr else f'start = {body_expr}\n{aux}\n')   # bare expression
    return variants, ign


def bracket_layouts(body_expr, rnd):
    """line breaks and comments INSIDE brackets: after the opening bracket, around commas, and between the last item and
    the closing bracket (with and without a comment or a trailing comma there); parameter lists likewise"""
    eq = rnd.choice(['=', ':', '=>'])
    aux = 'X = "a" | "ba"\nT(p, q) = [q, p]'
    b = body_expr
    return [
        f'start = [{b}, X, T(X, "b")]\n{aux}\n',                                                          # reference
        f'start {eq} [\n    {b},\n    X,\n    T(X, "b")\n]\n{aux}\n',
        f'start {eq} [{b}, X, T(X, "b")  # the last item\n]\n{aux}\n',
        f'start {eq} Seq(\n    {b},\n    X,\n    T(\n        X,\n        "b"\n    )\n)\n{aux}\n',
        f'start {eq} [\n{b}\n,\nX\n,\nT(X, "b" # second argument\n)\n,\n]\n{aux}\n',
        f'start {eq} [{b}, X, T(X, "b")]\nX = "a" | "ba"\nT(\n    p,\n    q\n) = [\n    q, p\n]\n',
        f'start {eq} [{b}, X, T(X, "b")]\nX = "a" | "ba"\nT(p, q # the second\n) = [q, p # swapped\n]\n',
    ]


OPS = [('|', 5), ('|>', 4), ('<|', 4), ('where', 4), ('<<', 3), ('>>', 3), ('//', 2), ('/?', 2)]


def flat_expr(rnd):
    """operands and binary operators without parentheses + the grouping the property dictates"""
    n = rnd.randrange(2, 5)
    opds = [rnd.choice(['"a"', '"b"', 'X', '/[ab]/', '"a"+', '"ab"']) for _ in range(n)]
    ops = [rnd.choice([o for o in OPS if o[0] not in ('|>', '<|', 'where')]) for _ in range(n - 1)]
    flat = opds[0]
    for o, x in zip(ops, opds[1:]):
        flat += f' {o[0]} {x}'
    # precedence climbing from the property's wording: smaller level binds tighter, all left-associative
    def build(lo, hi, maxlev):
        # operands lo..hi (inclusive) joined by ops lo..hi-1
        if lo == hi:
            return opds[lo]
        lev = max(ops[i][1] for i in range(lo, hi))
        # split at the LAST operator of the loosest level (left associativity)
        idx = max(i for i in range(lo, hi) if ops[i][1] == lev)
        return f'({build(lo, idx, lev)} {ops[idx][0]} {build(idx + 1, hi, lev)})'
    return flat, build(0, n - 1, 9)


def same_export(a, b):
    ra, rb = a['rules'], b['rules']
    if len(rb) == 1 and len(ra) > 1:
        ra = ra[:1]                 # a bare expression has no auxiliary rule: compare the start rule
    return core.sx(ra) == core.sx(rb) and a['ignored'] == b['ignored']


def run(R):
    R.build()
    R.prove('Props/C19.v')
    rnd = random.Random(R.seed)
    quick = R.tier == 'quick'
    TX = G.texts('ab,', 4, extra=('ab,ab', 'a;b', 'a,b,', 'aaaa', 'abab'))
    jobs, groups, gid = [], [], 0

    def add_group(kind, descs, texts=TX, structural=True):
        nonlocal gid
        ids = []
        for d in descs:
            jobs.append((gid, d, texts, {}))
            ids.append(gid)
            gid += 1
        groups.append((kind, ids, structural))
    for e in terms(rnd, 250 if quick else 5000):
        if not G.well_formed(e, G.RULES_NULLABLE):
            continue
        s, c = render(e, 'sugar'), render(e, 'ctor')
        nested_choice = any(x[0] == 'alt' and any(isinstance(y, tuple) and y[0] == 'alt' for y in x[1:]) for x in walk(e))
        add_group('sugar-vs-constructor', [f'start = {s}\nX = "a" | "ba"\n', f'start = {c}\nX = "a" | "ba"\n'], structural=not nested_choice)
    # every form of literal bounds, one- and several-digit values, valid and invalid pairs (both spellings must be
    # accepted or rejected alike and then count alike)
    vals = [None, 0, 1, 2, 3, 9, 10, 11, 12, 100]
    runs = ['a' * k for k in range(0, 14)] + ['a' * 99, 'a' * 100, 'a' * 101, 'aab', 'b']
    for lo in vals:
        for hi in vals:
            if (lo, hi) == (None, None):
                continue
            for elem in ([('lit', 'a')] if quick else [('lit', 'a'), ('rx', '[ab]'), ('ref', 'X')]):
                e = ('rep', elem, lo, hi)
                add_group('sugar-vs-constructor', [f'start = {render(e, "sugar")}\nX = "a" | "ba"\n',
                                                   f'start = {render(e, "ctor")}\nX = "a" | "ba"\n'], texts=runs)
    # constructor forms with NO operand (the empty sequence), alone and inside other forms
    for a, b in (('[]', 'Seq()'), ('["a", [], "b"]', 'Seq("a", Seq(), "b")'), ('"a" >> []', 'Right("a", Seq())'), ('("x" | [])', 'Choice("x", Seq())'),
                 ('[[], "a"]?', 'Opt(Seq(Seq(), "a"))'), ('X >> [] << X', 'Left(Right(X, Seq()), X)')):
        add_group('sugar-vs-constructor', [f'start = {a}\nX = "a" | "ba"\n', f'start = {b}\nX = "a" | "ba"\n'], texts=['', 'a', 'ab', 'x', 'aa', 'baa'], structural=False)
    # bounds that are NAMES (a let variable, a template parameter): both spellings, every form
    for lo, hi in (('n', 'n'), (None, 'n'), ('n', None), (1, 'n'), ('n', 3), (0, 'n'), ('n', 'm')):
        e = ('rep', ('lit', 'a'), lo, hi)
        nruns = [d + r for d in ('0', '1', '2', '3') for r in ('', 'a', 'aa', 'aaa', 'aaaa', 'ab')]
        for wrap in ('start = let n = N in let m = `n + 1` in [{b}, /[ab]*/]\nN = /[0-9]/ |> `int`\n',
                     'start = let k = N in T(k, `k + 1`)\nT(n, m) = [{b}, /[ab]*/]\nN = /[0-9]/ |> `int`\n'):
            add_group('sugar-vs-constructor', [wrap.format(b=render(e, 'sugar')), wrap.format(b=render(e, 'ctor'))], texts=nruns, structural=False)
    for e in terms(rnd, 60 if quick else 1000):
        if not G.well_formed(e, G.RULES_NULLABLE):
            continue
        vs, ign = layouts(render(e, 'sugar'), rnd)
        add_group('layout', vs)
        add_group('layout-brackets', bracket_layouts(render(e, 'sugar'), rnd))
        add_group('ignore-keyword', [f'start = {render(e, "sugar")}\nX = "a" | "ba"\nignore " "\n',
                                      f'start = {render(e, "sugar")}\nX = "a" | "ba"\nignored " "\n',
                                      f'ignored Sp = " "\nstart = {render(e, "sugar")}\nX = "a" | "ba"\n'],
                  texts=[t.replace(',', ' ') for t in TX], structural=False)
    # = : => in class fields (plain and let fields), rule definitions, let expressions and keyword arguments
    seps3 = [':', '=', '=>']
    descs = []
    for e1 in seps3:
        for e2 in seps3:
            for e3 in seps3:
                descs.append(f'class P {{\n    x {e1} "a"\n    let y {e2} "b"?\n    z {e3} /[ab]*/\n}}\nstart {e3} P\n')
    add_group('definition-symbols', descs, texts=['ab', 'a', 'abab', '', 'ba', 'aab'], structural=True)
    descs = []
    for e1 in seps3:
        for e2 in seps3:
            descs.append(f'start = let n {e1} "a" in W(y {e2} "b", x {e1} n)\nW(x, y) {e2} [x, y]\n')
    add_group('definition-symbols', descs, texts=['ab', 'a', 'abab', '', 'ba'], structural=True)
    # a bare expression versus `start = expr`, also when the expression BEGINS with inline Python (which is a statement
    # form of the grammar language as well)
    for e in ['`1` >> "a"', '`None` >> ("a" | "b")', '[`1`, "a"]', '"a" >> `1`', '`1`', '("a")', '"a" | "b"', '"a"* << "b"', '/[ab]+/ |> `len`',
              'let n = `1` in "a"{n}', '`2` >> "a"{2}']:
        add_group('bare-expression', [f'start = {e}\n', f'{e}\n', f'{e}'], texts=['', 'a', 'b', 'aa', 'ab', 'aab'], structural=False)
    for _ in range(150 if quick else 3000):
        flat, grouped = flat_expr(rnd)
        add_group('grouping', [f'start = {flat}\nX = "a" | "ba"\n', f'start = {grouped}\nX = "a" | "ba"\n'])
    recs = gramrun.run_grammars(jobs, chunk=20)
    gramrun.compare(R, recs, 'spellings', lambda r, c, g, w: 'peg-semantics')
    byid = {r['gid']: r for r in recs}
    for kind, ids, structural in groups:
        rs = [byid[i] for i in ids]
        R.count('equivalent-' + kind, rs[0]['desc'], nontrivial=True)
        errs = [r.get('grammar_error') for r in rs]
        if 'unconfirmed-timeout' in errs:
            continue                        # machine load, not an observation
        if any(errs):
            if not all(errs):
                R.counterexample('equivalent-' + kind, 'one-spelling-is-rejected:' + kind,
                                 {'spellings': [r['desc'] for r in rs]}, 'all spellings accepted', errs)
            continue
        ref = rs[0]
        for r in rs[1:]:
            if structural and not same_export(ref['ex'], r['ex']):
                R.counterexample('equivalent-' + kind, 'spellings-elaborate-differently:' + kind,
                                 {'a': ref['desc'], 'b': r['desc']}, core.sx(ref['ex']['rules'])[:300], core.sx(r['ex']['rules'])[:300])
                continue
            for ca, cb in zip(ref['cases'], r['cases']):
                if ca[5] != cb[5] and not (ca[5].startswith('(done false') and cb[5].startswith('(done false')):
                    R.counterexample('equivalent-' + kind, 'spellings-behave-differently:' + kind,
                                     {'a': ref['desc'], 'b': r['desc'], 'text': ca[0]}, ca[5], cb[5])
                    break
            else:
                R.traces += 1
    # the Expr table of grammar.txt has the rows the Coq constant tbExpr assumes
    import sys
    sys.path.insert(0, core.REPO)
    from sourcer import parser as metaparser
    tree = metaparser.parse(open(core.REPO + '/grammar.txt').read())
    rows = None
    for stmt in tree.body:
        if getattr(stmt, 'name', None) == 'Expr':
            op = stmt.expr.operator
            rows = [(r.associativity, len(r.operators)) for r in op.rows]
    R.count('expr-table', 'rows', nontrivial=True)
    want = ['mixfix', 'postfix', 'postfix', 'left', 'left', 'left', 'left', 'postfix']
    if rows is None or [a for a, _ in rows] != want:
        R.counterexample('expr-table', 'expr-table-of-grammar-txt-changed', {'file': 'grammar.txt'}, want, rows)
    R.assumptions += ['the constructor forms are excepted for operands that are bare inline Python (read as option values): not generated',
                      '`a | b` flattens nested choices while Choice(a, b) nests them: such pairs are compared by behaviour, not by structure']
    return R.finish(
        rule='random expressions rendered with the operator/postfix spellings and with the constructor spellings; whole grammars rendered '
             'with = : =>, ; vs newline, comments, blank lines, redundant parentheses, line breaks around operators, bare expression; '
             'ignore vs ignored; unparenthesised operator chains vs the grouping the property dictates; judged by equality of the '
             'exported expression objects and of the behaviour on all inputs over {a,b,","} up to length 4',
        checker_cmd='cd /verif/coq && make -f Makefile.coq && coqc -R . SV Props/C19.v')


def walk(e):
    yield e
    for x in e[1:]:
        if isinstance(x, tuple) and x and isinstance(x[0], str):
            yield from walk(x)
