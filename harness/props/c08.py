"""C08 — parse has exactly three outcomes, fixed by the start rule's match."""
import random

from .. import core, gramrun, gen_core as G

PRELUDE = '''D = /\\d/
W = /[ab]+/
class K { d: D; w: W }
class Z { o: Opt("a") }
class E {}
class P { k: K; rest: [Z, "1"]* }
Nil = []
'''
REFS = [('ref', x) for x in ('K', 'Z', 'E', 'D', 'W', 'P', 'Nil')]
NULLABLE = {'K': False, 'Z': True, 'E': True, 'D': False, 'W': False, 'P': False, 'Nil': True}


def exprs(rnd, n):
    out = list(REFS)
    for a in REFS:
        out += [('opt', a), ('expect', a), ('expectnot', a), ('seq', a), ('seq',)]
        if not NULLABLE[a[1]]:
            out += [('rep', a, None, None), ('rep', a, 1, None), ('rep', a, 0, 2), ('sep', a, ('lit', '\n'), (True, False, True, False))]
        for b in REFS:
            out += [('seq', a, b), ('alt', a, b), ('left', a, b), ('right', a, b), ('longest', a, b)]
    rnd.shuffle(out)
    return out[:n]


def shift_ok(e):
    return not G.has_bt(e)


def jobs_for(tier, rnd):
    jobs, gid = [], 0
    TX = G.texts('1a\n', 4 if tier == 'quick' else 5, extra=('1ab', '1a1b', 'a1a', '1ab\n1a', 'b', 'ab1a'))
    es = exprs(rnd, 140 if tier == 'quick' else 100000)
    for e in es:
        d = 'start = ' + G.render(e) + '\n' + PRELUDE
        jobs.append((gid, d, TX, {'entries': 'all', 'positions': [0, 1, 2, 3, 4, 5], 'fulls': [True, False], 'stratum': 'classes'}))
        gid += 1
    # core shapes through the module-level parse(), both fullparse values
    d2 = [e for e in G.depth2() if G.well_formed(e, G.RULES_NULLABLE) and not any(x[0] == 'byte' for x in walk(e))]
    rnd.shuffle(d2)
    for e in d2[:250 if tier == 'quick' else len(d2)]:
        jobs.append((gid, G.describe(e, 'text'), G.texts('abc', 3), {'positions': [0, 1, 2], 'fulls': [True, False],
                                                                     'module_level': True, 'stratum': 'core-module-level'}))
        gid += 1
    return jobs


def walk(e):
    yield e
    for x in e[1:]:
        if isinstance(x, tuple) and x and isinstance(x[0], str):
            yield from walk(x)


def mechanism_of(r, case, got, want):
    if got.startswith('(exc'):
        return 'exception-escapes:' + got[5:-1].split(':')[0]
    return 'parse-outcome'


# grammars whose predicates answer with numbers, strings or lists instead of booleans (the verdict is their truth value;
# whatever the number, the outcome of parse is one of the three)
PREDICATED = [
    (None, 'start = Word\nWord = /[ab]*/ where `len`\n', ['Word'], 'ab!'),
    (None, 'start = Counted+\nclass Counted { tag: /[ab]/; count: /[0-9]/ |> `int`; requires count }\n', ['Counted'], 'a032'),
    (None, 'start = W+\nW = /[ab]+!?/ where `lambda s: s.count("a")`\n', ['W'], 'ab!'),
    (None, 'start = (Ws where `lambda xs: xs`) << "!"\nWs = /[ab]/*\n', ['Ws'], 'ab!'),
    (None, 'start = N+\nN = /[0-9]/ |> `int` where `lambda n: n - 1`\n', ['N'], '0123'),
    (None, 'start = P\nclass P { a: /[ab]*/; let n: "" |> `lambda _: 3`; requires `len(a) * n // 3` }\n', ['P'], 'ab!'),
]
DERIVED = [
    ('grammar c08b\nstart = Item+\nItem = Word | Num\nWord = /[a-z]+/\nNum = /[0-9]/\nclass K { w: Word; n: Num }\n',
     'grammar c08c extends c08b\noverride Word = /[A-Z]+/\nBang = "!"\nclass Q { k: K; b: Bang }\nPairs = (Item // ",")\n',
     ['start', 'Item', 'Word', 'Num', 'K', 'Bang', 'Q', 'Pairs'], 'aA1!,'),
    ('grammar c08d\nignore " "\nstart = T*\nT = "x" | N\nN = /[0-9]+/\n',
     'grammar c08e extends c08d\noverride T = "y" | N | Par\nPar = "(" >> start << ")"\nclass E {}\n',
     ['start', 'T', 'N', 'Par', 'E'], 'xy1( )'),
]
# chains of three grammars, with the same grammar written without inheritance: an entry point inherited from the
# grandparent is fixed by the rule's match IN THE DERIVED GRAMMAR (its overrides included)
CHAINS = [
    (['grammar c08f\nstart = Pair+\nPair = [Item, Item]\nItem = "a"\nSolo = Item << "!"?\n',
      'grammar c08g extends c08f\nExtra = "!" >> Item\n'],
     'grammar c08h extends c08g\noverride Item = "c"\nMore = Pair | Extra\n',
     ['start', 'Pair', 'Item', 'Solo', 'Extra', 'More'], 'ac!',
     'start = Pair+\nPair = [Item, Item]\nItem = "c"\nSolo = Item << "!"?\nExtra = "!" >> Item\nMore = Pair | Extra\n'),
    (['grammar c08i\nignore " "\nstart = L\nL = (W // ",")\nW = /[ab]+/\n',
      'grammar c08j extends c08i\noverride W = /[abc]+/ | Q\nQ = "(" >> L << ")"\n'],
     'grammar c08k extends c08j\noverride Q = "[" >> L << "]"\n',
     ['start', 'L', 'W', 'Q'], 'ac,[] ',
     'ignore " "\nstart = L\nL = (W // ",")\nW = /[abc]+/ | Q\nQ = "[" >> L << "]"\n'),
]


def derived_stream(R):
    """grammars that extend another: every rule and class of the derived module (own, overridden, inherited) as entry
    point, judged by the property's own three-outcome rule (the two fullparse values must tell the same story)"""
    import itertools
    import sys
    sys.path.insert(0, core.REPO)
    from sourcer import Grammar

    def call(g, entry, t, pos, full):
        f = g.parse if entry is None else getattr(g, entry).parse
        try:
            return ('return', repr(f(t, pos, full)))
        except g.PartialParseError as e:
            return ('partial', repr(e.partial_result), e.last_position.index)
        except g.ParseError as e:
            return ('error', e.position.index)
        except Exception as e:                  # noqa
            return ('exception', type(e).__name__)
    for base, child, entries, alpha, flat in [x + (None,) for x in DERIVED + PREDICATED] + CHAINS:
        try:
            for b in (base if isinstance(base, list) else [base]):
                if b is not None:
                    Grammar(b)
            g = Grammar(child)
            gflat = Grammar(flat) if flat else None
        except Exception as e:                  # noqa
            R.counterexample('derived', 'derived-grammar-rejected', {'base': base, 'child': child}, 'a module', repr(e)[:200])
            continue
        texts = ['']
        for n in range(1, 4 if len(alpha) > 4 else 5):
            texts += [''.join(p) for p in itertools.product(alpha, repeat=n)]
        for entry in [None] + entries:
            for t in texts:
                for pos in range(0, len(t) + 1):
                    nf, fu = call(g, entry, t, pos, False), call(g, entry, t, pos, True)
                    case = {'base': base, 'child': child, 'entry': entry or 'parse', 'text': t, 'pos': pos}
                    R.count('derived', (child, entry, t, pos), nontrivial=nf[0] == 'return')
                    bad = None
                    if gflat is not None:
                        want = (call(gflat, entry, t, pos, False), call(gflat, entry, t, pos, True))
                        if want != (nf, fu):
                            R.counterexample('derived', 'entry-point-differs-from-the-grammar-without-inheritance', dict(case, flat=flat),
                                             {'fullparse=False': want[0], 'fullparse=True': want[1]}, {'fullparse=False': nf, 'fullparse=True': fu})
                            continue
                    if nf[0] == 'exception' or fu[0] == 'exception':
                        R.counterexample('derived', 'exception-escapes:' + (nf[1] if nf[0] == 'exception' else fu[1]), case,
                                         'return / PartialParseError / ParseError', {'fullparse=False': nf, 'fullparse=True': fu})
                        continue
                    if nf[0] == 'return':
                        ok = (fu == nf) or (fu[0] == 'partial' and fu[1] == nf[1] and pos <= fu[2] < len(t))
                    elif nf[0] == 'error':
                        ok = fu == nf and pos <= nf[1] <= len(t)
                    else:
                        ok = False
                    if not ok:
                        R.counterexample('derived', 'three-outcomes', case, 'the two fullparse values tell the same story',
                                         {'fullparse=False': nf, 'fullparse=True': fu})
                    else:
                        R.traces += 1


def parameterised_entries(R):
    """C.parse(args) for a parameterised class is an entry point like any other, whatever the arguments are (numbers,
    tuples, lists, dicts, sets, None): same outcome as a start rule that instantiates the class with those arguments"""
    import sys
    sys.path.insert(0, core.REPO)
    from sourcer import Grammar
    CLS = 'class Rep(n, xs) {\n    items: "a"{n}\n    tail: /b*/ where `lambda t: len(t) == len(xs)`\n}\n'

    def call(f, g, t, pos, full):
        try:
            return ('return', repr(f()(t, pos, full)))
        except g.PartialParseError as e:
            return ('partial', repr(e.partial_result), e.last_position.index)
        except g.ParseError as e:
            return ('error', e.position.index)
        except Exception as e:                  # noqa
            return ('exception', type(e).__name__)
    g = Grammar('start = Rep(`1`, `()`)\n' + CLS)
    for n, xs in [(1, (1, 2)), (2, [1, 2]), (1, {'k': 1}), (0, []), (1, {1, 2}), (2, None), (1, 'bb'), (1, [[1], [2]]), (1, ([1], 2))]:
        if xs is None:
            continue
        ref = Grammar(f'start = Rep(`{n!r}`, `{xs!r}`)\n' + CLS)
        for t in ('', 'a', 'ab', 'abb', 'aabb', 'aab', 'b', 'abbb', 'abb!'):
            for pos in (0, 1):
                for full in (True, False):
                    got = call(lambda: g.Rep.parse(n, xs), g, t, pos, full)
                    want = call(lambda: ref.parse, ref, t, pos, full)
                    R.count('parameterised-entry', (n, repr(xs), t, pos, full), nontrivial=want[0] == 'return')
                    if got != want:
                        mech = 'exception-escapes:' + got[1] if got[0] == 'exception' else 'parameterised-entry-differs-from-instantiation'
                        R.counterexample('parameterised-entry', mech, {'grammar': CLS, 'call': f'Rep.parse({n!r}, {xs!r})({t!r}, {pos}, {full})'}, want, got)
                    else:
                        R.traces += 1


def run(R):
    R.build()
    R.prove('Props/C08.v')
    rnd = random.Random(R.seed)
    jobs = jobs_for(R.tier, rnd)
    R.extra['grammars'] = len(jobs)
    kinds = {}
    for i in range(0, len(jobs), 400):
        recs = gramrun.run_grammars(jobs[i:i + 400], chunk=8)
        gramrun.compare(R, recs, 'entry', mechanism_of, reject_is_violation=True)
        # distribution of parse() outcomes + the shift law, on the implementation
        for r in recs:
            if r.get('model') is None:
                continue
            for (text, rxt, entry, pos, full, ix, ip) in r['cases']:
                k = ip.split(' ')[0]
                kinds[k] = kinds.get(k, 0) + 1
    R.extra['parse_outcome_kinds'] = kinds
    derived_stream(R)
    parameterised_entries(R)
    R.assumptions += ['inline Python of the generated grammars does not raise', 'regular expressions without anchors/lookbehind (oracle tables)']
    return R.finish(
        rule='grammars with classes (consuming, zero-width, empty), empty sequences and rules combined by '
             'sequence/choice/option/repetition/lookahead; EVERY rule and class is used as entry point (R.parse / C.parse) and '
             'the module-level parse(); inputs: all strings over {1,a,newline} up to length 4 incl. the empty input, every start '
             'offset 0..len, both values of fullparse; non-trivial = agreement with the model and not failing at offset 0',
        checker_cmd='cd /verif/coq && make -f Makefile.coq && coqc -R . SV Props/C08.v')
