"""C17 — nesting depth never changes meaning or exhausts the Python stack."""
import random
import sys

from .. import core, gramrun

PRELUDE = 'X = "a" | "b"\nPair(x) = [x, x]\nclass K { v: /[ab]/ }\n'
INNERS = [('literal', '"a"', ''), ('rule', 'X', ''), ('regex', '/[ab]/', ''), ('template-call', 'Pair("a")', ''),
          ('class', 'K', ''), ('parameter-as-parser', 'x', 'TEMPLATE'), ('sequence-of-rules', '[X, X]', ''),
          ('choice', '("zz" | X)', ''), ('inline-read', '[`q`]', 'let q = /[ab]/ in '),
          ('count-read', '"a"{n}', 'let n = `1` in '),
          ('padded-inline-read', '[` q\t `, "a"{` n `}]', 'let n = `1` in let q = /[ab]/ in '),
          ('empty-literal', '""', ''), ('case-insensitive-literal', '"A"i', ''), ('lookahead', 'Expect("a") >> "a"', ''),
          ('repetition', '"a"+', ''),
          # a let that re-binds a name of the enclosing scope (it saves and restores the outer value)
          ('shadowing-let', '(let q = /[ab]/ in `q`)', 'let q = /[ab]/ in '),
          ('shadowing-let-of-parameter', '[(let x = /[ab]/ in `x`), x]', 'TEMPLATE'), ('separated', '("a" // "b")', ''), ('fail', 'Fail()', ''),
          # literals that spell Python keywords of the generated code (the helper's text contains them, it calls no rule)
          ('keyword-literal', '"yield"', ''), ('keyword-choice', '("await" | "yield" | "return")', ''),
          # rule references in parts that are never compiled or never run: after an alternative that always succeeds,
          # under a zero count
          ('dead-alternative', '(Opt("a") | X)', ''), ('dead-alternative-sugar', '("a"? | X)', ''), ('zero-count-rule', 'X{0}', ''),
          ('dead-alternative-in-sequence', '[("" | X), Opt("b")]', '')]
# bytes mode: every literal kind of a binary grammar
BPRELUDE = 'X = b"a" | b"b"\nPair(x) = [x, x]\nclass K { v: b/[ab]/ }\n'
BINNERS = [('byte', '0x61', ''), ('bytes-literal', 'b"a"', ''), ('bytes-regex', 'b/[ab]/', ''), ('bytes-rule', 'X', ''),
           ('byte-sequence', '[0x61, 0x62]', ''), ('bytes-class', 'K', ''), ('empty-bytes-literal', 'b""', '')]
WRAPPERS = {
    'seq': lambda e: f'[{e}]',
    'group': lambda e: f'({e})',
    'opt': lambda e: f'Opt({e})',
    'choice-failing-branch': lambda e: f'("zz" | {e})',
    'fail-or': lambda e: f'(Fail() | {e})',
    'right': lambda e: f'("" >> {e})',
}
MIXES = [['seq', 'opt'], ['seq', 'choice-failing-branch', 'group'], ['opt', 'fail-or', 'seq', 'right']]
TEXTS = ['a', 'aa', 'b', 'ab', '', 'ba', 'c', 'a ', ' a', ' a a ', 'yield', 'yield ', 'return', 'yiel']


def wrap(inner, kinds, depth, bytes_mode=False):
    e = inner
    for i in range(depth):
        k = kinds[i % len(kinds)]
        if bytes_mode and k == 'choice-failing-branch':
            e = f'(b"zz" | {e})'
        elif bytes_mode and k == 'right':
            e = f'(b"" >> {e})'
        else:
            e = WRAPPERS[k](e)
    return e


def jobs_for(tier, rnd):
    depths = [1, 2, 3, 5, 8] + list(range(10, 26)) + [30, 40, 60, 90, 120] if tier == 'quick' else list(range(1, 60)) + [70, 80, 90, 100, 120, 150]
    jobs, gid = [], 0
    combos = [[k] for k in WRAPPERS] + MIXES
    for (iname, inner, prefix) in INNERS:
        for kinds in combos:
            for d in depths:
                if (tier == 'quick' and (gid * 7 + d) % 3 and d not in (12, 13, 14, 15, 16, 18, 20, 22)) or \
                        (tier != 'quick' and (gid * 7 + d) % 2 and not 10 <= d <= 26):
                    gid += 1
                    continue
                for named in (False, True):
                    for ign in (False, True):
                        if tier == 'quick' and named != ign and d % 2:
                            continue
                        head = f'grammar c17g{gid}n{int(ign)}\n' if named else ''
                        if prefix == 'TEMPLATE':
                            body = 'start = W("a")\nW(x) = ' + wrap(inner, kinds, d)
                        else:
                            body = 'start = ' + prefix + wrap(inner, kinds, d)
                        desc = head + body + '\n' + PRELUDE + ('ignore " "\n' if ign else '')
                        jobs.append((len(jobs), desc, TEXTS, {'fuel': 4 * d + 60, 'inner': iname, 'wrappers': '+'.join(kinds), 'depth': d}))
                gid += 1
    # two textually identical deep subexpressions in which a name means different things (a rule / a parameter)
    for kinds in combos[:3] + MIXES:
        for d in depths:
            if tier == 'quick' and d not in (1, 10, 15, 16, 17, 18, 20, 25, 40):
                continue
            for named in (False, True):
                for order in (0, 1):
                    inner = '("<" >> word << ">")'
                    rules = [f'Plain = {wrap(inner, kinds, d)}', f'Quoted(word) = {wrap(inner, kinds, d)}']
                    head = f'grammar c17s{gid}o{order}\n' if named else ''
                    desc = head + 'start = [Plain, Quoted(num)]\n' + '\n'.join(rules[::-1] if order else rules) + '\nword = /[a-z]+/\nnum = /[0-9]+/ |> `int`\n'
                    jobs.append((len(jobs), desc, ['<abc><123>', '<abc><abc>', '<1><2>', '', '<abc>', '<ab><1>x'],
                                 {'fuel': 4 * d + 60, 'inner': 'same-text-different-names', 'wrappers': '+'.join(kinds), 'depth': d}))
            gid += 1
    # binary grammars
    for (iname, inner, prefix) in BINNERS:
        for kinds in combos:
            for d in depths:
                if (tier == 'quick' and (gid * 7 + d) % 3 and d not in (12, 14, 16, 17, 18, 20, 22)) or \
                        (tier != 'quick' and (gid * 7 + d) % 2 and not 10 <= d <= 26):
                    gid += 1
                    continue
                for named in (False, True):
                    for ign in (False, True):
                        if tier == 'quick' and named != ign and d % 2:
                            continue
                        head = f'grammar c17b{gid}n{int(ign)}\n' if named else ''
                        desc = head + 'start = ' + wrap(inner, kinds, d, True) + '\n' + BPRELUDE + ('ignore b/\\x20+/\n' if ign else '')
                        jobs.append((len(jobs), desc, TEXTS, {'fuel': 4 * d + 60, 'inner': iname, 'wrappers': '+'.join(kinds), 'depth': d, 'bytes': True}))
                gid += 1
    return jobs


def deep_recursion(R, tier):
    """input that drives rule recursion deep: plain rules, templates, classes"""
    sys.path.insert(0, core.REPO)
    from sourcer import Grammar
    depths = [1000, 10000] if tier == 'quick' else [1000, 10000, 100000]
    fams = [
        ('plain-rule', 'start = "(" >> Opt(start) << ")"\n', lambda v: v),
        ('template', 'start = P("x")\nP(x) = ("(" >> P(x) << ")") | x\n', lambda v: v),
        ('class', 'class N { o: "("; inner: Opt(N); c: ")" }\nstart = N\n', lambda v: v),
        ('named-grammar', 'grammar c17deep\nstart = "[" >> (start | "x") << "]"\n', lambda v: v),
        # templates whose ARGUMENT is a call of its own at every level (the argument grows with the recursion), and a template
        # with a compound argument
        ('template-growing-argument', 'start = P("x")\nP(x) = ("(" >> P(W(x)) << ")") | x\nW(x) = x\n', lambda v: v),
        ('template-compound-argument', 'start = P("x" | "y")\nP(x) = ("(" >> P(x | "z") << ")") | x\n', lambda v: v),
        ('class-with-parameter', 'class N(t) { o: "("; inner: Opt(N(t)); c: t }\nstart = N(")")\n', lambda v: v),
    ]
    for name, desc, _ in fams:
        g = Grammar(desc)
        for d in depths:
            if name.startswith('template'):
                text = '(' * d + 'x' + ')' * d
            elif name == 'named-grammar':
                text = '[' * d + 'x' + ']' * d
            else:
                text = '(' * d + ')' * d
            R.count('deep-recursion', (name, d))
            try:
                v = g.parse(text)
                if name.startswith('class'):
                    k = 0
                    while v is not None:
                        v = v.inner
                        k += 1
                    if k != d:
                        R.counterexample('deep-recursion', 'wrong-depth', {'family': name, 'depth': d}, d, k)
            except RecursionError:
                R.counterexample('deep-recursion', 'RecursionError', {'family': name, 'grammar': desc, 'depth': d}, 'a result', 'RecursionError')
            except Exception as e:              # noqa
                R.counterexample('deep-recursion', 'exception:' + type(e).__name__, {'family': name, 'grammar': desc, 'depth': d}, 'a result', str(e)[:100])


def inherited_nesting(R, tier):
    """a deeply nested rule of a PARENT grammar used through a grammar that extends it: the layers stay transparent, the
    references and literals inside stay late-bound (the child's override, the child's ignore patterns), at every depth"""
    sys.path.insert(0, core.REPO)
    from sourcer import Grammar
    depths = [3, 12, 15, 16, 17, 18, 19, 20, 25, 40, 60] if tier == 'quick' else list(range(1, 45)) + [60, 90]
    kinds = {'seq': lambda e: f'[{e}]', 'seq+choice': lambda e: f'[Fail("no") | {e}]', 'seq+opt': lambda e: f'[Opt({e})]', 'group': lambda e: f'(({e}))'}
    n = 0
    for kname, wrapf in kinds.items():
        for d in depths:
            n += 1
            inner = 'X'
            for _ in range(d):
                inner = wrapf(inner)

            def expect(v, d=d, kname=kname):
                for _ in range(d):
                    v = v if kname == 'group' else [v]
                return v
            for variant in ('override', 'ignore'):
                tag = f'c17i{n}{variant[0]}'
                if variant == 'override':
                    base = f'grammar {tag}a\nstart = {inner}\nX = "a"\n'
                    child = f'grammar {tag}b extends {tag}a\noverride X = "b"\n'
                    cases = [('b', expect('b')), ('a', 'error')]
                else:
                    base = f'grammar {tag}a\nignore Space = / +/\nstart = {inner} << "."\nX = "a"\n'
                    child = f'grammar {tag}b extends {tag}a\nignore Note = /#[a-z]*/\n'
                    cases = [(' a#note .', expect('a')), ('a.', expect('a')), ('a #n#m .', expect('a'))]
                R.count('inherited-nesting', (kname, d, variant), nontrivial=True)
                try:
                    Grammar(base)
                    g = Grammar(child)
                except RecursionError:
                    continue
                except Exception as e:          # noqa
                    R.counterexample('inherited-nesting', 'grammar-construction:' + type(e).__name__, {'base': base[:200], 'child': child, 'depth': d}, 'two modules', str(e)[:120])
                    continue
                for text, want in cases:
                    try:
                        got = g.parse(text)
                    except g.InputError:
                        got = 'error'
                    except Exception as e:      # noqa
                        got = 'exception ' + type(e).__name__
                    if got != want:
                        R.counterexample('inherited-nesting', 'nesting-changes-meaning-of-an-inherited-rule',
                                         {'wrappers': kname, 'depth': d, 'variant': variant, 'child': child, 'text': text}, repr(want)[:120], repr(got)[:120])
                        break
                else:
                    R.traces += 1


INFO = {}


def mechanism_of(r, case, got, want):
    o = INFO.get(r['gid'], {})
    if got.startswith('(exc'):
        return 'exception-at-depth:' + got[5:-1].split(':')[0] + (' @ ' + o['inner'] if o.get('inner') in ('inline-read', 'count-read') else '')
    return 'nesting-changes-meaning'


def run(R):
    R.build()
    R.prove('Props/C17.v')
    rnd = random.Random(R.seed)
    jobs = jobs_for(R.tier, rnd)
    R.extra['grammars'] = len(jobs)
    info = {j[0]: j[3] for j in jobs}
    INFO.update(info)
    for i in range(0, len(jobs), 800):
        recs = gramrun.run_grammars(jobs[i:i + 800], chunk=10)
        gramrun.compare(R, recs, 'nesting', mechanism_of)
        for r in recs:
            if r.get('grammar_error') == 'unconfirmed-timeout':
                continue
            if 'grammar_error' in r:
                o = info[r['gid']]
                R.counterexample('nesting', 'grammar-construction:' + (r['grammar_error'].split(':') + ['?'])[1],
                                 {'grammar': r['desc'][:300], 'inner': o['inner'], 'wrappers': o['wrappers'], 'depth': o['depth']},
                                 'a grammar module', r['grammar_error'])
            elif 'ex' in r:
                # exceptions escaping at parse time are violations whatever the model says
                o = info[r['gid']]
                for (text, rxt, entry, pos, full, ix, ip) in r['cases']:
                    if ix.startswith('(exc'):
                        R.counterexample('nesting', 'exception-at-depth:' + ix[5:-1] + (' @ ' + o['inner'] if o['inner'] in ('inline-read', 'count-read') else ''),
                                         {'grammar': r['desc'][:300], 'inner': o['inner'], 'wrappers': o['wrappers'], 'depth': o['depth'], 'text': text},
                                         'the correspondingly wrapped value', ix)
                        break
    deep_recursion(R, R.tier)
    inherited_nesting(R, R.tier)
    R.assumptions += ['the Python/C stack is not in the model: absence of RecursionError is observed on the implementation only',
                      'block accounting of outsourcer.CodeBuilder (max 20 blocks) is not modelled: the theorem holds for every placement of helper functions']
    return R.finish(
        rule='inner expressions {literal, rule, regex, template call, class, local parser, sequence, choice} x wrappers {sequence, group, '
             'option, choice with a failing branch, Fail() | e, "" >> e, three mixtures} x depths 1..120 (every depth 10..25, crossing '
             'the 20-block budget) x {unnamed, named} x {no ignore, ignore}; expected values from the model/specification (wrappers are '
             'transparent); plus recursion depth 10^3..10^5 through plain rules, templates, classes, a named grammar',
        checker_cmd='cd /verif/coq && make -f Makefile.coq && coqc -R . SV Props/C17.v')
