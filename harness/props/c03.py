"""C03 — bounded repetition and separated lists honour their bounds and options."""
import itertools
import random

from .. import core, gramrun, gen_core as G

ELEMS = [('lit', 'a'), ('seq', ('lit', 'a'), ('lit', 'b')), ('left', ('lit', 'a'), ('expect', ('lit', 'b'))),
         ('ref', 'X'), ('rx', '[ab]')]
SEPS = [('lit', ','), ('seq', ('lit', ','), ('lit', ';')), ('rx', '[,;]'),
        ('left', ('lit', ','), ('expect', ('lit', 'a'))),
        # separators whose VALUE is falsy when they match nothing (None, '', []): kept separators are values, not flags
        ('opt', ('lit', ',')), ('rx', ',?'), ('rep', ('lit', ','), None, None), ('expectnot', ('lit', ';'))]
# elements that can match the empty string: fine under an upper bound (the repetition runs to its bound, the empty
# matches are elements like any other)
NELEMS = [('rx', 'b?'), ('opt', ('lit', 'a')), ('alt', ('lit', 'a'), ('lit', '')), ('ref', 'Y')]
PRELUDE = 'X = "a" | "ba"\nY = /a*/\nN = /\\d/ |> `int`\n'


def lit_bounds(k=3):
    out = []
    for lo in [None] + list(range(0, k + 1)):
        for hi in [None] + list(range(0, k + 1)):
            if lo is not None and hi is not None and lo > hi:
                continue
            out.append((lo, hi))
    return out


def in_contexts(x, K):
    yield x
    yield ('alt', x, K)
    yield ('seq', x, K)
    yield ('seq', ('opt', x), K)
    yield ('seq', ('expect', x), K)
    yield ('seq', ('expectnot', x), K)
    yield ('seq', ('rep', ('seq', x, ('lit', ';')), None, None), K)
    # inside a lookahead that is itself an alternative / an item to skip / one of the longest: the enclosing construct backs up
    yield ('alt', ('expect', x), K)
    yield ('seq', ('skip', ('expect', x)), K)
    yield ('longest', ('expect', x), K)


def name_forms(E):
    """data-dependent bounds: the count is parsed first"""
    for form in ('{n}', '{n,}', '{,n}', '{1,n}', '{n,3}', '{n,m}'):
        if form == '{n,m}':
            yield f'let n = N in let m = N in ({G.render(E)}){form}'
        else:
            yield f'let n = N in ({G.render(E)}){form}'


def jobs_for(tier, rnd):
    jobs, gid = [], 0
    TX = G.texts('ab,;', 5 if tier == 'thorough' else 4, extra=('a,a,a,a', 'ab,ab,ab', 'a,;a,;a', 'aaaaaa', 'a;a;a'))
    K = ('rx', '[ab,;]+')
    reps = [('rep', E, lo, hi) for E in ELEMS for lo, hi in lit_bounds(3)]
    reps += [('rep', E, lo, hi) for E in NELEMS for lo, hi in lit_bounds(3) if hi is not None]
    seps = [('sep', E, S, o) for E in ELEMS for S in SEPS for o in G.SEPOPTS]
    base = [x for x in reps + seps if G.well_formed(x, {'X': False, 'Y': True})]
    allj = []
    for x in base:
        for c in in_contexts(x, K):
            allj.append(('start = ' + G.render(c) + '\n' + PRELUDE, TX, 'literal-bounds' if x[0] == 'rep' else 'sep'))
    # data-dependent bounds
    DT = [d + s for d in ('0', '1', '2', '3', '12', '21', '20', '02', '31', '13')
          for s in ('', 'a', 'aa', 'aaa', 'aaaa', 'ab', 'abab', 'ababab', 'aab', 'ba', 'aba')]
    # the count is bound OUTSIDE and the repetition comes right after something that has just failed
    for E in ELEMS + NELEMS:
        for form in ('{n}', '{n,}', '{,n}', '{n,2}'):
            if E in NELEMS and form == '{n,}':
                continue
            for ctx in ('[("-" | ({e}){f}), /[0-9ab-]*/]', '[Longest("-", ({e}){f}), /[0-9ab-]*/]', '[(ExpectNot(/./) | ({e}){f}), /[0-9ab]*/]',
                        '[Opt("-" >> "-"), ({e}){f}, /[0-9ab-]*/]'):
                allj.append(('start = let n = N in ' + ctx.format(e=G.render(E), f=form) + '\n' + PRELUDE, DT + ['0-', '1-a', '0-a', '2-'], 'data-dependent'))
    for E in ELEMS:
        for body in name_forms(E):
            for wrap in ('{b}', '[{b}, /[ab]*/]', '({b}) | /[0-9ab]+/', '[Opt({b}), /[0-9ab]*/]', '({b})*',
                         # after an alternative / a lookahead that has just FAILED (the registers hold a failure)
                         '[("-" | ({b})), /[0-9ab]*/]', '[Longest("-", ({b})), /[0-9ab]*/]', '[(ExpectNot(/./) | ({b})), /[0-9ab]*/]'):
                allj.append(('start = ' + wrap.format(b='(' + body + ')') + '\n' + PRELUDE, DT, 'data-dependent'))
    if tier == 'quick':
        rnd.shuffle(allj)
        keep, seen = [], {}
        for j in allj:
            seen[j[2]] = seen.get(j[2], 0) + 1
            if seen[j[2]] <= {'literal-bounds': 1500, 'sep': 1500, 'data-dependent': 520}[j[2]]:
                keep.append(j)
        allj = keep
    for d, tx, stratum in allj:
        jobs.append((gid, d, tx, {'stratum': stratum}))
        gid += 1
    return jobs


def mechanism_of(r, case, ix, ms):
    return 'repetition-or-sep-semantics'


def run(R):
    R.build()
    R.prove('Props/C03.v')
    from ..flagtie import regen_and_tie_flags
    regen_and_tie_flags(R)       # the flag methods of the current source, translated, equal Model.always / Model.partial
    rnd = random.Random(R.seed)
    jobs = jobs_for(R.tier, rnd)
    R.extra['grammars'] = len(jobs)
    strata = {}
    for j in jobs:
        strata[j[3]['stratum']] = strata.get(j[3]['stratum'], 0) + 1
    R.extra['strata'] = strata
    for i in range(0, len(jobs), 1500):
        recs = gramrun.run_grammars(jobs[i:i + 1500])
        gramrun.compare(R, recs, 'rep-sep', mechanism_of, reject_is_violation=True)
    # bounds written as inline-Python EXPRESSIONS (outside the model's bound vocabulary): each must behave like the same
    # grammar with the expression's value bound to a name first (a metamorphic pair run on the implementation)
    import sys
    sys.path.insert(0, core.REPO)
    from sourcer import Grammar
    deep = lambda x, d: '[' * d + x + ']' * d
    pairs = []
    for form, twin in (('{`n + 1`}', '{m}'), ('{`n + 1`,}', '{m,}'), ('{,`n + 1`}', '{,m}'), ('{1,`n + 1`}', '{1,m}')):
        for ctx in ('{r}', '[{r}, /[0-9ab]*/]', '({r}) | /[0-9ab]+/', 'Twice({r})', deep('{r}', 18), 'Twice(' + deep('{r}', 3) + ')'):
            a = 'start = let n = N in ' + ctx.format(r='"a"' + form) + '\nTwice(x) = [x, x]\n' + PRELUDE
            b = 'start = let n = N in let m = `n + 1` in ' + ctx.format(r='"a"' + twin) + '\nTwice(x) = [x, x]\n' + PRELUDE
            pairs.append((a, b))
    for cond, val in (('n if n < 2 else 2', None), ('n or 1', None), ('max(n, 1)', None)):
        a = 'start = let n = N in ["a"{`%s`}, /[0-9ab]*/]\n' % cond + PRELUDE
        b = '```\ndef bound_of(n):\n    return %s\n```\nstart = let n = N in let m = `bound_of(n)` in ["a"{m}, /[0-9ab]*/]\n' % cond + PRELUDE
        pairs.append((a, b))

    def api(g, t):
        try:
            return 'return ' + repr(g.parse(t))
        except g.PartialParseError as e:
            return 'partial %r at %d' % (e.partial_result, e.last_position.index)
        except g.ParseError as e:
            return 'error at %d' % e.position.index
        except Exception as e:                  # noqa
            return 'exception ' + type(e).__name__
    XT = [d + x for d in '0123' for x in ('', 'a', 'aa', 'aaa', 'aaaa', 'aaaaaa', 'ab', 'aab')]
    for a, b in pairs:
        R.count('expression-bounds', a, nontrivial=True)
        try:
            ga, gb = Grammar(a), Grammar(b)
        except Exception as e:                  # noqa
            R.counterexample('expression-bounds', 'expression-bound:grammar-rejected:' + type(e).__name__, {'grammar': a, 'twin': b}, 'two grammar modules', repr(e)[:150])
            continue
        for t in XT:
            oa, ob = api(ga, t), api(gb, t)
            if oa != ob:
                R.counterexample('expression-bounds', 'expression-bound-differs-from-named-bound' + (':' + oa.split(' ')[1] if oa.startswith('exception') else ''),
                                 {'grammar': a, 'twin': b, 'text': t}, ob, oa)
                break
        else:
            R.traces += 1
    # bounds that are PARAMETERS, the repetition being the first thing the rule (or class) body does - nothing has set
    # the registers before it; judged by the property's own wording (greedy up to the upper bound, failure below the lower)
    def expect(m, k, t):
        na = len(t) - len(t.lstrip('a'))
        c = na if k is None else min(na, k)
        return None if c < m else c
    PT = ['', 'a', 'aa', 'aaa', 'aaaa', 'b', 'ab', 'aab', 'aaab', 'aaaaab']
    for shape in ('rule', 'class', 'keyword'):
        for form, lo, hi in (('{n}', 'n', 'n'), ('{,n}', 0, 'n'), ('{n,}', 'n', None), ('{0,n}', 0, 'n'), ('{1,n}', 1, 'n'), ('{2,n}', 2, 'n'), ('{3,n}', 3, 'n'),
                             ('{n,1}', 'n', 1), ('{n,2}', 'n', 2), ('{n,3}', 'n', 3)):
            for k in (0, 1, 2, 3):
                if shape == 'class':
                    d = f'start = [C(`{k}`), /[ab]*/]\nclass C(n) {{ xs: "a"{form} }}\n'
                elif shape == 'keyword':
                    d = f'start = [R(n=`{k}`), /[ab]*/]\nR(n) = "a"{form}\n'
                else:
                    d = f'start = [R(`{k}`), /[ab]*/]\nR(n) = "a"{form}\n'
                m = k if lo == 'n' else lo
                u = k if hi == 'n' else hi
                R.count('parameter-bounds', d, nontrivial=True)
                try:
                    g = Grammar(d)
                except Exception as e:          # noqa
                    R.counterexample('parameter-bounds', 'parameter-bound:grammar-rejected:' + type(e).__name__, {'grammar': d}, 'a grammar module', repr(e)[:150])
                    continue
                for t in PT:
                    c = expect(m, u, t)
                    got = api(g, t)
                    if c is None:
                        ok = got.startswith('error at')
                        want = 'ParseError (fewer than %d available within the bounds)' % m
                    else:
                        val = ['a'] * c
                        want = 'return ' + repr([g.C(val) if shape == 'class' else val, t[c:]])
                        ok = got == want
                    if not ok:
                        R.counterexample('parameter-bounds', 'parameter-bound' + (':' + got.split(' ')[1] if got.startswith('exception') else ':wrong-outcome'),
                                         {'grammar': d, 'text': t, 'lower': m, 'upper': u}, want, got)
                        break
                else:
                    R.traces += 1
    # literal bounds written with leading zeros are the same numbers
    for form, m, u in (('{00}', 0, 0), ('{01}', 1, 1), ('{,00}', 0, 0), ('{2,03}', 2, 3), ('{01,}', 1, None), ('{002}', 2, 2), ('{0,01}', 0, 1)):
        d = f'start = ["a"{form}, /[ab]*/]\n'
        R.count('parameter-bounds', d, nontrivial=True)
        try:
            g = Grammar(d)
        except Exception as e:              # noqa
            R.counterexample('parameter-bounds', 'literal-bound:grammar-rejected:' + type(e).__name__, {'grammar': d}, 'a grammar module', repr(e)[:150])
            continue
        for t in PT:
            c = expect(m, u, t)
            got = api(g, t)
            want = 'ParseError' if c is None else 'return ' + repr([['a'] * c, t[c:]])
            if (c is None and not got.startswith('error at')) or (c is not None and got != want):
                R.counterexample('parameter-bounds', 'literal-bound:wrong-outcome', {'grammar': d, 'text': t, 'lower': m, 'upper': u}, want, got)
                break
        else:
            R.traces += 1
    R.assumptions += ['regular expressions are an oracle (tables computed with Python re)',
                      'e{m,n} with a run-time m > n is outside the property (the constructor rejects it for literals): the specification makes no claim there']
    return R.finish(
        rule='elements {literal, sequence failing after consuming, literal with lookahead, rule, regex} x literal bounds '
             '0..3 in all four forms x contexts {bare, first alternative, sequence, option, lookahead, negative lookahead, '
             'repetition}; Sep with 4 separators x all 12 accepted option combinations x the same contexts; data-dependent '
             'bounds in six forms x five contexts; inputs over {a,b,",",";"} up to length 4 (+ longer ones) / digit-prefixed; '
             'non-trivial = agreement with the model and not failing at offset 0',
        checker_cmd='cd /verif/coq && make -f Makefile.coq && coqc -R . SV Props/C03.v')
