"""C03 — bounded repetition and separated lists honour their bounds and options."""
import itertools
import random

from .. import core, gramrun, gen_core as G

ELEMS = [('lit', 'a'), ('seq', ('lit', 'a'), ('lit', 'b')), ('left', ('lit', 'a'), ('expect', ('lit', 'b'))),
         ('ref', 'X'), ('rx', '[ab]')]
SEPS = [('lit', ','), ('seq', ('lit', ','), ('lit', ';')), ('rx', '[,;]'),
        ('left', ('lit', ','), ('expect', ('lit', 'a'))),
        # separators whose VALUE is falsy when they match nothing (None, '', []): kept separators are values, not flags
        ('opt', ('lit', ',')), ('rx', ',?'), ('rep', ('lit', ','), None, None), ('expectnot', ('lit', ';'))]
PRELUDE = 'X = "a" | "ba"\nN = /\\d/ |> `int`\n'


def lit_bounds(k=3):
    out = []
    for lo in [None] + list(range(0, k + 1)):
        for hi in [None] + list(range(0, k + 1)):
            if lo is not None and hi is not None and lo > hi:
                continue
            out.append((lo, hi))
    return out


def in_contexts(x, K):
    yield x
    yield ('alt', x, K)
    yield ('seq', x, K)
    yield ('seq', ('opt', x), K)
    yield ('seq', ('expect', x), K)
    yield ('seq', ('expectnot', x), K)
    yield ('seq', ('rep', ('seq', x, ('lit', ';')), None, None), K)


def name_forms(E):
    """data-dependent bounds: the count is parsed first"""
    for form in ('{n}', '{n,}', '{,n}', '{1,n}', '{n,3}', '{n,m}'):
        if form == '{n,m}':
            yield f'let n = N in let m = N in ({G.render(E)}){form}'
        else:
            yield f'let n = N in ({G.render(E)}){form}'


def jobs_for(tier, rnd):
    jobs, gid = [], 0
    TX = G.texts('ab,;', 5 if tier == 'thorough' else 4, extra=('a,a,a,a', 'ab,ab,ab', 'a,;a,;a', 'aaaaaa', 'a;a;a'))
    K = ('rx', '[ab,;]+')
    reps = [('rep', E, lo, hi) for E in ELEMS for lo, hi in lit_bounds(3)]
    seps = [('sep', E, S, o) for E in ELEMS for S in SEPS for o in G.SEPOPTS]
    base = [x for x in reps + seps if G.well_formed(x, {'X': False})]
    allj = []
    for x in base:
        for c in in_contexts(x, K):
            allj.append(('start = ' + G.render(c) + '\n' + PRELUDE, TX, 'literal-bounds' if x[0] == 'rep' else 'sep'))
    # data-dependent bounds
    DT = [d + s for d in ('0', '1', '2', '3', '12', '21', '20', '02', '31', '13')
          for s in ('', 'a', 'aa', 'aaa', 'aaaa', 'ab', 'abab', 'ababab', 'aab', 'ba', 'aba')]
    # the count is bound OUTSIDE and the repetition comes right after something that has just failed
    for E in ELEMS:
        for form in ('{n}', '{n,}', '{,n}', '{n,2}'):
            for ctx in ('[("-" | ({e}){f}), /[0-9ab-]*/]', '[Longest("-", ({e}){f}), /[0-9ab-]*/]', '[(ExpectNot(/./) | ({e}){f}), /[0-9ab]*/]',
                        '[Opt("-" >> "-"), ({e}){f}, /[0-9ab-]*/]'):
                allj.append(('start = let n = N in ' + ctx.format(e=G.render(E), f=form) + '\n' + PRELUDE, DT + ['0-', '1-a', '0-a', '2-'], 'data-dependent'))
    for E in ELEMS:
        for body in name_forms(E):
            for wrap in ('{b}', '[{b}, /[ab]*/]', '({b}) | /[0-9ab]+/', '[Opt({b}), /[0-9ab]*/]', '({b})*',
                         # after an alternative / a lookahead that has just FAILED (the registers hold a failure)
                         '[("-" | ({b})), /[0-9ab]*/]', '[Longest("-", ({b})), /[0-9ab]*/]', '[(ExpectNot(/./) | ({b})), /[0-9ab]*/]'):
                allj.append(('start = ' + wrap.format(b='(' + body + ')') + '\n' + PRELUDE, DT, 'data-dependent'))
    if tier == 'quick':
        rnd.shuffle(allj)
        keep, seen = [], {}
        for j in allj:
            seen[j[2]] = seen.get(j[2], 0) + 1
            if seen[j[2]] <= {'literal-bounds': 1500, 'sep': 1500, 'data-dependent': 520}[j[2]]:
                keep.append(j)
        allj = keep
    for d, tx, stratum in allj:
        jobs.append((gid, d, tx, {'stratum': stratum}))
        gid += 1
    return jobs


def mechanism_of(r, case, ix, ms):
    return 'repetition-or-sep-semantics'


def run(R):
    R.build()
    R.prove('Props/C03.v')
    rnd = random.Random(R.seed)
    jobs = jobs_for(R.tier, rnd)
    R.extra['grammars'] = len(jobs)
    strata = {}
    for j in jobs:
        strata[j[3]['stratum']] = strata.get(j[3]['stratum'], 0) + 1
    R.extra['strata'] = strata
    for i in range(0, len(jobs), 1500):
        recs = gramrun.run_grammars(jobs[i:i + 1500])
        gramrun.compare(R, recs, 'rep-sep', mechanism_of, reject_is_violation=True)
    R.assumptions += ['regular expressions are an oracle (tables computed with Python re)',
                      'e{m,n} with a run-time m > n is outside the property (the constructor rejects it for literals): the specification makes no claim there']
    return R.finish(
        rule='elements {literal, sequence failing after consuming, literal with lookahead, rule, regex} x literal bounds '
             '0..3 in all four forms x contexts {bare, first alternative, sequence, option, lookahead, negative lookahead, '
             'repetition}; Sep with 4 separators x all 12 accepted option combinations x the same contexts; data-dependent '
             'bounds in six forms x five contexts; inputs over {a,b,",",";"} up to length 4 (+ longer ones) / digit-prefixed; '
             'non-trivial = agreement with the model and not failing at offset 0',
        checker_cmd='cd /verif/coq && make -f Makefile.coq && coqc -R . SV Props/C03.v')
