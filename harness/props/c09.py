"""C09 — reported error locations (line/column map, excerpt, caret)."""
import os
import random
import re

from .. import core, translate


def regen_and_tie(R):
    text, status = translate.gen_excerpt(core.REPO)
    R.fragments.update(status)
    gen = os.path.join(core.COQ, 'Gen', 'ExcerptGen.v')
    translate.write_if_changed(gen, text)
    rc, out = core.coqc('Gen/ExcerptGen.v')
    if rc != 0:
        R.broken.append({'kind': 'tie', 'name': 'Gen/ExcerptGen.v', 'detail': 'generated file does not compile: ' + out[-500:]})
        return
    ties = {
        '_caret_at': ('tie_caret_at', 'Lemma tie_caret_at : forall i, gen_caret_at i = caret_at i.\nProof. reflexivity. Qed.\n'),
        '_extract_excerpt': ('tie_extract_text',
                             'Lemma tie_bytes_window : forall t p, gen_bytes_window t p = bytes_window t p.\nProof. reflexivity. Qed.\n'
                             'Lemma tie_extract_text : forall t p c, gen_extract_text t p c = extract_text t p c.\nProof. reflexivity. Qed.\n'),
        '_map_index_to_line_and_column': ('tie_lc_map',
                             'Lemma tie_lc_loop : forall t l c, gen_lc_loop t l c = lc_map t l c.\n'
                             'Proof. induction t as [|x t IH]; intros l c; cbn [gen_lc_loop lc_map]; [reflexivity|].\n'
                             '  destruct (Nat.eqb x 10) eqn:E; unfold NL; rewrite E; rewrite IH, ?Nat.add_1_r; reflexivity. Qed.\n'
                             'Lemma tie_lc_map : forall t, gen_lc_map t = lc_map t 1 0.\nProof. intros; apply tie_lc_loop. Qed.\n'),
    }
    for frag, (lemma, body) in ties.items():
        if status.get(frag) != 'translated':
            # on the unchanged tree all three fragments are translated and tied; a fragment the fail-closed translator
            # can no longer read is a tie that no longer checks (the search below then looks for a failing input)
            R.notes.append(f'{frag}: {status.get(frag)} — tied by behavioural correspondence only')
            R.obligations.append({'name': lemma, 'file': 'Gen/ExcerptGen.v', 'status': 'failed', 'kind': 'tie', 'fragment': frag})
            R.broken.append({'kind': 'tie', 'name': f'translate.py:{frag}',
                             'detail': f'the source of {frag} is no longer in the translatable fragment ({status.get(frag)}): '
                                       'the generated-from-source tie to ExcerptModel.v cannot be established'})
            continue
        rel = f'Gen/TieExcerpt_{frag.strip("_")}.v'
        src = ('(* GENERATED: tie between Gen/ExcerptGen.v (translated from /repo) and ExcerptModel.v *)\n'
               'From Coq Require Import List Arith Bool.\nImport ListNotations.\n'
               'Require Import ExcerptModel.\nRequire Import SV.Gen.ExcerptGen.\n' + body)
        translate.write_if_changed(os.path.join(core.COQ, rel), src)
        R.tie(lemma, rel, frag)


def make_line(L, c):
    s = [chr(97 + (k * 7) % 23) for k in range(L)]
    if 0 <= c < L:
        s[c] = 'X'
    return ''.join(s)


def placements(line):
    yield 'first', line + '\nbbb', 0
    yield 'middle', 'aaa\n' + line + '\nbbbbb', 4
    yield 'last', 'aa\n\n' + line, 4
    yield 'longprev', 'q' * 130 + '\n' + line + '\n' + 'r' * 130, 131


def cases(tier, rnd, widen=False):
    """yield (label, text, index)"""
    Ls = list(range(0, 131)) + [135, 140, 150, 180, 200, 257, 300, 400, 450]
    if tier == 'thorough' or widen:
        Ls = list(range(0, 460))
    for L in Ls:
        for c in range(L):
            line = make_line(L, c)
            places = list(placements(line))
            if tier == 'quick' and not widen:
                places = [places[(L + c) % 4], places[1]] if (L + c) % 4 != 1 else [places[1]]
            for pl, text, off in places:
                yield f'L{L}c{c}{pl}', text, off + c
    # characters that str.splitlines() treats as line boundaries but that are NOT line breaks for the property
    exotic = '\r\x0b\x0c\x1c\x1d\x1e\x85\u2028\u2029'
    for k, ch in enumerate(exotic):
        for pre in ('', 'ab', 'a\nb'):
            for post in ('c', 'cd\nef', 'c' * 70):
                text = pre + ch + post
                for i in range(len(text)):
                    if text[i] != '\n' and text[i] not in exotic:
                        yield f'exotic{k}', text[:i] + 'X' + text[i + 1:], i
    # random multi-line texts
    n = 3000 if tier == 'quick' else 30000
    for k in range(n):
        lines = []
        for _ in range(rnd.randrange(1, 6)):
            L = rnd.choice([0, 1, 2, 5, 30, 59, 60, 61, 89, 90, 95, 96, 97, 100, 101, 102, 120, 140, rnd.randrange(0, 200)])
            lines.append(''.join(rnd.choice('abcdefgh .,;\t') for _ in range(L)))
        text = '\n'.join(lines)
        idx = [i for i, ch in enumerate(text) if ch != '\n']
        if not idx:
            continue
        i = rnd.choice(idx)
        text = text[:i] + 'X' + text[i + 1:]
        yield f'rnd{k}', text, i


def blank_tail_cases(tier, rnd):
    """(label, text, index): the failure point is a blank and the rest of the text is blank (no line break at the index)"""
    blanks = [' ', '\t', '  ', ' \t ', '\x0b', '\x0c', '\r', ' \n', '\t\n\n', '   \n ', ' \x1c', '\xa0 ']
    heads = ['', 'a', 'abc', 'ab\ncd', '\n', 'abc\n', 'a' * 50, 'a' * 100, 'ab\n' + 'c' * 95]
    k = 0
    for h in heads:
        for b in blanks:
            k += 1
            yield f'blank{k}', h + b, len(h)
    # ... and a blank at the failure point with visible text AFTER it (on the same line, on a later line): the position is
    # the blank's, not that of the next thing one can see
    for h in heads:
        for b in (' ', '\t ', '  ', ' \x0c'):
            for tail in ('$def', 'X', '!\nabc', '\n$x', ' ' * 40 + '#', '9' * 120):
                k += 1
                yield f'blankvis{k}', h + b + tail, len(h)


def observe_impl(gs, text, index):
    """-> dict of observations on the real implementation"""
    g1, g2, g3 = gs[:3]
    obs = {}
    try:
        g1.parse(text)
        obs['partial'] = 'no-error'
    except g1.PartialParseError as e:
        p = e.last_position
        msg = str(e)
        m = re.match(r'Incomplete parse\. Unexpected input on line (\S+), column (\S+):\n', msg)
        obs['partial'] = {'pos': [p.index, p.line, p.column], 'excerpt': msg[m.end():] if m else None,
                          'header': [m.group(1), m.group(2)] if m else None}
    except Exception as e:                     # noqa
        obs['partial'] = f'exception:{type(e).__name__}'
    try:
        g2.parse(text)
        obs['error'] = 'no-error'
    except g2.ParseError as e:
        p = e.position
        msg = str(e)
        m = re.match(r'Error on line (\S+), column (\S+):\n', msg)
        if m:
            rest = msg[m.end():]
            k = rest.find('\nFailed to parse the')
            obs['error'] = {'pos': [p.index, p.line, p.column], 'excerpt': rest[:k] if k >= 0 else None,
                            'header': [m.group(1), m.group(2)]}
        else:
            obs['error'] = {'pos': [p.index, p.line, p.column], 'excerpt': None,
                            'header': None, 'eoi': msg.startswith('Unexpected end of input.')}
    except Exception as e:                     # noqa
        obs['error'] = f'exception:{type(e).__name__}'
    if all(ord(ch) < 256 for ch in text):
        for key, g in (('bytes', g3), ('bytes-error', gs[3])):
            try:
                g.parse(text.encode('latin-1'))
                obs[key] = 'no-error'
            except (g.PartialParseError, g.ParseError) as e:
                p = e.last_position if isinstance(e, g.PartialParseError) else e.position
                msg = str(e)
                m = re.match(r'(?:Incomplete parse\. Unexpected input|Error) on line (\S+), column (\S+):\n', msg)
                rest = msg[m.end():] if m else msg
                obs[key] = {'pos': [p.index, p.line, p.column], 'excerpt': rest.split('\nFailed to parse the')[0],
                            'header': [m.group(1), m.group(2)] if m else None}
            except Exception as e:                 # noqa
                obs[key] = f'exception:{type(e).__name__}'
    return obs


def run(R):
    import sys
    sys.path.insert(0, core.REPO)
    from sourcer import Grammar
    R.build()
    R.prove('Props/C09.v')
    regen_and_tie(R)
    rnd = random.Random(R.seed)
    gs = (Grammar('start = /[^X]*/'), Grammar('start = /[^X]*/ >> "Y"'), Grammar('start = b/[^X]*/'),
          Grammar('start = b/[^X]*/ >> 0x59'))
    # the error index holds a BLANK and only blanks follow: still not the end of the input (line, column, excerpt, caret)
    gs_blank = (Grammar('start = /[a-z\\n]*/'), Grammar('start = /[a-z\\n]*/ >> "Y"'), Grammar('start = b/[a-z\\n]*/'),
                Grammar('start = b/[a-z\\n]*/ >> 0x59'))
    R.assumptions += [
        'texts are ASCII; code points are modelled as natural numbers',
        'error index on a line-break character is outside the property and not generated',
        'bytes input: only the 3-byte window is modelled, repr() of bytes is Python\'s',
    ]

    def run_batch(gset, batch, judge_req, judge_meta):
            req = [core.sx(['c09', i, core.codes(t)]) for _, t, i in batch]
            model = [core.asdict(r) for r in core.run_driver(req)]
            for (label, text, index), m in zip(batch, model):
                obs = observe_impl(gset, text, index)
                key = (len(text), index, text.count('\n'))
                R.count('sweep' if not label.startswith('rnd') else 'random', key)
                mlc = m['lc']
                mex = ''.join(chr(x) for x in m['ex'])
                mbw = bytes(m['bw']) if all(x < 256 for x in m['bw']) else b''
                case = {'text': text, 'index': index, 'label': label}
                if len(R.samples) < 6 and (label.startswith('L100c70') or label.startswith('rnd1')):
                    R.samples.append({'case': case, 'implementation': obs, 'model': {'lc': mlc, 'excerpt': mex}})
                for kind in ('partial', 'error'):
                    o = obs[kind]
                    if not isinstance(o, dict):
                        R.disagree('excerpt-' + kind, case, o, {'pos': [index] + list(mlc)})
                        R.counterexample('excerpt-' + kind, 'no-' + kind + '-error-raised', case,
                                         'an error located at the index', o)
                        continue
                    R.traces += 1
                    if o['pos'] != [index] + list(mlc) or o['excerpt'] != mex or o['header'] != [str(mlc[0]), str(mlc[1])]:
                        R.disagree('excerpt-' + kind, case, o, {'pos': [index] + list(mlc), 'excerpt': mex})
                    # executable SPEC judges the implementation's own output
                    if o['pos'][0] != index:
                        R.counterexample('excerpt-' + kind, 'position-index', case, index, o['pos'])
                    elif o['pos'][1] is None or o['excerpt'] is None:
                        R.counterexample('excerpt-' + kind, 'line-column-missing', case, 'line/column', o)
                    else:
                        judge_req.append(core.sx(['c09judge', index, core.codes(text), [o['pos'][1], o['pos'][2]],
                                                  core.codes(o['excerpt'])]))
                        judge_meta.append((kind, case, o))
                for bkey in ('bytes', 'bytes-error'):
                    o = obs.get(bkey)
                    if isinstance(o, dict):
                        R.traces += 1
                        # bytes input is a single line: line 1, column index + 1, in the position and in the message
                        one_line = [index, 1, index + 1]
                        if o['pos'] != one_line or o['excerpt'] != repr(mbw) or o['header'] != ['1', str(index + 1)]:
                            R.disagree(bkey, case, o, {'pos': one_line, 'excerpt': repr(mbw)})
                        want = text.encode('latin-1')[index:index + 1]
                        if o['pos'][0] != index or '\n' in o['excerpt'] or repr(want)[2:-1] not in o['excerpt']:     # the window is shown as repr(bytes)
                            R.counterexample(bkey, 'bytes-window', case, 'single-line window containing text[index]', o)
                        elif o['pos'] != one_line or o['header'] != ['1', str(index + 1)]:
                            R.counterexample(bkey, 'bytes-single-line', case, {'pos': one_line, 'header': ['1', str(index + 1)]}, o)
                    elif o is not None:
                        R.disagree(bkey, case, o, {'pos': index})

    def sweep(widen):
        batch = list(cases(R.tier, rnd, widen))
        judge_req, judge_meta = [], []
        run_batch(gs, batch, judge_req, judge_meta)
        run_batch(gs_blank, list(blank_tail_cases(R.tier, rnd)), judge_req, judge_meta)
        # end-of-input ParseError cases
        eoi = [('eoi%d' % k, 'a' * k + ('\n' if k % 3 == 0 else '') + 'b' * (k % 5), None) for k in range(0, 40)]
        for (kind, case, o), j in zip(judge_meta, core.run_driver(judge_req)):
            j = core.asdict(j)
            if j.get('linecol_ok') != 'true':
                R.counterexample('excerpt-' + kind, 'line-column', case,
                                 'line = 1 + newlines before index, column = 1 + offset in line', o['pos'])
            if j.get('excerpt_ok') != 'true':
                R.counterexample('excerpt-' + kind, 'excerpt-caret', case,
                                 'one excerpt line, caret under text[index]', o['excerpt'])
        # ParseError at end of input: line and column None
        for label, text, _ in eoi:
            R.count('eoi', len(text))
            try:
                gs[1].parse(text)
                got = 'no-error'
            except gs[1].ParseError as e:
                got = [e.position.index, e.position.line, e.position.column]
            except Exception as e:             # noqa
                got = f'exception:{type(e).__name__}'
            want = [len(text), None, None]
            R.traces += 1
            if got != want:
                R.disagree('eoi', {'text': text}, got, want)
                R.counterexample('eoi', 'end-of-input', {'text': text}, want, got)

    sweep(False)
    if R.broken and R.tier == 'quick' and not R.cex:
        R.notes.append('obligation or correspondence broken: search widened to the thorough sweep')
        sweep(True)
    R.extra['notes'] = R.notes
    return R.finish(
        rule='(line length L, column c) sweep over four placements of the line in a multi-line text + random multi-line '
             'texts, error raised through PartialParseError, ParseError and bytes input; a case is distinct by '
             '(text length, index, number of line breaks); trivial cases (none) are not generated',
        checker_cmd='cd /verif/coq && make -f Makefile.coq && coqc -R . SV Props/C09.v (Print Assumptions) && coqc Gen/TieExcerpt_*.v')
