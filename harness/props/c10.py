"""C10 — class instances carry the exact span of input they were parsed from."""
import random

from .. import core, gramrun, gen_core as G

PRELUDE = '''D = /\\d/
W = /[ab]+/
class K { d: D; w: W }
class Z { o: Opt("a") }
class P { k: K; rest: [Z, "1"]* }
class Q { ks: K // ","; tail: Opt(P) }
class L { first: K; pass ":"; let skip: W; second: Opt(K) }
Pair(x) = [x, ":", x]
'''
IGN = 'ignore /[ \\n\\r\\x0b\\x0c\\x85\\u2028]+/\n'
REFS = [('ref', x) for x in ('K', 'Z', 'P', 'Q', 'L', 'D', 'W')]
NULLABLE = {'K': False, 'Z': True, 'P': False, 'Q': True, 'L': False, 'D': False, 'W': False}
SPECIALS = [
    ('plainx', '[Expect(K), K]'),                 # instance reused through the memo
    ('plainx', '[Expect(P), P, Opt(K)]'),
    ('look', 'Expect(K) >> [K, K]'),
    # instances parsed inside lookahead that STAY in the result and reach beyond where the parse stops
    ('look', '[Expect([K, K]), K]'),
    ('look', '[Expect(P), K]'),
    ('look', '[Expect(Q), D]'),
    ('look', 'class R { head: K; ahead: Opt(Expect([K, Opt(K)])) }\nstart_ = R' if False else '[K, Opt(Expect([K, Opt(K)]))]'),
    ('plain', 'Pair(K)'),
    ('plain', '[Pair(K), Pair(L)]'),
    ('plain', 'K between { left: "+", "-" ; prefix: "!" ; postfix: "?" }' if False else 'K'),
    ('plain', '(K | P) // ","'),
    ('plain', '[K, Q]*'),
    ('plain', 'Longest(K, P, L)'),
    ('plain', 'Opt(K) >> Opt(P) << Opt(L)'),
]


def exprs(rnd, n):
    out = []
    for a in REFS:
        out += [('plain', G.render(a)), ('plain', G.render(('opt', a))), ('look', G.render(('seq', ('expect', a), a)))]
        if not NULLABLE[a[1]]:
            out += [('plain', G.render(('rep', a, None, None))), ('plain', G.render(('rep', a, 1, 2))),
                    ('plain', G.render(('sep', a, ('lit', ','), (False, True, True, False))))]
        for b in REFS:
            out += [('plain', G.render(x)) for x in (('seq', a, b), ('alt', a, b), ('left', a, b), ('longest', a, b))]
            out += [('plain', G.render(('seq', ('opt', a), ('rep', ('seq', b, ('lit', ';')), None, None))))]
    rnd.shuffle(out)
    return SPECIALS + out[:n]


def jobs_for(tier, rnd):
    jobs, gid = [], 0
    T1 = G.texts('1a,', 4, extra=('1a:b1b', '1a:b', '1a1', '1a11a', '1ab,1b,1a', '1a:1a', '1a:b:1a:b1a', '1a1b:b', '1b,1a1a1'))
    T2 = ['1a\n1b', ' 1a', '1a \n 1b ', '1 a', '\n\n1a\n', '1a , 1b', '1a : b 1b', ' 1a1 ', '1a:1a',
          '1a\r1b', '1a\x0c1b 1a', '1a\x0b\n1b', '1a\u20281b', '\r\n1a\r\n1b', '1a\x851a', '1a \x0c 1b\n1a']
    es = exprs(rnd, 260 if tier == 'quick' else 100000)
    for kind, e in es:
        for ign in (False, True):
            d = 'start = ' + e + '\n' + PRELUDE + (IGN if ign else '')
            tx = (T1[:60] + T2 + T1[-9:]) if ign else T1
            jobs.append((gid, d, tx, {'positions': [0, 1, 2], 'fulls': [True, False] if kind == 'look' else [True], 'kind': kind, 'module_level': True}))
            gid += 1
    # the START RULE is a class and the input begins with ignorable text: the instance's span begins where the match
    # began (the offset parsing started at), not after the skipped text
    TL = ['  1a', ' 1a 1b', '\n1a', '1a', '  ', 'x  1a', ' \n 1a1b ']
    for body in ['class Start { head: K; rest: K* }', 'class Start { head: Opt(K); tail: D* }', 'class start { items: (K // ",") }',
                 'class Start { k: K }\nOther = Start']:
        d = body + '\n' + PRELUDE.replace('class K', 'class K') + IGN
        jobs.append((gid, d, TL, {'positions': [0, 1, 2], 'fulls': [True, False], 'kind': 'class-start', 'module_level': True}))
        gid += 1
    # class layouts: every arrangement of up to three members over {kept field that can fail, kept field that cannot,
    # omitted member that can fail, omitted members that cannot fail but may consume (Opt, *), omitted let}; the span of
    # an instance is everything its members consumed, wherever the omitted and the optional ones stand (first, last, alone)
    import itertools
    MEMBERS = {'F': 'f{i}: D', 'O': 'o{i}: Opt(";")', 'P': 'pass ";"', 'PO': 'pass Opt(";")', 'PS': 'pass "~"*', 'LO': 'let l{i}: Opt("~")',
               'LF': 'let l{i}: D',
               # an instance of another class as a field, and one that is only LOOKED AT: it is kept, its span lies beyond the
               # end of the instance that holds it, and that instance's span is still its own match
               'FC': 'c{i}: Dg', 'EC': 'e{i}: Expect(Dg)', 'EO': 'e{i}: Opt(Expect([";", Dg]))'}
    layouts = [l for n in (1, 2, 3) for l in itertools.product(MEMBERS, repeat=n)]
    if tier == 'quick':
        layouts = [l for l in layouts if len(l) < 3] + rnd.sample([l for l in layouts if len(l) == 3], 110)
    TLY = G.texts('1;~', 4, extra=('1;;1', '1;~~1;', '1~~;1', ';1;;1;', '1;1;1;', '~~1~~1'))
    TLI = ['1 ;', '1 ; 1 ;', ' 1;~ ~1', '1 ~ ~ ; 1', '1;\n1;', ' ; 1 ; ', '1 ;1', '1\n~\n1~']
    for lay in layouts:
        body = '; '.join(MEMBERS[k].format(i=i) for i, k in enumerate(lay))
        for ign in (False, True):
            d = 'start = [C, Opt(C), /[1;~ \\n]*/]\nclass C { ' + body + ' }\nD = /\\d/\nclass Dg { v: /\\d/ }\n' + ('ignore /[ \\n]+/\n' if ign else '')
            looks = any(k in ('EC', 'EO') for k in lay)
            jobs.append((gid, d, (TLY[:80] + TLI) if ign else TLY, {'positions': [0, 1], 'fulls': [True], 'kind': 'look' if looks else 'plain', 'module_level': True,
                                                                    'stratum': 'class-layouts'}))
            gid += 1
    # classes with arbitrary bodies: 1-3 members, each any expression of the core language (depth <= 2), kept, omitted or
    # a let member at random; a class may hold another; instances under repetition and option
    d2 = [e for e in G.depth2() if G.well_formed(e, G.RULES_NULLABLE) and not any(x[0] in ('byte', 'bt') for x in _walk(e))]
    nrand = 100 if tier == 'quick' else 3000
    TR = G.texts('abc', 4, extra=('abab', 'aabb', 'ababa', 'baab', 'aaaa', 'abba'))
    TRI = ['a b', ' ab', 'ab ', 'a  b a', ' a\nb', 'ab\n ab', 'a b a b', '  ', ' a a ']
    for k in range(nrand):
        def members(n, inner=None):
            ms = []
            for i in range(n):
                e = rnd.choice(d2) if inner is None or i != n // 2 else ('ref', inner)
                kind = rnd.choice(['f', 'f', 'f', 'pass', 'let'])
                ms.append({'f': f'm{i}: ', 'pass': 'pass ', 'let': f'let l{i}: '}[kind] + G.render(e))
            return '; '.join(ms)
        two = rnd.random() < 0.4
        body = 'class A { ' + members(rnd.randrange(1, 4), 'B' if two else None) + ' }\n'
        if two:
            body += 'class B { ' + members(rnd.randrange(1, 3)) + ' }\n'
        ign = rnd.random() < 0.4
        d = 'start = [A, Opt(A), /[abc \\n]*/]\n' + body + G.AUX['text'] + '\n' + ('ignore /[ \\n]+/\n' if ign else '')
        jobs.append((gid, d, (TR[:120] + TRI) if ign else TR, {'positions': [0, 1], 'fulls': [True], 'kind': 'plain', 'module_level': True, 'stratum': 'random-class-bodies'}))
        gid += 1
    return jobs


def _walk(e):
    yield e
    for x in e[1:]:
        if isinstance(x, tuple) and x and isinstance(x[0], str):
            yield from _walk(x)


TABLE_GRAMMARS = [
    ('operator-table', 'ignore /\\s+/\nclass Name { n: /[a-z]+/ }\nclass Index { pass "["; i: Expr; pass "]" }\n'
                       'Expr = Name between {\n    postfix: Index\n    prefix: "-"\n    left: "*"\n    left: "+"\n}\nstart = Expr\n'),
    ('operator-table-parens', 'ignore /\\s+/\nclass Name { n: /[a-z]+/ }\nclass Index { pass "["; i: Expr; pass "]" }\n'
                              'Atom = Name | "(" >> Expr << ")"\nExpr = Atom between {\n    postfix: Index\n    right: "^"\n    left: "+"\n}\nstart = Expr\n'),
    ('hand-built-object', 'ignore /\\s+/\nclass Name { n: /[a-z]+/ }\nclass Index { pass "["; i: Expr; pass "]" }\nclass Box { items: Fail("never parsed") }\n'
                          'Expr = Name between {\n    postfix: Index\n    left: "+"\n}\nstart = Expr+ |> `lambda xs: Box(xs)`\n'),
    ('hand-built-containers', 'ignore /\\s+/\nclass Name { n: /[a-z]+/ }\nclass Index { pass "["; i: Expr; pass "]" }\n'
                              'Expr = Name between {\n    postfix: Index\n    left: "+"\n}\nstart = Expr+ |> `lambda xs: {"all": tuple(xs), "first": [xs[0]]}`\n'),
]


def _gen_expr(rnd, depth, ops):
    ws = lambda: rnd.choice(['', '', ' ', '  ', '\n', ' \n '])
    if depth == 0 or rnd.random() < 0.3:
        e = rnd.choice(['a', 'b', 'cc', 'xyz'])
    else:
        k = rnd.choice(['bin', 'bin', 'idx', 'pre'] if '-' in ops else ['bin', 'bin', 'idx'])
        if k == 'bin':
            e = _gen_expr(rnd, depth - 1, ops) + ws() + rnd.choice([o for o in ops if o != '-']) + ws() + _gen_expr(rnd, depth - 1, ops)
        elif k == 'idx':
            e = rnd.choice(['a', 'b', 'cc']) + ws() + '[' + ws() + _gen_expr(rnd, depth - 1, ops) + ws() + ']'
        else:
            e = '-' + ws() + rnd.choice(['a', 'b', 'cc'])
    return e + ws()


def _expected_spans(text):
    """independent of sourcer: spans of Name tokens and of [ ... ] groups, each reaching to just before the next token"""
    import re
    toks = [(m.group(), m.start()) for m in re.finditer(r'[a-z]+|\S', text)]
    nxt = [toks[i + 1][1] if i + 1 < len(toks) else len(text) for i in range(len(toks))]
    names, idx, stack = [], [], []
    for i, (t, p) in enumerate(toks):
        if t[0].isalpha():
            names.append((p, nxt[i] - 1, t))
        elif t == '[':
            stack.append(p)
        elif t == ']' and stack:
            idx.append((stack.pop(), nxt[i] - 1))
    return sorted(names), sorted(idx)


def _linecol(text, i):
    return (1 + text.count('\n', 0, i), i - (text.rfind('\n', 0, i) + 1) + 1)


def finalised_everywhere(R, rnd):
    """SPEC stream on the implementation alone (operator tables and hand-built results are not in the model): EVERY class
    instance reachable through fields, operator nodes, lists, tuples and dict values has a finalised span with the
    offsets, lines and columns computed here independently from the text."""
    import ast
    import sys
    sys.path.insert(0, core.REPO)
    from sourcer import Grammar
    # the tie of C10_every_instance_finalised to the code: the runtime's _finalize_parse_info converts spans inside
    # `for node in visit(nodes)` and nowhere else (visit itself is tied to Visit.v by C15's correspondence)
    src = Grammar('start = "a"', include_source=True)._source_code
    fn = [n for n in ast.walk(ast.parse(src)) if isinstance(n, ast.FunctionDef) and n.name == '_finalize_parse_info']
    R.count('finalise-walk', 'structure', nontrivial=True)
    shape = 'missing'
    if fn:
        loops = [n for n in ast.walk(fn[0]) if isinstance(n, ast.For) and isinstance(n.iter, ast.Call)
                 and isinstance(n.iter.func, ast.Name) and n.iter.func.id == 'visit'
                 and [getattr(a, 'id', None) for a in n.iter.args] == ['nodes']]
        stores = [n for n in ast.walk(fn[0]) if isinstance(n, ast.Attribute) and n.attr == 'position_info' and isinstance(n.ctx, ast.Store)]
        inside = [n for lp in loops for n in ast.walk(lp) if isinstance(n, ast.Attribute) and n.attr == 'position_info' and isinstance(n.ctx, ast.Store)]
        whiles = [n for n in ast.walk(fn[0]) if isinstance(n, ast.While)]
        shape = f'loops over visit(nodes): {len(loops)}, stores of position_info: {len(stores)}, of which inside the loop: {len(inside)}, while loops: {len(whiles)}'
    want = 'loops over visit(nodes): 1, stores of position_info: 1, of which inside the loop: 1, while loops: 0'
    if shape != want:
        R.disagree('finalise-walk', {'function': '_finalize_parse_info of the generated runtime'}, shape, want)
    else:
        R.traces += 1
    for label, desc in TABLE_GRAMMARS:
        try:
            g = Grammar(desc)
        except Exception as e:      # noqa
            R.counterexample('finalised-everywhere', 'generated-grammar-rejected:' + type(e).__name__, {'grammar': desc}, 'a grammar', str(e)[:200])
            continue
        ops = ['+', '*', '-'] if label == 'operator-table' else (['+', '^'] if 'parens' in label else ['+'])
        for i in range(150 if R.tier == 'quick' else 3000):
            if label.startswith('hand-built'):
                text = ' '.join(_gen_expr(rnd, 2, ops) for _ in range(rnd.choice([1, 2, 3])))
            else:
                text = rnd.choice(['', ' ', '\n ']) + _gen_expr(rnd, 3, ops)
            try:
                res = g.parse(text)
            except Exception as e:      # noqa
                if text.strip() and type(e).__name__ in ('ParseError', 'PartialParseError'):
                    # the generator only makes sentences of the grammar (juxtaposed expressions may merge: `a [b]`)
                    R.count('finalised-everywhere-rejected', (label, text))
                    continue
                R.counterexample('finalised-everywhere', 'exception:' + type(e).__name__, {'grammar': desc, 'text': text}, 'a parse result', str(e)[:200])
                continue
            found_n, found_i, bad = [], [], []
            seen = set()

            def walk(v):
                if id(v) in seen:
                    return
                if isinstance(v, (list, tuple)):
                    seen.add(id(v))
                    for x in v:
                        walk(x)
                elif isinstance(v, dict):
                    seen.add(id(v))
                    for x in v.values():
                        walk(x)
                elif hasattr(v, '_fields') and hasattr(v, '_metadata'):
                    seen.add(id(v))
                    cn = type(v).__name__
                    if cn in ('Name', 'Index'):
                        pi = v._metadata.position_info
                        try:
                            rec = (pi.start.index, pi.end.index, (pi.start.line, pi.start.column), (pi.end.line, pi.end.column))
                        except Exception:       # noqa
                            bad.append(f'{cn}: position_info is {pi!r}, not a finalised span')
                            rec = None
                        if rec:
                            (found_n if cn == 'Name' else found_i).append(rec + ((v.n,) if cn == 'Name' else ()))
                    for f in v._fields:
                        walk(getattr(v, f))
            walk(res)
            en, ei = _expected_spans(text)

            def lc(i):
                return (None, None) if text[i:i + 1] == '\n' else _linecol(text, i)
            for (a, b, la, lb, *rest), want in zip(sorted(found_n), en):
                if (a, b) != want[:2] or (rest and rest[0] != want[2]):
                    bad.append(f'Name {rest}: span {(a, b)}, expected {want}')
                if text[a] != '\n' and la != _linecol(text, a) or (text[b] != '\n' and lb != _linecol(text, b)):
                    bad.append(f'Name {rest}: line/column {la}..{lb}, expected {_linecol(text, a)}..{_linecol(text, b)}')
            if len(found_n) != len(en):
                bad.append(f'{len(found_n)} Name instances reached, {len(en)} names in the text')
            for (a, b, la, lb), want in zip(sorted(found_i), ei):
                if (a, b) != want:
                    bad.append(f'Index: span {(a, b)}, expected {want}')
            if len(found_i) != len(ei):
                bad.append(f'{len(found_i)} Index instances reached, {len(ei)} bracket groups in the text')
            R.count('finalised-everywhere', (label, text), nontrivial=len(en) > 1)
            if bad:
                R.counterexample('finalised-everywhere', 'instance-under-operator-node-or-hand-built-result-not-finalised',
                                 {'grammar': desc, 'text': text}, 'every class instance of the result carries its finalised span', bad[:4])
            else:
                R.traces += 1


def python_returns_parsed_objects(R, rnd):
    """SPEC stream: inline Python that hands back an instance parsed EARLIER (the field of a wrapper, the argument itself):
    the instance keeps the span of its own match, whatever the expression around the Python call consumed"""
    import re
    import sys
    sys.path.insert(0, core.REPO)
    from sourcer import Grammar
    desc = ('ignore /\\s+/\nclass Word { text: /[a-z]+/ }\nclass Group { pass "("; inner: Word; pass ")" }\n'
            'class Entry { word: Word; pass ":"; num: /[0-9]+/ }\n'
            'Term = (Group |> `lambda g: g.inner`) | (`lambda e: e.word` <| Entry) | (Word |> `lambda w: w`) | ((Group |> `lambda g: g.inner`) << "!")\n'
            'Stmt = ((Group |> `lambda g: g.inner`) << "!") | Group\nstart = [Term+, Stmt?]\n')
    try:
        g = Grammar(desc)
    except Exception as e:                      # noqa
        R.counterexample('python-returns-parsed-objects', 'generated-grammar-rejected:' + type(e).__name__, {'grammar': desc}, 'a grammar', str(e)[:200])
        return
    ws = lambda: rnd.choice(['', ' ', '  ', '\n', ' \n  '])
    for i in range(120 if R.tier == 'quick' else 3000):
        items = []
        for _ in range(rnd.randrange(1, 5)):
            w = rnd.choice(['ab', 'c', 'xyz', 'q'])
            items.append(rnd.choice([w, f'({ws()}{w}{ws()})', f'{w}{ws()}:{ws()}{rnd.choice(["1", "23"])}']))
        text = ws() + (ws() or ' ').join(items) + rnd.choice(['', ws() + '(' + ws() + 'zz' + ws() + ')' + rnd.choice(['', ws() + '!'])]) + ws()
        try:
            res = g.parse(text)
        except (g.ParseError, g.PartialParseError):
            R.count('python-returns-parsed-objects-rejected', text)
            continue
        except Exception as e:                  # noqa
            R.counterexample('python-returns-parsed-objects', 'exception:' + type(e).__name__, {'grammar': desc, 'text': text}, 'a parse result', str(e)[:200])
            continue
        words = []

        def walk(v):
            if isinstance(v, (list, tuple)):
                for x in v:
                    walk(x)
            elif hasattr(v, '_fields'):
                if type(v).__name__ == 'Word':
                    words.append(v)
                for f in v._fields:
                    walk(getattr(v, f))
        walk(res)
        # the span of an instance ends with the last character its match consumed, the ignorable text skipped after its
        # last token included
        want = []
        for m in re.finditer(r'[a-z]+', text):
            e = m.end()
            while e < len(text) and text[e].isspace():
                e += 1
            want.append((m.start(), e - 1))
        got = []
        for w in words:
            pi = w._metadata.position_info
            try:
                got.append((pi.start.index, pi.end.index))
            except Exception:                   # noqa
                got.append(repr(pi))
        R.count('python-returns-parsed-objects', text, nontrivial=len(want) > 1)
        if got != want:
            R.counterexample('python-returns-parsed-objects', 'instance-handed-back-by-inline-python-has-another-span', {'grammar': desc, 'text': text},
                             f'Word spans {want}', f'{got}')
        else:
            R.traces += 1


def run(R):
    R.build()
    R.prove('Props/C10.v')
    rnd = random.Random(R.seed)
    jobs = jobs_for(R.tier, rnd)
    kinds = {j[0]: j[3]['kind'] for j in jobs}
    R.extra['grammars'] = len(jobs)
    ninst = 0
    for i in range(0, len(jobs), 400):
        recs = gramrun.run_grammars(jobs[i:i + 400], chunk=8)
        gramrun.compare(R, recs, 'spans', lambda r, c, g, w: 'span-or-outcome', reject_is_violation=True)
        # executable spec judge on the implementation's own raw results
        reqs, meta = [], []
        for r in recs:
            if r.get('model') is None or kinds[r['gid']] != 'plain':
                continue
            for (text, rxt, entry, pos, full, ix, ip) in r['cases']:
                if ix.startswith('(done true') and '(obj ' in ix:
                    val, end = ix[len('(done true '):-1].rsplit(' ', 1)
                    reqs.append(f'(spans {pos} {end} {val})')
                    meta.append((r, text, pos, ix))
                    ninst += ix.count('(obj ')
        for (r, text, pos, ix), o in zip(meta, core.run_driver(reqs, raw=True)):
            R.count('ordered-nested', (r['desc'], text, pos))
            if o != 'true':
                R.counterexample('ordered-nested', 'span-order-or-nesting',
                                 {'grammar': r['desc'], 'text': text, 'pos': pos},
                                 'spans nested in the parent, siblings disjoint and in input order', ix)
    finalised_everywhere(R, rnd)
    python_returns_parsed_objects(R, rnd)
    R.extra['instances_judged'] = ninst
    R.assumptions += ['lookahead, Backtrack and reads of earlier values are exempt from the ordering claim (not judged there)',
                      'spans of instances that consumed nothing are outside the property']
    return R.finish(
        rule='grammars with nested, repeated, optional and separated classes, classes reused through the memo ([Expect(K), K]), '
             'inside templates, with and without ignore declarations; class layouts (every arrangement of up to three kept/omitted, failing/optional members); inputs over {1,a,","} up to length 4 plus longer and multi-line '
             'ones; start offsets 0..2; observables: raw (start,end) of every instance, finalised (index,line,column) pairs through '
             'parse(); non-trivial = agreement with the model and not failing at offset 0',
        checker_cmd='cd /verif/coq && make -f Makefile.coq && coqc -R . SV Props/C10.v')
