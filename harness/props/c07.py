"""C07 — packrat guarantee: a rule is evaluated at most once per position."""
import random
import sys

from .. import core


def gen_script(rnd, R, L, unkeyed=False):
    """acyclic call graph over keys (rule, pos): calls go to a larger position, or to the same
    position and a larger rule index (the rank hypothesis of the theorem)"""
    keys = [(r, p) for p in range(L + 1) for r in range(R)]
    scr = {}
    for (r, p) in keys:
        lower = [(r2, p2) for (r2, p2) in keys if p2 > p or (p2 == p and r2 > r)]
        n = rnd.choice([0, 0, 1, 2, 2, 3, 4])
        calls = []
        for _ in range(n):
            if not lower:
                break
            # bias to near keys so that keys are shared between callers
            c = rnd.choice(lower[:max(1, min(len(lower), 6))]) if rnd.random() < 0.8 else rnd.choice(lower)
            calls.append(('k',) + c)
        scr[(r, p)] = calls
    # a few calls go through an unhashable key (a parameterised rule called with an unhashable argument):
    # _run evaluates those in a frame with key None, never stored and never looked up
    if unkeyed:
        sites = [(k, i) for k, cs in scr.items() for i in range(len(cs))]
        for (k, i) in rnd.sample(sites, min(len(sites), rnd.randrange(1, 5))):
            scr[k][i] = ('u',) + scr[k][i][1:]
    # a few failing leaves: a body that calls a key with "fail" marker is modelled by ... (none: all bodies succeed
    # unless a callee fails; failure enters through the dedicated rule R-1 at odd positions)
    return scr


class Failed(Exception):
    def __init__(self, pos):
        self.pos = pos


class Unhashable:
    """stands for a parse function whose arguments cannot be hashed"""
    def __init__(self, f):
        self.f = f

    def __call__(self, text, pos):
        return self.f(text, pos, keyed=False)

    def __eq__(self, other):
        return self is other

    def __hash__(self):
        raise TypeError('unhashable argument')


def run_real(g, scr, start, R, failing):
    log = []
    ustarts = [0]

    def errfun(text, pos):
        raise Failed(pos)

    funcs = {}

    def make(r):
        def f(_text, _pos, keyed=True):
            if keyed:
                log.append((r, _pos))
            else:
                ustarts[0] += 1
            if (r, _pos) in failing:
                yield (False, errfun, _pos)
                return
            acc, p = 1, _pos
            for (kind, r2, p2) in scr[(r, _pos)]:
                st, v, q = yield (CALL, funcs[r2] if kind == 'k' else Unhashable(funcs[r2]), p2)
                if not st:
                    yield (False, errfun, q)
                    return
                acc += v
                p = max(p, q)
            yield (True, acc, p)
        return f
    for r in range(R):
        funcs[r] = make(r)
    text = 'x' * 64
    try:
        v = g._run(text, start[1], funcs[start[0]], False)
        return ('ok', v), log, ustarts[0]
    except Failed as e:
        return ('fail', e.pos), log, ustarts[0]


def machine_stream(R_, tier, rnd):
    sys.path.insert(0, core.REPO)
    from sourcer import Grammar
    from sourcer.expressions.constants import CALL as CALL_
    global CALL
    CALL = CALL_
    g = Grammar('start = "x"')
    n = 1500 if tier == 'quick' else 30000
    reqs, meta = [], []
    for i in range(n):
        R = rnd.choice([1, 2, 3, 4, 5])
        L = rnd.choice([0, 1, 2, 3, 5, 8])
        scr = gen_script(rnd, R, L, unkeyed=(i % 3 == 2))
        failing = set()
        if rnd.random() < 0.4:
            ks = list(scr)
            for _ in range(rnd.randrange(1, 3)):
                failing.add(rnd.choice(ks))
        # a failing body = a body whose first call goes to the pseudo key (R, pos) which is not in the script:
        # the model needs an explicit failing mechanism, so failure is scripted as a call to a key that "fails".
        start = (0, 0)
        scr_m = []
        for k, cs in scr.items():
            scr_m.append([list(k), [list(c) for c in cs]])
        reqs.append(core.sx(['runscript', 20000, list(start), scr_m]))
        meta.append((scr, start, R, failing))
    # the extracted machine has no failing leaves of its own: restrict the comparison to scripts without them,
    # and check failures separately on the implementation (at-most-once must hold there too)
    outs = core.run_driver(reqs, raw=False)
    for (scr, start, R, failing), o in zip(meta, outs):
        (res, log, ust) = run_real(g, scr, start, R, set())
        fin, cur, mlog, must = o[0], o[1], [tuple(x) for x in o[2]], o[3]
        key = (len(scr), sum(len(v) for v in scr.values()))
        has_u = any(c[0] == 'u' for v in scr.values() for c in v)
        R_.count('machine-unkeyed-calls' if has_u else 'machine', (key, tuple(sorted((k, tuple(v)) for k, v in scr.items()))),
                 nontrivial=len(log) > 1)
        want = ('ok', cur[1]) if cur[0] == 'true' else ('fail', cur[2])
        if fin != 'true' or res != want or log != mlog or ust != must:
            R_.disagree('machine', {'script': {str(k): v for k, v in scr.items()}, 'start': start},
                        {'result': res, 'log': log, 'unkeyed_starts': ust},
                        {'finished': fin, 'cur': cur, 'log': mlog, 'unkeyed_starts': must})
        else:
            R_.traces += 1
        if len(set(log)) != len(log):
            R_.counterexample('machine', 'body-evaluated-twice', {'script': {str(k): v for k, v in scr.items()}},
                              'each (rule, position) started at most once', log)
        if len(R_.samples) < 3 and len(log) > 4:
            R_.samples.append({'script': {str(k): v for k, v in scr.items()}, 'log': log, 'result': res})
        # with failing leaves: at-most-once and termination on the real _run
        if failing:
            (res2, log2, _u2) = run_real(g, scr, start, R, failing)
            R_.count('machine-failing', (key, tuple(sorted(failing))))
            if len(set(log2)) != len(log2):
                R_.counterexample('machine-failing', 'body-evaluated-twice', {'script': {str(k): v for k, v in scr.items()},
                                  'failing': sorted(failing)}, 'each (rule, position) started at most once', log2)


FAMILIES = [
    # un-memoised evaluation is exponential in the nesting/length
    ('exp-alternatives', lambda k: 'start = S\nS = [A, "x"] | [A, "y"] | A\nA = [B, "p"] | [B, "q"] | B\nB = [C, "r"] | [C, "s"] | C\nC = "a" >> Opt(S)\n'),
    ('lookahead-reuse', lambda k: 'start = [Expect(W), Expect([W, "!"]), W, Opt("!")]\nW = /[a-z]/ >> Opt(W)\n'),
    ('class-reuse', lambda k: 'class K { a: /[a-z]/; rest: Opt(K) }\nstart = [Expect(K), K] | K\n'),
    ('choice-shared-prefix', lambda k: 'start = [T, "+", start] | [T, "-", start] | T\nT = [F, "*", T] | [F, "/", T] | F\nF = "(" >> start << ")" | /[a-z]/\n'),
    # a parameterless rule that calls a parameterised rule with an UNHASHABLE argument (that call cannot be memoised;
    # the parameterless rule itself must still be evaluated once per position)
    ('unhashable-argument-inside-shared-rule',
     lambda k: 'OneOf(xs) = /[a-z]/ where `lambda c: c in xs`\nItem = [OneOf(`[\'a\', \'b\']`), Opt(Item)]\n'
               'start = [Item, "x"] | [Item, "y"] | [Expect(Item), Item, "z"] | Item\n'),
    # a rule referenced from exactly ONE place, reached at one position from evaluations of the enclosing rule that
    # started at different positions
    ('single-reference-rule', lambda k: '```\nimport collections\nCALLS = collections.Counter()\ndef note(x):\n    CALLS[x] += 1\n    return x\n```\n'
                                        'start = (Item | /\\d/)*\nItem = Num+ << "!"\nNum = /\\d/ |> `note`\n'),
    # a parameterless rule referred to with empty parentheses and without, at one position
    ('empty-parentheses-reference', lambda k: '```\nimport collections\nCALLS = collections.Counter()\ndef note(x):\n    CALLS[x] += 1\n    return x\n```\n'
                                              'start = (X() << "b") | (X << "c") | [Expect(X()), X]\nX = /[a-z]/ |> `note`\n'),
    ('rule-passed-by-name-and-referenced', lambda k: '```\nimport collections\nCALLS = collections.Counter()\ndef note(x):\n    CALLS[x] += 1\n    return x\n```\n'
                                             'start = (Par(X) << "!") | (X << "?") | [Expect(Par(x=X)), X]\nPar(x) = x | ("(" >> x << ")")\nX = /[a-z]/ |> `note`\n'),
    # rules whose whole body is a reference to another rule or class (aliases), the alias and its target both tried at
    # one position: directly, through a second alias, through a lookahead, in either order
    ('alias-rule', lambda k: 'start = Pair | Single\nPair = [Item, ",", Item]\nSingle = Word\nItem = Word\nWord = /[a-z]/ >> Opt(Word)\n'),
    ('alias-chain', lambda k: 'start = [Expect(A), B, Expect(Opt(C))] | [C, "!"] | A\nA = B\nB = C\nC = /[a-z]/ >> Opt(A)\n'),
    ('alias-of-class', lambda k: 'start = [Expect(Item), Thing] | [Thing, "!"] | Item\nItem = Thing\nclass Thing { w: /[a-z]/; rest: Opt(Item) }\n'),
    ('alias-target-first', lambda k: 'start = [Word, "!"] | [Item, "?"] | Alias2\nItem = Word\nAlias2 = Item\nWord = /[a-z]/ >> Opt(Alias2)\n'),
    ('side-effect', lambda k: '```\nimport collections\nCALLS = collections.Counter()\ndef note(x):\n    CALLS[x] += 1\n    return x\n```\nstart = [A, "x"] | [A, "y"] | A\nA = /[a-z]+/ |> `note`\n'),
]


def grammar_stream(R_, tier, rnd):
    sys.path.insert(0, core.REPO)
    from sourcer import Grammar
    sizes = [1, 2, 5, 10, 20, 40, 60] if tier == 'quick' else [1, 2, 5, 10, 20, 60, 200, 600, 2000]
    for name, mk in FAMILIES:
        g = Grammar(mk(0))
        rules = [n[5:] for n in dir(g) if n.startswith('_try_')]
        for n in sizes:
            if name == 'choice-shared-prefix':
                text = '(' * n + 'a' + ')' * n
            elif name == 'exp-alternatives':
                text = 'a' * n
            elif name == 'single-reference-rule':
                text = ''.join(str(i % 10) for i in range(min(n, 40)))
            elif name == 'rule-passed-by-name-and-referenced':
                text = 'a?' if n % 2 else 'az'
            elif name == 'empty-parentheses-reference':
                text = 'ac' if n % 2 else 'az' 
            else:
                text = 'ab' * n
            counts = {}
            orig = {}

            def wrap(rn, f):
                def w(*a, **kw):
                    k = (rn, a[1])
                    counts[k] = counts.get(k, 0) + 1
                    return f(*a, **kw)
                return w
            for rn in rules:
                orig[rn] = getattr(g, '_try_' + rn)
                setattr(g, '_try_' + rn, wrap(rn, orig[rn]))
            if hasattr(g, 'CALLS'):
                g.CALLS.clear()
            try:
                try:
                    g.parse(text)
                    outcome = 'ok'
                except g.InputError as e:
                    outcome = type(e).__name__
            finally:
                for rn in rules:
                    setattr(g, '_try_' + rn, orig[rn])
            total = sum(counts.values())
            R_.count('grammar-families', (name, n))
            case = {'family': name, 'grammar': mk(0), 'text_length': len(text)}
            worst = max(counts.values()) if counts else 0
            # the property speaks of PARAMETERLESS rules: a parameterised rule is keyed by its arguments as well (Par(X) and
            # Par(x=X) are two instantiations; an unhashable argument is not memoised at all)
            base_args = 3 if hasattr(g, '_ctx') else 2
            paramless = {rn for rn in rules if orig[rn].__code__.co_argcount == base_args and not orig[rn].__code__.co_kwonlyargcount}
            counts = {k: v for k, v in counts.items() if k[0] in paramless}
            worst = max(counts.values()) if counts else 0
            total = sum(counts.values())
            nrules = len(paramless)
            if worst > 1:
                k = max(counts, key=counts.get)
                R_.counterexample('grammar-families', 'rule-evaluated-twice-at-a-position', case,
                                  'every (rule, position) evaluated at most once', {'key': list(k), 'count': worst})
            if total > nrules * (len(text) + 1):
                R_.counterexample('grammar-families', 'bound-exceeded', case,
                                  f'<= {nrules} x {len(text) + 1}', total)
            if name in ('single-reference-rule', 'empty-parentheses-reference', 'rule-passed-by-name-and-referenced') and hasattr(g, 'CALLS') and \
                    sum(g.CALLS.values()) > len(text):
                # the callback sits in a rule body that consumes one character: more calls than positions = some position twice
                R_.counterexample('grammar-families', 'side-effect-repeated', case, 'inline Python of a rule body at most once per position',
                                  {'calls': sum(g.CALLS.values()), 'positions': len(text)})
            if name == 'side-effect' and sum(g.CALLS.values()) > len([k for k in counts if k[0] == 'A']):
                R_.counterexample('grammar-families', 'side-effect-repeated', case, 'inline Python once per position', dict(g.CALLS))
            R_.extra.setdefault('evaluation_counts', {})[f'{name}/{len(text)}'] = [total, len(rules) * (len(text) + 1), outcome]
    # identity: every reference to a rule at one position receives the very same object
    g = Grammar('class K { a: /[a-z]/ }\nstart = [Expect(K), K, Expect(Opt(K))] | [K, K]\n')
    for text in ['a', 'ab', 'abc']:
        try:
            v = g.parse(text)
        except g.InputError as e:
            v = getattr(e, 'partial_result', None)
        R_.count('identity', text)
        if isinstance(v, list) and len(v) >= 2 and isinstance(v[0], g.K) and isinstance(v[1], g.K) and text[0:1] and v[0] is not v[1] and v[0]._metadata.position_info == v[1]._metadata.position_info:
            R_.counterexample('identity', 'memo-returns-different-objects', {'text': text}, 'the same object', repr(v))


    # ... whatever the kind of value: a list, a tuple, a dict or a string built by the rule is handed out as the one object it is
    ID_GRAMMARS = [
        ('list', 'Items = /[a-z]/*\nstart = [Expect(Items), Items, Expect(Opt(Items))]\n'),
        ('list-of-objects', 'class K { a: /[a-z]/ }\nItems = K+\nstart = [Expect(Items), Items]\n'),
        ('separated-list', 'Items = (/[a-z]/ // ",")\nstart = [Expect(Items), Items]\n'),
        ('sequence', 'Items = [/[a-z]/, /[a-z]/?]\nstart = [Expect(Items), Items]\n'),
        ('tuple-from-python', 'Items = /[a-z]/* |> `tuple`\nstart = [Expect(Items), Items]\n'),
        ('dict-from-python', 'Items = /[a-z]/* |> `lambda xs: {"xs": xs}`\nstart = [Expect(Items), Items]\n'),
        ('class-fields', 'Digits = /[0-9]/+\nclass P { peeked: Expect(Digits); parsed: Digits }\nstart = P |> `lambda p: [p.peeked, p.parsed]`\n'),
        ('alternatives', '```\nSEEN = []\ndef keep(x):\n    SEEN.append(x)\n    return x\n```\nWord = /[a-z]/+\n'
                         'start = ((Word |> `keep`) << "!") | ((Word |> `keep`) << "?") | (Word |> `keep`) |> `lambda w: list(SEEN[-3:])`\n'),
    ]
    for name, desc in ID_GRAMMARS:
        g = Grammar(desc)
        for text in ['ab', 'a', 'abc', 'a,b', '12', 'ab?']:
            try:
                v = g.parse(text)
            except g.InputError:
                continue
            R_.count('identity', (name, text))
            if isinstance(v, list) and len(v) >= 2 and any(v[i] is not v[0] for i in range(1, len(v)) if v[i] is not None and type(v[i]) is type(v[0]) and v[i] == v[0]):
                R_.counterexample('identity', 'memo-returns-different-objects', {'grammar': desc, 'text': text, 'kind': name},
                                  'every reference to the rule at that position receives the same object', [id(x) for x in v])


def memo_structure(R_):
    """the machine of Run.v only ever ADDS to the memo table (`upd`), once, when a keyed frame is popped: the runtime's _run
    must do the same - one store `memo[key] = result`, no removal, no second table, no rebinding of `memo`"""
    import ast
    sys.path.insert(0, core.REPO)
    from sourcer import Grammar
    src = Grammar('start = "a"', include_source=True)._source_code
    fn = [n for n in ast.walk(ast.parse(src)) if isinstance(n, ast.FunctionDef) and n.name == '_run']
    R_.count('memo-structure', 'structure', nontrivial=True)
    shape = 'no _run'
    if fn:
        f = fn[0]
        binds = [n for n in ast.walk(f) if isinstance(n, ast.Name) and n.id == 'memo' and isinstance(n.ctx, ast.Store)]
        stores = [n for n in ast.walk(f) if isinstance(n, ast.Subscript) and isinstance(n.value, ast.Name) and n.value.id == 'memo'
                  and isinstance(n.ctx, ast.Store)]
        dels = [n for n in ast.walk(f) if isinstance(n, ast.Subscript) and isinstance(n.value, ast.Name) and n.value.id == 'memo'
                and isinstance(n.ctx, ast.Del)]
        dels += [n for n in ast.walk(f) if isinstance(n, ast.Delete) and any(isinstance(t, ast.Name) and t.id == 'memo' for t in n.targets)]
        methods = sorted({n.func.attr for n in ast.walk(f) if isinstance(n, ast.Call) and isinstance(n.func, ast.Attribute)
                          and isinstance(n.func.value, ast.Name) and n.func.value.id == 'memo'})
        passed = [n for n in ast.walk(f) if isinstance(n, ast.Call) and any(isinstance(a, ast.Name) and a.id == 'memo' for a in n.args)]
        shape = f'bindings of memo: {len(binds)}, stores memo[...] = ...: {len(stores)}, deletions: {len(dels)}, methods called on memo: {methods}, memo passed to calls: {len(passed)}'
    want = 'bindings of memo: 1, stores memo[...] = ...: 1, deletions: 0, methods called on memo: [], memo passed to calls: 0'
    if shape != want:
        R_.disagree('memo-structure', {'function': '_run of the generated runtime'}, shape, want)
    else:
        R_.traces += 1


def long_input(R_, tier):
    """at most once per position on LONG inputs too (a table that is trimmed, capped or rebuilt shows only there)"""
    sys.path.insert(0, core.REPO)
    from sourcer import Grammar
    desc = ('```\nimport collections\nCALLS = collections.Counter()\ndef note(x):\n    CALLS[x] += 1\n    return x\n```\n'
            'start = (Item* << "!") | (Item* << "?") | Item*\nItem = Pos >> "a"\nPos = "" |> `lambda _: note(1)`\n')
    for n in ([60000, 300000] if tier == 'quick' else [60000, 300000, 1500000]):
        g = Grammar(desc)
        text = 'a' * n + '?'
        R_.count('long-input', n, nontrivial=True)
        try:
            v = g.parse(text)
            calls = g.CALLS[1]
        except Exception as e:          # noqa
            R_.counterexample('long-input', 'exception:' + type(e).__name__, {'grammar': desc, 'text': f'"a" * {n} + "?"'}, 'a list', str(e)[:120])
            continue
        if len(v) != n or calls > n + 1:
            R_.counterexample('long-input', 'body-evaluated-twice', {'grammar': desc, 'text': f'"a" * {n} + "?"'},
                              f'{n} items, the body of Pos evaluated at most {n + 1} times (once per position)', f'{len(v)} items, {calls} evaluations')
        else:
            R_.traces += 1


def run(R):
    R.build()
    R.prove('Props/C07.v')
    rnd = random.Random(R.seed)
    machine_stream(R, R.tier, rnd)
    grammar_stream(R, R.tier, rnd)
    memo_structure(R)
    long_input(R, R.tier)
    R.assumptions += ['rule bodies are deterministic functions of (rule, position) (inline Python is pure)',
                      'Python object identity of memoised results is only observed on the implementation']
    return R.finish(
        rule='(a) random acyclic call scripts over (rule, position) keys executed by the REAL _run (scripted generator '
             'functions) and by the extracted machine: result and order of body starts must coincide; (b) grammar families '
             'whose un-memoised evaluation is exponential, evaluation counted per (rule, position) by wrappers around the '
             'generated _try_<rule> functions; non-trivial = more than one body start',
        checker_cmd='cd /verif/coq && make -f Makefile.coq && coqc -R . SV Props/C07.v')
