"""C01 — generated parsers implement PEG semantics for the core expressions."""
import random

from .. import core, gramrun, gen_core as G


def jobs_for(tier, rnd):
    jobs = []
    gid = 0
    TX = G.texts('abc', 4)
    d2 = [e for e in G.depth2() if G.well_formed(e, G.RULES_NULLABLE)]
    for mode in ('text', 'bytes'):
        for e in d2:
            if mode == 'bytes' and any(x[0] == 'ilit' for x in walk(e)):
                continue
            if mode == 'text' and any(x[0] == 'byte' for x in walk(e)):
                continue        # a byte literal compares an int with a str character: never matches (not generated)
            jobs.append((gid, G.describe(e, mode), TX, {'bytes': mode == 'bytes', 'stratum': 'depth2'}))
            gid += 1
    # stratum: construct x restoring context x continuation
    strat = []
    for e in d2:
        if e[0] in ('lit', 'ilit', 'rx', 'byte', 'fail', 'bt', 'ref'):
            continue
        for K in G.CONTS:
            for c in G.contexts(e, K):
                if G.well_formed(c, G.RULES_NULLABLE) and not any(x[0] == 'byte' for x in walk(c)):
                    strat.append(c)
    if tier == 'quick':
        rnd.shuffle(strat)
        strat = strat[:4000]
    for c in strat:
        jobs.append((gid, G.describe(c, 'text'), TX, {'stratum': 'context'}))
        gid += 1
    # stratum: binary constructs whose operand is itself a unary construct (an always-succeeding but consuming,
    # or a bounded, operand changes what the parent's flags must say), again inside every restoring context
    L3 = [('lit', 'a'), ('rx', '[ab]'), ('ref', 'X')]
    U = [u for l in L3 for u in G.unaries(l) if G.well_formed(u, G.RULES_NULLABLE)]
    inner = []
    for u in U:
        for l in L3:
            inner += list(G.binaries(u, l)) + list(G.binaries(l, u))
    strat3 = []
    for e in inner:
        if not G.well_formed(e, G.RULES_NULLABLE):
            continue
        strat3.append(e)
        for K in G.CONTS[:2]:
            for c in G.contexts(e, K):
                if G.well_formed(c, G.RULES_NULLABLE):
                    strat3.append(c)
    if tier == 'quick':
        rnd.shuffle(strat3)
        strat3 = strat3[:4500]
    for c in strat3:
        jobs.append((gid, G.describe(c, 'text'), TX, {'stratum': 'context-depth3'}))
        gid += 1
    # stratum: a choice that ALWAYS succeeds (its last option cannot fail) after an earlier option that fails having
    # consumed input: the position is restored before the next option, whatever the choice's own flags say
    part = [('seq', ('lit', 'a'), ('lit', 'b')), ('right', ('lit', 'a'), ('rx', '[bc]')), ('seq', ('ref', 'X'), ('lit', 'c')),
            ('rep', ('seq', ('lit', 'a'), ('lit', 'b')), 2, None)]
    last = [('lit', ''), ('opt', ('lit', 'a')), ('rx', 'b?'), ('rep', ('lit', 'a'), None, None), ('py', '1'), ('expectnot', ('lit', 'c'))]
    for e1 in part:
        for e2 in part + [('lit', 'a')]:
            for z in last:
                # (a bare inline-Python operand of the constructor form Longest(...) is read as an option value: not generated)
                for alt in (('alt', e1, z), ('alt', e1, e2, z)) + ((('longest', e1, z),) if z[0] != 'py' else ()):
                    for c in (alt, ('seq', alt, ('rx', '[abc]*')), ('seq', ('lit', 'a'), alt, ('rx', '[abc]*')), ('rep', ('seq', alt, ('lit', 'c')), None, None)):
                        if G.well_formed(c, G.RULES_NULLABLE):
                            jobs.append((gid, G.describe(c, 'text'), TX, {'stratum': 'always-succeeding-choice'}))
                            gid += 1
    # stratum: an expression that can fail after consuming, inside a construct that only FORWARDS what its operand says about
    # partial success (lookahead, one-or-more, a choice with a failing tail, the longest of), inside a construct that
    # backs up on that say-so (choice, Skip, Longest, repetition)
    parts = [('seq', ('lit', 'a'), ('lit', 'b')), ('rep', ('lit', 'a'), 2, 2), ('right', ('lit', 'a'), ('rx', '[bc]')),
             ('sep', ('lit', 'a'), ('lit', 'c'), (True, True, False, True)), ('seq', ('ref', 'X'), ('lit', 'c'))]
    for P in parts:
        for W in (('expect', P), ('rep', P, 1, None), ('alt', P, ('fail',)), ('expect', ('expect', P)), ('longest', P, ('fail',)), ('alt', ('expect', P), ('fail',))):
            for K in G.CONTS:
                for c in (('alt', W, K), ('seq', ('skip', W), K), ('longest', W, K), ('seq', ('rep', W, None, 2), K),
                          ('seq', ('rep', ('seq', W, ('lit', 'c')), None, None), K), ('alt', ('seq', W, ('lit', 'c')), K)):
                    if G.well_formed(c, G.RULES_NULLABLE):
                        jobs.append((gid, G.describe(c, 'text'), TX, {'stratum': 'forwarded-flags'}))
                        gid += 1
    # stratum: regular expressions that match the empty string on their own but can FAIL in context (lookahead, anchors)
    zw = [('rx', '(?!b)'), ('rx', '$'), ('rx', '(?=a)[ab]*'), ('rx', '(?!a)b?'), ('rx', 'a*$')]
    for z in zw:
        for K in G.CONTS:
            for c in list(G.contexts(z, K)) + [('seq', ('lit', 'a'), z, ('rx', '[abc]')), ('seq', ('lit', 'a'), ('opt', z), ('rx', '[abc]*')),
                                               ('rep', ('right', z, ('rx', '[abc]')), None, None), ('left', ('rx', '[ab]+'), ('alt', z, ('rx', 'c+')))]:
                if G.well_formed(c, G.RULES_NULLABLE):
                    jobs.append((gid, G.describe(c, 'text'), TX, {'stratum': 'zero-width-regex'}))
                    gid += 1
    # stratum: one pattern text used case-sensitively AND case-insensitively in the same grammar (every literal keeps
    # its own flavour wherever else the same characters occur), text and bytes mode, also across rules
    fl = {}
    for pat in ('ab', 'a', 'b'):
        fl[pat] = [('rx', pat), ('irx', pat), ('ilit', pat), ('lit', pat)]
    TXC = G.texts('abAB', 4)
    for mode in ('text', 'bytes'):
        for pat, fs in fl.items():
            for x in fs:
                for y in fs:
                    if x == y:
                        continue
                    for e in list(G.binaries(x, y))[:5] + [('seq', ('rep', x, 1, None), y), ('seq', ('expectnot', x), y), ('alt', ('seq', x, ('lit', 'b')), y)]:
                        jobs.append((gid, G.describe(e, mode), TXC, {'bytes': mode == 'bytes', 'stratum': 'case-flavours'}))
                        gid += 1
                    d = f'start = [{G.render(x, mode)}, Y]\nY = {G.render(y, mode)}\n'
                    jobs.append((gid, d, TXC, {'bytes': mode == 'bytes', 'stratum': 'case-flavours'}))
                    gid += 1
    # stratum: byte literals of every kind of value (0x00 is falsy, 0xff is the top) in every
    # restoring context, on inputs over those bytes: a byte literal fails cleanly whatever its value
    TXB = G.texts('\x00\x01a\xff', 3, extra=('\x00\x00\x00\x00', 'a\x00a\x00', '\xff\x00\xff\x01'))
    for v in (0x00, 0x01, 0x7f, 0xff):
        z = ('byte', v)
        others = [('byte', 0x61), ('byte', 0x00), ('rx', '[\\x00-\\xff]')]
        forms = list(G.unaries(z)) + [('seq', z, z)]
        for o in others:
            forms += [('alt', z, o), ('alt', o, z), ('seq', ('opt', z), o), ('seq', ('rep', z, None, None), o), ('longest', z, o),
                      ('seq', ('expectnot', z), o), ('sep', o, z, (True, False, True, False)), ('alt', ('seq', z, o), ('seq', z, z))]
        for e in forms:
            if G.well_formed(e, G.RULES_NULLABLE):
                jobs.append((gid, G.describe(e, 'bytes'), TXB, {'bytes': True, 'stratum': 'byte-values'}))
                gid += 1
    # case-insensitive BYTES literals with bytes outside ASCII (the escaped pattern holds the raw byte)
    TXH = G.texts('aA\xe9\xc9', 3)
    for d in ['start = b"a\\xe9"i\n', 'start = [b"\\xe9"i, b"a"i]\n', 'start = (b"\\xe9a"i | b"\\xe9") >> b/[\\x00-\\xff]*/\n',
              'start = [b"\\xe9"i*, Opt(b"\\xc9A")]\nignore b/\\x20+/\n']:
        jobs.append((gid, d, TXH, {'bytes': True, 'stratum': 'byte-values'}))
        gid += 1
    return jobs


def walk(e):
    yield e
    for x in e[1:]:
        if isinstance(x, tuple) and x and isinstance(x[0], str):
            yield from walk(x)


def run(R):
    R.build()
    R.prove('Props/C01.v')
    from ..flagtie import regen_and_tie_flags
    regen_and_tie_flags(R)       # the flag methods of the current source, translated, equal Model.always / Model.partial
    rnd = random.Random(R.seed)
    jobs = jobs_for(R.tier, rnd)
    R.extra['grammars'] = len(jobs)
    for i in range(0, len(jobs), 2000):
        recs = gramrun.run_grammars(jobs[i:i + 2000])
        gramrun.compare(R, recs, 'core', reject_is_violation=True)
    R.assumptions += ['regular expressions are an oracle (tables computed with Python re for each text)',
                      'generated grammars are filtered by a static well-formedness test (no nullable under repetition); '
                      'ill-formed ones are outside the property']
    return R.finish(
        rule='stratified enumeration: all depth<=2 expressions over 13 leaves (text and bytes mode) + '
             '{construct} x {restoring context} x {continuation}; inputs: all strings over {a,b,c} up to length 4 '
             'plus case variants; a case is non-trivial when the implementation agrees with the model and does not '
             'fail at offset 0',
        checker_cmd='cd /verif/coq && make -f Makefile.coq && coqc -R . SV Props/C01.v')
