"""C02 — operator tables build the tree dictated by precedence and associativity."""
import itertools
import random

from .. import core, gramrun

SPELL = {'+': 1, '-': 2, '!': 3, '*': 4}
ASSOCS = ['left', 'right', 'infix', 'prefix', 'postfix']
OPERANDS = [('regex', '/\\d/', ''), ('literal', '"1"', ''), ('rule', 'N', 'N = /\\d/\n'), ('class', 'K', 'class K { v: /\\d/ }\n')]


def gen_tables(rnd, n, max_rows=4):
    """token-level tables: every spelling is one character, rows of the five plain kinds; spellings may be
    shared between a prefix, an infix-like and a postfix row (never within one kind: the first row would
    shadow the second)"""
    out = []
    seen = set()
    while len(out) < n:
        k = rnd.randrange(1, max_rows + 1)
        rows = []
        used = {'pre': set(), 'in': set(), 'post': set()}
        for _ in range(k):
            a = rnd.choice(ASSOCS)
            kind = 'pre' if a == 'prefix' else 'post' if a == 'postfix' else 'in'
            cands = [c for c in SPELL if c not in used[kind]]
            if kind == 'post':
                # a spelling that is both postfix and infix is ambiguous for any parser: avoid only inside one table kind
                pass
            if not cands:
                continue
            names = rnd.sample(cands, rnd.choice([1, 1, 2]) if len(cands) > 1 else 1)
            used[kind] |= set(names)
            rows.append((a, names))
        if not rows:
            continue
        key = str(rows)
        if key in seen:
            continue
        seen.add(key)
        out.append(rows)
    return out


def render_table(rows, operand):
    body = '\n'.join(f'    {a}: ' + ', '.join(f'"{c}"' for c in names) for a, names in rows)
    return f'{operand} between {{\n{body}\n}}'


def inputs_for(rows, maxlen):
    alpha = sorted({c for _, names in rows for c in names}) + ['1']
    out = ['']
    for n in range(1, maxlen + 1):
        out += [''.join(p) for p in itertools.product(alpha, repeat=n)]
    return out


def sentences(rows, rnd, n, maxops=5):
    """random sentences operand (op operand)* with prefix/postfix operators sprinkled in: longer than the exhaustive
    strings, so that an operand between two operators of one row can itself contain tighter operators"""
    pre = [c for a, names in rows if a == 'prefix' for c in names]
    post = [c for a, names in rows if a == 'postfix' for c in names]
    inf = [c for a, names in rows if a in ('left', 'right', 'infix') for c in names]
    out = set()
    for _ in range(n * 3):
        k = rnd.randrange(2, maxops + 1)
        s = ''
        for i in range(k + 1):
            if pre and rnd.random() < 0.3:
                s += rnd.choice(pre)
            s += '1'
            if post and rnd.random() < 0.3:
                s += rnd.choice(post)
            if i < k:
                if not inf:
                    break
                s += rnd.choice(inf)
        if rnd.random() < 0.15 and inf:
            s += rnd.choice(inf)            # truncated
        out.add(s)
        if len(out) >= n:
            break
    return sorted(out)


POOL = ['<', '<=', '<>', '<<', '=', '==', '>', '>=', '>>', '-', '->', '--', '+', '++', '!', '!=']
MSPELL = {sp: i + 1 for i, sp in enumerate(POOL)}


def gen_multichar(rnd, n):
    """character-level tables whose spellings are prefixes of one another, inside a row and across rows (no postfix
    rows: a postfix and an infix operator matching at one place are tried in that order, not by length)"""
    out, seen = [], set()
    while len(out) < n:
        rows, used = [], {'pre': set(), 'in': set()}
        fam = rnd.choice(['<', '=', '>', '-', '+', '!', None, None])      # concentrate on one family of overlapping spellings
        pool = [sp for sp in POOL if fam is None or sp[0] == fam or rnd.random() < 0.25]
        for _ in range(rnd.randrange(2, 5)):
            a = rnd.choice(['left', 'left', 'right', 'infix', 'prefix'])
            kind = 'pre' if a == 'prefix' else 'in'
            cands = [c for c in pool if c not in used[kind]]
            if not cands:
                continue
            names = rnd.sample(cands, min(len(cands), rnd.choice([1, 2, 2, 3])))
            used[kind] |= set(names)
            rows.append((a, names))
        if len([r for r in rows if r[0] != 'prefix']) < 2 or str(rows) in seen:
            continue
        seen.add(str(rows))
        out.append(rows)
    return out


def row_match(names, text, pos):
    """ordered choice inside a row"""
    for sp in names:
        if text.startswith(sp, pos):
            return sp
    return None


def longest_of_rows(rows, kinds, text, pos):
    """SPEC: among operators of different rows matching at the same place the longest match wins"""
    best = None
    for a, names in rows:
        if a in kinds:
            sp = row_match(names, text, pos)
            if sp is not None and (best is None or len(sp) > len(best)):
                best = sp
    return best


def tokenise(rows, text):
    toks, offs, pos, want_operand = [], [], 0, True
    while pos < len(text):
        if want_operand:
            sp = longest_of_rows(rows, ('prefix',), text, pos)
            if sp is not None:
                toks.append(['o', MSPELL[sp]]); offs.append(pos); pos += len(sp)
            elif text[pos].isdigit():
                toks.append(['d', int(text[pos])]); offs.append(pos); pos += 1; want_operand = False
            else:
                break
        else:
            sp = longest_of_rows(rows, ('left', 'right', 'infix', 'postfix'), text, pos)
            if sp is None:
                break
            is_postfix = any(a == 'postfix' and row_match(names, text, pos) == sp for a, names in rows)
            toks.append(['o', MSPELL[sp]]); offs.append(pos); pos += len(sp); want_operand = not is_postfix
    offs.append(pos)
    return toks, offs


def multichar_inputs(rows, rnd, n):
    pre = [c for a, names in rows if a == 'prefix' for c in names]
    inf = [c for a, names in rows if a != 'prefix' for c in names]
    out = {'', '1'}
    for _ in range(n * 3):
        s = ''
        k = rnd.randrange(1, 5)
        for i in range(k + 1):
            while pre and rnd.random() < 0.25:
                s += rnd.choice(pre)
            s += rnd.choice('12')
            if i < k:
                s += rnd.choice(inf)
        if rnd.random() < 0.15:
            s += rnd.choice(inf)
        if rnd.random() < 0.1:
            s = s[:rnd.randrange(len(s))] + rnd.choice('<>=-+!') + s[rnd.randrange(len(s)):]
        out.add(s)
        if len(out) >= n:
            break
    return sorted(out)


def mconv(v):
    """like conv, for spellings of several characters"""
    if isinstance(v, list) and v and v[0] == 'str':
        c = ''.join(chr(x) for x in v[1])
        return f'(d {c})' if c.isdigit() else None
    if isinstance(v, list) and v and v[0] == 'node':
        k, fs = v[1], v[2]
        op = lambda sv: MSPELL[''.join(chr(x) for x in sv[1])]
        if k == 0:
            return f'(inf {mconv(fs[0])} {op(fs[1])} {mconv(fs[2])})'
        if k == 1:
            return f'(pre {op(fs[0])} {mconv(fs[1])})'
        if k == 2:
            return f'(post {mconv(fs[0])} {op(fs[1])})'
    return None


def tok_sx(text):
    return [['d', int(c)] if c.isdigit() else ['o', SPELL[c]] for c in text]


def tree_of(x, ixv):
    """canonical value string of the implementation -> token-level tree text, or None"""
    return None


def conv(v):
    """parsed canonical s-expression value (nested lists) -> token tree string"""
    if isinstance(v, list) and v and v[0] == 'str':
        c = chr(v[1][0])
        return f'(d {c})' if c.isdigit() else None
    if isinstance(v, list) and v and v[0] == 'obj':
        return conv(v[2][0])                         # class K { v: digit }
    if isinstance(v, list) and v and v[0] == 'node':
        k, fs = v[1], v[2]
        op = lambda s: SPELL[chr(s[1][0])]
        if k == 0:
            return f'(inf {conv(fs[0])} {op(fs[1])} {conv(fs[2])})'
        if k == 1:
            return f'(pre {op(fs[0])} {conv(fs[1])})'
        if k == 2:
            return f'(post {conv(fs[0])} {op(fs[1])})'
    return None


def flatten(v):
    """in-order reading of a result value (canonical s-expression) as text"""
    if isinstance(v, list) and v and v[0] == 'str':
        return ''.join(chr(c) for c in v[1])
    if isinstance(v, list) and v and v[0] in ('node', 'obj'):
        return ''.join(flatten(x) for x in v[2])
    if isinstance(v, list) and v and v[0] in ('list', 'tuple'):
        return ''.join(flatten(x) for x in v[1])
    if v == 'none':
        return ''
    return '?'


def run(R):
    R.build()
    R.prove('Props/C02.v')
    from ..flagtie import regen_and_tie_flags
    regen_and_tie_flags(R)       # the flag methods of the current source, translated, equal Model.always / Model.partial
    rnd = random.Random(R.seed)
    quick = R.tier == 'quick'
    tables = gen_tables(rnd, 90 if quick else 700)
    fixed = [[('prefix', ['-']), ('infix', ['-'])], [('left', ['+'])], [('prefix', ['+', '-']), ('right', ['*']), ('postfix', ['!']), ('left', ['+', '-'])],
             [('postfix', ['!']), ('prefix', ['-']), ('left', ['-']), ('infix', ['!'])], [('prefix', ['-']), ('infix', ['-']), ('postfix', ['-'])]]
    tables = fixed + tables
    jobs, info, gid = [], {}, 0
    for ti, rows in enumerate(tables):
        opds = OPERANDS if ti < len(fixed) else [OPERANDS[ti % 4]]
        for kind, opd, extra in opds:
            d = 'start = ' + render_table(rows, opd) + '\n' + extra
            tx = inputs_for(rows, 5 if quick else 6)
            if len(tx) > 1600:
                tx = tx[:400] + rnd.sample(tx[400:], 1200)
            tx = tx + [t for t in sentences(rows, rnd, 250 if quick else 1500) if t not in set(tx)]
            jobs.append((gid, d, tx, {'stratum': 'token-level'}))
            info[gid] = (rows, kind)
            gid += 1
    # character-level tables: spellings that are prefixes of one another, mixfix rows, ignore declarations
    charlevel = [
        ('start = /\\d/ between {\n    left: "+", "++"\n    prefix: "+"\n    postfix: "++"\n}\n', '1+'),
        ('start = /\\d/ between {\n    mixfix: "(" >> start << ")"\n    postfix: "!"\n    left: "*"\n    left: "+", "-"\n}\n', '1+*!()'),
        ('start = N between {\n    prefix: "-"\n    right: "^"\n    left: "-"\n}\nN = /\\d/\nignore " "\n', '1-^ '),
        ('start = ("1" | "11") between {\n    infix: "=", "=="\n    left: "+"\n}\n', '1=+'),
        ('start = K between {\n    postfix: "?", "??"\n    right: "?"\n}\nclass K { v: /\\d/ }\n', '1?'),
        # a table written inline as the operand of another table (both compile into one function)
        ('start = (/\\d/ between {\n    left: "*"\n}) between {\n    prefix: "-"\n    left: "+"\n}\n', '1+*-'),
        ('start = (/\\d/ between {\n    prefix: "-"\n    right: "^"\n}) between {\n    postfix: "!"\n    left: "+", "-"\n}\n', '1+-^!'),
        ('start = ((/\\d/ between {\n    left: "*"\n}) between {\n    left: "+"\n}) between {\n    infix: "="\n}\n', '1+*='),
    ]
    for d, alpha in charlevel:
        tx = ['']
        for n in range(1, 6 if quick else 7):
            tx += [''.join(p) for p in itertools.product(alpha, repeat=n)]
        if len(tx) > 2500:
            tx = tx[:600] + rnd.sample(tx[600:], 1900)
        jobs.append((gid, d, tx, {'stratum': 'char-level'}))
        info[gid] = (None, 'char')
        gid += 1
    # character-level tables with overlapping spellings of several characters: tokenised by the property's rule
    # (ordered inside a row, longest across rows), then judged by the token-level precedence reference
    multi = {}
    for rows in gen_multichar(rnd, 60 if quick else 1200):
        d = 'start = ' + render_table(rows, '/\\d/') + '\n'
        jobs.append((gid, d, multichar_inputs(rows, rnd, 120 if quick else 400), {'stratum': 'multichar'}))
        info[gid] = (None, 'multi')
        multi[gid] = rows
        gid += 1
    # a postfix operator and a LONGER infix operator of another row matching at the same place: the longest match wins
    for rows in ([('postfix', ['!']), ('left', ['!='])], [('postfix', ['-']), ('left', ['->', '+'])], [('left', ['=']), ('postfix', ['+']), ('left', ['++'])],
                 [('postfix', ['<']), ('infix', ['<=', '<>'])]):
        d = 'start = ' + render_table(rows, '/\\d/') + '\n'
        ops = [c for _, names in rows for c in names]
        tx = ['1', '1' + ops[0], '1' + ops[-1] + '2', '1' + ops[0] + ops[-1] + '2', '1' + ops[-1] + '2' + ops[0], '1' + ops[0] + ops[0], '1' + ops[-1]]
        jobs.append((gid, d, sorted(set(tx)), {'stratum': 'postfix-vs-infix'}))
        info[gid] = (None, 'multi')
        multi[gid] = rows
        gid += 1
    R.extra['tables'] = len(tables)
    R.extra['multichar_tables'] = len(multi)
    for i in range(0, len(jobs), 300):
        recs = gramrun.run_grammars(jobs[i:i + 300], chunk=6)
        gramrun.compare(R, recs, 'optable-exec', lambda r, c, g, w: 'parse-outcome', reject_is_violation=True)
        # token-level: the loop model and the precedence-climbing reference
        reqs, meta = [], []
        for r in recs:
            if r.get('model') is None:
                continue
            rows, kind = info[r['gid']]
            ign = 'ignore' in r['desc']
            opaque_operands = 'mixfix' in r['desc']      # a mixfix operand form discards its delimiters: operands are opaque
            for (text, rxt, entry, pos, full, ix, ip) in (() if opaque_operands else r['cases']):
                # yield: reading the tree in order reproduces exactly what was consumed
                if ix.startswith('(done true'):
                    val, end = ix[len('(done true '):-1].rsplit(' ', 1)
                    got = flatten(core.parse_sx(val))
                    want = text[pos:int(end)]
                    if ign:
                        want = want.replace(' ', '')
                    R.count('yield', (r['desc'], text))
                    if got != want:
                        R.counterexample('yield', 'tree-does-not-read-back-as-consumed-input',
                                         {'grammar': r['desc'], 'text': text}, want, {'tree_reads': got, 'raw': ix})
            if rows is not None:
                texts = [c[0] for c in r['cases']]
                tb = [[a, [SPELL[c] for c in names]] for a, names in rows]
                reqs.append(core.sx(['optable', tb, [tok_sx(t) for t in texts]]))
                meta.append(r)
        # longest-spelling stratum
        mreqs, mmeta = [], []
        for r in recs:
            if r['gid'] in multi and r.get('model') is not None:
                rows = multi[r['gid']]
                tb = [[a, [MSPELL[c] for c in names]] for a, names in rows]
                tk = [tokenise(rows, c[0]) for c in r['cases']]
                mreqs.append(core.sx(['optable', tb, [t for t, _ in tk]]))
                mmeta.append((r, tk))
        pok_reqs, pok_meta = [], []          # trees of the implementation, judged by the extracted PrecOk.pok
        for (r, tk), o in zip(mmeta, core.run_driver(mreqs, raw=True)):
            mtrees = []
            for (text, rxt, entry, pos, full, ix, ip) in r['cases']:
                if ix.startswith('(done true'):
                    tr = mconv(core.parse_sx(ix[len('(done true '):-1].rsplit(' ', 1)[0]))
                    if tr is not None and 'None' not in tr:
                        mtrees.append((text, tr))
            if mtrees:
                pok_reqs.append(core.sx(['pok', [[a, [MSPELL[c] for c in names]] for a, names in multi[r['gid']]], [t for _, t in mtrees]]))
                pok_meta.append((r, mtrees))
            for (text, rxt, entry, pos, full, ix, ip), (toks, offs), mo in zip(r['cases'], tk, o.split('|')):
                loop_s, pratt_s = mo.split('\t')
                if pratt_s != 'none':
                    tree, endtok = pratt_s[1:-1].rsplit(' ', 1)
                    pratt_s = f'({tree} {offs[int(endtok)]})'
                if ix.startswith('(done true'):
                    val, end = ix[len('(done true '):-1].rsplit(' ', 1)
                    got = f'({mconv(core.parse_sx(val))} {end})'
                elif ix.startswith('(done false'):
                    got = 'none'
                else:
                    got = ix
                R.count('longest-spelling', (r['desc'], text), nontrivial=got != 'none')
                if got != pratt_s:
                    mech = 'longest-operator-across-rows'
                    if any(a == 'postfix' for a, _ in multi[r['gid']]):
                        mech = 'postfix-preferred-over-longer-infix'
                    R.counterexample('longest-spelling', mech, {'grammar': r['desc'], 'text': text, 'tokens': toks}, pratt_s, got)
                else:
                    R.traces += 1
        for r, o in zip(meta, core.run_driver(reqs, raw=True)):
            ttrees = []
            for (text, rxt, entry, pos, full, ix, ip) in r['cases']:
                if ix.startswith('(done true'):
                    tr = conv(core.parse_sx(ix[len('(done true '):-1].rsplit(' ', 1)[0]))
                    if tr is not None and 'None' not in tr:
                        ttrees.append((text, tr))
            if ttrees:
                rows_ = info[r['gid']][0]
                pok_reqs.append(core.sx(['pok', [[a, [SPELL[c] for c in names]] for a, names in rows_], [t for _, t in ttrees]]))
                pok_meta.append((r, ttrees))
            for (text, rxt, entry, pos, full, ix, ip), mo in zip(r['cases'], o.split('|')):
                loop_s, pratt_s = mo.split('\t')
                if ix.startswith('(done true'):
                    val, end = ix[len('(done true '):-1].rsplit(' ', 1)
                    got = f'({conv(core.parse_sx(val))} {end})'
                elif ix.startswith('(done false'):
                    got = 'none'
                else:
                    got = ix
                case = {'grammar': r['desc'], 'text': text}
                R.count('token-level', (r['desc'], text), nontrivial=got != 'none')
                if got != loop_s:
                    R.disagree('token-level', case, got, loop_s)
                else:
                    R.traces += 1
                if got != pratt_s:
                    R.counterexample('token-level', 'tree-or-extent-differs-from-precedence-reference', case, pratt_s, got)
        for (r, trees), o in zip(pok_meta, core.run_driver(pok_reqs, raw=True)):
            for (text, tr), verdict in zip(trees, o.split('|')):
                R.count('precedence-wellformed', (r['desc'], text), nontrivial='inf' in tr or 'pre' in tr or 'post' in tr)
                if verdict != 'true':
                    R.counterexample('precedence-wellformed', 'tree-violates-precedence-or-associativity',
                                     {'grammar': r['desc'], 'text': text}, 'pok = true (C02_precedence_and_associativity)', tr)
    # operators guarded by a predicate (a word is an operator only if it is one of a few): a word the predicate rejects is no
    # operator - it is left unconsumed, whatever kind of row it was tried for.  Judged on the implementation alone by the
    # property's read-back clause: the tree, read in order, is exactly what was consumed
    import sys as _sys
    _sys.path.insert(0, core.REPO)
    from sourcer import Grammar as _Grammar
    gdesc = ('ignore /\\s+/\nExpr = /[0-9]+/ between {\n    prefix: /[a-z]+/ where `lambda w: w in ("not", "neg")`\n'
             '    postfix: /[a-z]+/ where `lambda w: w in ("inc",)`\n    left: /[a-z]+/ where `lambda w: w in ("and", "or")`\n'
             '    right: /[a-z]+/ where `lambda w: w == "to"`\n}\nstart = [Expr, /(?s).*/]\n')
    try:
        gg = _Grammar(gdesc)
    except Exception as e:                      # noqa
        gg = None
        R.counterexample('guarded-operators', 'grammar-rejected:' + type(e).__name__, {'grammar': gdesc}, 'a grammar module', str(e)[:150])

    def read_back(v):
        if isinstance(v, str):
            return v
        cn = type(v).__name__
        if cn == 'Infix':
            return read_back(v.left) + v.operator + read_back(v.right)
        if cn == 'Prefix':
            return v.operator + read_back(v.right)
        if cn == 'Postfix':
            return read_back(v.left) + v.operator
        return '?'
    WORDS = ['not', 'neg', 'inc', 'and', 'or', 'to', 'then', 'else', 'plus', 'x']
    for i in range(0 if gg is None else (600 if quick else 20000)):
        n = rnd.randrange(1, 8)
        toks = [rnd.choice(['1', '22', '3'] + WORDS) if k else rnd.choice(['1', '22', 'not', 'neg', 'then']) for k in range(n)]
        text = ' '.join(toks)
        R.count('guarded-operators', text, nontrivial=n > 2)
        try:
            tree, rest = gg.parse(text)
        except gg.InputError:
            continue
        except Exception as e:                  # noqa
            R.counterexample('guarded-operators', 'exception:' + type(e).__name__, {'grammar': gdesc, 'text': text}, 'a result', str(e)[:120])
            continue
        consumed = text[:len(text) - len(rest)]
        if read_back(tree) != consumed.replace(' ', ''):
            R.counterexample('guarded-operators', 'tree-does-not-read-back-as-consumed-input', {'grammar': gdesc, 'text': text},
                             {'consumed': consumed, 'so the tree reads': consumed.replace(' ', '')}, {'tree_reads': read_back(tree), 'tree': repr(tree)})
        else:
            R.traces += 1
    R.assumptions += ['token-level stream: operator spellings are single characters and operands single digits, so that tokenisation is unambiguous',
                      'mixfix rows and spellings that are prefixes of one another are covered by the expression-level model (Model.op_main) and the yield judge only']
    return R.finish(
        rule='random tables of 1-4 rows over {left,right,infix,prefix,postfix} with spellings from {+,-,!,*} shared between prefix, '
             'infix and postfix rows, operands regex / literal / rule / class; ALL token strings up to length 5 over the table\'s '
             'spellings and 1 (well-formed and truncated); plus character-level tables (++ vs +, mixfix, ignore); three '
             'judgements: expression-level model (raw triple incl. failure position), token-level loop model, precedence-climbing '
             'reference; and the yield judge on every successful parse',
        checker_cmd='cd /verif/coq && make -f Makefile.coq && coqc -R . SV Props/C02.v')
